(* The semantics of GENERATED parsers (ngcodegen/ngparser_gen.py + the context-manager half of
   contexts/context.py): the same runtime (frames, closures, rule calls) as the model interpreter, except that
   - names are bound to the frame's last_node (nameset/nameadd/result/resultadd), not to the value the named
     expression returned;
   - `define` is emitted only at the start of sequences: options of a choice and optionals do not define names;
   - the grammar is not optimized (the generator walks the model as compiled).
   Model only, no proofs. *)
From Coq Require Import List NArith ZArith Arith Bool.
From TatsuV Require Import Base.PyStr Engine.Value Engine.Syntax Engine.Input Engine.Engine.
Import ListNotations.

Section Gen.
Variable text : str.
Variable re_at : nat -> nat -> option (nat * str).
Variable isalnum isalpha : N -> bool.
Variable lower : N -> N.
Variable ic : icfg.
Variable unsafe : list str.
Context {St : Type}.
Variable on_cut : frame -> St -> St.
Variable on_call : nat -> @ev_t St -> nat -> frame -> St -> res * St.

(* ChoiceContext.parse: `with ctx.option(): ctx.expcall(opt)` for each registered option *)
Fixpoint choice_go_gen (ev : @ev_t St) (es : list exp) (f : frame) (st : St) : res * St :=
  match es with
  | [] => (Fail (cutseen f), st)
  | e :: es' =>
    match ev e (push f) st with
    | (Ok r f1, st1) => (Ok r (merge f f1), st1)
    | (Fail true, st1) => (Fail (cutseen f), st1)
    | (Fail false, st1) => choice_go_gen ev es' f st1
    | (Fatal k, st1) => (Fatal k, st1)
    end
  end.

Fixpoint geval_gen (n : nat) (e : exp) (f : frame) (st : St) {struct n} : res * St :=
  match n with
  | O => (Fatal OOF, st)
  | S n' =>
    match e with
    | Leaf l => leaf_eval text re_at isalnum isalpha lower ic on_cut l f st
    | Seq es => seq_go (geval_gen n') es VNone (add_defined unsafe e f) st
    | Choice es => choice_go_gen (geval_gen n') es f st
    | Group e1 => geval_gen n' e1 f st
    | SkipGroup e1 =>
      match geval_gen n' e1 (push f) st with
      | (Ok _ f1, st1) => (Ok VNone (popf f f1), st1)
      | (Fail _, st1) => (Fail (cutseen f), st1)
      | (Fatal x, st1) => (Fatal x, st1)
      end
    | Opt e1 =>
      match geval_gen n' e1 (push f) st with
      | (Ok r f1, st1) => (Ok r (merge f f1), st1)
      | (Fail true, st1) => (Fail (cutseen f), st1)
      | (Fail false, st1) => (Ok VNone f, st1)
      | (Fatal x, st1) => (Fatal x, st1)
      end
    | Rep plus sep omitsep e1 => rep_eval on_cut n' (geval_gen n') plus e1 sep omitsep f st
    | Look false e1 =>
      match geval_gen n' e1 (push f) st with
      | (Ok r _, st1) => (Ok r f, st1)
      | (Fail _, st1) => (Fail (cutseen f), st1)
      | (Fatal x, st1) => (Fatal x, st1)
      end
    | Look true e1 =>
      match geval_gen n' e1 (push f) st with
      | (Ok _ _, st1) => (Fail (cutseen f), st1)
      | (Fail _, st1) => (Ok VNone f, st1)
      | (Fatal x, st1) => (Fatal x, st1)
      end
    | SkipTo e1 => skipto_go text re_at ic n' (geval_gen n') e1 f st
    | Assoc lft e1 =>
      match geval_gen n' e1 (push f) st with      (* a state scope of its own: the tree replaces the flat list there, then merges *)
      | (Ok r f1, st1) =>
        let v := (if lft then left_assoc else right_assoc) (list_items r) in
        (Ok v (merge f (set_cst f1 v)), st1)
      | (Fail _, st1) => (Fail (cutseen f), st1)
      | (Fatal x, st1) => (Fatal x, st1)
      end
    | Call r => on_call n' (geval_gen n') r f st
    | Named false nm e1 =>
      match geval_gen n' e1 f st with
      | (Ok r f1, st1) => (Ok r (set_ast f1 (ast_set unsafe (fast f1) nm (last f1))), st1)
      | other => other
      end
    | Named true nm e1 =>
      match geval_gen n' e1 f st with
      | (Ok r f1, st1) => (Ok r (set_ast f1 (ast_setlist unsafe (fast f1) nm (last f1))), st1)
      | other => other
      end
    | Over false e1 =>
      match geval_gen n' e1 f st with
      | (Ok r f1, st1) => (Ok r (set_ast f1 (ast_set unsafe (fast f1) key_at (last f1))), st1)
      | other => other
      end
    | Over true e1 =>
      match geval_gen n' e1 f st with
      | (Ok r f1, st1) => (Ok r (set_ast f1 (ast_setlist unsafe (fast f1) key_at (last f1))), st1)
      | other => other
      end
    end
  end.

End Gen.

(* expressions after whose successful evaluation last_node is the value the expression returned: for these a
   generated parser binds a name to the same value as the model interpreter *)
Fixpoint single_append (e : exp) : bool :=
  match e with
  | Leaf (LTok _) | Leaf (LPat _) | Leaf (LConst _) | Leaf LDot | Leaf LEmpty => true
  | Call _ => true
  | Rep _ _ _ _ => true
  | Assoc _ _ => true          (* the tree is merged from a scope of its own: last_node is the tree *)
  | Group e1 => single_append e1
  | Choice es => forallb single_append es
  | _ => false
  end.
