(* C01: a successful evaluation never moves backwards and never leaves the text:
   pos f <= pos f' <= len text, for every expression, by induction through every construct. *)
From Coq Require Import List NArith ZArith Arith Bool Lia.
From TatsuV Require Import Base.PyStr Engine.Value Engine.Syntax Engine.Input Engine.Engine Engine.Calls
     Engine.EngineRel Engine.InputProof.
Import ListNotations.

Section Bounds.
Variable text : str.
Variable re_at : nat -> nat -> option (nat * str).
Variable isalnum isalpha : N -> bool.
Variable lower : N -> N.
Variable ic : icfg.
Variable unsafe : list str.
Hypothesis re_in_bounds : forall id pos n v, re_at id pos = Some (n, v) -> pos + n <= len text.

Context {St : Type}.
Variable on_cut : frame -> St -> St.

Notation L := (len text).

Definition Good (ev : @ev_t St) : Prop :=
  forall e f st r f' st', ev e f st = (Ok r f', st') -> pos f <= L -> pos f <= pos f' <= L.

Lemma seq_go_good ev : Good ev -> forall es out f st r f' st',
  seq_go ev es out f st = (Ok r f', st') -> pos f <= L -> pos f <= pos f' <= L.
Proof.
  intros G es. induction es as [|e es IH]; intros out f st r f' st' E Hf; cbn [seq_go] in E.
  - inversion E; subst. lia.
  - destruct (ev e f st) as [[v f1|c|x] st1] eqn:E1; try discriminate.
    pose proof (G _ _ _ _ _ _ E1 Hf) as B1.
    pose proof (IH _ _ _ _ _ _ E ltac:(lia)) as B2. lia.
Qed.

Lemma choice_go_good ev : Good ev -> forall es f st r f' st',
  choice_go unsafe ev es f st = (Ok r f', st') -> pos f <= L -> pos f <= pos f' <= L.
Proof.
  intros G es. induction es as [|e es IH]; intros f st r f' st' E Hf; cbn [choice_go] in E; [discriminate|].
  destruct (ev e (add_defined unsafe e (push f)) st) as [[v f1|[|]|x] st1] eqn:E1; try discriminate.
  - inversion E; subst. pose proof (G _ _ _ _ _ _ E1) as B. cbn in B. cbn. apply B. exact Hf.
  - eapply IH; eassumption.
Qed.

Lemma repeat_iter_good ev : Good ev -> forall e sep omitsep f st f' st',
  repeat_iter on_cut ev e sep omitsep f st = (IOk f', st') -> pos f <= L -> pos f <= pos f' <= L.
Proof.
  intros G e sep omitsep f st f' st' E Hf. unfold repeat_iter in E.
  destruct sep as [s|]; [destruct (ev s (push (push f)) st) as [[v f4|c|x] st1] eqn:Es; [|destruct c; discriminate|discriminate]|];
  repeat match type of E with
         | context [match ?x with _ => _ end] => let D := fresh "D" in destruct x eqn:D; try discriminate
         | context [if ?b then _ else _] => destruct b eqn:?; try discriminate
         end;
    inversion E; subst;
    repeat match goal with
           | H : ev _ _ _ = (Ok _ _, _) |- _ => let B := fresh "B" in pose proof (G _ _ _ _ _ _ H) as B; clear H
           end;
    cbn in *; lia.
Qed.

Lemma repeat_go_good ev : Good ev -> forall k e sep omitsep f st r f' st',
  repeat_go on_cut k ev e sep omitsep f st = (Ok r f', st') -> pos f <= L -> pos f <= pos f' <= L.
Proof.
  intros G k. induction k as [|k IH]; intros e sep omitsep f st r f' st' E Hf; cbn [repeat_go] in E; [discriminate|].
  destruct (repeat_iter on_cut ev e sep omitsep f st) as [[f1| | |x] st1] eqn:Ei; try discriminate.
  - pose proof (repeat_iter_good ev G _ _ _ _ _ _ _ Ei Hf) as B1.
    pose proof (IH _ _ _ _ _ _ _ _ E ltac:(lia)) as B2. lia.
  - inversion E; subst. lia.
Qed.

Lemma rep_body_good ev : Good ev -> forall k e sep omitsep f st r f' st',
  rep_body on_cut k ev e sep omitsep f st = (Ok r f', st') -> pos f <= L -> pos f <= pos f' <= L.
Proof.
  intros G k e sep omitsep f st r f' st' E Hf. unfold rep_body in E.
  destruct (ev e f st) as [[v f1|c|x] st1] eqn:E1; try discriminate.
  pose proof (G _ _ _ _ _ _ E1 Hf) as B1.
  pose proof (repeat_go_good ev G _ _ _ _ _ _ _ _ _ E) as B2. cbn in B2. lia.
Qed.

Lemma rep_eval_good ev : Good ev -> forall k plus e sep omitsep f st r f' st',
  rep_eval on_cut k ev plus e sep omitsep f st = (Ok r f', st') -> pos f <= L -> pos f <= pos f' <= L.
Proof.
  intros G k plus e sep omitsep f st r f' st' E Hf. unfold rep_eval in E. destruct plus.
  - destruct (rep_body on_cut k ev e sep omitsep (push f) st) as [[v f1|c|x] st1] eqn:Eb; try discriminate.
    inversion E; subst. pose proof (rep_body_good ev G _ _ _ _ _ _ _ _ _ Eb) as B. cbn in *. apply B. exact Hf.
  - destruct (rep_body on_cut k ev e sep omitsep (push (set_cst (push f) (VList false []))) st) as [[v f1|[|]|x] st1] eqn:Eb;
      try discriminate; inversion E; subst; cbn; [|lia].
    pose proof (rep_body_good ev G _ _ _ _ _ _ _ _ _ Eb) as B. cbn in B. apply B. exact Hf.
Qed.

Lemma skipto_go_good ev : Good ev -> forall k e f st r f' st',
  skipto_go text re_at ic k ev e f st = (Ok r f', st') -> pos f <= L -> pos f <= pos f' <= L.
Proof.
  intros G k. induction k as [|k IH]; intros e f st r f' st' E Hf; cbn [skipto_go] in E; [discriminate|].
  destruct (atend text (pos f)) eqn:A.
  - eapply G; eassumption.
  - destruct (ev e (push f) st) as [[v f1|c|x] st1] eqn:E1; try discriminate.
    + eapply G; eassumption.
    + destruct (next_token_total text re_at ic re_in_bounds (pos f) Hf) as [q [Eq Hq]]. rewrite Eq in E.
      unfold atend in A. apply Nat.leb_gt in A.
      pose proof (IH _ _ _ _ _ _ E) as B. cbn [goto pos] in B.
      destruct (Nat.eqb q (pos f)) eqn:Q.
      * apply Nat.eqb_eq in Q. subst q. unfold len in *. specialize (B ltac:(lia)). lia.
      * specialize (B ltac:(lia)). lia.
Qed.

Lemma leaf_good l f st r f' st' :
  leaf_eval text re_at isalnum isalpha lower ic on_cut l f st = (Ok r f', st') -> pos f <= L -> pos f <= pos f' <= L.
Proof.
  intros E Hf. destruct (next_token_total text re_at ic re_in_bounds (pos f) Hf) as [q [Eq Hq]].
  destruct l; cbn [leaf_eval] in E; unfold with_next_token in E; try rewrite Eq in E.
  - (* token *) unfold match_token in E. cbn [goto pos] in E. destruct t as [|t0 tl]; [discriminate|].
    repeat match type of E with context [if ?b then _ else _] => destruct b end; try discriminate.
    inversion E; subst. cbn. unfold len in *. lia.
  - (* pattern *) unfold match_re in E. destruct (re_at id (pos f)) as [[n v]|] eqn:R; [|discriminate].
    inversion E; subst. cbn. pose proof (re_in_bounds _ _ _ _ R). unfold len in *. lia.
  - inversion E; subst. cbn. lia.
  - inversion E; subst. cbn. lia.
  - discriminate.
  - inversion E; subst. cbn. lia.
  - destruct (atend text (pos (goto f q))); [|discriminate]. inversion E; subst. cbn. lia.
  - unfold char_at in E. destruct (nth_error text (pos f)) as [ch|] eqn:N; [|discriminate].
    inversion E; subst. cbn. assert (pos f < length text) by (apply nth_error_Some; congruence). unfold len. lia.
  - inversion E; subst. cbn. lia.
  - discriminate.
Qed.

Variable on_call : nat -> @ev_t St -> nat -> frame -> St -> res * St.
Hypothesis call_good : forall k ev, Good ev -> forall r f st v f' st',
  on_call k ev r f st = (Ok v f', st') -> pos f <= L -> pos f <= pos f' <= L.
Notation gev := (geval text re_at isalnum isalpha lower ic unsafe on_cut on_call).

Theorem geval_good : forall n, Good (gev n).
Proof.
  induction n as [|n IH]; intros e f st r f' st' E Hf; [rewrite geval_O in E; discriminate|].
  rewrite geval_S in E.
  destruct e as [l|es|es|e1|e1|e1|plus sep omitsep e1|neg e1|e1|lft e1|rr|il nm e1|il e1].
  - eapply leaf_good; eassumption.
  - pose proof (seq_go_good _ IH _ _ _ _ _ _ _ E) as B. cbn in B. apply B. exact Hf.
  - eapply choice_go_good; eassumption.
  - eapply IH; eassumption.
  - destruct (gev n e1 (push f) st) as [[v f1|c|x] st1] eqn:E1; try discriminate.
    inversion E; subst. pose proof (IH _ _ _ _ _ _ E1) as B. cbn in *. apply B. exact Hf.
  - destruct (gev n e1 (add_defined unsafe (Opt e1) (push f)) st) as [[v f1|[|]|x] st1] eqn:E1; try discriminate.
    + inversion E; subst. pose proof (IH _ _ _ _ _ _ E1) as B. cbn in *. apply B. exact Hf.
    + inversion E; subst. lia.
  - eapply rep_eval_good; eassumption.
  - destruct neg; destruct (gev n e1 (push f) st) as [[v f1|c|x] st1]; try discriminate; inversion E; subst; lia.
  - eapply skipto_go_good; eassumption.
  - destruct (gev n e1 (push f) st) as [[v f1|c|x] st1] eqn:E1; try discriminate.
    inversion E; subst. pose proof (IH _ _ _ _ _ _ E1) as B. cbn in *. apply B. exact Hf.
  - eapply call_good; [exact IH|exact E|exact Hf].
  - destruct il; destruct (gev n e1 f st) as [[v f1|c|x] st1] eqn:E1; try discriminate;
      inversion E; subst; cbn; eapply IH; eassumption.
  - destruct il; destruct (gev n e1 f st) as [[v f1|c|x] st1] eqn:E1; try discriminate;
      inversion E; subst; cbn; eapply IH; eassumption.
Qed.

End Bounds.

(* instance: the clean semantics *)
Section CleanBounds.
Variable text : str.
Variable re_at : nat -> nat -> option (nat * str).
Variable isalnum isalpha : N -> bool.
Variable lower upper : N -> N.
Variable ic : icfg.
Variable unsafe : list str.
Variable rules : list rule.
Variable ec : ecfg.
Variable act : nat -> value -> aret.
Variable lineat : nat -> nat.
Hypothesis re_in_bounds : forall id pos n v, re_at id pos = Some (n, v) -> pos + n <= len text.

Lemma pcall_good k (ev : @ev_t unit) :
  Good text ev -> forall r f st v f' st',
  pcall text re_at upper ic rules ec act lineat k ev r f st = (Ok v f', st') -> pos f <= len text -> pos f <= pos f' <= len text.
Proof.
  intros G r f st v f' st' E Hf. unfold pcall in E.
  destruct (get_rule rules r) as [rl|]; [|discriminate].
  assert (NT : exists p, (if r_tokn rl then Some (pos f) else next_token text re_at ic (pos f)) = Some p /\ pos f <= p <= len text).
  { destruct (r_tokn rl); [exists (pos f); split; [reflexivity|lia]|].
    destruct (next_token_total text re_at ic re_in_bounds (pos f) Hf) as [q [Eq Hq]]. exists q. split; assumption. }
  destruct NT as [p [Ep Hp]]. rewrite Ep in E.
  destruct (ev (r_exp rl) (push (newf p)) st) as [[vb fb|c|x] sb] eqn:Eb; try discriminate.
  pose proof (G _ _ _ _ _ _ Eb) as B. cbn in B. specialize (B ltac:(lia)).
  unfold post_body in E.
  destruct (r_isname rl && is_keyword upper ic ec (fold fb)); [discriminate|].
  destruct (act r (fold fb)); try discriminate; cbn in E; inversion E; subst; cbn; lia.
Qed.

(* a successful parse consumes a prefix of the text: the position never moves backwards nor past the end *)
Theorem peval_consumed_bounds n e f r f' :
  peval text re_at isalnum isalpha lower upper ic unsafe rules ec act lineat n e f = Ok r f' ->
  pos f <= len text -> pos f <= pos f' <= len text.
Proof.
  unfold peval. intros E Hf.
  destruct (geval text re_at isalnum isalpha lower ic unsafe (fun _ u => u)
                  (pcall text re_at upper ic rules ec act lineat) n e f tt) as [r0 u] eqn:E0.
  cbn [fst] in E. subst r0.
  eapply (geval_good text re_at isalnum isalpha lower ic unsafe re_in_bounds (fun _ u => u)
                     (pcall text re_at upper ic rules ec act lineat)); [|exact E0|exact Hf].
  intros k ev G. apply pcall_good. exact G.
Qed.

End CleanBounds.
