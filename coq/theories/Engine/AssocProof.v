(* util.abctools.left_assoc / right_assoc: what tree a left / right join builds from the flat result
   e0 op1 e1 op2 e2 ... of the positive join.  Proofs only. *)
From Coq Require Import List Arith Lia.
From TatsuV Require Import Base.PyStr Engine.Value.
Import ListNotations.

(* the flat result of a positive join after its first element: (separator, element) pairs in order *)
Fixpoint flat (ps : list (value * value)) : list value :=
  match ps with [] => [] | (op, e) :: ps' => op :: e :: flat ps' end.

Definition node (op l r : value) : value := VList false [op; l; r].

Lemma left_assoc_go_spec ps : forall acc,
  left_assoc_go acc (flat ps) = fold_left (fun a p => node (fst p) a (snd p)) ps acc.
Proof.
  induction ps as [|[op e] ps IH]; intros acc; cbn [flat left_assoc_go fold_left]; [reflexivity|].
  rewrite IH. reflexivity.
Qed.

(* left join: ((e0 op1 e1) op2 e2) ... - every operator node holds the tree built so far on its LEFT *)
Theorem left_assoc_spec e0 ps :
  left_assoc (e0 :: flat ps) = fold_left (fun a p => node (fst p) a (snd p)) ps e0.
Proof. cbn [left_assoc]. apply left_assoc_go_spec. Qed.

Fixpoint right_nest (e0 : value) (ps : list (value * value)) : value :=
  match ps with [] => e0 | (op, e) :: ps' => node op e0 (right_nest e ps') end.

Lemma flat_length ps : length (flat ps) = 2 * length ps.
Proof. induction ps as [|[op e] ps IH]; cbn [flat length]; lia. Qed.

Lemma right_assoc_go_spec ps : forall e0 fuel, length (flat ps) < fuel ->
  right_assoc_go fuel (e0 :: flat ps) = right_nest e0 ps.
Proof.
  induction ps as [|[op e] ps IH]; intros e0 fuel H; (destruct fuel as [|fuel]; [cbn in H; lia|]).
  - reflexivity.
  - cbn [flat right_assoc_go right_nest]. f_equal. unfold node. f_equal.
    rewrite IH; [reflexivity|]. cbn [flat length] in H. lia.
Qed.

(* right join: e0 op1 (e1 op2 (e2 ...)) - every operator node holds the REST of the chain on its right *)
Theorem right_assoc_spec e0 ps : right_assoc (e0 :: flat ps) = right_nest e0 ps.
Proof. unfold right_assoc. apply right_assoc_go_spec. cbn [length]. lia. Qed.

(* one operand stands for itself (no list is wrapped around it) *)
Corollary assoc_single e0 : left_assoc [e0] = e0 /\ right_assoc [e0] = e0.
Proof. split; reflexivity. Qed.

(* with two operands both joins agree; from three on they differ exactly by where the nesting goes *)
Corollary assoc_two e0 op e1 : left_assoc [e0; op; e1] = node op e0 e1 /\ right_assoc [e0; op; e1] = node op e0 e1.
Proof. split; reflexivity. Qed.

Corollary assoc_three e0 o1 e1 o2 e2 :
  left_assoc [e0; o1; e1; o2; e2] = node o2 (node o1 e0 e1) e2 /\
  right_assoc [e0; o1; e1; o2; e2] = node o1 e0 (node o2 e1 e2).
Proof. split; reflexivity. Qed.

(* nothing is lost, duplicated or reordered: the value is a binary tree whose in-order walk is the flat list of the join *)
Inductive tree := TLeaf (v : value) | TNode (op : value) (l r : tree).
Fixpoint tval (t : tree) : value :=
  match t with TLeaf v => v | TNode op l r => node op (tval l) (tval r) end.
Fixpoint tin (t : tree) : list value :=
  match t with TLeaf v => [v] | TNode op l r => tin l ++ [op] ++ tin r end.
(* left-leaning: every right child is an operand; right-leaning: every left child is *)
Fixpoint left_leaning (t : tree) : Prop :=
  match t with TLeaf _ => True | TNode _ l (TLeaf _) => left_leaning l | _ => False end.
Fixpoint right_leaning (t : tree) : Prop :=
  match t with TLeaf _ => True | TNode _ (TLeaf _) r => right_leaning r | _ => False end.

Lemma left_fold_tree ps : forall t, left_leaning t ->
  exists t', fold_left (fun a p => node (fst p) a (snd p)) ps (tval t) = tval t' /\ tin t' = tin t ++ flat ps /\ left_leaning t'.
Proof.
  induction ps as [|[op e] ps IH]; intros t L; cbn [fold_left flat].
  - exists t. rewrite app_nil_r. split; [reflexivity|split; [reflexivity|exact L]].
  - destruct (IH (TNode op t (TLeaf e)) L) as [t' [E [I L']]]. exists t'. split; [exact E|]. split; [|exact L'].
    rewrite I. cbn [tin fst snd]. rewrite <- !app_assoc. reflexivity.
Qed.

Theorem left_join_inorder e0 ps :
  exists t, left_assoc (e0 :: flat ps) = tval t /\ tin t = e0 :: flat ps /\ left_leaning t.
Proof.
  rewrite left_assoc_spec. destruct (left_fold_tree ps (TLeaf e0) I) as [t [E [H L]]]. exists t. repeat split; assumption.
Qed.

Theorem right_join_inorder ps : forall e0,
  exists t, right_assoc (e0 :: flat ps) = tval t /\ tin t = e0 :: flat ps /\ right_leaning t.
Proof.
  induction ps as [|[op e] ps IH]; intros e0; rewrite right_assoc_spec.
  - exists (TLeaf e0). split; [reflexivity|split; [reflexivity|exact I]].
  - destruct (IH e) as [t [E [H R]]]. rewrite right_assoc_spec in E.
    exists (TNode op (TLeaf e0) t). cbn [right_nest tval tin flat right_leaning]. rewrite E, H. split; [reflexivity|split; [reflexivity|exact R]].
Qed.
