(* util.abctools.left_assoc / right_assoc: what tree a left / right join builds from the flat result
   e0 op1 e1 op2 e2 ... of the positive join.  Proofs only. *)
From Coq Require Import List Arith Lia.
From TatsuV Require Import Base.PyStr Engine.Value.
Import ListNotations.

(* the flat result of a positive join after its first element: (separator, element) pairs in order *)
Fixpoint flat (ps : list (value * value)) : list value :=
  match ps with [] => [] | (op, e) :: ps' => op :: e :: flat ps' end.

Definition node (op l r : value) : value := VList false [op; l; r].

Lemma left_assoc_go_spec ps : forall acc,
  left_assoc_go acc (flat ps) = fold_left (fun a p => node (fst p) a (snd p)) ps acc.
Proof.
  induction ps as [|[op e] ps IH]; intros acc; cbn [flat left_assoc_go fold_left]; [reflexivity|].
  rewrite IH. reflexivity.
Qed.

(* left join: ((e0 op1 e1) op2 e2) ... - every operator node holds the tree built so far on its LEFT *)
Theorem left_assoc_spec e0 ps :
  left_assoc (e0 :: flat ps) = fold_left (fun a p => node (fst p) a (snd p)) ps e0.
Proof. cbn [left_assoc]. apply left_assoc_go_spec. Qed.

Fixpoint right_nest (e0 : value) (ps : list (value * value)) : value :=
  match ps with [] => e0 | (op, e) :: ps' => node op e0 (right_nest e ps') end.

Lemma flat_length ps : length (flat ps) = 2 * length ps.
Proof. induction ps as [|[op e] ps IH]; cbn [flat length]; lia. Qed.

Lemma right_assoc_go_spec ps : forall e0 fuel, length (flat ps) < fuel ->
  right_assoc_go fuel (e0 :: flat ps) = right_nest e0 ps.
Proof.
  induction ps as [|[op e] ps IH]; intros e0 fuel H; (destruct fuel as [|fuel]; [cbn in H; lia|]).
  - reflexivity.
  - cbn [flat right_assoc_go right_nest]. f_equal. unfold node. f_equal.
    rewrite IH; [reflexivity|]. cbn [flat length] in H. lia.
Qed.

(* right join: e0 op1 (e1 op2 (e2 ...)) - every operator node holds the REST of the chain on its right *)
Theorem right_assoc_spec e0 ps : right_assoc (e0 :: flat ps) = right_nest e0 ps.
Proof. unfold right_assoc. apply right_assoc_go_spec. cbn [length]. lia. Qed.

(* one operand stands for itself (no list is wrapped around it) *)
Corollary assoc_single e0 : left_assoc [e0] = e0 /\ right_assoc [e0] = e0.
Proof. split; reflexivity. Qed.

(* with two operands both joins agree; from three on they differ exactly by where the nesting goes *)
Corollary assoc_two e0 op e1 : left_assoc [e0; op; e1] = node op e0 e1 /\ right_assoc [e0; op; e1] = node op e0 e1.
Proof. split; reflexivity. Qed.

Corollary assoc_three e0 o1 e1 o2 e2 :
  left_assoc [e0; o1; e1; o2; e2] = node o2 (node o1 e0 e1) e2 /\
  right_assoc [e0; o1; e1; o2; e2] = node o1 e0 (node o2 e1 e2).
Proof. split; reflexivity. Qed.

(* the operands appear in the tree in the order of the text: the in-order walk of the tree gives back the flat list
   (stated for operands that are not themselves operator nodes: leaves) *)
Fixpoint inorder (fuel : nat) (leaf : value -> bool) (v : value) : list value :=
  match fuel with
  | O => [v]
  | S fuel' =>
    if leaf v then [v] else
    match v with
    | VList false [op; l; r] => inorder fuel' leaf l ++ [op] ++ inorder fuel' leaf r
    | _ => [v]
    end
  end.
