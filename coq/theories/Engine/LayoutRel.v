(* C09: whitespace invariance of WHOLE parses, reduced to the lexical primitives.
   Two texts (with their regex oracles) and a correspondence [P] between positions of the first and positions of the
   second.  If the lexical primitives - skipping to the next token, matching a token, a pattern, any character, the
   end-of-text test - agree on corresponding positions and lead to corresponding positions, then for every grammar the two
   parses (clean semantics, parse information off) end alike: same outcome, same value, same AST under construction,
   same cut flags, and corresponding positions.  A relational induction through every construct, like PinfoRel.v.
   How a re-layout of the whitespace of a text yields such a [P] is the harness' relayout oracle (props/c09.py); the
   hypotheses say exactly what that oracle must establish.  Proofs only. *)
From Coq Require Import List NArith ZArith Arith Bool Lia.
From TatsuV Require Import Base.PyStr Engine.Value Engine.Syntax Engine.Input Engine.Engine Engine.Calls
     Engine.EngineRel Engine.MemoProof.
Import ListNotations.

Section Layout.
Variable text1 text2 : str.
Variable re1 re2 : nat -> nat -> option (nat * str).
Variable isalnum isalpha : N -> bool.
Variable lower upper : N -> N.
Variable ic : icfg.
Variable unsafe : list str.
Variable P : nat -> nat -> Prop.

(* corresponding positions are in one-to-one correspondence *)
Hypothesis P_inj : forall a b a' b', P a b -> P a' b' -> (a = a' <-> b = b').
(* the lexical primitives agree on corresponding positions *)
Hypothesis H_next : forall p1 p2, P p1 p2 ->
  match next_token text1 re1 ic p1, next_token text2 re2 ic p2 with
  | Some q1, Some q2 => P q1 q2 | None, None => True | _, _ => False end.
Hypothesis H_tok : forall t p1 p2, P p1 p2 ->
  match match_token text1 isalnum isalpha lower ic t p1, match_token text2 isalnum isalpha lower ic t p2 with
  | Some q1, Some q2 => P q1 q2 | None, None => True | _, _ => False end.
Hypothesis H_re : forall id p1 p2, P p1 p2 ->
  match match_re text1 re1 id p1, match_re text2 re2 id p2 with
  | Some (q1, v1), Some (q2, v2) => v1 = v2 /\ P q1 q2 | None, None => True | _, _ => False end.
Hypothesis H_end : forall p1 p2, P p1 p2 -> atend text1 p1 = atend text2 p2.
Hypothesis H_dot : forall p1 p2, P p1 p2 ->
  match char_at text1 p1, char_at text2 p2 with
  | Some c1, Some c2 => c1 = c2 /\ P (S p1) (S p2) | None, None => True | _, _ => False end.
(* skip-to advances by one character when nothing could be skipped: inside a token, the same offset in both texts *)
Hypothesis H_step : forall p1 p2, P p1 p2 -> atend text1 p1 = false -> P (S p1) (S p2).

Notation cutid := (fun (_ : frame) (u : unit) => u).

Definition RFl (f1 f2 : frame) : Prop :=
  P (pos f1) (pos f2) /\ cutseen f1 = cutseen f2 /\ fast f1 = fast f2 /\ cst f1 = cst f2 /\ last f1 = last f2.

Definition RRl (r1 r2 : res) : Prop :=
  match r1, r2 with
  | Ok v1 f1, Ok v2 f2 => v1 = v2 /\ RFl f1 f2
  | Fail c1, Fail c2 => c1 = c2
  | Fatal x, Fatal y => x = y
  | _, _ => False
  end.

Definition RIl (i1 i2 : iter) : Prop :=
  match i1, i2 with
  | IOk f1, IOk f2 => RFl f1 f2
  | IStop, IStop => True
  | ICommit, ICommit => True
  | IFatal x, IFatal y => x = y
  | _, _ => False
  end.

Ltac rl := unfold RFl in *; cbn [pos cutseen fast cst last push merge popf append goto set_cst set_ast set_cut newf] in *.

Lemma RFl_push f1 f2 : RFl f1 f2 -> RFl (push f1) (push f2).
Proof. intros [Hp [C [A [S L]]]]. rl. rewrite A. repeat split; try assumption; reflexivity. Qed.
Lemma RFl_merge f1 f2 c1 c2 : RFl f1 f2 -> RFl c1 c2 -> RFl (merge f1 c1) (merge f2 c2).
Proof. intros [Hp [C [A [S L]]]] [Hp' [C' [A' [S' L']]]]. rl. rewrite S, S', A'. repeat split; assumption. Qed.
Lemma RFl_popf f1 f2 c1 c2 : RFl f1 f2 -> RFl c1 c2 -> RFl (popf f1 c1) (popf f2 c2).
Proof. intros [Hp [C [A [S L]]]] [Hp' [C' [A' [S' L']]]]. rl. repeat split; assumption. Qed.
Lemma RFl_append f1 f2 v : RFl f1 f2 -> RFl (append f1 v) (append f2 v).
Proof. intros [Hp [C [A [S L]]]]. rl. rewrite S. repeat split; try assumption; reflexivity. Qed.
Lemma RFl_goto f1 f2 p1 p2 : RFl f1 f2 -> P p1 p2 -> RFl (goto f1 p1) (goto f2 p2).
Proof. intros [Hp [C [A [S L]]]] HP. rl. repeat split; assumption. Qed.
Lemma RFl_set_cst f1 f2 v : RFl f1 f2 -> RFl (set_cst f1 v) (set_cst f2 v).
Proof. intros [Hp [C [A [S L]]]]. rl. repeat split; try assumption; reflexivity. Qed.
Lemma RFl_set_ast f1 f2 a : RFl f1 f2 -> RFl (set_ast f1 a) (set_ast f2 a).
Proof. intros [Hp [C [A [S L]]]]. rl. repeat split; try assumption; reflexivity. Qed.
Lemma RFl_set_cut f1 f2 : RFl f1 f2 -> RFl (set_cut f1) (set_cut f2).
Proof. intros [Hp [C [A [S L]]]]. rl. repeat split; try assumption; reflexivity. Qed.
Lemma RFl_add_defined e f1 f2 : RFl f1 f2 -> RFl (add_defined unsafe e f1) (add_defined unsafe e f2).
Proof. intros H. unfold add_defined. destruct H as [Hp [C [A [S L]]]]. rewrite A. apply RFl_set_ast. repeat split; assumption. Qed.
Lemma RFl_cut f1 f2 : RFl f1 f2 -> cutseen f1 = cutseen f2.  Proof. intros H; apply H. Qed.
Lemma RFl_pos f1 f2 : RFl f1 f2 -> P (pos f1) (pos f2).  Proof. intros H; apply H. Qed.
Lemma RFl_cst f1 f2 : RFl f1 f2 -> cst f1 = cst f2.  Proof. intros H; apply H. Qed.
Lemma RFl_fast f1 f2 : RFl f1 f2 -> fast f1 = fast f2.  Proof. intros H; apply H. Qed.
Lemma RFl_fold f1 f2 : RFl f1 f2 -> fold f1 = fold f2.
Proof. intros [Hp [C [A [S L]]]]. unfold fold. rewrite A, S. reflexivity. Qed.

Hint Resolve RFl_push RFl_merge RFl_popf RFl_append RFl_goto RFl_set_cst RFl_set_ast RFl_set_cut RFl_add_defined RFl_pos : rl.

Definition RelL (ev1 ev2 : @ev_t unit) : Prop :=
  forall e f1 f2, RFl f1 f2 -> RRl (fst (ev1 e f1 tt)) (fst (ev2 e f2 tt)).

Ltac both H e f1 f2 HF R :=
  pose proof (H e f1 f2 HF) as R;
  match type of R with RRl (fst ?t1) (fst ?t2) =>
    let v1 := fresh "v" in let g1 := fresh "g" in let c1 := fresh "c" in let x1 := fresh "x" in
    let v2 := fresh "w" in let g2 := fresh "h" in let c2 := fresh "d" in let x2 := fresh "y" in
    destruct t1 as [[v1 g1|c1|x1] []]; destruct t2 as [[v2 g2|c2|x2] []]; cbn [fst RRl] in R; try contradiction
  end.

Lemma seq_go_l ev1 ev2 : RelL ev1 ev2 -> forall es o f1 f2, RFl f1 f2 ->
  RRl (fst (seq_go ev1 es o f1 tt)) (fst (seq_go ev2 es o f2 tt)).
Proof.
  intros H es. induction es as [|e es IH]; intros o f1 f2 HF; cbn [seq_go].
  - cbn. split; [reflexivity|exact HF].
  - both H e f1 f2 HF R.
    + destruct R as [-> Rf]. apply IH, Rf.
    + exact R.
    + exact R.
Qed.

Lemma choice_go_l ev1 ev2 : RelL ev1 ev2 -> forall es f1 f2, RFl f1 f2 ->
  RRl (fst (choice_go unsafe ev1 es f1 tt)) (fst (choice_go unsafe ev2 es f2 tt)).
Proof.
  intros H es. induction es as [|e es IH]; intros f1 f2 HF; cbn [choice_go].
  - cbn. apply RFl_cut, HF.
  - assert (HF' : RFl (add_defined unsafe e (push f1)) (add_defined unsafe e (push f2))) by auto with rl.
    both H e (add_defined unsafe e (push f1)) (add_defined unsafe e (push f2)) HF' R.
    + destruct R as [-> Rf]. cbn. split; auto with rl.
    + subst d. destruct c; [cbn; apply RFl_cut, HF|apply IH, HF].
    + cbn. exact R.
Qed.

Definition iter_body (ev : @ev_t unit) (e : exp) (f f3c : frame) (p : nat) : iter * unit :=
  match ev e (push f3c) tt with
  | (Ok _ f5, st2) =>
    let f3c' := if cutseen f5 then set_cut f3c else f3c in
    let f3d := append (set_ast (goto f3c' (pos f5)) (fast f5)) (cstfinal (cst f5)) in
    if Nat.eqb (pos f3d) p
    then (if cutseen f3d then ICommit else IStop, st2)
    else (IOk (merge f f3d), st2)
  | (Fail c, st2) => (if cutseen f3c || c then ICommit else IStop, st2)
  | (Fatal k, st2) => (IFatal k, st2)
  end.

Lemma repeat_iter_unfold (ev : @ev_t unit) e sep omitsep f :
  repeat_iter cutid ev e sep omitsep f tt =
  match sep with
  | None => iter_body ev e f (push f) (pos f)
  | Some s =>
    match ev s (push (push f)) tt with
    | (Ok _ f4, _) =>
      let f3a := set_ast (goto (push f) (pos f4)) (fast f4) in
      let f3b := if omitsep then f3a else append f3a (cstfinal (cst f4)) in
      iter_body ev e f (set_cut f3b) (pos f)
    | (Fail c, _) => (if c then ICommit else IStop, tt)
    | (Fatal k, _) => (IFatal k, tt)
    end
  end.
Proof.
  unfold repeat_iter, iter_body. destruct sep as [s|]; [|reflexivity].
  destruct (ev s (push (push f)) tt) as [[v f4|[|]|x] []]; reflexivity.
Qed.

Lemma eqb_P a b a' b' : P a b -> P a' b' -> Nat.eqb a a' = Nat.eqb b b'.
Proof.
  intros H H'. destruct (P_inj _ _ _ _ H H') as [F B].
  destruct (Nat.eqb a a') eqn:E1; destruct (Nat.eqb b b') eqn:E2; try reflexivity.
  - apply Nat.eqb_eq in E1. apply F in E1. apply Nat.eqb_neq in E2. contradiction.
  - apply Nat.eqb_eq in E2. apply B in E2. apply Nat.eqb_neq in E1. contradiction.
Qed.

Lemma iter_body_l ev1 ev2 : RelL ev1 ev2 -> forall e f1 f2 c1 c2 p1 p2, RFl f1 f2 -> RFl c1 c2 -> P p1 p2 ->
  RIl (fst (iter_body ev1 e f1 c1 p1)) (fst (iter_body ev2 e f2 c2 p2)).
Proof.
  intros H e f1 f2 c1 c2 p1 p2 HF HC HP. unfold iter_body.
  assert (HPc : RFl (push c1) (push c2)) by auto with rl.
  both H e (push c1) (push c2) HPc R.
  - destruct R as [_ Rf]. destruct Rf as [P5 [C5 [A5 [S5 L5]]]]. rewrite <- C5, <- A5, <- S5.
    assert (HD : forall x1 x2, RFl x1 x2 -> RFl (append (set_ast (goto x1 (pos g)) (fast g)) (cstfinal (cst g)))
                    (append (set_ast (goto x2 (pos h)) (fast g)) (cstfinal (cst g)))) by (intros; auto with rl).
    destruct (cutseen g); cbn [pos cutseen append set_ast goto set_cut];
      rewrite (eqb_P _ _ _ _ P5 HP);
      (destruct (Nat.eqb (pos h) p2); [|cbn [fst RIl]; apply RFl_merge; [exact HF|apply HD; auto with rl]]).
    + exact I.
    + rewrite <- (RFl_cut _ _ HC). destruct (cutseen c1); exact I.
  - subst d. rewrite <- (RFl_cut _ _ HC). destruct (cutseen c1 || c); exact I.
  - exact R.
Qed.

Lemma repeat_iter_l ev1 ev2 : RelL ev1 ev2 -> forall e sep omitsep f1 f2, RFl f1 f2 ->
  RIl (fst (repeat_iter cutid ev1 e sep omitsep f1 tt)) (fst (repeat_iter cutid ev2 e sep omitsep f2 tt)).
Proof.
  intros H e sep omitsep f1 f2 HF. rewrite !repeat_iter_unfold.
  destruct sep as [s|].
  - assert (HPp : RFl (push (push f1)) (push (push f2))) by auto with rl.
    both H s (push (push f1)) (push (push f2)) HPp R.
    + destruct R as [_ Rf]. destruct Rf as [P4 [C4 [A4 [S4 L4]]]]. cbv zeta. rewrite <- A4, <- S4.
      apply iter_body_l; [exact H|exact HF| |apply HF]. apply RFl_set_cut.
      destruct omitsep; auto with rl.
    + subst d. destruct c; exact I.
    + exact R.
  - apply iter_body_l; auto with rl.
Qed.

Lemma repeat_go_l ev1 ev2 : RelL ev1 ev2 -> forall k e sep omitsep f1 f2, RFl f1 f2 ->
  RRl (fst (repeat_go cutid k ev1 e sep omitsep f1 tt)) (fst (repeat_go cutid k ev2 e sep omitsep f2 tt)).
Proof.
  intros H k. induction k as [|k IH]; intros e sep omitsep f1 f2 HF; cbn [repeat_go]; [reflexivity|].
  pose proof (repeat_iter_l ev1 ev2 H e sep omitsep f1 f2 HF) as R.
  destruct (repeat_iter cutid ev1 e sep omitsep f1 tt) as [[g1| | |x1] []];
    destruct (repeat_iter cutid ev2 e sep omitsep f2 tt) as [[g2| | |x2] []]; cbn [fst RIl] in R; try contradiction.
  - apply IH, R.
  - cbn. split; [reflexivity|exact HF].
  - cbn. apply RFl_cut, HF.
  - cbn. exact R.
Qed.

Lemma rep_body_l ev1 ev2 : RelL ev1 ev2 -> forall k e sep omitsep f1 f2, RFl f1 f2 ->
  RRl (fst (rep_body cutid k ev1 e sep omitsep f1 tt)) (fst (rep_body cutid k ev2 e sep omitsep f2 tt)).
Proof.
  intros H k e sep omitsep f1 f2 HF. unfold rep_body.
  both H e f1 f2 HF R.
  - destruct R as [_ Rf]. apply repeat_go_l; [exact H|]. rewrite (RFl_cst _ _ Rf). apply RFl_set_cst, Rf.
  - exact R.
  - exact R.
Qed.

Lemma rep_eval_l ev1 ev2 : RelL ev1 ev2 -> forall k plus e sep omitsep f1 f2, RFl f1 f2 ->
  RRl (fst (rep_eval cutid k ev1 plus e sep omitsep f1 tt)) (fst (rep_eval cutid k ev2 plus e sep omitsep f2 tt)).
Proof.
  intros H k plus e sep omitsep f1 f2 HF. unfold rep_eval. destruct plus.
  - pose proof (rep_body_l ev1 ev2 H k e sep omitsep (push f1) (push f2) (RFl_push _ _ HF)) as R.
    destruct (rep_body cutid k ev1 e sep omitsep (push f1) tt) as [[v1 g1|c1|x1] []];
      destruct (rep_body cutid k ev2 e sep omitsep (push f2) tt) as [[v2 g2|c2|x2] []]; cbn [fst RRl] in R; try contradiction.
    + destruct R as [_ Rf]. cbn [fst RRl]. rewrite (RFl_cst _ _ Rf). split; [reflexivity|]. auto with rl.
    + cbn. apply RFl_cut, HF.
    + cbn. exact R.
  - assert (H1 : RFl (set_cst (push f1) (VList false [])) (set_cst (push f2) (VList false []))) by auto with rl.
    pose proof (rep_body_l ev1 ev2 H k e sep omitsep _ _ (RFl_push _ _ H1)) as R.
    destruct (rep_body cutid k ev1 e sep omitsep (push (set_cst (push f1) (VList false []))) tt) as [[v1 g1|c1|x1] []];
      destruct (rep_body cutid k ev2 e sep omitsep (push (set_cst (push f2) (VList false []))) tt) as [[v2 g2|c2|x2] []];
      cbn [fst RRl] in R; try contradiction.
    + destruct R as [_ Rf]. cbn [fst RRl].
      assert (HM : RFl (merge (set_cst (push f1) (VList false [])) g1) (merge (set_cst (push f2) (VList false [])) g2)) by auto with rl.
      rewrite (RFl_cst _ _ HM). split; [reflexivity|]. auto with rl.
    + subst c2. destruct c1; cbn [fst RRl].
      * apply RFl_cut, HF.
      * rewrite (RFl_cst _ _ H1). split; [reflexivity|]. auto with rl.
    + cbn. exact R.
Qed.

Lemma skipto_go_l ev1 ev2 : RelL ev1 ev2 -> forall k e f1 f2, RFl f1 f2 ->
  RRl (fst (skipto_go text1 re1 ic k ev1 e f1 tt)) (fst (skipto_go text2 re2 ic k ev2 e f2 tt)).
Proof.
  intros H k. induction k as [|k IH]; intros e f1 f2 HF; cbn [skipto_go]; [reflexivity|].
  rewrite <- (H_end _ _ (RFl_pos _ _ HF)). destruct (atend text1 (pos f1)) eqn:AE; [apply H, HF|].
  assert (HPp : RFl (push f1) (push f2)) by auto with rl.
  both H e (push f1) (push f2) HPp R.
  - apply H, HF.
  - pose proof (H_next _ _ (RFl_pos _ _ HF)) as N.
    destruct (next_token text1 re1 ic (pos f1)) as [q1|]; destruct (next_token text2 re2 ic (pos f2)) as [q2|]; try contradiction;
      [|reflexivity].
    apply IH. rewrite (eqb_P _ _ _ _ N (RFl_pos _ _ HF)).
    destruct (Nat.eqb q2 (pos f2)) eqn:Q; [|apply RFl_goto; assumption].
    apply RFl_goto; [exact HF|].
    (* nothing was skipped: q = pos f on both sides; one character forward, inside a token *)
    assert (Q1 : q1 = pos f1).
    { apply Nat.eqb_eq in Q. destruct (P_inj _ _ _ _ N (RFl_pos _ _ HF)) as [_ B]. apply B, Q. }
    apply Nat.eqb_eq in Q. subst q1 q2. apply H_step; [apply HF|exact AE].
  - exact R.
Qed.

Lemma leaf_eval_l l f1 f2 : RFl f1 f2 ->
  RRl (fst (leaf_eval text1 re1 isalnum isalpha lower ic cutid l f1 tt))
      (fst (leaf_eval text2 re2 isalnum isalpha lower ic cutid l f2 tt)).
Proof.
  intros HF. pose proof (RFl_pos _ _ HF) as HP. pose proof (H_next _ _ HP) as N.
  destruct l; cbn [leaf_eval]; unfold with_next_token; rewrite <- ?(RFl_cut _ _ HF).
  - (* token *)
    destruct (next_token text1 re1 ic (pos f1)) as [q1|]; destruct (next_token text2 re2 ic (pos f2)) as [q2|]; try contradiction;
      [|reflexivity].
    cbn [pos goto]. pose proof (H_tok t _ _ N) as T.
    destruct (match_token text1 isalnum isalpha lower ic t q1) as [r1|];
      destruct (match_token text2 isalnum isalpha lower ic t q2) as [r2|]; try contradiction; cbn [fst RRl]; [|reflexivity].
    split; [reflexivity|]. auto with rl.
  - (* pattern: no skipping *)
    pose proof (H_re id _ _ HP) as T.
    destruct (match_re text1 re1 id (pos f1)) as [[r1 v1]|]; destruct (match_re text2 re2 id (pos f2)) as [[r2 v2]|]; try contradiction;
      cbn [fst RRl]; [|reflexivity].
    destruct T as [-> T]. split; [reflexivity|]. auto with rl.
  - (* constant *)
    destruct (next_token text1 re1 ic (pos f1)) as [q1|]; destruct (next_token text2 re2 ic (pos f2)) as [q2|]; try contradiction;
      [|reflexivity]. cbn [fst RRl]. split; [reflexivity|]. auto with rl.
  - (* void *)
    destruct (next_token text1 re1 ic (pos f1)) as [q1|]; destruct (next_token text2 re2 ic (pos f2)) as [q2|]; try contradiction;
      [|reflexivity]. cbn [fst RRl]. split; [reflexivity|]. auto with rl.
  - (* fail *)
    destruct (next_token text1 re1 ic (pos f1)) as [q1|]; destruct (next_token text2 re2 ic (pos f2)) as [q2|]; try contradiction;
      reflexivity.
  - (* cut *)
    cbn [fst RRl]. split; [reflexivity|]. auto with rl.
  - (* end of text *)
    destruct (next_token text1 re1 ic (pos f1)) as [q1|]; destruct (next_token text2 re2 ic (pos f2)) as [q2|]; try contradiction;
      [|reflexivity]. cbn [pos goto]. rewrite <- (H_end _ _ N).
    destruct (atend text1 q1); cbn [fst RRl]; [|reflexivity]. split; [reflexivity|]. auto with rl.
  - (* any character *)
    pose proof (H_dot _ _ HP) as T.
    destruct (char_at text1 (pos f1)) as [c1|]; destruct (char_at text2 (pos f2)) as [c2|]; try contradiction;
      cbn [fst RRl]; [|reflexivity].
    destruct T as [-> T]. split; [reflexivity|]. auto with rl.
  - (* empty closure *)
    cbn [fst RRl]. split; [reflexivity|]. auto with rl.
  - reflexivity.
Qed.

Notation gev1 oc1 := (geval text1 re1 isalnum isalpha lower ic unsafe cutid oc1).
Notation gev2 oc2 := (geval text2 re2 isalnum isalpha lower ic unsafe cutid oc2).

Lemma geval_step_l (oc1 oc2 : nat -> @ev_t unit -> nat -> frame -> unit -> res * unit) n :
  RelL (gev1 oc1 n) (gev2 oc2 n) ->
  (forall r f1 f2, RFl f1 f2 -> RRl (fst (oc1 n (gev1 oc1 n) r f1 tt)) (fst (oc2 n (gev2 oc2 n) r f2 tt))) ->
  RelL (gev1 oc1 (S n)) (gev2 oc2 (S n)).
Proof.
  intros X XC e f1 f2 HF. rewrite !geval_S.
  destruct e as [l|es|es|e1|e1|e1|plus sep omitsep e1|neg e1|e1|lft e1|rr|il nm e1|il e1].
  - apply leaf_eval_l, HF.
  - apply seq_go_l; auto with rl.
  - apply choice_go_l; assumption.
  - apply X, HF.
  - both X e1 (push f1) (push f2) (RFl_push _ _ HF) R.
    + destruct R as [_ Rf]. cbn. split; auto with rl.
    + cbn. apply RFl_cut, HF.
    + exact R.
  - assert (HPp : RFl (add_defined unsafe (Opt e1) (push f1)) (add_defined unsafe (Opt e1) (push f2))) by auto with rl.
    both X e1 (add_defined unsafe (Opt e1) (push f1)) (add_defined unsafe (Opt e1) (push f2)) HPp R.
    + destruct R as [-> Rf]. cbn. split; auto with rl.
    + subst d. destruct c; cbn; [apply RFl_cut, HF|split; auto with rl].
    + exact R.
  - apply rep_eval_l; assumption.
  - destruct neg; both X e1 (push f1) (push f2) (RFl_push _ _ HF) R; cbn;
      first [ apply RFl_cut, HF | split; auto with rl | exact R ].
  - apply skipto_go_l; assumption.
  - both X e1 (push f1) (push f2) (RFl_push _ _ HF) R.
    + destruct R as [-> Rf]. cbn [fst RRl]. split; [reflexivity|]. auto with rl.
    + cbn. apply RFl_cut, HF.
    + exact R.
  - apply XC, HF.
  - destruct il; both X e1 f1 f2 HF R; cbn [fst RRl]; try exact R; destruct R as [-> Rf];
      (split; [reflexivity|]); rewrite (RFl_fast _ _ Rf); auto with rl.
  - destruct il; both X e1 f1 f2 HF R; cbn [fst RRl]; try exact R; destruct R as [-> Rf];
      rewrite (RFl_fast _ _ Rf); (split; [reflexivity|]); auto with rl.
Qed.

(* ---- rule calls (parse information off: a ParseInfo holds positions, which differ by construction) ---- *)
Variable rules : list rule.
Variable ec : ecfg.
Variable act : nat -> value -> aret.
Variable lineat1 lineat2 : nat -> nat.
Hypothesis pinfo_off : parseinfo ec = false.

Lemma post_body_l rl r p1 p2 fb1 fb2 : RFl fb1 fb2 ->
  match fst (post_body upper ic ec act lineat1 rl r p1 fb1), fst (post_body upper ic ec act lineat2 rl r p2 fb2) with
  | ROk n1 q1, ROk n2 q2 => n1 = n2 /\ P q1 q2
  | RFail, RFail => True
  | RFatal x, RFatal y => x = y
  | _, _ => False
  end.
Proof.
  intros HF. unfold post_body. rewrite <- (RFl_fold _ _ HF).
  destruct (r_isname rl && is_keyword upper ic ec (fold fb1)); [exact I|].
  unfold with_parseinfo. rewrite pinfo_off.
  destruct (act r (fold fb1)); cbn [fst]; try exact I; try reflexivity; (split; [reflexivity|apply HF]).
Qed.

Lemma pcall_l k ev1 ev2 : RelL ev1 ev2 -> forall r f1 f2, RFl f1 f2 ->
  RRl (fst (pcall text1 re1 upper ic rules ec act lineat1 k ev1 r f1 tt))
      (fst (pcall text2 re2 upper ic rules ec act lineat2 k ev2 r f2 tt)).
Proof.
  intros H r f1 f2 HF. unfold pcall. destruct (get_rule rules r) as [rl|]; [|reflexivity].
  assert (E : match (if r_tokn rl then Some (pos f1) else next_token text1 re1 ic (pos f1)),
                    (if r_tokn rl then Some (pos f2) else next_token text2 re2 ic (pos f2)) with
              | Some q1, Some q2 => P q1 q2 | None, None => True | _, _ => False end).
  { destruct (r_tokn rl); [apply HF|apply H_next, HF]. }
  destruct (if r_tokn rl then Some (pos f1) else next_token text1 re1 ic (pos f1)) as [p1|];
    destruct (if r_tokn rl then Some (pos f2) else next_token text2 re2 ic (pos f2)) as [p2|]; try contradiction; [|reflexivity].
  assert (HN : RFl (push (newf p1)) (push (newf p2))) by (rl; repeat split; try reflexivity; exact E).
  pose proof (H (r_exp rl) _ _ HN) as R.
  destruct (ev1 (r_exp rl) (push (newf p1)) tt) as [[v1 g1|c1|x1] []];
    destruct (ev2 (r_exp rl) (push (newf p2)) tt) as [[v2 g2|c2|x2] []]; cbn [fst RRl] in R; try contradiction.
  - destruct R as [_ Rf]. pose proof (post_body_l rl r p1 p2 g1 g2 Rf) as PB.
    destruct (fst (post_body upper ic ec act lineat1 rl r p1 g1)) as [n1 q1| |y1];
      destruct (fst (post_body upper ic ec act lineat2 rl r p2 g2)) as [n2 q2| |y2]; try contradiction; cbn [fst RRl].
    + destruct PB as [-> Pq]. split; [reflexivity|]. auto with rl.
    + apply RFl_cut, HF.
    + f_equal. exact PB.
  - cbn. apply RFl_cut, HF.
  - cbn. exact R.
Qed.

Theorem layout_rell : forall n,
  RelL (gev1 (pcall text1 re1 upper ic rules ec act lineat1) n) (gev2 (pcall text2 re2 upper ic rules ec act lineat2) n).
Proof.
  induction n as [|n IH].
  - intros e f1 f2 HF. rewrite !geval_O. reflexivity.
  - apply geval_step_l; [exact IH|]. intros r f1 f2 HF. apply pcall_l; assumption.
Qed.

(* THE THEOREM: started at corresponding positions (everything else equal), the two evaluations end alike *)
Theorem layout_invariance n e f1 f2 : RFl f1 f2 ->
  RRl (peval text1 re1 isalnum isalpha lower upper ic unsafe rules ec act lineat1 n e f1)
      (peval text2 re2 isalnum isalpha lower upper ic unsafe rules ec act lineat2 n e f2).
Proof. intros HF. unfold peval. apply layout_rell, HF. Qed.

(* whole parses from the start of both texts: the same value or the same failure *)
Theorem layout_invariance_parse n start : P 0 0 ->
  match pparse_with text1 re1 isalnum isalpha lower upper ic unsafe rules ec act lineat1 n start,
        pparse_with text2 re2 isalnum isalpha lower upper ic unsafe rules ec act lineat2 n start with
  | Ok v1 f1, Ok v2 f2 => v1 = v2 /\ P (pos f1) (pos f2)
  | Fail c1, Fail c2 => c1 = c2
  | Fatal x, Fatal y => x = y
  | _, _ => False
  end.
Proof.
  intros P0. unfold pparse_with.
  assert (HF : RFl (newf 0) (newf 0)) by (rl; repeat split; try reflexivity; exact P0).
  pose proof (layout_invariance n (Call start) _ _ HF) as R.
  destruct (peval text1 re1 isalnum isalpha lower upper ic unsafe rules ec act lineat1 n (Call start) (newf 0)) as [v1 g1|c1|x1];
    destruct (peval text2 re2 isalnum isalpha lower upper ic unsafe rules ec act lineat2 n (Call start) (newf 0)) as [v2 g2|c2|x2];
    cbn [RRl] in R; try contradiction; try exact R.
  destruct R as [-> Rf]. split; [reflexivity|apply Rf].
Qed.

(* ... and so do the two runs of the ENGINE (memo cache of any capacity, pruning, guards) on grammars without left recursion *)
Theorem layout_invariance_engine n start : P 0 0 ->
  (forall r rl, get_rule rules r = Some rl -> r_lrec rl = false) ->
  pparse_with text1 re1 isalnum isalpha lower upper ic unsafe rules ec act lineat1 n start <> Fatal OOF ->
  match fst (parse_with text1 re1 isalnum isalpha lower upper ic unsafe rules ec act lineat1 n start),
        fst (parse_with text2 re2 isalnum isalpha lower upper ic unsafe rules ec act lineat2 n start) with
  | Ok v1 f1, Ok v2 f2 => v1 = v2 /\ P (pos f1) (pos f2)
  | Fail c1, Fail c2 => c1 = c2
  | Fatal x, Fatal y => x = y
  | _, _ => False
  end.
Proof.
  intros P0 NL Hn. pose proof (layout_invariance_parse n start P0) as R. unfold pparse_with, parse_with in *.
  pose proof (memo_transparent text1 re1 isalnum isalpha lower upper ic unsafe rules ec act lineat1 NL n (Call start) (newf 0) Hn) as M1.
  assert (H2 : peval text2 re2 isalnum isalpha lower upper ic unsafe rules ec act lineat2 n (Call start) (newf 0) <> Fatal OOF).
  { intros Ho. rewrite Ho in R.
    destruct (peval text1 re1 isalnum isalpha lower upper ic unsafe rules ec act lineat1 n (Call start) (newf 0)) as [v g|c|x];
      try contradiction. subst x. apply Hn. reflexivity. }
  pose proof (memo_transparent text2 re2 isalnum isalpha lower upper ic unsafe rules ec act lineat2 NL n (Call start) (newf 0) H2) as M2.
  unfold feval. unfold peval in *. rewrite M1, M2. exact R.
Qed.

End Layout.

(* the hypotheses are satisfiable: the identity correspondence on one text *)
Example layout_identity text re isalnum isalpha lower ic :
  let P := fun a b : nat => a = b in
  (forall a b a' b', P a b -> P a' b' -> (a = a' <-> b = b')) /\
  (forall p1 p2, P p1 p2 -> match next_token text re ic p1, next_token text re ic p2 with
                            | Some q1, Some q2 => P q1 q2 | None, None => True | _, _ => False end) /\
  (forall t p1 p2, P p1 p2 -> match match_token text isalnum isalpha lower ic t p1, match_token text isalnum isalpha lower ic t p2 with
                              | Some q1, Some q2 => P q1 q2 | None, None => True | _, _ => False end).
Proof.
  cbv zeta. split; [|split].
  - intros a b a' b' -> ->. reflexivity.
  - intros p1 p2 ->. destruct (next_token text re ic p2); [reflexivity|exact I].
  - intros t p1 p2 ->. destruct (match_token text isalnum isalpha lower ic t p2); [reflexivity|exact I].
Qed.
