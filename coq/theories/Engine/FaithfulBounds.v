(* The faithful semantics (memo, seeds, seed growing) keeps every end position inside the text:
   memo entries and seeds only ever hold end positions between their key's position and the end of the text,
   a successful invocation ends there too, and therefore the seed-growing loop of a left-recursive rule
   runs at most (len text - pos + 2) rounds (C03 termination of the loop, C01 consumed bounds, C12 parseinfo bounds). *)
From Coq Require Import List NArith ZArith Arith Bool Lia.
From TatsuV Require Import Base.PyStr Engine.Value Engine.Syntax Engine.Input Engine.Engine Engine.Calls
     Engine.EngineRel Engine.InputProof Engine.BoundsState.
Import ListNotations.

Section FB.
Variable text : str.
Variable re_at : nat -> nat -> option (nat * str).
Variable isalnum isalpha : N -> bool.
Variable lower upper : N -> N.
Variable ic : icfg.
Variable unsafe : list str.
Variable rules : list rule.
Variable ec : ecfg.
Variable act : nat -> value -> aret.
Variable lineat : nat -> nat.
Hypothesis re_in_bounds : forall id pos n v, re_at id pos = Some (n, v) -> pos + n <= len text.

Notation L := (len text).

Definition entry_ok (e : key * outcome) : Prop :=
  match snd e with OOk _ np => fst (fst e) <= np <= L | _ => True end.
Definition TableOK (m : table) : Prop := Forall entry_ok m.
Definition StateOK (st : gstate) : Prop := TableOK (memos st) /\ TableOK (results st).

Lemma key_eqb_fst k k' : key_eqb k k' = true -> fst k = fst k'.
Proof. unfold key_eqb. intros H. apply andb_true_iff in H. destruct H as [H _]. apply Nat.eqb_eq in H. exact H. Qed.

Lemma lookup_ok m : TableOK m -> forall k node np, lookup m k = Some (OOk node np) -> fst k <= np <= L.
Proof.
  intros T. induction T as [|[k' o] m H T IH]; intros k node np E; cbn [lookup] in E; [discriminate|].
  destruct (key_eqb k k') eqn:K.
  - inversion E; subst. unfold entry_ok in H. cbn in H. rewrite (key_eqb_fst _ _ K). exact H.
  - eapply IH; exact E.
Qed.

Lemma filter_ok (p : key * outcome -> bool) m : TableOK m -> TableOK (filter p m).
Proof.
  intros T. induction T as [|e m H T IH]; cbn [filter]; [constructor|].
  destruct (p e); [constructor; assumption|exact IH].
Qed.

Lemma trim_ok cap m : TableOK m -> TableOK (trim cap m).
Proof.
  intros T. induction T as [|e m H T IH]; [cbn [trim length]; destruct (Nat.leb 0 cap); constructor|].
  cbn [trim]. destruct (Nat.leb (length (e :: m)) cap); [constructor; assumption|exact IH].
Qed.

Lemma insert_ok cap m k o : TableOK m -> entry_ok (k, o) -> TableOK (insert cap m k o).
Proof.
  intros T H. unfold insert. apply trim_ok. apply Forall_app. split.
  - unfold remove. apply filter_ok. exact T.
  - constructor; [exact H|constructor].
Qed.

Lemma set_memos_ok st m : StateOK st -> TableOK m -> StateOK (set_memos st m).
Proof. intros [_ R] T. split; [exact T|exact R]. Qed.
Lemma set_results_ok st m : StateOK st -> TableOK m -> StateOK (set_results st m).
Proof. intros [M _] T. split; [exact M|exact T]. Qed.
Lemma log_body_ok st r : StateOK st -> StateOK (log_body st r).
Proof. intros S. exact S. Qed.

Lemma memoize_ok rl st k o : StateOK st -> entry_ok (k, o) -> StateOK (memoize ec rl st k o).
Proof.
  intros S H. unfold memoize. destruct (memoizable rl && memoization ec); [|exact S].
  apply set_memos_ok; [exact S|]. apply insert_ok; [exact (proj1 S)|exact H].
Qed.

Lemma cut_ok f st : StateOK st -> StateOK (f_on_cut ec f st).
Proof.
  intros S. unfold f_on_cut. destruct (prune_on_cut ec); [|exact S].
  apply set_memos_ok; [exact S|]. unfold prune. apply filter_ok. exact (proj1 S).
Qed.

Notation TrS := (TrB text StateOK).

Definition PostR (p : nat) (rr : rres) (st : gstate) : Prop :=
  match rr with
  | ROk _ np => StateOK st /\ p <= np <= L
  | RFail => StateOK st
  | RFatal _ => True
  end.

Lemma rule_call_b (ev : @ev_t gstate) : TrS ev -> forall rl r k st rr st',
  StateOK st -> fst k <= L -> rule_call upper ic ec act lineat ev rl r k st = (rr, st') -> PostR (fst k) rr st'.
Proof.
  intros T rl r k st rr st' S H E. unfold rule_call in E.
  destruct (lookup (memos st) k) as [[node np| |]|] eqn:Lk.
  - inversion E; subst. cbn. split; [exact S|]. eapply lookup_ok; [exact (proj1 S)|exact Lk].
  - inversion E; subst. exact S.
  - inversion E; subst. exact S.
  - match type of E with context [ev (r_exp rl) ?fr ?s1] =>
      assert (S1 : StateOK s1) by (destruct (left_recursion ec); [apply memoize_ok; [exact S|exact I]|exact S]);
      destruct (ev (r_exp rl) fr s1) as [[v fb|c|x] st2] eqn:Eb end;
      assert (HP : pos (push (newf (fst k))) <= L) by (cbn; exact H).
    + destruct (trb_ok text StateOK ev T _ _ _ _ _ _ S1 HP Eb) as [S2 B2]. cbn in B2.
      unfold post_body in E.
      destruct (r_isname rl && is_keyword upper ic ec (fold fb)).
      * inversion E; subst. cbn. apply memoize_ok; [exact S2|exact I].
      * destruct (act r (fold fb)); inversion E; subst; cbn.
        -- split; [apply memoize_ok; [apply log_body_ok; exact S2|exact B2]|exact B2].
        -- split; [apply memoize_ok; [exact S2|exact B2]|exact B2].
        -- apply memoize_ok; [apply log_body_ok; exact S2|exact I].
        -- exact I.
    + inversion E; subst. cbn. apply memoize_ok; [|exact I].
      exact (trb_fail text StateOK ev T _ _ _ _ _ S1 HP Eb).
    + inversion E; subst. exact I.
Qed.

Lemma clear_ok st : StateOK st -> StateOK (set_memos st (clear_guards (memos st))).
Proof. intros S. apply set_memos_ok; [exact S|]. unfold clear_guards. apply filter_ok. exact (proj1 S). Qed.

Definition best_ok (p : nat) (best : rres) : Prop :=
  match best with ROk _ np => p <= np <= L | RFail => True | RFatal _ => False end.

Lemma grow_b (ev : @ev_t gstate) : TrS ev -> forall n rl r k lastpos best st rr st',
  StateOK st -> fst k <= L -> best_ok (fst k) best ->
  grow upper ic ec act lineat n ev rl r k lastpos best st = (rr, st') -> PostR (fst k) rr st'.
Proof.
  intros T n. induction n as [|n IH]; intros rl r k lastpos best st rr st' S H HB E; cbn [grow] in E.
  - inversion E; subst. exact I.
  - pose proof (clear_ok st S) as S0.
    destruct (rule_call upper ic ec act lineat ev rl r k (set_memos st (clear_guards (memos st)))) as [[node np| |x] st1] eqn:Er;
      pose proof (rule_call_b ev T _ _ _ _ _ _ S0 H Er) as R1; cbn [PostR] in R1.
    + destruct R1 as [S1 B1].
      destruct (match lastpos with Some lp => Nat.ltb lp np | None => true end).
      * eapply IH; [|exact H| |exact E].
        -- apply set_results_ok; [exact S1|]. apply insert_ok; [exact (proj2 S1)|exact B1].
        -- exact B1.
      * inversion E; subst. destruct rr as [nd q| |y]; cbn in *; [split; [exact S1|exact HB]|exact S1|destruct HB].
    + inversion E; subst. destruct rr as [nd q| |y]; cbn in *; [split; [exact R1|exact HB]|exact R1|destruct HB].
    + inversion E; subst. exact I.
Qed.

Lemma fcall_b n (ev : @ev_t gstate) : TrS ev -> forall r f st res st',
  StateOK st -> pos f <= L ->
  fcall text re_at upper ic rules ec act lineat n ev r f st = (res, st') -> PostB text StateOK (pos f) res st'.
Proof.
  intros T r f st res st' S H E. unfold fcall in E.
  destruct (get_rule rules r) as [rl|]; [|inversion E; subst; exact I].
  assert (NT : exists p, (if r_tokn rl then Some (pos f) else next_token text re_at ic (pos f)) = Some p /\ pos f <= p <= L).
  { destruct (r_tokn rl); [exists (pos f); split; [reflexivity|lia]|].
    destruct (next_token_total text re_at ic re_in_bounds (pos f) H) as [q [Eq Hq]]. exists q. split; assumption. }
  destruct NT as [p [Ep Hp]]. rewrite Ep in E.
  assert (RR : forall rr st1, (if r_lrec rl then recursive_call upper ic ec act lineat n ev rl r (p, r) st
                               else rule_call upper ic ec act lineat ev rl r (p, r) st) = (rr, st1) -> PostR p rr st1).
  { intros rr st1 Ec. destruct (r_lrec rl).
    - unfold recursive_call in Ec. destruct (negb (left_recursion ec)); [inversion Ec; subst; exact S|].
      destruct (lookup (results st) (p, r)) as [[node np| |]|] eqn:Lk.
      + inversion Ec; subst. cbn. split; [exact S|]. exact (lookup_ok _ (proj2 S) _ _ _ Lk).
      + inversion Ec; subst. exact S.
      + inversion Ec; subst. exact S.
      + refine (grow_b ev T _ _ _ (p, r) _ _ _ _ _ _ _ _ Ec); [|cbn; lia|exact I].
        apply set_results_ok; [exact S|]. apply insert_ok; [exact (proj2 S)|exact I].
    - refine (rule_call_b ev T _ _ (p, r) _ _ _ S _ Ec). cbn; lia. }
  destruct (if r_lrec rl then recursive_call upper ic ec act lineat n ev rl r (p, r) st
            else rule_call upper ic ec act lineat ev rl r (p, r) st) as [[node np| |x] st1] eqn:Ec;
    specialize (RR _ _ eq_refl); inversion E; subst; cbn in *.
  - destruct RR as [S1 B1]. split; [exact S1|lia].
  - exact RR.
  - exact I.
Qed.

Theorem feval_b n : TrS (feval text re_at isalnum isalpha lower upper ic unsafe rules ec act lineat n).
Proof.
  unfold feval. apply geval_trb.
  - exact re_in_bounds.
  - exact cut_ok.
  - intros k ev T r f st res st' S H E. eapply fcall_b; eassumption.
Qed.

Lemma state0_ok : StateOK gstate0.
Proof. split; constructor. Qed.

(* a successful parse consumes a prefix of the text, also with memoization, seeds and left recursion *)
Theorem parse_consumed_bounds n start v f' st :
  parse_with text re_at isalnum isalpha lower upper ic unsafe rules ec act lineat n start = (Ok v f', st) ->
  pos f' <= L.
Proof.
  unfold parse_with. intros E.
  assert (H0 : pos (newf 0) <= L) by (cbn; lia).
  pose proof (feval_b n _ _ _ _ _ state0_ok H0 E) as R. cbn in R. lia.
Qed.

(* ---- the seed-growing loop is bounded by the text: with more rounds available than positions remain,
        it never stops for lack of rounds ---- *)
Definition remaining (lastpos : option nat) : nat :=
  match lastpos with None => S (S L) | Some lp => S (L - lp) end.

Lemma grow_rounds (ev : @ev_t gstate) : TrS ev ->
  forall n rl r k lastpos best st rr st',
  StateOK st -> fst k <= L -> best_ok (fst k) best ->
  (forall st0 st1, rule_call upper ic ec act lineat ev rl r k st0 <> (RFatal OOF, st1)) ->
  remaining lastpos <= n ->
  grow upper ic ec act lineat n ev rl r k lastpos best st = (rr, st') -> rr <> RFatal OOF.
Proof.
  intros T n. induction n as [|n IH]; intros rl r k lastpos best st rr st' S H HB NOOF Hn E.
  - destruct lastpos; cbn in Hn; lia.
  - cbn [grow] in E. pose proof (clear_ok st S) as S0.
    destruct (rule_call upper ic ec act lineat ev rl r k (set_memos st (clear_guards (memos st)))) as [[node np| |x] st1] eqn:Er;
      pose proof (rule_call_b ev T _ _ _ _ _ _ S0 H Er) as R1; cbn [PostR] in R1.
    + destruct R1 as [S1 B1].
      destruct (match lastpos with Some lp => Nat.ltb lp np | None => true end) eqn:G.
      * eapply (IH rl r k (Some np)); [| exact H | | exact NOOF | | exact E].
        -- apply set_results_ok; [exact S1|]. apply insert_ok; [exact (proj2 S1)|exact B1].
        -- exact B1.
        -- destruct lastpos as [lp|]; cbn in *; [apply Nat.ltb_lt in G; lia|lia].
      * inversion E; subst. destruct rr as [nd q| |y]; try discriminate. destruct HB.
    + inversion E; subst. destruct rr as [nd q| |y]; try discriminate. destruct HB.
    + inversion E; subst. intros Heq. inversion Heq; subst. eapply NOOF. exact Er.
Qed.

End FB.

(* ---- C12: the parseinfo record a rule puts on its AST delimits exactly what the invocation consumed ---- *)
Section PInfo.
Variable text : str.
Variable re_at : nat -> nat -> option (nat * str).
Variable isalnum isalpha : N -> bool.
Variable lower upper : N -> N.
Variable ic : icfg.
Variable unsafe : list str.
Variable rules : list rule.
Variable ec : ecfg.
Variable act : nat -> value -> aret.
Variable lineat : nat -> nat.
Hypothesis re_in_bounds : forall id pos n v, re_at id pos = Some (n, v) -> pos + n <= len text.

(* a fresh invocation (memo miss) of a rule without action whose body yields an AST: the node returned carries, under both
   reserved keys, ParseInfo(rule, pos = where the body started, endpos = where it ended, line/endline of those two), the
   invocation ends exactly at endpos, and pos <= endpos <= len(text) *)
Theorem rule_call_parseinfo (ev : @ev_t gstate) rl r k st v fb st2 a :
  TrB text (StateOK text) ev -> StateOK text st -> fst k <= len text ->
  lookup (memos st) k = None ->
  ev (r_exp rl) (push (newf (fst k))) (if left_recursion ec then memoize ec rl st k OGuard else st) = (Ok v fb, st2) ->
  r_isname rl && is_keyword upper ic ec (fold fb) = false ->
  act r (fold fb) = ANone -> fold fb = VDict a -> ast_has a key_at = false -> parseinfo ec = true ->
  let info := VInfo r (fst k) (pos fb) (lineat (fst k)) (lineat (pos fb)) in
  let node := VDict (ast_put (ast_put a key_parseinfo info) key_parseinfo2 info) in
  rule_call upper ic ec act lineat ev rl r k st = (ROk node (pos fb), memoize ec rl st2 k (OOk node (pos fb)))
  /\ fst k <= pos fb <= len text.
Proof.
  intros T S H HL Hb Hk Ha Hf Hat Hp info node. split.
  - unfold rule_call. rewrite HL, Hb. unfold post_body. rewrite Hk, Ha. unfold with_parseinfo. rewrite Hp, Hf, Hat. reflexivity.
  - assert (S1 : StateOK text (if left_recursion ec then memoize ec rl st k OGuard else st))
      by (destruct (left_recursion ec); [apply memoize_ok; [exact S|exact I]|exact S]).
    assert (HP : pos (push (newf (fst k))) <= len text) by (cbn; exact H).
    destruct (trb_ok text (StateOK text) ev T _ _ _ _ _ _ S1 HP Hb) as [_ B]. cbn in B. exact B.
Qed.

End PInfo.
