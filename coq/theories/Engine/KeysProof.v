(* C01, the dict law: "a dict of the named elements with None/[] for names that did not match".
   (1) Names are never removed from the AST of a frame: every construct only adds keys (a unary invariant carried
       through every construct, like the position bounds of BoundsProof.v).
   (2) A sequence defines all the names that occur in it - also those inside optionals, closures and options that
       will not match - before it runs its first element, with [] for list names and None for the others.
   Hence after a successful sequence every name written in it is a key of the AST.  Proofs only. *)
From Coq Require Import List NArith ZArith Arith Bool Lia.
From TatsuV Require Import Base.PyStr Engine.Value Engine.Syntax Engine.Input Engine.Engine Engine.Calls
     Engine.EngineRel.
Import ListNotations.

(* ---- association lists ---- *)
Lemma ast_get_put_same a k v : ast_get (ast_put a k v) k = Some v.
Proof.
  induction a as [|[k0 v0] a IH]; cbn [ast_put ast_get].
  - rewrite str_eqb_refl. reflexivity.
  - destruct (str_eqb k k0) eqn:E; cbn [ast_get].
    + rewrite str_eqb_refl. reflexivity.
    + rewrite E. exact IH.
Qed.

Lemma ast_get_put_neq a k k' v : str_eqb k' k = false -> ast_get (ast_put a k v) k' = ast_get a k'.
Proof.
  intros H. induction a as [|[k0 v0] a IH]; cbn [ast_put ast_get].
  - rewrite H. reflexivity.
  - destruct (str_eqb k k0) eqn:E; cbn [ast_get].
    + apply str_eqb_eq in E. subst k0. rewrite H. reflexivity.
    + destruct (str_eqb k' k0); [reflexivity|exact IH].
Qed.

Lemma ast_has_put_same a k v : ast_has (ast_put a k v) k = true.
Proof. unfold ast_has. rewrite ast_get_put_same. reflexivity. Qed.

Lemma ast_has_put_keeps a k v k' : ast_has a k' = true -> ast_has (ast_put a k v) k' = true.
Proof.
  intros H. destruct (str_eqb k' k) eqn:E.
  - apply str_eqb_eq in E. subst. apply ast_has_put_same.
  - unfold ast_has in *. rewrite ast_get_put_neq; assumption.
Qed.

Definition keys_le (a b : ast) : Prop := forall k, ast_has a k = true -> ast_has b k = true.

Lemma keys_le_refl a : keys_le a a.
Proof. intros k H; exact H. Qed.

Lemma keys_le_trans a b c : keys_le a b -> keys_le b c -> keys_le a c.
Proof. intros H1 H2 k H. apply H2, H1, H. Qed.

Lemma keys_le_put a k v : keys_le a (ast_put a k v).
Proof. intros k' H. apply ast_has_put_keeps, H. Qed.

Lemma keys_le_set unsafe a k v : keys_le a (ast_set unsafe a k v).
Proof. unfold ast_set. apply keys_le_put. Qed.

Lemma keys_le_setlist unsafe a k v : keys_le a (ast_setlist unsafe a k v).
Proof. unfold ast_setlist. apply keys_le_put. Qed.

Lemma ast_has_set unsafe a k v : ast_has (ast_set unsafe a k v) (safekey unsafe k) = true.
Proof. unfold ast_set. apply ast_has_put_same. Qed.

Lemma ast_has_setlist unsafe a k v : ast_has (ast_setlist unsafe a k v) (safekey unsafe k) = true.
Proof. unfold ast_setlist. apply ast_has_put_same. Qed.

(* ---- ParseState.define ---- *)
Definition defstep (unsafe : list str) (d : value) (acc : ast) (k : str) : ast :=
  let k := safekey unsafe k in if ast_has acc k then acc else ast_put acc k d.

Lemma defstep_keeps unsafe d acc k : keys_le acc (defstep unsafe d acc k).
Proof. unfold defstep. destruct (ast_has acc (safekey unsafe k)); [apply keys_le_refl|apply keys_le_put]. Qed.

Lemma defstep_has unsafe d acc k : ast_has (defstep unsafe d acc k) (safekey unsafe k) = true.
Proof. unfold defstep. destruct (ast_has acc (safekey unsafe k)) eqn:E; [exact E|apply ast_has_put_same]. Qed.

Lemma fold_defstep_keeps unsafe d ks : forall acc, keys_le acc (fold_left (defstep unsafe d) ks acc).
Proof.
  induction ks as [|k ks IH]; intros acc; cbn [fold_left]; [apply keys_le_refl|].
  eapply keys_le_trans; [apply defstep_keeps|apply IH].
Qed.

Lemma fold_defstep_has unsafe d ks : forall acc k, In k ks ->
  ast_has (fold_left (defstep unsafe d) ks acc) (safekey unsafe k) = true.
Proof.
  induction ks as [|k0 ks IH]; intros acc k H; [contradiction|]. cbn [fold_left]. destruct H as [->|H].
  - apply fold_defstep_keeps, defstep_has.
  - apply IH, H.
Qed.

Lemma fold_put_keeps (l : list (str * value)) : forall acc,
  keys_le acc (fold_left (fun acc kv => ast_put acc (fst kv) (snd kv)) l acc).
Proof.
  induction l as [|[k v] l IH]; intros acc; cbn [fold_left]; [apply keys_le_refl|].
  eapply keys_le_trans; [apply keys_le_put|apply IH].
Qed.

Lemma fold_put_has (l : list (str * value)) : forall acc k,
  ast_has l k = true -> ast_has (fold_left (fun acc kv => ast_put acc (fst kv) (snd kv)) l acc) k = true.
Proof.
  induction l as [|[k0 v0] l IH]; intros acc k H; [discriminate|]. cbn [fold_left fst snd].
  unfold ast_has in H. cbn [ast_get] in H. destruct (str_eqb k k0) eqn:E.
  - apply str_eqb_eq in E. subst k0. apply fold_put_keeps, ast_has_put_same.
  - apply IH. exact H.
Qed.

Lemma ast_define_spec unsafe a keys list_keys :
  keys_le a (ast_define unsafe a keys list_keys) /\
  (forall k, In k keys -> ast_has (ast_define unsafe a keys list_keys) (safekey unsafe k) = true) /\
  (forall k, In k list_keys -> ast_has (ast_define unsafe a keys list_keys) (safekey unsafe k) = true).
Proof.
  unfold ast_define.
  change (fun acc k => let k0 := safekey unsafe k in if ast_has acc k0 then acc else ast_put acc k0 (VList false []))
    with (defstep unsafe (VList false [])).
  change (fun acc k => let k0 := safekey unsafe k in if ast_has acc k0 then acc else ast_put acc k0 VNone)
    with (defstep unsafe VNone).
  split; [|split].
  - intros k H. apply fold_put_has, H.
  - intros k H. apply fold_put_keeps, fold_defstep_has, H.
  - intros k H. apply fold_put_keeps, fold_defstep_keeps, fold_defstep_has, H.
Qed.

(* the defaults: a name that the AST did not hold yet starts as [] (list names) or None (the others) *)
Lemma fold_defstep_get_other unsafe d ks : forall acc k,
  (forall k0, In k0 ks -> str_eqb k (safekey unsafe k0) = false) ->
  ast_get (fold_left (defstep unsafe d) ks acc) k = ast_get acc k.
Proof.
  induction ks as [|k0 ks IH]; intros acc k H; cbn [fold_left]; [reflexivity|].
  rewrite IH by (intros k1 H1; apply H; right; exact H1).
  unfold defstep. destruct (ast_has acc (safekey unsafe k0)); [reflexivity|].
  apply ast_get_put_neq. apply H. left. reflexivity.
Qed.

Lemma fold_defstep_default unsafe d ks : forall acc k, In k ks -> ast_has acc (safekey unsafe k) = false ->
  ast_get (fold_left (defstep unsafe d) ks acc) (safekey unsafe k) = Some d.
Proof.
  induction ks as [|k0 ks IH]; intros acc k H Hn; [contradiction|]. cbn [fold_left].
  destruct (str_eqb (safekey unsafe k) (safekey unsafe k0)) eqn:E.
  - apply str_eqb_eq in E.
    assert (G : ast_get (defstep unsafe d acc k0) (safekey unsafe k) = Some d).
    { unfold defstep. rewrite <- E, Hn. apply ast_get_put_same. }
    (* later steps find the key present and leave it alone *)
    clear IH H. revert G. generalize (defstep unsafe d acc k0). induction ks as [|k1 ks IH2]; intros acc' G; [exact G|].
    cbn [fold_left]. apply IH2. unfold defstep.
    destruct (ast_has acc' (safekey unsafe k1)) eqn:E1; [exact G|].
    rewrite ast_get_put_neq; [exact G|].
    destruct (str_eqb (safekey unsafe k) (safekey unsafe k1)) eqn:E2; [|reflexivity].
    apply str_eqb_eq in E2. unfold ast_has in E1. rewrite <- E2, G in E1. discriminate.
  - destruct H as [->|H]; [rewrite str_eqb_refl in E; discriminate|].
    apply IH; [exact H|].
    unfold defstep. destruct (ast_has acc (safekey unsafe k0)); [exact Hn|].
    unfold ast_has. rewrite ast_get_put_neq by exact E. exact Hn.
Qed.

(* ---- the invariant through every construct ---- *)
Section Keys.
Variable text : str.
Variable re_at : nat -> nat -> option (nat * str).
Variable isalnum isalpha : N -> bool.
Variable lower : N -> N.
Variable ic : icfg.
Variable unsafe : list str.

Context {St : Type}.
Variable on_cut : frame -> St -> St.

Definition Grows (f f' : frame) : Prop := keys_le (fast f) (fast f').

Lemma grows_refl f : Grows f f.
Proof. apply keys_le_refl. Qed.

Lemma grows_trans f g h : Grows f g -> Grows g h -> Grows f h.
Proof. apply keys_le_trans. Qed.

Lemma grows_add_defined e f : Grows f (add_defined unsafe e f).
Proof. unfold Grows, add_defined. cbn [fast set_ast]. apply ast_define_spec. Qed.

Definition GoodK (ev : @ev_t St) : Prop :=
  forall e f st r f' st', ev e f st = (Ok r f', st') -> Grows f f'.

Lemma seq_go_k ev : GoodK ev -> forall es out f st r f' st',
  seq_go ev es out f st = (Ok r f', st') -> Grows f f'.
Proof.
  intros G es. induction es as [|e es IH]; intros out f st r f' st' E; cbn [seq_go] in E.
  - inversion E; subst. apply grows_refl.
  - destruct (ev e f st) as [[v f1|c|x] st1] eqn:E1; try discriminate.
    eapply grows_trans; [eapply G; exact E1|eapply IH; exact E].
Qed.

Lemma choice_go_k ev : GoodK ev -> forall es f st r f' st',
  choice_go unsafe ev es f st = (Ok r f', st') -> Grows f f'.
Proof.
  intros G es. induction es as [|e es IH]; intros f st r f' st' E; cbn [choice_go] in E; [discriminate|].
  destruct (ev e (add_defined unsafe e (push f)) st) as [[v f1|[|]|x] st1] eqn:E1; try discriminate.
  - inversion E; subst. pose proof (G _ _ _ _ _ _ E1) as B.
    unfold Grows in *. cbn [fast merge]. eapply keys_le_trans; [|exact B].
    exact (grows_add_defined e (push f)).
  - eapply IH; exact E.
Qed.

Lemma repeat_iter_k ev : GoodK ev -> forall e sep omitsep f st f' st',
  repeat_iter on_cut ev e sep omitsep f st = (IOk f', st') -> Grows f f'.
Proof.
  intros G e sep omitsep f st f' st' E. unfold repeat_iter in E.
  destruct sep as [s|]; [destruct (ev s (push (push f)) st) as [[v f4|c|x] st1] eqn:Es; [|destruct c; discriminate|discriminate]|];
  repeat match type of E with
         | context [match ?x with _ => _ end] => let D := fresh "D" in destruct x eqn:D; try discriminate
         | context [if ?b then _ else _] => destruct b eqn:?; try discriminate
         end;
    inversion E; subst;
    repeat match goal with
           | H : ev _ _ _ = (Ok _ _, _) |- _ => let B := fresh "B" in pose proof (G _ _ _ _ _ _ H) as B; clear H
           end;
    unfold Grows in *; cbn [fast merge append set_ast goto set_cut push] in *;
    first [assumption | eapply keys_le_trans; eassumption].
Qed.

Lemma repeat_go_k ev : GoodK ev -> forall k e sep omitsep f st r f' st',
  repeat_go on_cut k ev e sep omitsep f st = (Ok r f', st') -> Grows f f'.
Proof.
  intros G k. induction k as [|k IH]; intros e sep omitsep f st r f' st' E; cbn [repeat_go] in E; [discriminate|].
  destruct (repeat_iter on_cut ev e sep omitsep f st) as [[f1| | |x] st1] eqn:Ei; try discriminate.
  - eapply grows_trans; [eapply repeat_iter_k; eassumption|eapply IH; exact E].
  - inversion E; subst. apply grows_refl.
Qed.

Lemma rep_body_k ev : GoodK ev -> forall k e sep omitsep f st r f' st',
  rep_body on_cut k ev e sep omitsep f st = (Ok r f', st') -> Grows f f'.
Proof.
  intros G k e sep omitsep f st r f' st' E. unfold rep_body in E.
  destruct (ev e f st) as [[v f1|c|x] st1] eqn:E1; try discriminate.
  eapply grows_trans; [eapply G; exact E1|].
  pose proof (repeat_go_k ev G _ _ _ _ _ _ _ _ _ E) as B. exact B.
Qed.

Lemma rep_eval_k ev : GoodK ev -> forall k plus e sep omitsep f st r f' st',
  rep_eval on_cut k ev plus e sep omitsep f st = (Ok r f', st') -> Grows f f'.
Proof.
  intros G k plus e sep omitsep f st r f' st' E. unfold rep_eval in E. destruct plus.
  - destruct (rep_body on_cut k ev e sep omitsep (push f) st) as [[v f1|c|x] st1] eqn:Eb; try discriminate.
    inversion E; subst. pose proof (rep_body_k ev G _ _ _ _ _ _ _ _ _ Eb) as B. exact B.
  - destruct (rep_body on_cut k ev e sep omitsep (push (set_cst (push f) (VList false []))) st) as [[v f1|[|]|x] st1] eqn:Eb;
      try discriminate; inversion E; subst.
    + pose proof (rep_body_k ev G _ _ _ _ _ _ _ _ _ Eb) as B. exact B.
    + unfold Grows. cbn [fast merge set_cst push]. apply keys_le_refl.
Qed.

Lemma skipto_go_k ev : GoodK ev -> forall k e f st r f' st',
  skipto_go text re_at ic k ev e f st = (Ok r f', st') -> Grows f f'.
Proof.
  intros G k. induction k as [|k IH]; intros e f st r f' st' E; cbn [skipto_go] in E; [discriminate|].
  destruct (atend text (pos f)).
  - eapply G; exact E.
  - destruct (ev e (push f) st) as [[v f1|c|x] st1] eqn:E1; try discriminate.
    + eapply G; exact E.
    + destruct (next_token text re_at ic (pos f)) as [q|]; [|discriminate].
      pose proof (IH _ _ _ _ _ _ E) as B. exact B.
Qed.

Lemma leaf_k l f st r f' st' :
  leaf_eval text re_at isalnum isalpha lower ic on_cut l f st = (Ok r f', st') -> Grows f f'.
Proof.
  intros E. destruct l; cbn [leaf_eval] in E; unfold with_next_token in E;
    repeat match type of E with
           | context [match ?x with _ => _ end] => destruct x; try discriminate
           | context [if ?x then _ else _] => destruct x; try discriminate
           end;
    inversion E; subst; unfold Grows; cbn [fast append goto set_cut]; apply keys_le_refl.
Qed.

Ltac kr := unfold Grows; cbn [fast popf merge append goto set_cst set_cut set_ast push]; apply keys_le_refl.

Variable on_call : nat -> @ev_t St -> nat -> frame -> St -> res * St.
Hypothesis call_k : forall k ev r f st v f' st', on_call k ev r f st = (Ok v f', st') -> Grows f f'.
Notation gev := (geval text re_at isalnum isalpha lower ic unsafe on_cut on_call).

Theorem geval_k : forall n, GoodK (gev n).
Proof.
  induction n as [|n IH]; intros e f st r f' st' E; [rewrite geval_O in E; discriminate|].
  rewrite geval_S in E.
  destruct e as [l|es|es|e1|e1|e1|plus sep omitsep e1|neg e1|e1|lft e1|rr|il nm e1|il e1].
  - eapply leaf_k; exact E.
  - eapply grows_trans; [apply (grows_add_defined (Seq es) f)|eapply seq_go_k; [exact IH|exact E]].
  - eapply choice_go_k; [exact IH|exact E].
  - eapply IH; exact E.
  - destruct (gev n e1 (push f) st) as [[v f1|c|x] st1] eqn:E1; try discriminate.
    inversion E; subst. kr.
  - destruct (gev n e1 (add_defined unsafe (Opt e1) (push f)) st) as [[v f1|[|]|x] st1] eqn:E1; try discriminate.
    + inversion E; subst. pose proof (IH _ _ _ _ _ _ E1) as B. unfold Grows in *. cbn [fast merge].
      eapply keys_le_trans; [|exact B]. exact (grows_add_defined (Opt e1) (push f)).
    + inversion E; subst. kr.
  - eapply rep_eval_k; [exact IH|exact E].
  - destruct neg; destruct (gev n e1 (push f) st) as [[v f1|c|x] st1]; try discriminate; inversion E; subst; kr.
  - eapply skipto_go_k; [exact IH|exact E].
  - destruct (gev n e1 (push f) st) as [[v f1|c|x] st1] eqn:E1; try discriminate.
    inversion E; subst. pose proof (IH _ _ _ _ _ _ E1) as B. exact B.
  - eapply call_k; exact E.
  - destruct il; destruct (gev n e1 f st) as [[v f1|c|x] st1] eqn:E1; try discriminate;
      inversion E; subst; (eapply grows_trans; [eapply IH; exact E1|]); unfold Grows; cbn [fast set_ast];
      [apply keys_le_setlist|apply keys_le_set].
  - destruct il; destruct (gev n e1 f st) as [[v f1|c|x] st1] eqn:E1; try discriminate;
      inversion E; subst; (eapply grows_trans; [eapply IH; exact E1|]); unfold Grows; cbn [fast set_ast];
      apply keys_le_set.
Qed.

(* a named element that matched is a key afterwards *)
Theorem named_is_key n il nm e f st r f' st' :
  gev (S n) (Named il nm e) f st = (Ok r f', st') -> ast_has (fast f') (safekey unsafe nm) = true.
Proof.
  rewrite geval_S. destruct il; destruct (gev n e f st) as [[v f1|c|x] st1]; try discriminate;
    intros E; inversion E; subst; cbn [fast set_ast]; [apply ast_has_setlist|apply ast_has_set].
Qed.

(* THE DICT LAW: after a successful sequence EVERY name written in it - also inside optionals, closures, lookaheads and
   options that did not match - is a key of the AST *)
Theorem sequence_defines_all_names n es f st r f' st' :
  gev (S n) (Seq es) f st = (Ok r f', st') ->
  forall nm, In nm (def_single (Seq es)) \/ In nm (def_list (Seq es)) ->
  ast_has (fast f') (safekey unsafe nm) = true.
Proof.
  intros E nm H. rewrite geval_S in E.
  pose proof (seq_go_k _ (geval_k n) _ _ _ _ _ _ _ E) as B. apply B.
  unfold add_defined. cbn [fast set_ast].
  destruct (ast_define_spec unsafe (fast f)
              (filter (fun d => negb (mem_str d (def_list (Seq es)))) (def_single (Seq es))) (def_list (Seq es)))
    as [_ [HS HL]].
  destruct H as [H|H]; [|apply HL, H].
  destruct (mem_str nm (def_list (Seq es))) eqn:M.
  - unfold mem_str in M. apply existsb_exists in M. destruct M as [k [Hk Ek]]. apply str_eqb_eq in Ek. subst k. apply HL, Hk.
  - apply HS. apply filter_In. split; [exact H|]. rewrite M. reflexivity.
Qed.

End Keys.

(* ---- defaults: in a fresh frame, what `define` writes is [] for every list name and None or [] for every other name ---- *)
Definition AllDefault (a : ast) : Prop := forall k v, ast_get a k = Some v -> v = VNone \/ v = VList false [].

Lemma defstep_default unsafe d acc k : (d = VNone \/ d = VList false []) -> AllDefault acc -> AllDefault (defstep unsafe d acc k).
Proof.
  intros Hd H. unfold defstep. destruct (ast_has acc (safekey unsafe k)); [exact H|].
  intros k' v G. destruct (str_eqb k' (safekey unsafe k)) eqn:E.
  - apply str_eqb_eq in E. subst k'. rewrite ast_get_put_same in G. inversion G; subst. exact Hd.
  - rewrite ast_get_put_neq in G by exact E. eapply H; exact G.
Qed.

Lemma fold_defstep_alldefault unsafe d ks : (d = VNone \/ d = VList false []) -> forall acc,
  AllDefault acc -> AllDefault (fold_left (defstep unsafe d) ks acc).
Proof.
  intros Hd. induction ks as [|k ks IH]; intros acc H; cbn [fold_left]; [exact H|].
  apply IH, defstep_default; assumption.
Qed.

Lemma defstep_get_keeps unsafe d acc k0 k v : ast_get acc k = Some v -> ast_get (defstep unsafe d acc k0) k = Some v.
Proof.
  intros G. unfold defstep. destruct (ast_has acc (safekey unsafe k0)) eqn:E; [exact G|].
  rewrite ast_get_put_neq; [exact G|].
  destruct (str_eqb k (safekey unsafe k0)) eqn:E2; [|reflexivity].
  apply str_eqb_eq in E2. subst k. unfold ast_has in E. rewrite G in E. discriminate.
Qed.

Lemma fold_defstep_get_keeps unsafe d ks : forall acc k v,
  ast_get acc k = Some v -> ast_get (fold_left (defstep unsafe d) ks acc) k = Some v.
Proof.
  induction ks as [|k0 ks IH]; intros acc k v G; cbn [fold_left]; [exact G|].
  apply IH, defstep_get_keeps, G.
Qed.

Theorem define_fresh_defaults unsafe keys list_keys :
  AllDefault (ast_define unsafe [] keys list_keys) /\
  (forall k, In k list_keys -> ast_get (ast_define unsafe [] keys list_keys) (safekey unsafe k) = Some (VList false [])).
Proof.
  unfold ast_define. cbn [fold_left].
  change (fun acc k => let k0 := safekey unsafe k in if ast_has acc k0 then acc else ast_put acc k0 (VList false []))
    with (defstep unsafe (VList false [])).
  change (fun acc k => let k0 := safekey unsafe k in if ast_has acc k0 then acc else ast_put acc k0 VNone)
    with (defstep unsafe VNone).
  split.
  - apply fold_defstep_alldefault; [left; reflexivity|].
    apply fold_defstep_alldefault; [right; reflexivity|]. intros k v G. discriminate.
  - intros k H. apply fold_defstep_get_keeps. apply fold_defstep_default; [exact H|reflexivity].
Qed.

(* ---- instance: the clean semantics ---- *)
Section CleanKeys.
Variable text : str.
Variable re_at : nat -> nat -> option (nat * str).
Variable isalnum isalpha : N -> bool.
Variable lower upper : N -> N.
Variable ic : icfg.
Variable unsafe : list str.
Variable rules : list rule.
Variable ec : ecfg.
Variable act : nat -> value -> aret.
Variable lineat : nat -> nat.
Notation peval' := (peval text re_at isalnum isalpha lower upper ic unsafe rules ec act lineat).

Lemma pcall_k k (ev : @ev_t unit) r f st v f' st' :
  pcall text re_at upper ic rules ec act lineat k ev r f st = (Ok v f', st') -> Grows f f'.
Proof.
  unfold pcall. intros E.
  repeat match type of E with
         | context [match ?x with _ => _ end] => destruct x; try discriminate
         end;
  inversion E; subst; unfold Grows; cbn [fast append goto]; apply keys_le_refl.
Qed.

Theorem peval_keys_grow n e f r f' : peval' n e f = Ok r f' -> Grows f f'.
Proof.
  unfold peval. intros E.
  destruct (geval text re_at isalnum isalpha lower ic unsafe (fun _ u => u)
              (pcall text re_at upper ic rules ec act lineat) n e f tt) as [r0 []] eqn:G. cbn [fst] in E. subst r0.
  eapply (geval_k text re_at isalnum isalpha lower ic unsafe (fun _ u => u) _ pcall_k); exact G.
Qed.

Theorem peval_sequence_defines_all_names n es f r f' :
  peval' (S n) (Seq es) f = Ok r f' ->
  forall nm, In nm (def_single (Seq es)) \/ In nm (def_list (Seq es)) ->
  ast_has (fast f') (safekey unsafe nm) = true.
Proof.
  unfold peval. intros E.
  destruct (geval text re_at isalnum isalpha lower ic unsafe (fun _ u => u)
              (pcall text re_at upper ic rules ec act lineat) (S n) (Seq es) f tt) as [r0 []] eqn:G. cbn [fst] in E. subst r0.
  eapply (sequence_defines_all_names text re_at isalnum isalpha lower ic unsafe (fun _ u => u) _ pcall_k); exact G.
Qed.

(* the value of a rule whose body is a sequence with names and no override: a dict that holds every name of the body *)
Theorem sequence_rule_value_is_dict n es p r fb :
  peval' (S n) (Seq es) (push (newf p)) = Ok r fb ->
  (exists nm, In nm (def_single (Seq es)) \/ In nm (def_list (Seq es))) ->
  ast_get (fast fb) key_at = None ->
  fold fb = VDict (fast fb) /\
  forall nm, In nm (def_single (Seq es)) \/ In nm (def_list (Seq es)) -> ast_has (fast fb) (safekey unsafe nm) = true.
Proof.
  intros E [nm0 H0] Hk. pose proof (peval_sequence_defines_all_names _ _ _ _ _ E) as A. split; [|exact A].
  unfold fold. specialize (A nm0 H0). destruct (fast fb) as [|kv a]; [discriminate|]. rewrite Hk. reflexivity.
Qed.

(* the same for the engine as it runs (memo, seeds, seed-growing loop): whatever the call machinery does, the caller's frame
   only gets one more element - its names are untouched *)
Lemma fcall_k k (ev : @ev_t gstate) r f st v f' st' :
  fcall text re_at upper ic rules ec act lineat k ev r f st = (Ok v f', st') -> Grows f f'.
Proof.
  unfold fcall. intros E.
  destruct (get_rule rules r) as [rl|]; [|discriminate].
  destruct (if r_tokn rl then Some (pos f) else next_token text re_at ic (pos f)) as [p|]; [|discriminate].
  destruct (if r_lrec rl then recursive_call upper ic ec act lineat k ev rl r (p, r) st
            else rule_call upper ic ec act lineat ev rl r (p, r) st) as [[node np| |x] st1]; try discriminate.
  inversion E; subst. unfold Grows. cbn [fast append goto]. apply keys_le_refl.
Qed.

Theorem feval_sequence_defines_all_names n es f st r f' st' :
  feval text re_at isalnum isalpha lower upper ic unsafe rules ec act lineat (S n) (Seq es) f st = (Ok r f', st') ->
  forall nm, In nm (def_single (Seq es)) \/ In nm (def_list (Seq es)) ->
  ast_has (fast f') (safekey unsafe nm) = true.
Proof.
  unfold feval. intros E.
  eapply (sequence_defines_all_names text re_at isalnum isalpha lower ic unsafe _ _ fcall_k); exact E.
Qed.

End CleanKeys.
