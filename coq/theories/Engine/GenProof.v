(* C02: in the fragment where a named expression appends exactly one value, a generated parser binds the name
   to the same value as the model interpreter (last_node = the value returned). *)
From Coq Require Import List NArith ZArith Arith Bool Lia.
From TatsuV Require Import Base.PyStr Engine.Value Engine.Syntax Engine.Input Engine.Engine Engine.Gen Engine.Calls.
Import ListNotations.

Section GenFacts.
Variable text : str.
Variable re_at : nat -> nat -> option (nat * str).
Variable isalnum isalpha : N -> bool.
Variable lower : N -> N.
Variable ic : icfg.
Variable unsafe : list str.
Context {St : Type}.
Variable on_cut : frame -> St -> St.
Variable on_call : nat -> @ev_t St -> nat -> frame -> St -> res * St.
Notation gen := (geval_gen text re_at isalnum isalpha lower ic unsafe on_cut on_call).

(* a rule call appends the rule's value to the caller's frame (ParserEngine.call: state.append(result.node)) *)
Hypothesis call_appends : forall k ev r f st v f1 st1,
  on_call k ev r f st = (Ok v f1, st1) -> last f1 = v /\ cst f1 = cstadd (cst f) v.

Lemma cstadd_none v : cstadd VNone v = v.
Proof. reflexivity. Qed.

Lemma cstmerge_none v : cstmerge VNone v = v.
Proof. destruct v; reflexivity. Qed.

Lemma geval_gen_S n e f st :
  gen (S n) e f st =
    match e with
    | Leaf l => leaf_eval text re_at isalnum isalpha lower ic on_cut l f st
    | Seq es => seq_go (gen n) es VNone (add_defined unsafe e f) st
    | Choice es => choice_go_gen (gen n) es f st
    | Group e1 => gen n e1 f st
    | SkipGroup e1 =>
      match gen n e1 (push f) st with
      | (Ok _ f1, st1) => (Ok VNone (popf f f1), st1)
      | (Fail _, st1) => (Fail (cutseen f), st1)
      | (Fatal x, st1) => (Fatal x, st1)
      end
    | Opt e1 =>
      match gen n e1 (push f) st with
      | (Ok r f1, st1) => (Ok r (merge f f1), st1)
      | (Fail true, st1) => (Fail (cutseen f), st1)
      | (Fail false, st1) => (Ok VNone f, st1)
      | (Fatal x, st1) => (Fatal x, st1)
      end
    | Rep plus sep omitsep e1 => rep_eval on_cut n (gen n) plus e1 sep omitsep f st
    | Look false e1 =>
      match gen n e1 (push f) st with
      | (Ok r _, st1) => (Ok r f, st1)
      | (Fail _, st1) => (Fail (cutseen f), st1)
      | (Fatal x, st1) => (Fatal x, st1)
      end
    | Look true e1 =>
      match gen n e1 (push f) st with
      | (Ok _ _, st1) => (Fail (cutseen f), st1)
      | (Fail _, st1) => (Ok VNone f, st1)
      | (Fatal x, st1) => (Fatal x, st1)
      end
    | SkipTo e1 => skipto_go text re_at ic n (gen n) e1 f st
    | Assoc lft e1 =>
      match gen n e1 (push f) st with      (* a state scope of its own: the tree replaces the flat list there, then merges *)
      | (Ok r f1, st1) =>
        let v := (if lft then left_assoc else right_assoc) (list_items r) in
        (Ok v (merge f (set_cst f1 v)), st1)
      | (Fail _, st1) => (Fail (cutseen f), st1)
      | (Fatal x, st1) => (Fatal x, st1)
      end
    | Call r => on_call n (gen n) r f st
    | Named false nm e1 =>
      match gen n e1 f st with
      | (Ok r f1, st1) => (Ok r (set_ast f1 (ast_set unsafe (fast f1) nm (last f1))), st1)
      | other => other
      end
    | Named true nm e1 =>
      match gen n e1 f st with
      | (Ok r f1, st1) => (Ok r (set_ast f1 (ast_setlist unsafe (fast f1) nm (last f1))), st1)
      | other => other
      end
    | Over false e1 =>
      match gen n e1 f st with
      | (Ok r f1, st1) => (Ok r (set_ast f1 (ast_set unsafe (fast f1) key_at (last f1))), st1)
      | other => other
      end
    | Over true e1 =>
      match gen n e1 f st with
      | (Ok r f1, st1) => (Ok r (set_ast f1 (ast_setlist unsafe (fast f1) key_at (last f1))), st1)
      | other => other
      end
    end.
Proof. reflexivity. Qed.

Definition SA (ev : @ev_t St) : Prop :=
  forall e f st r f1 st1, single_append e = true -> ev e f st = (Ok r f1, st1) ->
    last f1 = r /\ (cst f = VNone -> cst f1 = r).

Lemma choice_go_gen_sa ev : SA ev -> forall es f st r f1 st1,
  forallb single_append es = true -> choice_go_gen ev es f st = (Ok r f1, st1) ->
  last f1 = r /\ (cst f = VNone -> cst f1 = r).
Proof.
  intros H es. induction es as [|e es IH]; intros f st r f1 st1 Hs E; cbn [choice_go_gen] in E; [discriminate|].
  cbn [forallb] in Hs. apply andb_true_iff in Hs. destruct Hs as [He Hes].
  destruct (ev e (push f) st) as [[v fo|[|]|x] sto] eqn:Ee; try discriminate.
  - inversion E; subst. destruct (H _ _ _ _ _ _ He Ee) as [_ Hc]. specialize (Hc eq_refl).
    cbn [merge last cst]. split; [exact Hc|]. intros Hf. rewrite Hf, Hc. apply cstmerge_none.
  - eapply IH; eassumption.
Qed.

Lemma rep_eval_sa k (ev : @ev_t St) plus e sep omitsep f st r f1 st1 :
  rep_eval on_cut k ev plus e sep omitsep f st = (Ok r f1, st1) ->
  last f1 = r /\ (cst f = VNone -> cst f1 = r).
Proof.
  unfold rep_eval. destruct plus.
  - destruct (rep_body on_cut k ev e sep omitsep (push f) st) as [[v fb|c|x] sb]; try discriminate.
    intros E; inversion E; subst. cbn. split; [reflexivity|]. intros ->. reflexivity.
  - destruct (rep_body on_cut k ev e sep omitsep (push (set_cst (push f) (VList false []))) st) as [[v fb|[|]|x] sb];
      try discriminate; intros E; inversion E; subst; cbn; (split; [reflexivity|]); intros ->; reflexivity.
Qed.

Lemma leaf_sa l f st r f1 st1 : single_append (Leaf l) = true ->
  leaf_eval text re_at isalnum isalpha lower ic on_cut l f st = (Ok r f1, st1) ->
  last f1 = r /\ (cst f = VNone -> cst f1 = r).
Proof.
  intros Hs E. destruct l; try discriminate; cbn [leaf_eval] in E; unfold with_next_token in E;
    repeat match type of E with
           | context [match ?x with _ => _ end] => destruct x; try discriminate
           | context [if ?x then _ else _] => destruct x; try discriminate
           end;
    inversion E; subst; cbn; (split; [reflexivity|]); intros ->; reflexivity.
Qed.

(* after a single-append expression, last_node is the value the expression returned *)
Theorem single_append_last : forall n, SA (gen n).
Proof.
  induction n as [|n IH]; intros e f st r f1 st1 Hs E; [cbn in E; discriminate|].
  rewrite geval_gen_S in E.
  destruct e as [l|es|es|e1|e1|e1|plus sep omitsep e1|neg e1|e1|lft e1|rr|il nm e1|il e1]; try discriminate.
  - eapply leaf_sa; eassumption.
  - eapply choice_go_gen_sa; eassumption.
  - cbn [single_append] in Hs. eapply IH; eassumption.
  - eapply rep_eval_sa; exact E.
  - destruct (gen n e1 (push f) st) as [[v f2|c|x] st2]; try discriminate.
    inversion E; subst. cbn [last merge cst set_cst]. split; [reflexivity|]. intros ->.
    destruct ((if lft then left_assoc else right_assoc) (list_items v)); reflexivity.
  - destruct (call_appends _ _ _ _ _ _ _ _ E) as [HL HC]. split; [exact HL|]. intros Hf. rewrite HC, Hf. reflexivity.
Qed.

(* hence a generated parser binds a name over such an expression to the value the expression returned -
   exactly what the model interpreter (Named._parse) binds *)
Corollary named_binds_returned_value n nm e f st r f1 st1 :
  single_append e = true -> gen n e f st = (Ok r f1, st1) ->
  gen (S n) (Named false nm e) f st = (Ok r (set_ast f1 (ast_set unsafe (fast f1) nm r)), st1).
Proof.
  intros Hs E. rewrite geval_gen_S, E. destruct (single_append_last n _ _ _ _ _ _ Hs E) as [HL _]. rewrite HL. reflexivity.
Qed.

(* outside the fragment the binding differs: a group of two elements binds the LAST element only *)
End GenFacts.

(* the faithful call handler appends the rule value *)
Lemma fcall_appends text re_at upper ic rules ec act lineat k (ev : @ev_t gstate) r f st v f1 st1 :
  fcall text re_at upper ic rules ec act lineat k ev r f st = (Ok v f1, st1) ->
  last f1 = v /\ cst f1 = cstadd (cst f) v.
Proof.
  unfold fcall. destruct (get_rule rules r) as [rl|]; [|discriminate].
  destruct (if r_tokn rl then Some (pos f) else next_token text re_at ic (pos f)) as [p|]; [|discriminate].
  destruct (if r_lrec rl then recursive_call upper ic ec act lineat k ev rl r (p, r) st
            else rule_call upper ic ec act lineat ev rl r (p, r) st) as [[node np| |x] st'];
    try discriminate.
  intros E; inversion E; subst. cbn. split; reflexivity.
Qed.

(* ---- a concrete divergence outside the fragment: n:('a' 'b') on "ab" ---- *)
Definition w_text : str := [97; 98]%N.
Definition w_ic : icfg := {| ws_re := None; cm_re := None; eol_re := None; nameguard := false; ignorecase := false; namechars := [] |}.
Definition w_ec : ecfg := {| memoization := true; left_recursion := true; prune_on_cut := true; memo_cap := 8; parseinfo := false; keywords := [] |}.
Definition w_rule (e : exp) : rule :=
  {| r_name := 0; r_exp := e; r_tokn := false; r_isname := false; r_nomemo := false; r_lrec := false; r_memo := true |}.
Definition w_exp : exp := Named false [110%N] (Group (Seq [Leaf (LTok [97%N]); Leaf (LTok [98%N])])).
Definition w_model := fst (parse_with w_text (fun _ _ => None) (fun _ => false) (fun _ => false) (fun c => c) (fun c => c)
                             w_ic [] [w_rule w_exp] w_ec (fun _ _ => ANone) (fun _ => 0) 20 0).
Definition w_generated := fst (genparse_with w_text (fun _ _ => None) (fun _ => false) (fun _ => false) (fun c => c) (fun c => c)
                             w_ic [] [w_rule w_exp] w_ec (fun _ _ => ANone) (fun _ => 0) 20 0).

Lemma generated_differs_outside_fragment :
  single_append (Group (Seq [Leaf (LTok [97%N]); Leaf (LTok [98%N])])) = false /\
  (exists f1 f2,
     w_model = Ok (VDict [([110%N], VList false [VStr [97%N]; VStr [98%N]])]) f1 /\
     w_generated = Ok (VDict [([110%N], VStr [98%N])]) f2).
Proof. split; [reflexivity|]. eexists. eexists. split; vm_compute; reflexivity. Qed.
