(* C06 / C11: semantic actions and the keyword check, at the rule-invocation level. *)
From Coq Require Import List NArith ZArith Arith Bool Lia.
From TatsuV Require Import Base.PyStr Engine.Value Engine.Syntax Engine.Input Engine.Engine Engine.Calls
     Engine.EngineRel Engine.EngineMono Engine.CleanLaws.
Import ListNotations.

Section Sem.
Variable text : str.
Variable re_at : nat -> nat -> option (nat * str).
Variable isalnum isalpha : N -> bool.
Variable lower upper : N -> N.
Variable ic : icfg.
Variable unsafe : list str.
Variable rules : list rule.
Variable ec : ecfg.
Variable lineat : nat -> nat.

Notation pcut := (fun (_ : frame) (u : unit) => u).
Notation pcallA act := (pcall text re_at upper ic rules ec act lineat).
Notation pevA act := (geval text re_at isalnum isalpha lower ic unsafe pcut (pcallA act)).
Notation pevalA act := (peval text re_at isalnum isalpha lower upper ic unsafe rules ec act lineat).
Notation ntok rl f := (if r_tokn rl then Some (pos f) else next_token text re_at ic (pos f)).

(* "no action" behaves as the action that returns its argument *)
Definition normalize (a : aret) (v : value) : aret := match a with ANone => ARet v | x => x end.
Definition act_equiv (act1 act2 : nat -> value -> aret) : Prop :=
  forall r v, normalize (act1 r v) v = normalize (act2 r v) v.

Lemma post_body_equiv act1 act2 rl r p fb : act_equiv act1 act2 ->
  fst (post_body upper ic ec act1 lineat rl r p fb) = fst (post_body upper ic ec act2 lineat rl r p fb).
Proof.
  intros H. unfold post_body. destruct (r_isname rl && is_keyword upper ic ec (fold fb)); [reflexivity|].
  specialize (H r (fold fb)). destruct (act1 r (fold fb)), (act2 r (fold fb)); cbn in H; inversion H; reflexivity.
Qed.

Lemma pcall_equiv act1 act2 : act_equiv act1 act2 ->
  forall k (ev1 ev2 : @ev_t unit), Rel (@eq unit) ev1 ev2 ->
  forall r f s1 s2 res s1', s1 = s2 -> pcallA act1 k ev1 r f s1 = (res, s1') -> res <> Fatal OOF ->
    exists s2', pcallA act2 k ev2 r f s2 = (res, s2') /\ okst res (s1' = s2').
Proof.
  intros HA k ev1 ev2 X r f s1 s2 res s1' -> E Hres. destruct s2, s1'.
  rewrite pcall_unfold in E. rewrite pcall_unfold.
  destruct (get_rule rules r) as [rl|]; [|exists tt; split; [exact E|destruct res; cbn; auto]].
  destruct (ntok rl f) as [p|]; [|exists tt; split; [exact E|destruct res; cbn; auto]].
  destruct (ev1 (r_exp rl) (push (newf p)) tt) as [rb sb] eqn:Eb.
  assert (Hrb : rb <> Fatal OOF) by (intros ->; inversion E; subst; apply Hres; reflexivity).
  destruct (X _ _ _ _ _ _ eq_refl Eb Hrb) as [s2 [E2 _]]. rewrite E2.
  destruct rb as [v fb|c|x]; try (exists tt; split; [exact E|destruct res; cbn; auto]).
  rewrite <- (post_body_equiv act1 act2 rl r p fb HA).
  exists tt; split; [exact E|destruct res; cbn; auto].
Qed.

Lemma pev_equiv act1 act2 : act_equiv act1 act2 -> forall n, Rel (@eq unit) (pevA act1 n) (pevA act2 n).
Proof.
  intros HA. induction n as [|n IH].
  - intros e f s1 s2 r s1' _ E Hr. rewrite geval_O in E. inversion E; subst. exfalso; apply Hr; reflexivity.
  - apply geval_step_rel; [intros f s1 s2 ->; reflexivity | lia | exact IH |].
    intros r f s1 s2 res s1' Hs E Hres. eapply pcall_equiv; eassumption.
Qed.

(* actions that return their argument are indistinguishable from no semantics *)
Theorem peval_action_equiv act1 act2 n e f : act_equiv act1 act2 ->
  pevalA act1 n e f <> Fatal OOF -> pevalA act2 n e f = pevalA act1 n e f.
Proof.
  intros HA H. unfold peval in *. destruct (pevA act1 n e f tt) as [r u] eqn:E. cbn [fst] in *.
  destruct (pev_equiv act1 act2 HA n e f tt tt r u eq_refl E H) as [s2 [E2 _]]. rewrite E2. reflexivity.
Qed.

Corollary identity_is_no_semantics n e f :
  pevalA (fun _ v => ARet v) n e f <> Fatal OOF ->
  pevalA (fun _ _ => ANone) n e f = pevalA (fun _ v => ARet v) n e f.
Proof. apply peval_action_equiv. intros r v. reflexivity. Qed.

Variable act : nat -> value -> aret.

(* what a rule invocation does with its body's value *)
Theorem call_outcome n r rl f p v fb :
  get_rule rules r = Some rl -> ntok rl f = Some p ->
  pevA act n (r_exp rl) (push (newf p)) tt = (Ok v fb, tt) ->
  pevalA act (S n) (Call r) f =
    if r_isname rl && is_keyword upper ic ec (fold fb) then Fail (cutseen f)       (* C11: a reserved word *)
    else match act r (fold fb) with
         | ANone => let node := with_parseinfo ec lineat (fold fb) r p (pos fb) in Ok node (append (goto f (pos fb)) node)
         | ARet w => let node := with_parseinfo ec lineat w r p (pos fb) in Ok node (append (goto f (pos fb)) node)
         | AFailed => Fail (cutseen f)                                             (* like a syntax mismatch *)
         | ARaise x => Fatal (Foreign x)                                           (* reaches the caller *)
         end.
Proof.
  intros Hrl Hp Hb. unfold peval. rewrite geval_S, pcall_unfold, Hrl, Hp, Hb. unfold post_body.
  destruct (r_isname rl && is_keyword upper ic ec (fold fb)); [reflexivity|].
  destruct (act r (fold fb)); reflexivity.
Qed.

(* the faithful engine remembers a semantic failure exactly like a mismatch, and nothing for a raised exception *)
Lemma rule_call_failed_semantics (ev : @ev_t gstate) rl r k st v fb st2 :
  lookup (memos st) k = None ->
  ev (r_exp rl) (push (newf (fst k))) (if left_recursion ec then memoize ec rl st k OGuard else st) = (Ok v fb, st2) ->
  r_isname rl && is_keyword upper ic ec (fold fb) = false ->
  act r (fold fb) = AFailed ->
  rule_call upper ic ec act lineat ev rl r k st = (RFail, memoize ec rl (log_body st2 r) k OFail).
Proof.
  intros HL Hb Hk Ha. unfold rule_call. rewrite HL, Hb. unfold post_body. rewrite Hk, Ha. reflexivity.
Qed.

(* @nomemo: nothing is ever stored for the rule, so every invocation runs the body and the action *)
Lemma nomemo_never_stored rl st k o : r_nomemo rl = true -> memoize ec rl st k o = st.
Proof. intros H. unfold memoize, memoizable. rewrite H. rewrite andb_false_r. reflexivity. Qed.

End Sem.

(* ---- C04: enabling parse information only ADDS the two reserved entries (at the rule-invocation level) ---- *)
Section PInfoAdds.
Variable upper : N -> N.
Variable ic : icfg.
Variable lineat : nat -> nat.

Definition with_pinfo (ec : ecfg) (b : bool) : ecfg :=
  {| memoization := memoization ec; left_recursion := left_recursion ec; prune_on_cut := prune_on_cut ec;
     memo_cap := memo_cap ec; parseinfo := b; keywords := keywords ec |}.

Definition reserved (k : str) : bool := str_eqb k key_parseinfo || str_eqb k key_parseinfo2.

Lemma ast_get_put_other a k k' v : str_eqb k k' = false -> ast_get (ast_put a k' v) k = ast_get a k.
Proof.
  intros H. induction a as [|[k0 v0] a IH]; cbn [ast_put ast_get].
  - rewrite H. reflexivity.
  - destruct (str_eqb k' k0) eqn:E0; cbn [ast_get].
    + rewrite H. destruct (str_eqb k k0) eqn:E1; [|reflexivity].
      apply str_eqb_eq in E0. apply str_eqb_eq in E1. subst. rewrite str_eqb_refl in H. discriminate.
    + destruct (str_eqb k k0); [reflexivity|exact IH].
Qed.

(* what differs between the two configurations after a successful body: nothing but the two reserved keys of a dict node;
   the keyword check, the action call (same argument: the AST without parse information), success/failure, the end position
   and whether the action ran are the same *)
Theorem post_body_parseinfo_only_adds ec act rl r p fb :
  let on := post_body upper ic (with_pinfo ec true) act lineat rl r p fb in
  let off := post_body upper ic (with_pinfo ec false) act lineat rl r p fb in
  snd on = snd off /\
  match fst on, fst off with
  | ROk n1 p1, ROk n2 p2 =>
      p1 = p2 /\
      match n2 with
      | VDict a2 => exists a1, n1 = VDict a1 /\ forall k, reserved k = false -> ast_get a1 k = ast_get a2 k
      | _ => n1 = n2
      end
  | RFail, RFail => True
  | RFatal x, RFatal y => x = y
  | _, _ => False
  end.
Proof.
  cbv zeta. unfold post_body. cbn [keywords with_pinfo].
  unfold is_keyword. cbn [keywords with_pinfo].
  destruct (r_isname rl && match fold fb with
                          | VStr s => if ignorecase ic then mem_str (map upper s) (map (map upper) (keywords ec)) else mem_str s (keywords ec)
                          | _ => false end); [split; [reflexivity|exact I]|].
  destruct (act r (fold fb)) as [v| | |e]; cbn [fst snd]; (split; [reflexivity|]); try exact I; try reflexivity.
  - unfold with_parseinfo. cbn [parseinfo with_pinfo]. split; [reflexivity|].
    destruct v as [| | | | | |a| |]; try reflexivity.
    destruct (ast_has a key_at); [eexists; split; [reflexivity|]; intros; reflexivity|].
    eexists. split; [reflexivity|]. intros k Hk. unfold reserved in Hk. apply orb_false_iff in Hk. destruct Hk as [H1 H2].
    rewrite ast_get_put_other by exact H2. rewrite ast_get_put_other by exact H1. reflexivity.
  - unfold with_parseinfo. cbn [parseinfo with_pinfo]. split; [reflexivity|].
    destruct (fold fb) as [| | | | | |a| |]; try reflexivity.
    destruct (ast_has a key_at); [eexists; split; [reflexivity|]; intros; reflexivity|].
    eexists. split; [reflexivity|]. intros k Hk. unfold reserved in Hk. apply orb_false_iff in Hk. destruct Hk as [H1 H2].
    rewrite ast_get_put_other by exact H2. rewrite ast_get_put_other by exact H1. reflexivity.
Qed.

End PInfoAdds.
