(* Semantic-action oracles used by the correspondence runs: a small family of deterministic
   semantics objects, mirrored by Python classes in harness/enginelib.py.  Model only. *)
From Coq Require Import List NArith ZArith Arith Bool.
From TatsuV Require Import Base.PyStr Engine.Value Engine.Calls.
Import ListNotations.

Inductive sem_kind :=
| SNone                         (* no method for this rule *)
| SIdentity                     (* returns its argument *)
| STag                          (* returns ('tag', rule index, ast) *)
| SFailIf (s : str)             (* raises FailedSemantics when the ast is the string s, else identity *)
| SRaiseIf (s : str) (exn : nat)(* raises exception class #exn when the ast is the string s, else identity *)
| SConst (v : value)            (* returns a constant *)
| SWrap                         (* returns [ast]: a plain Python list holding the argument *)
| SFailSize (n : nat).          (* raises FailedSemantics when the ast holds at least n leaves, else identity *)

Definition is_vstr (v : value) (s : str) : bool :=
  match v with VStr t => str_eqb s t | _ => false end.

(* number of leaves of a value (strings, numbers, ...), through lists, tuples, dict values and tags *)
Fixpoint vsize (v : value) : nat :=
  match v with
  | VTuple l => (fix go (l : list value) := match l with [] => 0 | x :: t => vsize x + go t end) l
  | VList _ l => (fix go (l : list value) := match l with [] => 0 | x :: t => vsize x + go t end) l
  | VDict kv => (fix go (l : list (str * value)) := match l with [] => 0 | (_, x) :: t => vsize x + go t end) kv
  | VTag _ l => (fix go (l : list value) := match l with [] => 0 | x :: t => vsize x + go t end) l
  | _ => 1
  end.

Definition act_kind (k : sem_kind) (r : nat) (v : value) : aret :=
  match k with
  | SNone => ANone
  | SIdentity => ARet v
  | STag => ARet (VTag (N.of_nat r) [v])
  | SFailIf s => if is_vstr v s then AFailed else ARet v
  | SRaiseIf s x => if is_vstr v s then ARaise x else ARet v
  | SConst c => ARet c
  | SWrap => ARet (VList false [v])
  | SFailSize n => if Nat.leb n (vsize v) then AFailed else ARet v
  end.

(* per-rule methods, with `_default` for the rest *)
Definition act_of (methods : list (nat * sem_kind)) (dflt : sem_kind) (r : nat) (v : value) : aret :=
  let fix find l := match l with
                    | [] => dflt
                    | (r', k) :: l' => if Nat.eqb r r' then k else find l'
                    end in
  act_kind (find methods) r v.
