(* Values produced by parsing (contexts/cst.py, contexts/ast.py).  Model only, no proofs. *)
From Coq Require Import List NArith ZArith Arith Bool.
From TatsuV Require Import Base.PyStr.
Import ListNotations.

Inductive value :=
| VNone
| VStr (s : str)
| VInt (z : Z)
| VBool (b : bool)
| VTuple (l : list value)                (* () of Void; tuples built by semantic actions *)
| VList (closed : bool) (l : list value) (* closed = cst.closedlist; open = plain list *)
| VDict (kv : list (str * value))        (* contexts.ast.AST, insertion ordered *)
| VInfo (rule : nat) (pos endpos : nat) (line endline : nat)  (* ParseInfo, stored under a reserved key *)
| VTag (tag : N) (l : list value).       (* opaque constructor for values made by semantic actions *)

Definition VUnit := VTuple [].

(* cst.islist: a list that is not a closedlist *)
Definition islist (v : value) : bool :=
  match v with VList false _ => true | _ => false end.

Definition isnone (v : value) : bool :=
  match v with VNone => true | _ => false end.

Definition list_items (v : value) : list value :=
  match v with VList _ l => l | _ => [] end.

(* cst.cstfinal *)
Definition cstfinal (v : value) : value :=
  match v with VList false l => VList true l | _ => v end.

(* cst.cstadd *)
Definition cstadd (cst node : value) : value :=
  match cst with
  | VNone => node
  | VList false l => VList false (l ++ [node])
  | _ => VList false [cst; node]
  end.

(* cst.cstaddlist *)
Definition cstaddlist (cst node : value) : value :=
  match cst with
  | VNone => VList false [node]
  | VList false l => VList false (l ++ [node])
  | _ => VList false [cst; node]
  end.

(* cst.cstmerge *)
Definition cstmerge (cst other : value) : value :=
  match other with
  | VNone => cst
  | _ =>
    match cst with
    | VNone => other
    | VList false l =>
      match other with
      | VList false m => VList false (l ++ m)
      | _ => VList false (l ++ [other])
      end
    | _ =>
      match other with
      | VList false m => VList false (cst :: m)
      | _ => VList false [cst; other]
      end
    end
  end.

(* util.abctools.left_assoc / right_assoc over the flat result [e1; op; e2; op; e3 ...] of a positive join: plain (open)
   lists [op; left; right]; one element stands for itself; nothing gives ().  A trailing operator without its right
   operand cannot come out of a join (the code would raise StopIteration); the model stops there. *)
Fixpoint left_assoc_go (acc : value) (l : list value) : value :=
  match l with
  | op :: e :: l' => left_assoc_go (VList false [op; acc; e]) l'
  | _ => acc
  end.
Definition left_assoc (l : list value) : value :=
  match l with [] => VTuple [] | e :: l' => left_assoc_go e l' end.

Fixpoint right_assoc_go (fuel : nat) (l : list value) : value :=
  match fuel with
  | O => VTuple []
  | S fuel' =>
    match l with
    | [] => VTuple []
    | [e] => e
    | [e; _] => e
    | e :: op :: l' => VList false [op; e; right_assoc_go fuel' l']
    end
  end.
Definition right_assoc (l : list value) : value := right_assoc_go (S (length l)) l.

(* ---- AST: an association list; dict semantics (update in place, append new keys) ---- *)
Definition ast := list (str * value).

Fixpoint ast_get (a : ast) (k : str) : option value :=
  match a with
  | [] => None
  | (k', v) :: a' => if str_eqb k k' then Some v else ast_get a' k
  end.

Definition ast_has (a : ast) (k : str) : bool :=
  match ast_get a k with Some _ => true | None => false end.

Fixpoint ast_put (a : ast) (k : str) (v : value) : ast :=
  match a with
  | [] => [(k, v)]
  | (k', v') :: a' => if str_eqb k k' then (k, v) :: a' else (k', v') :: ast_put a' k v
  end.

Definition mem_str (k : str) (l : list str) : bool := existsb (str_eqb k) l.

(* AST._safekey: append '_' while the key is an attribute name of dict; `unsafe` is that list.
   Fuel: the unsafe names are finitely many, |unsafe|+1 rounds suffice. *)
Fixpoint safekey_f (fuel : nat) (unsafe : list str) (k : str) : str :=
  match fuel with
  | O => k
  | S fuel' => if mem_str k unsafe then safekey_f fuel' unsafe (k ++ [95%N]) else k
  end.
Definition safekey (unsafe : list str) (k : str) : str := safekey_f (S (length unsafe)) unsafe k.

(* AST._set / AST.__setitem__ : cstadd on the existing entry *)
Definition ast_set (unsafe : list str) (a : ast) (k : str) (node : value) : ast :=
  let k := safekey unsafe k in
  let old := match ast_get a k with Some v => v | None => VNone end in
  ast_put a k (cstadd old node).

(* AST._setlist *)
Definition ast_setlist (unsafe : list str) (a : ast) (k : str) (node : value) : ast :=
  let k := safekey unsafe k in
  let old := match ast_get a k with Some v => v | None => VNone end in
  ast_put a k (cstaddlist old node).

(* ParseState.define: a new AST with [] for the list keys and None for the other keys, then
   updated with the current one *)
Definition ast_define (unsafe : list str) (a : ast) (keys list_keys : list str) : ast :=
  let a1 := fold_left (fun acc k => let k := safekey unsafe k in
                                    if ast_has acc k then acc else ast_put acc k (VList false []))
                      list_keys [] in
  let a2 := fold_left (fun acc k => let k := safekey unsafe k in
                                    if ast_has acc k then acc else ast_put acc k VNone)
                      keys a1 in
  fold_left (fun acc kv => ast_put acc (fst kv) (snd kv)) a a2.

(* the reserved keys *)
Definition key_at : str := [95; 95; 118; 97; 108; 108; 117; 101; 95; 95]%N.          (* "__vallue__" *)
