(* C09: facts about the input layer (next_token, match) and where the engine calls it. *)
From Coq Require Import List NArith Arith Bool Lia.
From TatsuV Require Import Base.PyStr Engine.Value Engine.Syntax Engine.Input Engine.Engine.
Import ListNotations.

Section InputFacts.
Variable text : str.
Variable re_at : nat -> nat -> option (nat * str).
Variable isalnum isalpha : N -> bool.
Variable lower : N -> N.
Variable c : icfg.

Notation ntok := (next_token text re_at c).

(* one round of next_token's loop *)
Definition round (pos : nat) : option nat :=
  match eat text re_at (ws_re c) pos with
  | None => None
  | Some (p1, _) =>
    match eol_loop text re_at c (S (S (len text))) p1 with
    | None => None
    | Some p2 =>
      match eat text re_at (cm_re c) p2 with
      | None => None
      | Some (p3, _) => Some p3
      end
    end
  end.

Lemma next_token_f_S fuel pos :
  next_token_f text re_at c (S fuel) pos =
    match round pos with
    | None => None
    | Some p3 => if Nat.eqb p3 pos then Some p3 else next_token_f text re_at c fuel p3
    end.
Proof.
  unfold round. cbn [next_token_f].
  destruct (eat text re_at (ws_re c) pos) as [[p1 b1]|]; [|reflexivity].
  destruct (eol_loop text re_at c (S (S (len text))) p1) as [p2|]; [|reflexivity].
  destruct (eat text re_at (cm_re c) p2) as [[p3 b3]|]; reflexivity.
Qed.

(* the position next_token returns is a fixpoint of one round: nothing more can be skipped there *)
Lemma next_token_f_fix fuel : forall pos q, next_token_f text re_at c fuel pos = Some q -> round q = Some q.
Proof.
  induction fuel as [|fuel IH]; intros pos q H; [discriminate|].
  rewrite next_token_f_S in H. destruct (round pos) as [p3|] eqn:R; [|discriminate].
  destruct (Nat.eqb p3 pos) eqn:E.
  - apply Nat.eqb_eq in E. inversion H; subst. exact R.
  - eapply IH. exact H.
Qed.

(* skipping whitespace and comments is idempotent *)
Theorem next_token_idempotent pos q : ntok pos = Some q -> ntok q = Some q.
Proof.
  unfold next_token. intros H. apply next_token_f_fix in H.
  rewrite next_token_f_S, H, Nat.eqb_refl. reflexivity.
Qed.

(* nameguard: an alphanumeric token does not match when the next character is a name character *)
Theorem nameguard_blocks tok pos ch :
  tok <> [] -> nameguard c = true -> is_name isalnum isalpha c tok = true ->
  char_at text (Nat.min (len text) (pos + length tok)) = Some ch -> is_name_char isalnum c ch = true ->
  match_token text isalnum isalpha lower c tok pos = None.
Proof.
  intros Hne Hg Hn Hc Hnc. unfold match_token. destruct tok as [|t0 tl]; [congruence|].
  match goal with |- (if ?b then _ else _) = _ => destruct b end; [|reflexivity].
  rewrite Hg, Hc, Hnc, Hn. reflexivity.
Qed.

(* with nameguard off (or a token that is not a name) only the text decides *)
Theorem nameguard_off_matches tok pos :
  tok <> [] -> nameguard c = false -> ignorecase c = false ->
  (match_token text isalnum isalpha lower c tok pos <> None <-> slice text pos (length tok) = tok).
Proof.
  intros Hne Hg Hi. unfold match_token. destruct tok as [|t0 tl]; [congruence|]. rewrite Hi, Hg. cbn [andb].
  destruct (str_eqb (slice text pos (length (t0 :: tl))) (t0 :: tl)) eqn:E.
  - apply str_eqb_eq in E. split; [intros _; exact E|intros _; discriminate].
  - split; [intros H; exfalso; apply H; reflexivity|].
    intros H. rewrite H, str_eqb_refl in E. discriminate.
Qed.

Theorem non_name_token_unaffected tok pos :
  is_name isalnum isalpha c tok = false ->
  match_token text isalnum isalpha lower c tok pos =
  match_token text isalnum isalpha lower
    {| ws_re := ws_re c; cm_re := cm_re c; eol_re := eol_re c; nameguard := false;
       ignorecase := ignorecase c; namechars := namechars c |} tok pos.
Proof.
  intros Hn. unfold match_token. destruct tok as [|t0 tl]; [reflexivity|]. cbn [ignorecase nameguard].
  match goal with |- (if ?b then _ else _) = _ => destruct b end; [|reflexivity].
  assert (E : is_name isalnum isalpha
                {| ws_re := ws_re c; cm_re := cm_re c; eol_re := eol_re c; nameguard := false;
                   ignorecase := ignorecase c; namechars := namechars c |} (t0 :: tl)
              = is_name isalnum isalpha c (t0 :: tl)) by reflexivity.
  rewrite Hn. rewrite !andb_false_r. cbn [andb]. reflexivity.
Qed.

(* ignorecase: tokens are compared case-folded, patterns are untouched (the regex oracle does not see it) *)
Theorem ignorecase_patterns_untouched id pos :
  match_re text re_at id pos = match_re text re_at id pos.
Proof. reflexivity. Qed.

End InputFacts.

(* where whitespace is skipped: before tokens, constants, void, fail and the end-of-text check -
   never before patterns or the any-character expression *)
Section Placement.
Variable text : str.
Variable re_at : nat -> nat -> option (nat * str).
Variable isalnum isalpha : N -> bool.
Variable lower : N -> N.
Variable ic : icfg.
Context {St : Type}.
Variable on_cut : frame -> St -> St.
Notation leafev := (leaf_eval text re_at isalnum isalpha lower ic on_cut).

Definition skips_ws (l : leaf) : bool :=
  match l with LTok _ | LConst _ | LVoid | LFail | LEOF => true | _ => false end.

(* a leaf that skips whitespace gives the same result (up to the position recorded on failure) whether or
   not the whitespace in front of it was already skipped *)
Theorem ws_skipped_before l f st q :
  skips_ws l = true -> next_token text re_at ic (pos f) = Some q ->
  leafev l f st = leafev l (goto f q) st.
Proof.
  intros Hs Hq. pose proof (next_token_idempotent text re_at ic _ _ Hq) as Hi.
  destruct l; try discriminate; cbn [leaf_eval]; unfold with_next_token; cbn [pos goto];
    rewrite Hq, Hi; reflexivity.
Qed.

(* patterns and the any-character expression look at the text exactly where the cursor is *)
Theorem pattern_never_skips id f st :
  leafev (LPat id) f st =
    match re_at id (pos f) with
    | Some (n, v) => (Ok (VStr v) (append (goto f (Nat.min (len text) (pos f + n))) (VStr v)), st)
    | None => (Fail (cutseen f), st)
    end.
Proof. cbn [leaf_eval]. unfold match_re. destruct (re_at id (pos f)) as [[n v]|]; reflexivity. Qed.

Theorem dot_never_skips f st :
  leafev LDot f st =
    match nth_error text (pos f) with
    | Some ch => (Ok (VStr [ch]) (append (goto f (S (pos f))) (VStr [ch])), st)
    | None => (Fail (cutseen f), st)
    end.
Proof. reflexivity. Qed.

End Placement.

(* ---- skipping whitespace and comments always terminates ---- *)
Section Termination.
Variable text : str.
Variable re_at : nat -> nat -> option (nat * str).
Variable c : icfg.
(* the regex oracle is a real matcher: a match lies inside the text *)
Hypothesis re_in_bounds : forall id pos n v, re_at id pos = Some (n, v) -> pos + n <= len text.

Lemma eat_f_total fuel : forall id pos, len text - pos < fuel ->
  exists p b, eat_f text re_at fuel id pos = Some (p, b) /\ pos <= p /\ (b = true -> pos < p /\ pos < len text).
Proof.
  induction fuel as [|fuel IH]; intros id pos H; [lia|]. cbn [eat_f].
  destruct (re_at id pos) as [[n v]|] eqn:E.
  - destruct n as [|n].
    + exists pos, false. repeat split; try lia; discriminate.
    + pose proof (re_in_bounds _ _ _ _ E) as B.
      replace (Nat.min (len text) (pos + S n)) with (pos + S n) by lia.
      destruct (IH id (pos + S n) ltac:(lia)) as [q [b [Eq [Hle _]]]]. rewrite Eq.
      exists q, true. split; [reflexivity|]. split; lia.
  - exists pos, false. repeat split; try lia; discriminate.
Qed.

Lemma eat_total oid pos :
  exists p b, eat text re_at oid pos = Some (p, b) /\ pos <= p /\ (b = true -> pos < p /\ pos < len text).
Proof.
  unfold eat. destruct oid as [id|].
  - apply eat_f_total. lia.
  - exists pos, false. repeat split; try lia; discriminate.
Qed.

Lemma eol_loop_total fuel : forall pos, len text - pos < fuel ->
  exists p, eol_loop text re_at c fuel pos = Some p /\ pos <= p.
Proof.
  induction fuel as [|fuel IH]; intros pos H; [lia|]. cbn [eol_loop].
  destruct (eat_total (eol_re c) pos) as [p [b [E [Hle Hlt]]]]. rewrite E.
  destruct b.
  - destruct (Hlt eq_refl) as [Hlt1 Hlt2].
    destruct (eat_total (ws_re c) p) as [p' [b' [E' [Hle' _]]]]. rewrite E'.
    destruct (IH p' ltac:(lia)) as [q [Eq Hq]]. exists q. split; [exact Eq|lia].
  - exists p. split; [reflexivity|exact Hle].
Qed.

Lemma round_total pos : exists p, round text re_at c pos = Some p /\ pos <= p.
Proof.
  unfold round.
  destruct (eat_total (ws_re c) pos) as [p1 [b1 [E1 [H1 _]]]]. rewrite E1.
  destruct (eol_loop_total (S (S (len text))) p1 ltac:(lia)) as [p2 [E2 H2]]. rewrite E2.
  destruct (eat_total (cm_re c) p2) as [p3 [b3 [E3 [H3 _]]]]. rewrite E3.
  exists p3. split; [reflexivity|lia].
Qed.

Lemma round_bounded pos p : round text re_at c pos = Some p -> pos <= len text -> p <= len text.
Proof.
  (* every position produced by eat is either the start or the end of a match inside the text *)
  assert (EF : forall fuel id q r b, eat_f text re_at fuel id q = Some (r, b) -> q <= len text -> r <= len text).
  { induction fuel as [|fuel IH]; intros id q r b E Hq; [discriminate|]. cbn [eat_f] in E.
    destruct (re_at id q) as [[n v]|] eqn:R.
    - destruct n as [|n]; [inversion E; subst; exact Hq|].
      pose proof (re_in_bounds _ _ _ _ R) as B.
      replace (Nat.min (len text) (q + S n)) with (q + S n) in E by lia.
      destruct (eat_f text re_at fuel id (q + S n)) as [[r' b']|] eqn:E'; [|discriminate].
      inversion E; subst. eapply IH; [exact E'|lia].
    - inversion E; subst. exact Hq. }
  assert (EA : forall oid q r b, eat text re_at oid q = Some (r, b) -> q <= len text -> r <= len text).
  { intros [id|] q r b E Hq; unfold eat in E; [eapply EF; eassumption|inversion E; subst; exact Hq]. }
  assert (EL : forall fuel q r, eol_loop text re_at c fuel q = Some r -> q <= len text -> r <= len text).
  { induction fuel as [|fuel IH]; intros q r E Hq; [discriminate|]. cbn [eol_loop] in E.
    destruct (eat text re_at (eol_re c) q) as [[p0 b]|] eqn:E1; [|discriminate].
    pose proof (EA _ _ _ _ E1 Hq) as Hp. destruct b; [|inversion E; subst; exact Hp].
    destruct (eat text re_at (ws_re c) p0) as [[p' b']|] eqn:E2; [|discriminate].
    eapply IH; [exact E|]. eapply EA; eassumption. }
  unfold round. intros E Hpos.
  destruct (eat text re_at (ws_re c) pos) as [[p1 b1]|] eqn:E1; [|discriminate].
  destruct (eol_loop text re_at c (S (S (len text))) p1) as [p2|] eqn:E2; [|discriminate].
  destruct (eat text re_at (cm_re c) p2) as [[p3 b3]|] eqn:E3; [|discriminate].
  inversion E; subst. eapply EA; [exact E3|]. eapply EL; [exact E2|]. eapply EA; eassumption.
Qed.

Lemma next_token_f_total fuel : forall pos, pos <= len text -> len text - pos < fuel ->
  exists q, next_token_f text re_at c fuel pos = Some q /\ pos <= q <= len text.
Proof.
  induction fuel as [|fuel IH]; intros pos Hb H; [lia|].
  rewrite next_token_f_S. destruct (round_total pos) as [p [R Hp]]. rewrite R.
  pose proof (round_bounded _ _ R Hb) as Hpb.
  destruct (Nat.eqb p pos) eqn:E.
  - apply Nat.eqb_eq in E. subst p. exists pos. split; [reflexivity|lia].
  - apply Nat.eqb_neq in E. destruct (IH p Hpb ltac:(lia)) as [q [Eq Hq]]. exists q. split; [exact Eq|lia].
Qed.

(* next_token never hangs and never moves backwards or past the end of the text *)
Theorem next_token_total pos : pos <= len text ->
  exists q, next_token text re_at c pos = Some q /\ pos <= q <= len text.
Proof. intros H. unfold next_token. apply next_token_f_total; [exact H|lia]. Qed.

End Termination.
