(* Relational lemmas about the generic evaluator: if two element evaluators are related (equal results,
   related global states, as long as the first does not run out of fuel), so are all the higher-order
   helpers built on them.  Instances: fuel monotonicity (same state type, equality) and the
   memoization simulation (unit vs gstate, memo invariant). *)
From Coq Require Import List NArith ZArith Arith Bool Lia.
From TatsuV Require Import Base.PyStr Engine.Value Engine.Syntax Engine.Input Engine.Engine.
Import ListNotations.

Definition okst (r : res) (P : Prop) : Prop := match r with Fatal _ => True | _ => P end.
Definition okit (it : iter) (P : Prop) : Prop := match it with IFatal _ => True | _ => P end.

Lemma okst_nonfatal r (P : Prop) : (forall x, r <> Fatal x) -> okst r P -> P.
Proof. destruct r; cbn; auto. intros H _. exfalso. eapply H. reflexivity. Qed.

Section Rel.
Variable text : str.
Variable re_at : nat -> nat -> option (nat * str).
Variable isalnum isalpha : N -> bool.
Variable lower : N -> N.
Variable ic : icfg.
Variable unsafe : list str.

Context {St1 St2 : Type}.
Variable RS : St1 -> St2 -> Prop.
Variable cut1 : frame -> St1 -> St1.
Variable cut2 : frame -> St2 -> St2.
Hypothesis cut_rel : forall f s1 s2, RS s1 s2 -> RS (cut1 f s1) (cut2 f s2).

Definition Rel (ev1 : @ev_t St1) (ev2 : @ev_t St2) : Prop :=
  forall e f s1 s2 r s1', RS s1 s2 -> ev1 e f s1 = (r, s1') -> r <> Fatal OOF ->
    exists s2', ev2 e f s2 = (r, s2') /\ okst r (RS s1' s2').

Ltac oof_absurd H := exfalso; apply H; reflexivity.

Lemma seq_go_rel ev1 ev2 : Rel ev1 ev2 ->
  forall es out f s1 s2 r s1', RS s1 s2 ->
    seq_go ev1 es out f s1 = (r, s1') -> r <> Fatal OOF ->
    exists s2', seq_go ev2 es out f s2 = (r, s2') /\ okst r (RS s1' s2').
Proof.
  intros X es. induction es as [|e es IH]; intros out f s1 s2 r s1' HR E Hr; cbn [seq_go] in *.
  - inversion E; subst. exists s2. split; [reflexivity|first [exact HR | exact I]].
  - destruct (ev1 e f s1) as [r1 s1a] eqn:E1.
    assert (Hr1 : r1 <> Fatal OOF).
    { intros ->. inversion E; subst. oof_absurd Hr. }
    destruct (X _ _ _ _ _ _ HR E1 Hr1) as [s2a [E2 HR2]]. rewrite E2.
    destruct r1 as [v f1|c|k].
    + eapply IH; eassumption.
    + inversion E; subst. exists s2a. split; [reflexivity|first [exact HR2 | exact I]].
    + inversion E; subst. exists s2a. split; [reflexivity|first [exact HR2 | exact I]].
Qed.

Lemma choice_go_rel ev1 ev2 : Rel ev1 ev2 ->
  forall es f s1 s2 r s1', RS s1 s2 ->
    choice_go unsafe ev1 es f s1 = (r, s1') -> r <> Fatal OOF ->
    exists s2', choice_go unsafe ev2 es f s2 = (r, s2') /\ okst r (RS s1' s2').
Proof.
  intros X es. induction es as [|e es IH]; intros f s1 s2 r s1' HR E Hr; cbn [choice_go] in *.
  - inversion E; subst. exists s2. split; [reflexivity|first [exact HR | exact I]].
  - destruct (ev1 e (add_defined unsafe e (push f)) s1) as [r1 s1a] eqn:E1.
    assert (Hr1 : r1 <> Fatal OOF).
    { intros ->. inversion E; subst. oof_absurd Hr. }
    destruct (X _ _ _ _ _ _ HR E1 Hr1) as [s2a [E2 HR2]]. rewrite E2.
    destruct r1 as [v f1|[|]|k].
    + inversion E; subst. exists s2a. split; [reflexivity|first [exact HR2 | exact I]].
    + inversion E; subst. exists s2a. split; [reflexivity|first [exact HR2 | exact I]].
    + eapply IH; eassumption.
    + inversion E; subst. exists s2a. split; [reflexivity|first [exact HR2 | exact I]].
Qed.

(* repeat_iter: the iteration result type has its own fatal carrier *)
Lemma repeat_iter_rel ev1 ev2 : Rel ev1 ev2 ->
  forall e sep omitsep f s1 s2 it s1', RS s1 s2 ->
    repeat_iter cut1 ev1 e sep omitsep f s1 = (it, s1') -> it <> IFatal OOF ->
    exists s2', repeat_iter cut2 ev2 e sep omitsep f s2 = (it, s2') /\ okit it (RS s1' s2').
Proof.
  intros X e sep omitsep f s1 s2 it s1' HR E Hit. unfold repeat_iter in *.
  destruct sep as [s|].
  - destruct (ev1 s (push (push f)) s1) as [rs s1a] eqn:Es.
    assert (Hrs : rs <> Fatal OOF).
    { intros ->. inversion E; subst. oof_absurd Hit. }
    destruct (X _ _ _ _ _ _ HR Es Hrs) as [s2a [Es2 HR2]]. rewrite Es2.
    destruct rs as [v f4|c|k].
    + cbn [okst] in HR2.
      match type of E with context [ev1 e ?F (cut1 ?G s1a)] =>
        destruct (ev1 e F (cut1 G s1a)) as [re s1b] eqn:Ee;
        assert (Hre : re <> Fatal OOF) by (intros ->; inversion E; subst; oof_absurd Hit);
        destruct (X _ _ _ _ _ _ (cut_rel G _ _ HR2) Ee Hre) as [s2b [Ee2 HR3]]
      end.
      rewrite Ee2.
      destruct re as [v5 f5|c5|k5];
        repeat match type of E with context [if ?b then _ else _] => destruct b end;
        inversion E; subst; exists s2b; (split; [reflexivity|first [exact HR3 | exact I]]).
    + destruct c; inversion E; subst; exists s2a; (split; [reflexivity|first [exact HR2 | exact I]]).
    + inversion E; subst. exists s2a. split; [reflexivity|first [exact HR2 | exact I]].
  - destruct (ev1 e (push (push f)) s1) as [re s1b] eqn:Ee.
    assert (Hre : re <> Fatal OOF).
    { intros ->. inversion E; subst. oof_absurd Hit. }
    destruct (X _ _ _ _ _ _ HR Ee Hre) as [s2b [Ee2 HR3]]. rewrite Ee2.
    destruct re as [v5 f5|c5|k5];
      repeat match type of E with context [if ?b then _ else _] => destruct b end;
      inversion E; subst; exists s2b; (split; [reflexivity|first [exact HR3 | exact I]]).
Qed.

Lemma repeat_go_rel ev1 ev2 : Rel ev1 ev2 ->
  forall k1 k2 e sep omitsep f s1 s2 r s1', k1 <= k2 -> RS s1 s2 ->
    repeat_go cut1 k1 ev1 e sep omitsep f s1 = (r, s1') -> r <> Fatal OOF ->
    exists s2', repeat_go cut2 k2 ev2 e sep omitsep f s2 = (r, s2') /\ okst r (RS s1' s2').
Proof.
  intros X k1. induction k1 as [|k1 IH]; intros k2 e sep omitsep f s1 s2 r s1' Hk HR E Hr.
  - cbn in E. inversion E; subst. oof_absurd Hr.
  - destruct k2 as [|k2]; [lia|]. cbn [repeat_go] in *.
    destruct (repeat_iter cut1 ev1 e sep omitsep f s1) as [it s1a] eqn:Ei.
    assert (Hit : it <> IFatal OOF).
    { intros ->. inversion E; subst. oof_absurd Hr. }
    destruct (repeat_iter_rel _ _ X _ _ _ _ _ _ _ _ HR Ei Hit) as [s2a [Ei2 HR2]]. rewrite Ei2.
    destruct it as [f'| | |x].
    + eapply IH; try eassumption. lia.
    + inversion E; subst. exists s2a. split; [reflexivity|first [exact HR2 | exact I]].
    + inversion E; subst. exists s2a. split; [reflexivity|first [exact HR2 | exact I]].
    + inversion E; subst. exists s2a. split; [reflexivity|first [exact HR2 | exact I]].
Qed.

Lemma rep_body_rel ev1 ev2 : Rel ev1 ev2 ->
  forall k1 k2 e sep omitsep f s1 s2 r s1', k1 <= k2 -> RS s1 s2 ->
    rep_body cut1 k1 ev1 e sep omitsep f s1 = (r, s1') -> r <> Fatal OOF ->
    exists s2', rep_body cut2 k2 ev2 e sep omitsep f s2 = (r, s2') /\ okst r (RS s1' s2').
Proof.
  intros X k1 k2 e sep omitsep f s1 s2 r s1' Hk HR E Hr. unfold rep_body in *.
  destruct (ev1 e f s1) as [r1 s1a] eqn:E1.
  assert (Hr1 : r1 <> Fatal OOF).
  { intros ->. inversion E; subst. oof_absurd Hr. }
  destruct (X _ _ _ _ _ _ HR E1 Hr1) as [s2a [E2 HR2]]. rewrite E2.
  destruct r1 as [v f1|c|k].
  - eapply repeat_go_rel; eassumption.
  - inversion E; subst. exists s2a. split; [reflexivity|first [exact HR2 | exact I]].
  - inversion E; subst. exists s2a. split; [reflexivity|first [exact HR2 | exact I]].
Qed.

Lemma rep_eval_rel ev1 ev2 : Rel ev1 ev2 ->
  forall k1 k2 plus e sep omitsep f s1 s2 r s1', k1 <= k2 -> RS s1 s2 ->
    rep_eval cut1 k1 ev1 plus e sep omitsep f s1 = (r, s1') -> r <> Fatal OOF ->
    exists s2', rep_eval cut2 k2 ev2 plus e sep omitsep f s2 = (r, s2') /\ okst r (RS s1' s2').
Proof.
  intros X k1 k2 plus e sep omitsep f s1 s2 r s1' Hk HR E Hr. unfold rep_eval in *.
  destruct plus.
  - destruct (rep_body cut1 k1 ev1 e sep omitsep (push f) s1) as [r1 s1a] eqn:E1.
    assert (Hr1 : r1 <> Fatal OOF).
    { intros ->. inversion E; subst. oof_absurd Hr. }
    destruct (rep_body_rel _ _ X _ _ _ _ _ _ _ _ _ _ Hk HR E1 Hr1) as [s2a [E2 HR2]]. rewrite E2.
    destruct r1 as [v f1|c|k]; inversion E; subst; exists s2a; (split; [reflexivity|first [exact HR2 | exact I]]).
  - destruct (rep_body cut1 k1 ev1 e sep omitsep (push (set_cst (push f) (VList false []))) s1) as [r1 s1a] eqn:E1.
    assert (Hr1 : r1 <> Fatal OOF).
    { intros ->. inversion E; subst. oof_absurd Hr. }
    destruct (rep_body_rel _ _ X _ _ _ _ _ _ _ _ _ _ Hk HR E1 Hr1) as [s2a [E2 HR2]]. rewrite E2.
    destruct r1 as [v f1|[|]|k]; inversion E; subst; exists s2a; (split; [reflexivity|first [exact HR2 | exact I]]).
Qed.

Lemma skipto_go_rel ev1 ev2 : Rel ev1 ev2 ->
  forall k1 k2 e f s1 s2 r s1', k1 <= k2 -> RS s1 s2 ->
    skipto_go text re_at ic k1 ev1 e f s1 = (r, s1') -> r <> Fatal OOF ->
    exists s2', skipto_go text re_at ic k2 ev2 e f s2 = (r, s2') /\ okst r (RS s1' s2').
Proof.
  intros X k1. induction k1 as [|k1 IH]; intros k2 e f s1 s2 r s1' Hk HR E Hr.
  - cbn in E. inversion E; subst. oof_absurd Hr.
  - destruct k2 as [|k2]; [lia|]. cbn [skipto_go] in *.
    destruct (atend text (pos f)).
    + eapply X; eassumption.
    + destruct (ev1 e (push f) s1) as [r1 s1a] eqn:E1.
      assert (Hr1 : r1 <> Fatal OOF).
      { intros ->. inversion E; subst. oof_absurd Hr. }
      destruct (X _ _ _ _ _ _ HR E1 Hr1) as [s2a [E2 HR2]]. rewrite E2.
      destruct r1 as [v f1|c|k].
      * eapply X; eassumption.
      * destruct (next_token text re_at ic (pos f)) as [p|].
        -- eapply IH; try eassumption. lia.
        -- inversion E; subst. exists s2a. split; [reflexivity|first [exact HR2 | exact I]].
      * inversion E; subst. exists s2a. split; [reflexivity|first [exact HR2 | exact I]].
Qed.

Lemma leaf_eval_rel l f s1 s2 r s1' : RS s1 s2 ->
  leaf_eval text re_at isalnum isalpha lower ic cut1 l f s1 = (r, s1') ->
  exists s2', leaf_eval text re_at isalnum isalpha lower ic cut2 l f s2 = (r, s2') /\ okst r (RS s1' s2').
Proof.
  intros HR E. destruct l; cbn [leaf_eval] in *; unfold with_next_token in *;
    repeat match type of E with
           | context [match ?x with _ => _ end] => destruct x
           | context [if ?x then _ else _] => destruct x
           end;
    inversion E; subst; eexists; (split; [reflexivity|]); cbn [okst]; try exact HR; try exact I.
  apply cut_rel. exact HR.
Qed.

End Rel.

Section Unfold.
Variable text : str.
Variable re_at : nat -> nat -> option (nat * str).
Variable isalnum isalpha : N -> bool.
Variable lower : N -> N.
Variable ic : icfg.
Variable unsafe : list str.
Context {St : Type}.
Variable on_cut : frame -> St -> St.
Variable on_call : nat -> @ev_t St -> nat -> frame -> St -> res * St.
Notation gev := (geval text re_at isalnum isalpha lower ic unsafe on_cut on_call).

Lemma geval_O e f st : gev 0 e f st = (Fatal OOF, st).
Proof. reflexivity. Qed.

Lemma geval_S n e f st :
  gev (S n) e f st =
    match e with
    | Leaf l => leaf_eval text re_at isalnum isalpha lower ic on_cut l f st
    | Seq es => seq_go (gev n) es VNone (add_defined unsafe e f) st
    | Choice es => choice_go unsafe (gev n) es f st
    | Group e1 => gev n e1 f st
    | SkipGroup e1 =>
      match gev n e1 (push f) st with
      | (Ok _ f1, st1) => (Ok VNone (popf f f1), st1)
      | (Fail _, st1) => (Fail (cutseen f), st1)
      | (Fatal x, st1) => (Fatal x, st1)
      end
    | Opt e1 =>
      match gev n e1 (add_defined unsafe e (push f)) st with
      | (Ok r f1, st1) => (Ok r (merge f f1), st1)
      | (Fail true, st1) => (Fail (cutseen f), st1)
      | (Fail false, st1) => (Ok VNone f, st1)
      | (Fatal x, st1) => (Fatal x, st1)
      end
    | Rep plus sep omitsep e1 => rep_eval on_cut n (gev n) plus e1 sep omitsep f st
    | Look false e1 =>
      match gev n e1 (push f) st with
      | (Ok _ _, st1) => (Ok VNone f, st1)
      | (Fail _, st1) => (Fail (cutseen f), st1)
      | (Fatal x, st1) => (Fatal x, st1)
      end
    | Look true e1 =>
      match gev n e1 (push f) st with
      | (Ok _ _, st1) => (Fail (cutseen f), st1)
      | (Fail _, st1) => (Ok VNone f, st1)
      | (Fatal x, st1) => (Fatal x, st1)
      end
    | SkipTo e1 => skipto_go text re_at ic n (gev n) e1 f st
    | Assoc lft e1 =>
      match gev n e1 (push f) st with      (* a state scope of its own: the tree replaces the flat list there, then merges *)
      | (Ok r f1, st1) =>
        let v := (if lft then left_assoc else right_assoc) (list_items r) in
        (Ok v (merge f (set_cst f1 v)), st1)
      | (Fail _, st1) => (Fail (cutseen f), st1)
      | (Fatal x, st1) => (Fatal x, st1)
      end
    | Call r => on_call n (gev n) r f st
    | Named false nm e1 =>
      match gev n e1 f st with
      | (Ok r f1, st1) => (Ok r (set_ast f1 (ast_set unsafe (fast f1) nm r)), st1)
      | other => other
      end
    | Named true nm e1 =>
      match gev n e1 f st with
      | (Ok r f1, st1) => (Ok r (set_ast f1 (ast_setlist unsafe (fast f1) nm r)), st1)
      | other => other
      end
    | Over false e1 =>
      match gev n e1 f st with
      | (Ok r f1, st1) =>
        (Ok (VDict [(key_at, r)]) (set_ast f1 (ast_set unsafe (fast f1) key_at r)), st1)
      | other => other
      end
    | Over true e1 =>
      match gev n e1 f st with
      | (Ok r f1, st1) =>
        let r' := if ast_has (fast f1) key_at then r else VList false [r] in
        (Ok (VDict [(key_at, r')]) (set_ast f1 (ast_set unsafe (fast f1) key_at r')), st1)
      | other => other
      end
    end.
Proof. reflexivity. Qed.
End Unfold.

(* one level of the evaluator: related sub-evaluators and related call handlers give related evaluators *)
Section Step.
Variable text : str.
Variable re_at : nat -> nat -> option (nat * str).
Variable isalnum isalpha : N -> bool.
Variable lower : N -> N.
Variable ic : icfg.
Variable unsafe : list str.
Context {St1 St2 : Type}.
Variable RS : St1 -> St2 -> Prop.
Variable cut1 : frame -> St1 -> St1.
Variable cut2 : frame -> St2 -> St2.
Hypothesis cut_rel : forall f s1 s2, RS s1 s2 -> RS (cut1 f s1) (cut2 f s2).
Variable oc1 : nat -> @ev_t St1 -> nat -> frame -> St1 -> res * St1.
Variable oc2 : nat -> @ev_t St2 -> nat -> frame -> St2 -> res * St2.
Notation gev1 := (geval text re_at isalnum isalpha lower ic unsafe cut1 oc1).
Notation gev2 := (geval text re_at isalnum isalpha lower ic unsafe cut2 oc2).

Lemma geval_step_rel n1 n2 : n1 <= n2 ->
  Rel RS (gev1 n1) (gev2 n2) ->
  (forall r f s1 s2 res s1', RS s1 s2 -> oc1 n1 (gev1 n1) r f s1 = (res, s1') -> res <> Fatal OOF ->
     exists s2', oc2 n2 (gev2 n2) r f s2 = (res, s2') /\ okst res (RS s1' s2')) ->
  Rel RS (gev1 (S n1)) (gev2 (S n2)).
Proof.
  intros Hn X XC e f s1 s2 r s1' HR E Hr.
  rewrite geval_S in E. rewrite geval_S.
  destruct e as [l|es|es|e1|e1|e1|plus sep omitsep e1|neg e1|e1|lft e1|rr|il nm e1|il e1].
  - eapply leaf_eval_rel; eassumption.
  - eapply seq_go_rel; eassumption.
  - eapply choice_go_rel; eassumption.
  - eapply X; eassumption.
  - destruct (gev1 n1 e1 (push f) s1) as [r1 s1a] eqn:E1.
    assert (Hr1 : r1 <> Fatal OOF) by (intros ->; inversion E; subst; apply Hr; reflexivity).
    destruct (X _ _ _ _ _ _ HR E1 Hr1) as [s2a [E2 HR2]]. rewrite E2.
    destruct r1 as [v f1|c|k]; inversion E; subst; exists s2a; (split; [reflexivity|first [exact HR2 | exact I]]).
  - destruct (gev1 n1 e1 (add_defined unsafe (Opt e1) (push f)) s1) as [r1 s1a] eqn:E1.
    assert (Hr1 : r1 <> Fatal OOF) by (intros ->; inversion E; subst; apply Hr; reflexivity).
    destruct (X _ _ _ _ _ _ HR E1 Hr1) as [s2a [E2 HR2]]. rewrite E2.
    destruct r1 as [v f1|[|]|k]; inversion E; subst; exists s2a; (split; [reflexivity|first [exact HR2 | exact I]]).
  - eapply rep_eval_rel; eassumption.
  - destruct neg.
    + destruct (gev1 n1 e1 (push f) s1) as [r1 s1a] eqn:E1.
      assert (Hr1 : r1 <> Fatal OOF) by (intros ->; inversion E; subst; apply Hr; reflexivity).
      destruct (X _ _ _ _ _ _ HR E1 Hr1) as [s2a [E2 HR2]]. rewrite E2.
      destruct r1 as [v f1|c|k]; inversion E; subst; exists s2a; (split; [reflexivity|first [exact HR2 | exact I]]).
    + destruct (gev1 n1 e1 (push f) s1) as [r1 s1a] eqn:E1.
      assert (Hr1 : r1 <> Fatal OOF) by (intros ->; inversion E; subst; apply Hr; reflexivity).
      destruct (X _ _ _ _ _ _ HR E1 Hr1) as [s2a [E2 HR2]]. rewrite E2.
      destruct r1 as [v f1|c|k]; inversion E; subst; exists s2a; (split; [reflexivity|first [exact HR2 | exact I]]).
  - eapply skipto_go_rel; eassumption.
  - destruct (gev1 n1 e1 (push f) s1) as [r1 s1a] eqn:E1.
    assert (Hr1 : r1 <> Fatal OOF) by (intros ->; inversion E; subst; apply Hr; reflexivity).
    destruct (X _ _ _ _ _ _ HR E1 Hr1) as [s2a [E2 HR2]]. rewrite E2.
    destruct r1 as [v f1|c|k]; inversion E; subst; exists s2a; (split; [reflexivity|first [exact HR2 | exact I]]).
  - eapply XC; eassumption.
  - destruct il.
    + destruct (gev1 n1 e1 f s1) as [r1 s1a] eqn:E1.
      assert (Hr1 : r1 <> Fatal OOF) by (intros ->; inversion E; subst; apply Hr; reflexivity).
      destruct (X _ _ _ _ _ _ HR E1 Hr1) as [s2a [E2 HR2]]. rewrite E2.
      destruct r1 as [v f1|c|k]; inversion E; subst; exists s2a; (split; [reflexivity|first [exact HR2 | exact I]]).
    + destruct (gev1 n1 e1 f s1) as [r1 s1a] eqn:E1.
      assert (Hr1 : r1 <> Fatal OOF) by (intros ->; inversion E; subst; apply Hr; reflexivity).
      destruct (X _ _ _ _ _ _ HR E1 Hr1) as [s2a [E2 HR2]]. rewrite E2.
      destruct r1 as [v f1|c|k]; inversion E; subst; exists s2a; (split; [reflexivity|first [exact HR2 | exact I]]).
  - destruct il.
    + destruct (gev1 n1 e1 f s1) as [r1 s1a] eqn:E1.
      assert (Hr1 : r1 <> Fatal OOF) by (intros ->; inversion E; subst; apply Hr; reflexivity).
      destruct (X _ _ _ _ _ _ HR E1 Hr1) as [s2a [E2 HR2]]. rewrite E2.
      destruct r1 as [v f1|c|k]; inversion E; subst; exists s2a; (split; [reflexivity|first [exact HR2 | exact I]]).
    + destruct (gev1 n1 e1 f s1) as [r1 s1a] eqn:E1.
      assert (Hr1 : r1 <> Fatal OOF) by (intros ->; inversion E; subst; apply Hr; reflexivity).
      destruct (X _ _ _ _ _ _ HR E1 Hr1) as [s2a [E2 HR2]]. rewrite E2.
      destruct r1 as [v f1|c|k]; inversion E; subst; exists s2a; (split; [reflexivity|first [exact HR2 | exact I]]).
Qed.
End Step.
