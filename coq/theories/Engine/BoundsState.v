(* Positions and evaluator state together: under a state invariant [Pre] that non-fatal steps preserve,
   a successful evaluation ends between its starting position and the end of the text.
   (BoundsProof.v is the state-free version; here the call handler may depend on the state - memo
   entries and seeds hold end positions - so both are carried through every construct at once.) *)
From Coq Require Import List NArith ZArith Arith Bool Lia.
From TatsuV Require Import Base.PyStr Engine.Value Engine.Syntax Engine.Input Engine.Engine
     Engine.EngineRel Engine.InputProof.
Import ListNotations.

Section BoundsState.
Variable text : str.
Variable re_at : nat -> nat -> option (nat * str).
Variable isalnum isalpha : N -> bool.
Variable lower : N -> N.
Variable ic : icfg.
Variable unsafe : list str.
Hypothesis re_in_bounds : forall id pos n v, re_at id pos = Some (n, v) -> pos + n <= len text.

Context {St : Type}.
Variable on_cut : frame -> St -> St.
Variable Pre : St -> Prop.
Hypothesis cut_pre : forall f st, Pre st -> Pre (on_cut f st).

Notation L := (len text).

Definition PostB (p : nat) (r : res) (st : St) : Prop :=
  match r with
  | Ok _ f' => Pre st /\ p <= pos f' <= L
  | Fail _ => Pre st
  | Fatal _ => True
  end.

Definition TrB (ev : @ev_t St) : Prop :=
  forall e f st r st', Pre st -> pos f <= L -> ev e f st = (r, st') -> PostB (pos f) r st'.

Lemma trb_ok ev : TrB ev -> forall e f st v f1 st1, Pre st -> pos f <= L -> ev e f st = (Ok v f1, st1) ->
  Pre st1 /\ pos f <= pos f1 <= L.
Proof. intros T e f st v f1 st1 P H E. exact (T _ _ _ _ _ P H E). Qed.

Lemma trb_fail ev : TrB ev -> forall e f st c st1, Pre st -> pos f <= L -> ev e f st = (Fail c, st1) -> Pre st1.
Proof. intros T e f st c st1 P H E. exact (T _ _ _ _ _ P H E). Qed.

(* E : ev e fr s = (Ok ..) / (Fail ..): the facts TrB gives, the position obligation closed by lia *)
Ltac ok_of T P E P1 B1 :=
  match type of E with ?ev ?e ?fr ?s = (Ok _ _, _) =>
    let HH := fresh "HH" in assert (HH : pos fr <= len text) by (cbn in *; unfold len in *; lia);
    destruct (trb_ok ev T e fr s _ _ _ P HH E) as [P1 B1]; cbn [pos push goto set_cut set_ast set_cst append merge add_defined] in B1 end.
Ltac fail_of T P E P1 :=
  match type of E with ?ev ?e ?fr ?s = (Fail _, _) =>
    let HH := fresh "HH" in assert (HH : pos fr <= len text) by (cbn in *; unfold len in *; lia);
    pose proof (trb_fail ev T e fr s _ _ P HH E) as P1 end.

Lemma seq_go_trb ev : TrB ev -> forall es out f st r st', Pre st -> pos f <= L ->
  seq_go ev es out f st = (r, st') -> PostB (pos f) r st'.
Proof.
  intros T es. induction es as [|e es IH]; intros out f st r st' P H E; cbn [seq_go] in E.
  - inversion E; subst. cbn. split; [exact P|lia].
  - destruct (ev e f st) as [[v f1|c|x] st1] eqn:E1.
    + ok_of T P E1 P1 B1.
      assert (H1 : pos f1 <= L) by lia.
      pose proof (IH _ _ _ _ _ P1 H1 E) as R. destruct r as [v2 f2|c2|x2]; cbn in *; [|exact R|exact I].
      destruct R as [P2 B2]. split; [exact P2|lia].
    + inversion E; subst. cbn. fail_of T P E1 P1. exact P1.
    + inversion E; subst. exact I.
Qed.

Lemma pos_add_defined e f : pos (add_defined unsafe e f) = pos f.
Proof. unfold add_defined. destruct f; reflexivity. Qed.

Lemma choice_go_trb ev : TrB ev -> forall es f st r st', Pre st -> pos f <= L ->
  choice_go unsafe ev es f st = (r, st') -> PostB (pos f) r st'.
Proof.
  intros T es. induction es as [|e es IH]; intros f st r st' P H E; cbn [choice_go] in E.
  - inversion E; subst. exact P.
  - assert (HA : pos (add_defined unsafe e (push f)) = pos f) by (rewrite pos_add_defined; reflexivity).
    destruct (ev e (add_defined unsafe e (push f)) st) as [[v f1|[|]|x] st1] eqn:E1.
    + inversion E; subst. destruct (trb_ok ev T _ _ _ _ _ _ P ltac:(rewrite HA; exact H) E1) as [P1 B1].
      rewrite HA in B1. cbn. split; [exact P1|exact B1].
    + inversion E; subst. cbn. exact (trb_fail ev T _ _ _ _ _ P ltac:(rewrite HA; exact H) E1).
    + eapply IH; [|exact H|exact E]. exact (trb_fail ev T _ _ _ _ _ P ltac:(rewrite HA; exact H) E1).
    + inversion E; subst. exact I.
Qed.

Definition PostBI (p : nat) (i : iter) (st : St) : Prop :=
  match i with
  | IOk f' => Pre st /\ p <= pos f' <= L
  | IFatal _ => True
  | _ => Pre st
  end.

Lemma repeat_iter_trb ev : TrB ev -> forall e sep omitsep f st i st', Pre st -> pos f <= L ->
  repeat_iter on_cut ev e sep omitsep f st = (i, st') -> PostBI (pos f) i st'.
Proof.
  intros T e sep omitsep f st i st' P H E. unfold repeat_iter in E.
  destruct sep as [s|].
  - destruct (ev s (push (push f)) st) as [[v f4|c|x] st1] eqn:Es.
    + ok_of T P Es P1 B1.
      match type of E with context [ev e ?fr ?s1] => destruct (ev e fr s1) as [[v5 f5|c5|x5] st2] eqn:Ee end.
      * assert (Pc : Pre (on_cut (set_cut (if omitsep then set_ast (goto (push f) (pos f4)) (fast f4)
                          else append (set_ast (goto (push f) (pos f4)) (fast f4)) (cstfinal (cst f4)))) st1)) by (apply cut_pre; exact P1).
        match type of Ee with ev e ?fr ?s1 = _ =>
          assert (HH2 : pos fr <= L) by (destruct omitsep; cbn; lia);
          destruct (trb_ok ev T e fr s1 _ _ _ Pc HH2 Ee) as [P2 B2] end.
        repeat match type of E with context [if ?b then _ else _] => destruct b eqn:? end;
          inversion E; subst; cbn in *; try exact P2; (split; [exact P2|]); try destruct omitsep; cbn in *; lia.
      * assert (Pc : Pre (on_cut (set_cut (if omitsep then set_ast (goto (push f) (pos f4)) (fast f4)
                          else append (set_ast (goto (push f) (pos f4)) (fast f4)) (cstfinal (cst f4)))) st1)) by (apply cut_pre; exact P1).
        match type of Ee with ev e ?fr ?s1 = _ =>
          assert (HH2 : pos fr <= L) by (destruct omitsep; cbn; lia);
          pose proof (trb_fail ev T e fr s1 _ _ Pc HH2 Ee) as P2 end.
        repeat match type of E with context [if ?b then _ else _] => destruct b end; inversion E; subst; exact P2.
      * inversion E; subst. exact I.
    + fail_of T P Es P1. destruct c; inversion E; subst; exact P1.
    + inversion E; subst. exact I.
  - match type of E with context [ev e ?fr ?s1] => destruct (ev e fr s1) as [[v5 f5|c5|x5] st2] eqn:Ee end.
    + ok_of T P Ee P2 B2.
      repeat match type of E with context [if ?b then _ else _] => destruct b eqn:? end;
        inversion E; subst; cbn in *; try exact P2; (split; [exact P2|]); cbn in *; lia.
    + fail_of T P Ee P2.
      repeat match type of E with context [if ?b then _ else _] => destruct b end; inversion E; subst; exact P2.
    + inversion E; subst. exact I.
Qed.

Lemma repeat_go_trb ev : TrB ev -> forall k e sep omitsep f st r st', Pre st -> pos f <= L ->
  repeat_go on_cut k ev e sep omitsep f st = (r, st') -> PostB (pos f) r st'.
Proof.
  intros T k. induction k as [|k IH]; intros e sep omitsep f st r st' P H E; cbn [repeat_go] in E.
  - inversion E; subst. exact I.
  - destruct (repeat_iter on_cut ev e sep omitsep f st) as [[f1| | |x] st1] eqn:Ei;
      pose proof (repeat_iter_trb ev T _ _ _ _ _ _ _ P H Ei) as Pi; cbn [PostBI] in Pi.
    + destruct Pi as [P1 B1]. assert (H1 : pos f1 <= L) by lia. pose proof (IH _ _ _ _ _ _ _ P1 H1 E) as R.
      destruct r as [v2 f2|c2|x2]; cbn in *; [|exact R|exact I]. destruct R as [P2 B2]. split; [exact P2|lia].
    + inversion E; subst. cbn. split; [exact Pi|lia].
    + inversion E; subst. exact Pi.
    + inversion E; subst. exact I.
Qed.

Lemma rep_body_trb ev : TrB ev -> forall k e sep omitsep f st r st', Pre st -> pos f <= L ->
  rep_body on_cut k ev e sep omitsep f st = (r, st') -> PostB (pos f) r st'.
Proof.
  intros T k e sep omitsep f st r st' P H E. unfold rep_body in E.
  destruct (ev e f st) as [[v f1|c|x] st1] eqn:E1.
  - ok_of T P E1 P1 B1.
    assert (H1 : pos (set_cst f1 (VList false [cst f1])) <= L) by (cbn; lia).
    pose proof (repeat_go_trb ev T _ _ _ _ _ _ _ _ P1 H1 E) as R.
    destruct r as [v2 f2|c2|x2]; cbn in *; [|exact R|exact I]. destruct R as [P2 B2]. split; [exact P2|lia].
  - inversion E; subst. cbn. fail_of T P E1 P1. exact P1.
  - inversion E; subst. exact I.
Qed.

Lemma rep_eval_trb ev : TrB ev -> forall k plus e sep omitsep f st r st', Pre st -> pos f <= L ->
  rep_eval on_cut k ev plus e sep omitsep f st = (r, st') -> PostB (pos f) r st'.
Proof.
  intros T k plus e sep omitsep f st r st' P H E. unfold rep_eval in E. destruct plus.
  - assert (HH : pos (push f) <= L) by (cbn; exact H).
    destruct (rep_body on_cut k ev e sep omitsep (push f) st) as [[v f1|c|x] st1] eqn:Eb;
      pose proof (rep_body_trb ev T _ _ _ _ _ _ _ _ P HH Eb) as Pb; inversion E; subst; cbn in *;
      [destruct Pb as [P1 B1]; split; [exact P1|exact B1] | exact Pb | exact I].
  - match type of E with context [rep_body on_cut k ev e sep omitsep ?fr st] =>
      assert (HH : pos fr <= L) by (cbn; exact H);
      destruct (rep_body on_cut k ev e sep omitsep fr st) as [[v f1|[|]|x] st1] eqn:Eb;
      pose proof (rep_body_trb ev T k e sep omitsep fr st _ _ P HH Eb) as Pb end;
      inversion E; subst; cbn in *.
    + destruct Pb as [P1 B1]; split; [exact P1|exact B1].
    + exact Pb.
    + split; [exact Pb|lia].
    + exact I.
Qed.

Lemma skipto_go_trb ev : TrB ev -> forall k e f st r st', Pre st -> pos f <= L ->
  skipto_go text re_at ic k ev e f st = (r, st') -> PostB (pos f) r st'.
Proof.
  intros T k. induction k as [|k IH]; intros e f st r st' P H E; cbn [skipto_go] in E.
  - inversion E; subst. exact I.
  - destruct (atend text (pos f)) eqn:A.
    + eapply T; eassumption.
    + destruct (ev e (push f) st) as [[v f1|c|x] st1] eqn:E1.
      * ok_of T P E1 P1 B1. eapply T; eassumption.
      * fail_of T P E1 P1.
        destruct (next_token_total text re_at ic re_in_bounds (pos f) H) as [q [Eq Hq]]. rewrite Eq in E.
        unfold atend in A. apply Nat.leb_gt in A.
        match type of E with skipto_go _ _ _ _ _ _ ?fr _ = _ =>
          assert (Hfr : pos f <= pos fr <= L) by (cbn [goto pos]; destruct (Nat.eqb q (pos f)) eqn:Q;
            [apply Nat.eqb_eq in Q; subst q; unfold len in *; lia | lia]);
          assert (Hfr2 : pos fr <= L) by lia;
          pose proof (IH e fr st1 r st' P1 Hfr2 E) as R end.
        destruct r as [v2 f2|c2|x2]; cbn in *; [|exact R|exact I]. destruct R as [P2 B2]. split; [exact P2|lia].
      * inversion E; subst. exact I.
Qed.

Lemma leaf_trb l f st r st' : Pre st -> pos f <= L ->
  leaf_eval text re_at isalnum isalpha lower ic on_cut l f st = (r, st') -> PostB (pos f) r st'.
Proof.
  intros P H E. destruct (next_token_total text re_at ic re_in_bounds (pos f) H) as [q [Eq Hq]].
  destruct l; cbn [leaf_eval] in E; unfold with_next_token in E; try rewrite Eq in E.
  - unfold match_token in E. cbn [goto pos] in E. destruct t as [|t0 tl]; [inversion E; subst; exact P|].
    repeat match type of E with context [if ?b then _ else _] => destruct b end;
      inversion E; subst; cbn; try exact P; (split; [exact P|]); unfold len in *; lia.
  - unfold match_re in E. destruct (re_at id (pos f)) as [[n v]|] eqn:R; [|inversion E; subst; exact P].
    inversion E; subst. cbn. pose proof (re_in_bounds _ _ _ _ R). unfold len in *. split; [exact P|lia].
  - inversion E; subst. cbn. split; [exact P|lia].
  - inversion E; subst. cbn. split; [exact P|lia].
  - inversion E; subst. exact P.
  - inversion E; subst. cbn. split; [apply cut_pre; exact P|lia].
  - destruct (atend text (pos (goto f q))); inversion E; subst; cbn; [split; [exact P|lia]|exact P].
  - unfold char_at in E. destruct (nth_error text (pos f)) as [ch|] eqn:N; [|inversion E; subst; exact P].
    inversion E; subst. cbn. assert (pos f < length text) by (apply nth_error_Some; congruence). unfold len.
    split; [exact P|lia].
  - inversion E; subst. cbn. split; [exact P|lia].
  - inversion E; subst. exact I.
Qed.

Variable on_call : nat -> @ev_t St -> nat -> frame -> St -> res * St.
Hypothesis call_trb : forall k ev, TrB ev -> forall r f st res st', Pre st -> pos f <= L ->
  on_call k ev r f st = (res, st') -> PostB (pos f) res st'.
Notation gev := (geval text re_at isalnum isalpha lower ic unsafe on_cut on_call).

Theorem geval_trb : forall n, TrB (gev n).
Proof.
  induction n as [|n IH]; intros e f st r st' P H E.
  - rewrite geval_O in E. inversion E; subst. exact I.
  - rewrite geval_S in E.
    destruct e as [l|es|es|e1|e1|e1|plus sep omitsep e1|neg e1|e1|lft e1|rr|il nm e1|il e1].
    + eapply leaf_trb; eassumption.
    + assert (HA : pos (add_defined unsafe (Seq es) f) = pos f) by apply pos_add_defined.
      pose proof (seq_go_trb _ IH es VNone (add_defined unsafe (Seq es) f) st r st' P ltac:(rewrite HA; exact H) E) as R.
      rewrite HA in R. exact R.
    + eapply choice_go_trb; eassumption.
    + eapply IH; eassumption.
    + destruct (gev n e1 (push f) st) as [[v f1|c|x] st1] eqn:E1; inversion E; subst; cbn.
      * ok_of IH P E1 P1 B1. split; [exact P1|exact B1].
      * fail_of IH P E1 P1. exact P1.
      * exact I.
    + assert (HA : pos (add_defined unsafe (Opt e1) (push f)) = pos f) by (rewrite pos_add_defined; reflexivity).
      destruct (gev n e1 (add_defined unsafe (Opt e1) (push f)) st) as [[v f1|[|]|x] st1] eqn:E1;
        inversion E; subst; cbn.
      * destruct (trb_ok _ IH _ _ _ _ _ _ P ltac:(rewrite HA; exact H) E1) as [P1 B1]. rewrite HA in B1. split; [exact P1|exact B1].
      * exact (trb_fail _ IH _ _ _ _ _ P ltac:(rewrite HA; exact H) E1).
      * split; [|lia]. exact (trb_fail _ IH _ _ _ _ _ P ltac:(rewrite HA; exact H) E1).
      * exact I.
    + eapply rep_eval_trb; eassumption.
    + destruct neg; destruct (gev n e1 (push f) st) as [[v f1|c|x] st1] eqn:E1; inversion E; subst; cbn; try exact I.
      * ok_of IH P E1 P1 B1. exact P1.
      * fail_of IH P E1 P1. split; [exact P1|lia].
      * ok_of IH P E1 P1 B1. split; [exact P1|lia].
      * fail_of IH P E1 P1. exact P1.
    + eapply skipto_go_trb; eassumption.
    + destruct (gev n e1 (push f) st) as [[v f1|c|x] st1] eqn:E1; inversion E; subst; cbn.
      * ok_of IH P E1 P1 B1. split; [exact P1|exact B1].
      * fail_of IH P E1 P1. exact P1.
      * exact I.
    + eapply call_trb; [exact IH|exact P|exact H|exact E].
    + destruct il; destruct (gev n e1 f st) as [[v f1|c|x] st1] eqn:E1; inversion E; subst; cbn; try exact I;
        first [ ok_of IH P E1 P1 B1; split; [exact P1|exact B1] | fail_of IH P E1 P1; exact P1 ].
    + destruct il; destruct (gev n e1 f st) as [[v f1|c|x] st1] eqn:E1; inversion E; subst; cbn; try exact I;
        first [ ok_of IH P E1 P1 B1; split; [exact P1|exact B1] | fail_of IH P E1 P1; exact P1 ].
Qed.

End BoundsState.
