(* A unary program logic for the generic evaluator: if every state reached by a NON-fatal step satisfies
   [Pre], and a fatal result is handed on untouched, then [Post] holds of every (result, state) the
   evaluator returns.  Used for "an exception raised by a semantic action reaches the caller" (C06). *)
From Coq Require Import List NArith ZArith Arith Bool Lia.
From TatsuV Require Import Base.PyStr Engine.Value Engine.Syntax Engine.Input Engine.Engine Engine.EngineRel.
Import ListNotations.

Section Triple.
Variable text : str.
Variable re_at : nat -> nat -> option (nat * str).
Variable isalnum isalpha : N -> bool.
Variable lower : N -> N.
Variable ic : icfg.
Variable unsafe : list str.

Context {St : Type}.
Variable on_cut : frame -> St -> St.
Variable Pre : St -> Prop.
Variable Post : res -> St -> Prop.

Definition nonfatal (r : res) : Prop := match r with Fatal _ => False | _ => True end.

(* [B]: the results a construct may produce by itself (everything but a foreign exception other than the unmodelled-leaf
   marker); fatal results of sub-evaluations are handed on as they are *)
Definition builtin (r : res) : Prop := match r with Fatal (Foreign x) => x = 0 | _ => True end.
Hypothesis pre_post : forall r st, Pre st -> builtin r -> Post r st.
Hypothesis post_pre : forall r st, Post r st -> nonfatal r -> Pre st.
Hypothesis cut_pre : forall f st, Pre st -> Pre (on_cut f st).

Definition Tr (ev : @ev_t St) : Prop :=
  forall e f st r st', Pre st -> ev e f st = (r, st') -> Post r st'.

Lemma tr_ok ev : Tr ev -> forall e f st v f1 st1, Pre st -> ev e f st = (Ok v f1, st1) -> Pre st1.
Proof. intros T e f st v f1 st1 P E. eapply post_pre; [eapply T; eassumption|exact I]. Qed.

Lemma tr_fail ev : Tr ev -> forall e f st c st1, Pre st -> ev e f st = (Fail c, st1) -> Pre st1.
Proof. intros T e f st c st1 P E. eapply post_pre; [eapply T; eassumption|exact I]. Qed.

Lemma tr_fatal ev : Tr ev -> forall e f st x st1, Pre st -> ev e f st = (Fatal x, st1) -> Post (Fatal x) st1.
Proof. intros T e f st x st1 P E. eapply T; eassumption. Qed.

Lemma seq_go_tr ev : Tr ev -> forall es out f st r st', Pre st ->
  seq_go ev es out f st = (r, st') -> Post r st'.
Proof.
  intros T es. induction es as [|e es IH]; intros out f st r st' P E; cbn [seq_go] in E.
  - inversion E; subst. (apply pre_post; [|exact I || reflexivity]). exact P.
  - destruct (ev e f st) as [[v f1|c|x] st1] eqn:E1.
    + eapply IH; [eapply (tr_ok ev T); eassumption|exact E].
    + inversion E; subst. (apply pre_post; [|exact I || reflexivity]). eapply (tr_fail ev T); eassumption.
    + inversion E; subst. eapply (tr_fatal ev T); eassumption.
Qed.

Lemma choice_go_tr ev : Tr ev -> forall es f st r st', Pre st ->
  choice_go unsafe ev es f st = (r, st') -> Post r st'.
Proof.
  intros T es. induction es as [|e es IH]; intros f st r st' P E; cbn [choice_go] in E.
  - inversion E; subst. (apply pre_post; [|exact I || reflexivity]). exact P.
  - destruct (ev e (add_defined unsafe e (push f)) st) as [[v f1|[|]|x] st1] eqn:E1.
    + inversion E; subst. (apply pre_post; [|exact I || reflexivity]). eapply (tr_ok ev T); eassumption.
    + inversion E; subst. (apply pre_post; [|exact I || reflexivity]). eapply (tr_fail ev T); eassumption.
    + eapply IH; [eapply (tr_fail ev T); eassumption|exact E].
    + inversion E; subst. eapply (tr_fatal ev T); eassumption.
Qed.

Definition PostI (i : iter) (st : St) : Prop :=
  match i with IFatal x => Post (Fatal x) st | _ => Pre st end.

Lemma repeat_iter_tr ev : Tr ev -> forall e sep omitsep f st i st', Pre st ->
  repeat_iter on_cut ev e sep omitsep f st = (i, st') -> PostI i st'.
Proof.
  intros T e sep omitsep f st i st' P E. unfold repeat_iter in E.
  destruct sep as [s|].
  - destruct (ev s (push (push f)) st) as [[v f4|c|x] st1] eqn:Es.
    + assert (P1 : Pre st1) by (eapply (tr_ok ev T); eassumption).
      match type of E with context [ev e ?fr ?s1] => destruct (ev e fr s1) as [[v5 f5|c5|x5] st2] eqn:Ee end.
      * assert (P2 : Pre st2) by (eapply (tr_ok ev T); [|exact Ee]; apply cut_pre; exact P1).
        repeat match type of E with context [if ?b then _ else _] => destruct b end; inversion E; subst; exact P2.
      * assert (P2 : Pre st2) by (eapply (tr_fail ev T); [|exact Ee]; apply cut_pre; exact P1).
        repeat match type of E with context [if ?b then _ else _] => destruct b end; inversion E; subst; exact P2.
      * inversion E; subst. eapply (tr_fatal ev T); [|exact Ee]. apply cut_pre; exact P1.
    + assert (P1 : Pre st1) by (eapply (tr_fail ev T); eassumption).
      destruct c; inversion E; subst; exact P1.
    + inversion E; subst. eapply (tr_fatal ev T); eassumption.
  - match type of E with context [ev e ?fr ?s1] => destruct (ev e fr s1) as [[v5 f5|c5|x5] st2] eqn:Ee end.
    + assert (P2 : Pre st2) by (eapply (tr_ok ev T); eassumption).
      repeat match type of E with context [if ?b then _ else _] => destruct b end; inversion E; subst; exact P2.
    + assert (P2 : Pre st2) by (eapply (tr_fail ev T); eassumption).
      repeat match type of E with context [if ?b then _ else _] => destruct b end; inversion E; subst; exact P2.
    + inversion E; subst. eapply (tr_fatal ev T); eassumption.
Qed.

Lemma repeat_go_tr ev : Tr ev -> forall k e sep omitsep f st r st', Pre st ->
  repeat_go on_cut k ev e sep omitsep f st = (r, st') -> Post r st'.
Proof.
  intros T k. induction k as [|k IH]; intros e sep omitsep f st r st' P E; cbn [repeat_go] in E.
  - inversion E; subst. (apply pre_post; [|exact I || reflexivity]); exact P.
  - destruct (repeat_iter on_cut ev e sep omitsep f st) as [[f1| | |x] st1] eqn:Ei;
      pose proof (repeat_iter_tr ev T _ _ _ _ _ _ _ P Ei) as Pi; cbn [PostI] in Pi.
    + eapply IH; [exact Pi|exact E].
    + inversion E; subst. (apply pre_post; [|exact I || reflexivity]); exact Pi.
    + inversion E; subst. (apply pre_post; [|exact I || reflexivity]); exact Pi.
    + inversion E; subst. exact Pi.
Qed.

Lemma rep_body_tr ev : Tr ev -> forall k e sep omitsep f st r st', Pre st ->
  rep_body on_cut k ev e sep omitsep f st = (r, st') -> Post r st'.
Proof.
  intros T k e sep omitsep f st r st' P E. unfold rep_body in E.
  destruct (ev e f st) as [[v f1|c|x] st1] eqn:E1.
  - eapply repeat_go_tr; [exact T|eapply (tr_ok ev T); eassumption|exact E].
  - inversion E; subst. (apply pre_post; [|exact I || reflexivity]). eapply (tr_fail ev T); eassumption.
  - inversion E; subst. eapply (tr_fatal ev T); eassumption.
Qed.

Lemma rep_eval_tr ev : Tr ev -> forall k plus e sep omitsep f st r st', Pre st ->
  rep_eval on_cut k ev plus e sep omitsep f st = (r, st') -> Post r st'.
Proof.
  intros T k plus e sep omitsep f st r st' P E. unfold rep_eval in E. destruct plus.
  - destruct (rep_body on_cut k ev e sep omitsep (push f) st) as [[v f1|c|x] st1] eqn:Eb;
      pose proof (rep_body_tr ev T _ _ _ _ _ _ _ _ P Eb) as Pb; inversion E; subst.
    + (apply pre_post; [|exact I || reflexivity]). eapply post_pre; [exact Pb|exact I].
    + (apply pre_post; [|exact I || reflexivity]). eapply post_pre; [exact Pb|exact I].
    + exact Pb.
  - match type of E with context [rep_body on_cut k ev e sep omitsep ?fr st] =>
      destruct (rep_body on_cut k ev e sep omitsep fr st) as [[v f1|[|]|x] st1] eqn:Eb end;
      pose proof (rep_body_tr ev T _ _ _ _ _ _ _ _ P Eb) as Pb; inversion E; subst.
    + (apply pre_post; [|exact I || reflexivity]). eapply post_pre; [exact Pb|exact I].
    + (apply pre_post; [|exact I || reflexivity]). eapply post_pre; [exact Pb|exact I].
    + (apply pre_post; [|exact I || reflexivity]). eapply post_pre; [exact Pb|exact I].
    + exact Pb.
Qed.

Lemma skipto_go_tr ev : Tr ev -> forall k e f st r st', Pre st ->
  skipto_go text re_at ic k ev e f st = (r, st') -> Post r st'.
Proof.
  intros T k. induction k as [|k IH]; intros e f st r st' P E; cbn [skipto_go] in E.
  - inversion E; subst. (apply pre_post; [|exact I || reflexivity]); exact P.
  - destruct (atend text (pos f)).
    + eapply T; eassumption.
    + destruct (ev e (push f) st) as [[v f1|c|x] st1] eqn:E1.
      * assert (P1 : Pre st1) by (eapply (tr_ok ev T); [exact P|exact E1]). eapply T; [exact P1|exact E].
      * assert (P1 : Pre st1) by (eapply (tr_fail ev T); [exact P|exact E1]).
        destruct (next_token text re_at ic (pos f)) as [q|].
        -- eapply IH; [exact P1|exact E].
        -- inversion E; subst. (apply pre_post; [|exact I || reflexivity]); exact P1.
      * inversion E; subst. eapply (tr_fatal ev T); eassumption.
Qed.

Lemma leaf_tr l f st r st' : Pre st ->
  leaf_eval text re_at isalnum isalpha lower ic on_cut l f st = (r, st') -> Post r st'.
Proof.
  intros P E.
  destruct l; cbn [leaf_eval] in E; unfold with_next_token in E;
    repeat match type of E with
           | context [match ?x with _ => _ end] => destruct x
           | context [if ?b then _ else _] => destruct b
           end; inversion E; subst; (apply pre_post; [|exact I || reflexivity]); try exact P; apply cut_pre; exact P.
Qed.

Variable on_call : nat -> @ev_t St -> nat -> frame -> St -> res * St.
Hypothesis call_tr : forall k ev, Tr ev -> forall r f st res st', Pre st -> on_call k ev r f st = (res, st') -> Post res st'.
Notation gev := (geval text re_at isalnum isalpha lower ic unsafe on_cut on_call).

Theorem geval_tr : forall n, Tr (gev n).
Proof.
  induction n as [|n IH]; intros e f st r st' P E.
  - rewrite geval_O in E. inversion E; subst. (apply pre_post; [|exact I || reflexivity]); exact P.
  - rewrite geval_S in E.
    destruct e as [l|es|es|e1|e1|e1|plus sep omitsep e1|neg e1|e1|lft e1|rr|il nm e1|il e1].
    + eapply leaf_tr; eassumption.
    + eapply seq_go_tr; eassumption.
    + eapply choice_go_tr; eassumption.
    + eapply IH; eassumption.
    + destruct (gev n e1 (push f) st) as [[v f1|c|x] st1] eqn:E1; inversion E; subst.
      * (apply pre_post; [|exact I || reflexivity]). eapply (tr_ok _ IH); eassumption.
      * (apply pre_post; [|exact I || reflexivity]). eapply (tr_fail _ IH); eassumption.
      * eapply (tr_fatal _ IH); eassumption.
    + match type of E with context [gev n e1 ?fr st] => destruct (gev n e1 fr st) as [[v f1|[|]|x] st1] eqn:E1 end;
        inversion E; subst.
      * (apply pre_post; [|exact I || reflexivity]). eapply (tr_ok _ IH); eassumption.
      * (apply pre_post; [|exact I || reflexivity]). eapply (tr_fail _ IH); eassumption.
      * (apply pre_post; [|exact I || reflexivity]). eapply (tr_fail _ IH); eassumption.
      * eapply (tr_fatal _ IH); eassumption.
    + eapply rep_eval_tr; eassumption.
    + destruct neg; destruct (gev n e1 (push f) st) as [[v f1|c|x] st1] eqn:E1; inversion E; subst;
        first [eapply (tr_fatal _ IH); eassumption | (apply pre_post; [|exact I || reflexivity]); first [eapply (tr_ok _ IH); eassumption | eapply (tr_fail _ IH); eassumption]].
    + eapply skipto_go_tr; eassumption.
    + destruct (gev n e1 (push f) st) as [[v f1|c|x] st1] eqn:E1; inversion E; subst;
        first [eapply (tr_fatal _ IH); eassumption | (apply pre_post; [|exact I || reflexivity]); first [eapply (tr_ok _ IH); eassumption | eapply (tr_fail _ IH); eassumption]].
    + eapply call_tr; [exact IH|exact P|exact E].
    + destruct il; destruct (gev n e1 f st) as [[v f1|c|x] st1] eqn:E1; inversion E; subst;
        first [eapply (tr_fatal _ IH); eassumption | (apply pre_post; [|exact I || reflexivity]); first [eapply (tr_ok _ IH); eassumption | eapply (tr_fail _ IH); eassumption]].
    + destruct il; destruct (gev n e1 f st) as [[v f1|c|x] st1] eqn:E1; inversion E; subst;
        first [eapply (tr_fatal _ IH); eassumption | (apply pre_post; [|exact I || reflexivity]); first [eapply (tr_ok _ IH); eassumption | eapply (tr_fail _ IH); eassumption]].
Qed.

End Triple.
