(* The parser engine (contexts/engine.py, core.py, context.py, state.py, peg/*._parse) as one generic
   fuelled evaluator over an abstract global state.  Model only, no proofs.
   Frames: the strictly nested push/merge/undo/pop/new discipline of ParseStateStack is rendered as
   recursion: a child frame is made by [push], folded back by [merge], dropped on failure.            *)
From Coq Require Import List NArith ZArith Arith Bool.
From TatsuV Require Import Base.PyStr Engine.Value Engine.Syntax Engine.Input.
Import ListNotations.

Record frame := { pos : nat; fast : ast; cst : value; cutseen : bool; last : value }.

Inductive fatal := OOF | Hang | Foreign (exn : nat).
(* Fail carries the cutseen flag of the frame that is on top where the exception passes *)
Inductive res := Ok (ret : value) (f : frame) | Fail (cut : bool) | Fatal (k : fatal).

Definition newf (p : nat) : frame := {| pos := p; fast := []; cst := VNone; cutseen := false; last := VNone |}.
Definition push (f : frame) : frame :=
  {| pos := pos f; fast := fast f; cst := VNone; cutseen := false; last := VNone |}.
(* ParseStateStack.merge: pop the child, then state.merge(child) *)
Definition merge (f child : frame) : frame :=
  {| pos := pos child; fast := fast child; cst := cstmerge (cst f) (cst child);
     cutseen := cutseen f; last := cst child |}.
(* ParseStateStack.pop: drop the child but keep its position *)
Definition popf (f child : frame) : frame :=
  {| pos := pos child; fast := fast f; cst := cst f; cutseen := cutseen f; last := last f |}.
Definition append (f : frame) (node : value) : frame :=
  {| pos := pos f; fast := fast f; cst := cstadd (cst f) node; cutseen := cutseen f; last := node |}.
Definition goto (f : frame) (p : nat) : frame :=
  {| pos := p; fast := fast f; cst := cst f; cutseen := cutseen f; last := last f |}.
Definition set_cst (f : frame) (v : value) : frame :=
  {| pos := pos f; fast := fast f; cst := v; cutseen := cutseen f; last := last f |}.
Definition set_ast (f : frame) (a : ast) : frame :=
  {| pos := pos f; fast := a; cst := cst f; cutseen := cutseen f; last := last f |}.
Definition set_cut (f : frame) : frame :=
  {| pos := pos f; fast := fast f; cst := cst f; cutseen := true; last := last f |}.

(* ParseState.fold *)
Definition fold (f : frame) : value :=
  match fast f with
  | [] => cstfinal (cst f)
  | a => match ast_get a key_at with Some v => v | None => VDict a end
  end.

Section Engine.
Variable text : str.
Variable re_at : nat -> nat -> option (nat * str).
Variable isalnum isalpha : N -> bool.
Variable lower : N -> N.
Variable ic : icfg.
Variable unsafe : list str.          (* AST._unsafe(): attribute names of dict *)

Notation next_tok := (next_token text re_at ic).

Context {St : Type}.
Definition ev_t := exp -> frame -> St -> res * St.

(* Model._add_defined *)
Definition add_defined (e : exp) (f : frame) : frame :=
  let kl := def_list e in
  let ks := filter (fun d => negb (mem_str d kl)) (def_single e) in
  set_ast f (ast_define unsafe (fast f) ks kl).

(* ---- Sequence._parse ---- *)
Fixpoint seq_go (ev : ev_t) (es : list exp) (out : value) (f : frame) (st : St) : res * St :=
  match es with
  | [] => (Ok out f, st)
  | e :: es' =>
    match ev e f st with
    | (Ok r f1, st1) => seq_go ev es' (if isnone r then out else cstmerge out r) f1 st1
    | other => other
    end
  end.

(* ---- Choice._parse ---- *)
Fixpoint choice_go (ev : ev_t) (es : list exp) (f : frame) (st : St) : res * St :=
  match es with
  | [] => (Fail (cutseen f), st)
  | e :: es' =>
    match ev e (add_defined e (push f)) st with
    | (Ok r f1, st1) => (Ok r (merge f f1), st1)
    | (Fail true, st1) => (Fail (cutseen f), st1)
    | (Fail false, st1) => choice_go ev es' f st1
    | (Fatal k, st1) => (Fatal k, st1)
    end
  end.

(* ---- ParseContext.repeat: the iterations after the first one, in frame f ---- *)
Variable on_cut : frame -> St -> St.

Inductive iter := IOk (f : frame) | IStop | ICommit | IFatal (k : fatal).

(* one pass through `with self.option(): ...` of repeat(); f3 = the frame pushed by option() *)
Definition repeat_iter (ev : ev_t) (e : exp) (sep : option exp) (omitsep : bool)
           (f : frame) (st : St) : iter * St :=
  let f3 := push f in
  let p := pos f3 in
  (* prefix *)
  let pre : iter * St :=
    match sep with
    | None => (IOk f3, st)
    | Some s =>
      match ev s (push f3) st with
      | (Ok _ f4, st1) =>
        let f3a := set_ast (goto f3 (pos f4)) (fast f4) in
        let f3b := if omitsep then f3a else append f3a (cstfinal (cst f4)) in
        let f3c := set_cut f3b in
        (IOk f3c, on_cut f3c st1)
      | (Fail c, st1) => (if c then ICommit else IStop, st1)   (* isolate() hands a cut to option()'s frame *)
      | (Fatal k, st1) => (IFatal k, st1)
      end
    end in
  match pre with
  | (IOk f3c, st1) =>
    match ev e (push f3c) st1 with
    | (Ok _ f5, st2) =>
      (* isolate(): keep position and ast, hand a cut seen by the iteration to the option's frame *)
      let f3c' := if cutseen f5 then set_cut f3c else f3c in
      let f3d := append (set_ast (goto f3c' (pos f5)) (fast f5)) (cstfinal (cst f5)) in
      if Nat.eqb (pos f3d) p
      then (if cutseen f3d then ICommit else IStop, st2)      (* 'matched on no input' *)
      else (IOk (merge f f3d), st2)
    | (Fail c, st2) => (if cutseen f3c || c then ICommit else IStop, st2)
    | (Fatal k, st2) => (IFatal k, st2)
    end
  | other => other
  end.

Fixpoint repeat_go (k : nat) (ev : ev_t) (e : exp) (sep : option exp) (omitsep : bool)
         (f : frame) (st : St) : res * St :=
  match k with
  | O => (Fatal OOF, st)
  | S k' =>
    match repeat_iter ev e sep omitsep f st with
    | (IOk f', st1) => repeat_go k' ev e sep omitsep f' st1
    | (IStop, st1) => (Ok VNone f, st1)
    | (ICommit, st1) => (Fail (cutseen f), st1)
    | (IFatal x, st1) => (Fatal x, st1)
    end
  end.

(* first iteration + repeat(), evaluated directly in frame f *)
Definition rep_body (k : nat) (ev : ev_t) (e : exp) (sep : option exp) (omitsep : bool)
           (f : frame) (st : St) : res * St :=
  match ev e f st with
  | (Ok _ f1, st1) => repeat_go k ev e sep omitsep (set_cst f1 (VList false [cst f1])) st1
  | other => other
  end.

(* closure / positive_closure *)
Definition rep_eval (k : nat) (ev : ev_t) (plus : bool) (e : exp) (sep : option exp) (omitsep : bool)
           (f : frame) (st : St) : res * St :=
  let finish (f1 : frame) (st1 : St) :=
    let v := VList true (list_items (cst f1)) in
    (Ok v (merge f (set_cst f1 v)), st1) in
  if plus then
    match rep_body k ev e sep omitsep (push f) st with
    | (Ok _ f1, st1) => finish f1 st1
    | (Fail _, st1) => (Fail (cutseen f), st1)
    | (Fatal x, st1) => (Fatal x, st1)
    end
  else
    let f1 := set_cst (push f) (VList false []) in
    match rep_body k ev e sep omitsep (push f1) st with
    | (Ok _ f2, st1) => finish (merge f1 f2) st1
    | (Fail true, st1) => (Fail (cutseen f), st1)
    | (Fail false, st1) => finish f1 st1
    | (Fatal x, st1) => (Fatal x, st1)
    end.

(* ---- ParseContext.skip_to ---- *)
Fixpoint skipto_go (k : nat) (ev : ev_t) (e : exp) (f : frame) (st : St) : res * St :=
  match k with
  | O => (Fatal OOF, st)
  | S k' =>
    if atend text (pos f) then ev e f st
    else
      match ev e (push f) st with
      | (Ok _ _, st1) => ev e f st1
      | (Fail _, st1) =>
        match next_tok (pos f) with
        | None => (Fatal Hang, st1)
        | Some p => skipto_go k' ev e (goto f (if Nat.eqb p (pos f) then S p else p)) st1
        end
      | (Fatal x, st1) => (Fatal x, st1)
      end
  end.

(* ---- leaves ---- *)
Definition with_next_token (f : frame) (st : St) (k : frame -> res * St) : res * St :=
  match next_tok (pos f) with
  | None => (Fatal Hang, st)
  | Some p => k (goto f p)
  end.

Definition leaf_eval (l : leaf) (f : frame) (st : St) : res * St :=
  match l with
  | LTok t =>
    with_next_token f st (fun f1 =>
      match match_token text isalnum isalpha lower ic t (pos f1) with
      | Some p => (Ok (VStr t) (append (goto f1 p) (VStr t)), st)
      | None => (Fail (cutseen f), st)
      end)
  | LPat id =>
    match match_re text re_at id (pos f) with
    | Some (p, v) => (Ok (VStr v) (append (goto f p) (VStr v)), st)
    | None => (Fail (cutseen f), st)
    end
  | LConst v => with_next_token f st (fun f1 => (Ok v (append f1 v), st))
  | LVoid => with_next_token f st (fun f1 => (Ok VUnit f1, st))
  | LFail => with_next_token f st (fun _ => (Fail (cutseen f), st))
  | LCut => (Ok VNone (set_cut f), on_cut f st)
  | LEOF =>
    with_next_token f st (fun f1 =>
      if atend text (pos f1) then (Ok VNone f1, st) else (Fail (cutseen f), st))
  | LDot =>
    match char_at text (pos f) with
    | Some ch => (Ok (VStr [ch]) (append (goto f (S (pos f))) (VStr [ch])), st)
    | None => (Fail (cutseen f), st)
    end
  | LEmpty => let v := VList true [] in (Ok v (append f v), st)
  | LMeta _ => (Fatal (Foreign 0), st)      (* not modelled in the engine; see Lib/Matchers.v *)
  end.

(* ---- the evaluator ---- *)
Variable on_call : nat -> ev_t -> nat -> frame -> St -> res * St.

Fixpoint geval (n : nat) (e : exp) (f : frame) (st : St) {struct n} : res * St :=
  match n with
  | O => (Fatal OOF, st)
  | S n' =>
    match e with
    | Leaf l => leaf_eval l f st
    | Seq es => seq_go (geval n') es VNone (add_defined e f) st
    | Choice es => choice_go (geval n') es f st
    | Group e1 => geval n' e1 f st
    | SkipGroup e1 =>
      match geval n' e1 (push f) st with
      | (Ok _ f1, st1) => (Ok VNone (popf f f1), st1)
      | (Fail _, st1) => (Fail (cutseen f), st1)
      | (Fatal x, st1) => (Fatal x, st1)
      end
    | Opt e1 =>
      match geval n' e1 (add_defined e (push f)) st with
      | (Ok r f1, st1) => (Ok r (merge f f1), st1)
      | (Fail true, st1) => (Fail (cutseen f), st1)
      | (Fail false, st1) => (Ok VNone f, st1)
      | (Fatal x, st1) => (Fatal x, st1)
      end
    | Rep plus sep omitsep e1 => rep_eval n' (geval n') plus e1 sep omitsep f st
    | Look false e1 =>
      match geval n' e1 (push f) st with
      | (Ok _ _, st1) => (Ok VNone f, st1)    (* the value is dropped: a lookahead contributes nothing to its sequence *)
      | (Fail _, st1) => (Fail (cutseen f), st1)
      | (Fatal x, st1) => (Fatal x, st1)
      end
    | Look true e1 =>
      match geval n' e1 (push f) st with
      | (Ok _ _, st1) => (Fail (cutseen f), st1)
      | (Fail _, st1) => (Ok VNone f, st1)
      | (Fatal x, st1) => (Fatal x, st1)
      end
    | SkipTo e1 => skipto_go n' (geval n') e1 f st
    | Assoc lft e1 =>
      match geval n' e1 (push f) st with      (* a state scope of its own: the tree replaces the flat list there, then merges *)
      | (Ok r f1, st1) =>
        let v := (if lft then left_assoc else right_assoc) (list_items r) in
        (Ok v (merge f (set_cst f1 v)), st1)
      | (Fail _, st1) => (Fail (cutseen f), st1)
      | (Fatal x, st1) => (Fatal x, st1)
      end
    | Call r => on_call n' (geval n') r f st
    | Named false nm e1 =>
      match geval n' e1 f st with
      | (Ok r f1, st1) => (Ok r (set_ast f1 (ast_set unsafe (fast f1) nm r)), st1)
      | other => other
      end
    | Named true nm e1 =>
      match geval n' e1 f st with
      | (Ok r f1, st1) => (Ok r (set_ast f1 (ast_setlist unsafe (fast f1) nm r)), st1)
      | other => other
      end
    | Over false e1 =>
      match geval n' e1 f st with
      | (Ok r f1, st1) =>
        (Ok (VDict [(key_at, r)]) (set_ast f1 (ast_set unsafe (fast f1) key_at r)), st1)
      | other => other
      end
    | Over true e1 =>
      match geval n' e1 f st with
      | (Ok r f1, st1) =>
        let r' := if ast_has (fast f1) key_at then r else VList false [r] in
        (Ok (VDict [(key_at, r')]) (set_ast f1 (ast_set unsafe (fast f1) key_at r')), st1)
      | other => other
      end
    end
  end.

End Engine.
