From Coq Require Import List NArith Bool Lia.
From TatsuV Require Import Base.PyStr Engine.Config.
Import ListNotations.

Lemma cfg_get_set_same c k v : (exists d, cfg_get c k = Some d) -> cfg_get (cfg_set c k v) k = Some v.
Proof.
  induction c as [|[k' v'] c IH]; cbn; intros [d H]; [discriminate|].
  destruct (str_eqb k k') eqn:E; cbn; rewrite E; [reflexivity|]. apply IH. exists d. exact H.
Qed.

Lemma cfg_get_set_other c k k' v : str_eqb k' k = false -> cfg_get (cfg_set c k v) k' = cfg_get c k'.
Proof.
  intros H. induction c as [|[k0 v0] c IH]; cbn; [reflexivity|].
  destruct (str_eqb k k0) eqn:E; cbn.
  - apply str_eqb_eq in E. subst k0. rewrite H. reflexivity.
  - destruct (str_eqb k' k0); [reflexivity|exact IH].
Qed.

Lemma cfg_set_keeps_known c k v k' : (exists d, cfg_get c k' = Some d) -> exists d, cfg_get (cfg_set c k v) k' = Some d.
Proof.
  intros H. destruct (str_eqb k' k) eqn:E.
  - apply str_eqb_eq in E. subst k'. exists v. apply cfg_get_set_same. exact H.
  - rewrite cfg_get_set_other by exact E. exact H.
Qed.

Lemma str_eqb_sym a b : str_eqb a b = str_eqb b a.
Proof.
  destruct (str_eqb a b) eqn:E.
  - apply str_eqb_eq in E. subst. symmetry. apply str_eqb_refl.
  - destruct (str_eqb b a) eqn:E2; [|reflexivity]. apply str_eqb_eq in E2. subst. rewrite str_eqb_refl in E. discriminate.
Qed.

(* value of field k after a soft / hard override *)
Lemma override_get hard s : forall c k d, cfg_get c k = Some d ->
  cfg_get (override hard c s) k =
    Some (if hard then match last_binding s k with Some b => b | None => d end
          else match last_defined s k with Some v => Some v | None => d end).
Proof.
  unfold override. induction s as [|[k0 v0] s IH]; intros c k d H; cbn [fold_left last_binding last_defined].
  - destruct hard; rewrite H; reflexivity.
  - cbn [fst snd].
    set (c1 := match v0 with None => if hard then cfg_set c k0 None else c | Some v => cfg_set c k0 (Some v) end).
    assert (H1 : cfg_get c1 k = Some (if str_eqb k k0 then
                                        match v0 with Some v => Some v | None => if hard then None else d end
                                      else d)).
    { unfold c1. destruct (str_eqb k k0) eqn:E.
      - apply str_eqb_eq in E. subst k0.
        destruct v0 as [v|]; [apply cfg_get_set_same; eauto|].
        destruct hard; [apply cfg_get_set_same; eauto|exact H].
      - destruct v0 as [v|]; [rewrite cfg_get_set_other by exact E; exact H|].
        destruct hard; [rewrite cfg_get_set_other by exact E|]; exact H. }
    rewrite (IH c1 k _ H1). f_equal.
    destruct hard.
    + destruct (last_binding s k); [reflexivity|]. destruct (str_eqb k k0); [destruct v0; reflexivity|reflexivity].
    + destruct (last_defined s k); [reflexivity|]. destruct (str_eqb k k0); [destruct v0; reflexivity|reflexivity].
Qed.

Lemma override_known hard s c k : (exists d, cfg_get c k = Some d) -> exists d, cfg_get (override hard c s) k = Some d.
Proof. intros [d H]. eexists. apply (override_get hard s c k d H). Qed.

(* the effective value of every field is the first defined among parse-time setting, directive,
   compile-time setting and built-in default *)
Theorem layering defaults ct dir pt k :
  cfg_get (effective defaults ct dir pt) k = spec_value defaults ct dir pt k.
Proof.
  unfold effective, spec_value. destruct (cfg_get defaults k) as [d|] eqn:Hd.
  - pose proof (override_get false ct defaults k d Hd) as H1.
    pose proof (override_get true dir _ k _ H1) as H2.
    rewrite (override_get false pt _ k _ H2).
    destruct (last_defined pt k); [reflexivity|].
    destruct (last_binding dir k); [reflexivity|].
    destruct (last_defined ct k); reflexivity.
  - (* unknown field *)
    assert (G : forall hard s c, cfg_get c k = None -> cfg_get (override hard c s) k = None).
    { intros hard s. unfold override. induction s as [|[k0 v0] s IH]; intros c Hc; cbn [fold_left]; [exact Hc|].
      apply IH. cbn [fst snd].
      assert (S : forall v, cfg_get (cfg_set c k0 v) k = None).
      { intros v. clear IH. induction c as [|[k1 v1] c IHc]; cbn; [reflexivity|]. cbn in Hc.
        destruct (str_eqb k k1) eqn:E; [discriminate|].
        destruct (str_eqb k0 k1); cbn; rewrite E; [exact Hc|apply IHc; exact Hc]. }
      destruct v0; [apply S|destruct hard; [apply S|exact Hc]]. }
    apply G, G, G. exact Hd.
Qed.
