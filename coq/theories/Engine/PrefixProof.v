(* C03 (and C01): what a frame has collected is never taken back - the elements of its cst stay, in order, as a prefix of
   what it holds later (a unary invariant through every construct) - and the recursive call of a left-recursive rule,
   answered from the seed, contributes the previous tree as ONE element.  Hence in every round of the seed-growing loop
   the tree of the previous round is the FIRST element (the left operand) of the new tree: left association for any
   number of rounds, whatever follows the recursive call.  Proofs only. *)
From Coq Require Import List NArith ZArith Arith Bool Lia.
From TatsuV Require Import Base.PyStr Engine.Value Engine.Syntax Engine.Input Engine.Engine Engine.Calls
     Engine.EngineRel.
Import ListNotations.

(* the elements a cst stands for (None = none yet, an open list = its elements, anything else = one element) *)
Definition items (c : value) : list value :=
  match c with VNone => [] | VList false l => l | v => [v] end.

Definition Pre (a b : list value) : Prop := exists rest, b = a ++ rest.

Lemma pre_refl a : Pre a a.  Proof. exists []. rewrite app_nil_r. reflexivity. Qed.
Lemma pre_trans a b c : Pre a b -> Pre b c -> Pre a c.
Proof. intros [r1 ->] [r2 ->]. exists (r1 ++ r2). rewrite app_assoc. reflexivity. Qed.
Lemma pre_nil a : Pre [] a.  Proof. exists a. reflexivity. Qed.

Lemma items_cstadd c n : Pre (items c) (items (cstadd c n)).
Proof.
  destruct c as [| | | | |[|] l| | |]; cbn [cstadd items]; try apply pre_nil;
    try (eexists; cbn [app]; reflexivity).
Qed.

Lemma items_cstmerge c o : Pre (items c) (items (cstmerge c o)).
Proof.
  destruct o as [| | | | |[|] m| | |]; try apply pre_refl;
    destruct c as [| | | | |[|] l2| | |]; cbn [cstmerge items]; try apply pre_nil; try apply pre_refl;
    try (eexists; cbn [app]; reflexivity); try (eexists; reflexivity).
Qed.

(* exact form for a contribution that is one element: neither None nor an open list *)
Lemma items_cstadd_one c n : n <> VNone -> islist n = false -> items (cstadd c n) = items c ++ [n].
Proof.
  intros Hn Hl. destruct c as [| | | | |[|] l| | |]; cbn [cstadd items app]; try reflexivity.
  destruct n as [| | | | |[|] m| | |]; try reflexivity; [contradiction|discriminate].
Qed.

Section Prefix.
Variable text : str.
Variable re_at : nat -> nat -> option (nat * str).
Variable isalnum isalpha : N -> bool.
Variable lower : N -> N.
Variable ic : icfg.
Variable unsafe : list str.
Context {St : Type}.
Variable on_cut : frame -> St -> St.

Definition PG (f f' : frame) : Prop := Pre (items (cst f)) (items (cst f')).

Lemma pg_refl f : PG f f.  Proof. apply pre_refl. Qed.
Lemma pg_trans f g h : PG f g -> PG g h -> PG f h.  Proof. apply pre_trans. Qed.
Lemma pg_merge f c : PG f (merge f c).  Proof. unfold PG. cbn [cst merge]. apply items_cstmerge. Qed.
Lemma pg_append f v : PG f (append f v).  Proof. unfold PG. cbn [cst append]. apply items_cstadd. Qed.

Ltac pgr := unfold PG; cbn [cst popf merge append goto set_cut set_ast push add_defined]; apply pre_refl.

Definition GoodP (ev : @ev_t St) : Prop :=
  forall e f st r f' st', ev e f st = (Ok r f', st') -> PG f f'.

Lemma seq_go_p ev : GoodP ev -> forall es out f st r f' st',
  seq_go ev es out f st = (Ok r f', st') -> PG f f'.
Proof.
  intros G es. induction es as [|e es IH]; intros out f st r f' st' E; cbn [seq_go] in E.
  - inversion E; subst. apply pg_refl.
  - destruct (ev e f st) as [[v f1|c|x] st1] eqn:E1; try discriminate.
    eapply pg_trans; [eapply G; exact E1|eapply IH; exact E].
Qed.

Lemma choice_go_p (ev : @ev_t St) : forall es f st r f' st',
  choice_go unsafe ev es f st = (Ok r f', st') -> PG f f'.
Proof.
  intros es. induction es as [|e es IH]; intros f st r f' st' E; cbn [choice_go] in E; [discriminate|].
  destruct (ev e (add_defined unsafe e (push f)) st) as [[v f1|[|]|x] st1]; try discriminate.
  - inversion E; subst. apply pg_merge.
  - eapply IH; exact E.
Qed.

Lemma rep_eval_p (ev : @ev_t St) k plus e sep omitsep f st r f' st' :
  rep_eval on_cut k ev plus e sep omitsep f st = (Ok r f', st') -> PG f f'.
Proof.
  intros E. unfold rep_eval in E. destruct plus.
  - destruct (rep_body on_cut k ev e sep omitsep (push f) st) as [[v f1|c|x] st1]; try discriminate.
    inversion E; subst. apply pg_merge.
  - destruct (rep_body on_cut k ev e sep omitsep (push (set_cst (push f) (VList false []))) st) as [[v f1|[|]|x] st1];
      try discriminate; inversion E; subst; apply pg_merge.
Qed.

Lemma skipto_go_p ev : GoodP ev -> forall k e f st r f' st',
  skipto_go text re_at ic k ev e f st = (Ok r f', st') -> PG f f'.
Proof.
  intros G k. induction k as [|k IH]; intros e f st r f' st' E; cbn [skipto_go] in E; [discriminate|].
  destruct (atend text (pos f)).
  - eapply G; exact E.
  - destruct (ev e (push f) st) as [[v f1|c|x] st1]; try discriminate.
    + eapply G; exact E.
    + destruct (next_token text re_at ic (pos f)) as [q|]; [|discriminate].
      pose proof (IH _ _ _ _ _ _ E) as B. unfold PG in *. cbn [cst goto] in B. exact B.
Qed.

Lemma leaf_p l f st r f' st' :
  leaf_eval text re_at isalnum isalpha lower ic on_cut l f st = (Ok r f', st') -> PG f f'.
Proof.
  intros E. destruct l; cbn [leaf_eval] in E; unfold with_next_token in E;
    repeat match type of E with
           | context [match ?x with _ => _ end] => destruct x; try discriminate
           | context [if ?x then _ else _] => destruct x; try discriminate
           end;
    inversion E; subst; first [ pgr | unfold PG; cbn [cst append goto]; apply items_cstadd ].
Qed.

Variable on_call : nat -> @ev_t St -> nat -> frame -> St -> res * St.
Hypothesis call_p : forall k ev r f st v f' st', on_call k ev r f st = (Ok v f', st') -> PG f f'.
Notation gev := (geval text re_at isalnum isalpha lower ic unsafe on_cut on_call).

Theorem geval_p : forall n, GoodP (gev n).
Proof.
  induction n as [|n IH]; intros e f st r f' st' E; [rewrite geval_O in E; discriminate|].
  rewrite geval_S in E.
  destruct e as [l|es|es|e1|e1|e1|plus sep omitsep e1|neg e1|e1|lft e1|rr|il nm e1|il e1].
  - eapply leaf_p; exact E.
  - pose proof (seq_go_p _ IH _ _ _ _ _ _ _ E) as B. unfold PG in *. cbn [cst add_defined set_ast] in B. exact B.
  - eapply choice_go_p; exact E.
  - eapply IH; exact E.
  - destruct (gev n e1 (push f) st) as [[v f1|c|x] st1]; try discriminate. inversion E; subst. pgr.
  - destruct (gev n e1 (add_defined unsafe (Opt e1) (push f)) st) as [[v f1|[|]|x] st1]; try discriminate;
      inversion E; subst; [apply pg_merge|apply pg_refl].
  - eapply rep_eval_p; exact E.
  - destruct neg; destruct (gev n e1 (push f) st) as [[v f1|c|x] st1]; try discriminate; inversion E; subst; apply pg_refl.
  - eapply skipto_go_p; [exact IH|exact E].
  - destruct (gev n e1 (push f) st) as [[v f1|c|x] st1]; try discriminate. inversion E; subst. apply pg_merge.
  - eapply call_p; exact E.
  - destruct il; destruct (gev n e1 f st) as [[v f1|c|x] st1] eqn:E1; try discriminate;
      inversion E; subst; pose proof (IH _ _ _ _ _ _ E1) as B; unfold PG in *; cbn [cst set_ast]; exact B.
  - destruct il; destruct (gev n e1 f st) as [[v f1|c|x] st1] eqn:E1; try discriminate;
      inversion E; subst; pose proof (IH _ _ _ _ _ _ E1) as B; unfold PG in *; cbn [cst set_ast]; exact B.
Qed.

End Prefix.

(* ---- the engine as it runs: the recursive call of a left-recursive rule, answered from the seed ---- *)
Section LeftOperand.
Variable text : str.
Variable re_at : nat -> nat -> option (nat * str).
Variable isalnum isalpha : N -> bool.
Variable lower upper : N -> N.
Variable ic : icfg.
Variable unsafe : list str.
Variable rules : list rule.
Variable ec : ecfg.
Variable act : nat -> value -> aret.
Variable lineat : nat -> nat.
Notation fev := (feval text re_at isalnum isalpha lower upper ic unsafe rules ec act lineat).
Notation fcall' := (fcall text re_at upper ic rules ec act lineat).

Lemma fcall_p k (ev : @ev_t gstate) r f st v f' st' : fcall' k ev r f st = (Ok v f', st') -> PG f f'.
Proof.
  unfold fcall. intros E.
  destruct (get_rule rules r) as [rl|]; [|discriminate].
  destruct (if r_tokn rl then Some (pos f) else next_token text re_at ic (pos f)) as [p|]; [|discriminate].
  destruct (if r_lrec rl then recursive_call upper ic ec act lineat k ev rl r (p, r) st
            else rule_call upper ic ec act lineat ev rl r (p, r) st) as [[node np| |x] st1]; try discriminate.
  inversion E; subst. unfold PG. cbn [cst append goto]. apply items_cstadd.
Qed.

Theorem feval_prefix n : GoodP (fev n).
Proof. unfold feval. apply geval_p. exact fcall_p. Qed.

Lemma pcall_p k (ev : @ev_t unit) r f st v f' st' :
  pcall text re_at upper ic rules ec act lineat k ev r f st = (Ok v f', st') -> PG f f'.
Proof.
  unfold pcall. intros E.
  repeat match type of E with
         | context [match ?x with _ => _ end] => destruct x; try discriminate
         end;
  inversion E; subst; unfold PG; cbn [cst append goto]; apply items_cstadd.
Qed.

Theorem peval_prefix n e f r f' :
  peval text re_at isalnum isalpha lower upper ic unsafe rules ec act lineat n e f = Ok r f' ->
  exists rest, items (cst f') = items (cst f) ++ rest.
Proof.
  unfold peval. intros E.
  destruct (geval text re_at isalnum isalpha lower ic unsafe (fun _ u => u)
              (pcall text re_at upper ic rules ec act lineat) n e f tt) as [r0 []] eqn:G. cbn [fst] in E. subst r0.
  eapply (geval_p text re_at isalnum isalpha lower ic unsafe (fun _ u => u) _ pcall_p); exact G.
Qed.

(* the recursive call finds the seed and hands it on: no body runs, the state is untouched, the position is the seed's end *)
Lemma call_from_seed n r rl f st seed q p :
  get_rule rules r = Some rl -> r_lrec rl = true -> left_recursion ec = true ->
  (if r_tokn rl then Some (pos f) else next_token text re_at ic (pos f)) = Some p ->
  lookup (results st) (p, r) = Some (OOk seed q) ->
  fev (S n) (Call r) f st = (Ok seed (append (goto f q) seed), st).
Proof.
  intros G L LR Hp Hs. unfold feval. rewrite geval_S. unfold fcall. rewrite G, Hp, L.
  unfold recursive_call. rewrite LR. cbn [negb]. rewrite Hs. reflexivity.
Qed.

(* ONE ROUND: the alternative `r X...` of a left-recursive rule r, evaluated while the seed for (p, r) is [seed], collects
   [seed] as its FIRST element, whatever X is and whatever it collects after it *)
Theorem recursive_alternative_starts_with_the_seed n r rl xs f st seed q p v f' st' :
  get_rule rules r = Some rl -> r_lrec rl = true -> left_recursion ec = true ->
  (if r_tokn rl then Some (pos f) else next_token text re_at ic (pos f)) = Some p ->
  lookup (results st) (p, r) = Some (OOk seed q) ->
  seed <> VNone -> islist seed = false -> cst f = VNone ->
  fev (S (S n)) (Seq (Call r :: xs)) f st = (Ok v f', st') ->
  exists rest, items (cst f') = seed :: rest.
Proof.
  intros G L LR Hp Hs Hn Hl Hc E. unfold feval in E. rewrite geval_S in E. cbn [seq_go] in E.
  pose proof (call_from_seed n r rl (add_defined unsafe (Seq (Call r :: xs)) f) st seed q p G L LR) as C.
  unfold feval in C. rewrite C in E; [|exact Hp|exact Hs].
  pose proof (seq_go_p _ (feval_prefix (S n)) _ _ _ _ _ _ _ E) as B.
  unfold PG in B. cbn [cst append goto add_defined set_ast] in B. rewrite Hc in B. cbn [cstadd] in B.
  destruct B as [rest B]. exists rest. rewrite B.
  destruct seed as [| | | | |[|] l| | |]; try reflexivity; [contradiction|discriminate].
Qed.

(* ... so the value the rule's body folds to (no names, no override) is that seed alone, or the closed list
   [seed; what followed ...]: the previous tree is the LEFT operand of the new tree *)
Corollary new_tree_has_previous_tree_on_the_left n r rl xs f st seed q p v f' st' :
  get_rule rules r = Some rl -> r_lrec rl = true -> left_recursion ec = true ->
  (if r_tokn rl then Some (pos f) else next_token text re_at ic (pos f)) = Some p ->
  lookup (results st) (p, r) = Some (OOk seed q) ->
  seed <> VNone -> islist seed = false -> cst f = VNone ->
  fev (S (S n)) (Seq (Call r :: xs)) f st = (Ok v f', st') -> fast f' = [] ->
  fold f' = seed \/ exists rest, fold f' = VList true (seed :: rest).
Proof.
  intros G L LR Hp Hs Hn Hl Hc E Ha.
  destruct (recursive_alternative_starts_with_the_seed n r rl xs f st seed q p v f' st' G L LR Hp Hs Hn Hl Hc E) as [rest I].
  unfold fold. rewrite Ha.
  destruct (cst f') as [| | | | |[|] l| | |]; cbn [items] in I; try discriminate; cbn [cstfinal];
    try (injection I as <- <-; left; reflexivity).
  right. exists rest. rewrite I. reflexivity.
Qed.

(* the whole body `r X... | alternatives` of the rule, in the frame a rule invocation starts with: if the recursive
   alternative is the one that succeeds, the body's frame starts with the seed; otherwise that alternative failed *)
Theorem body_round n r rl xs alts f0 st seed q p v fb st' :
  get_rule rules r = Some rl -> r_lrec rl = true -> left_recursion ec = true ->
  (if r_tokn rl then Some (pos f0) else next_token text re_at ic (pos f0)) = Some p ->
  lookup (results st) (p, r) = Some (OOk seed q) ->
  seed <> VNone -> islist seed = false -> cst f0 = VNone ->
  fev (S (S (S n))) (Choice (Seq (Call r :: xs) :: alts)) f0 st = (Ok v fb, st') ->
  (exists rest, items (cst fb) = seed :: rest) \/
  (exists st1, fev (S (S n)) (Seq (Call r :: xs)) (add_defined unsafe (Seq (Call r :: xs)) (push f0)) st = (Fail false, st1)).
Proof.
  intros G L LR Hp Hs Hn Hl Hc E. unfold feval in E. rewrite geval_S in E. cbn [choice_go] in E.
  fold (fev (S (S n)) (Seq (Call r :: xs)) (add_defined unsafe (Seq (Call r :: xs)) (push f0)) st) in E.
  destruct (fev (S (S n)) (Seq (Call r :: xs)) (add_defined unsafe (Seq (Call r :: xs)) (push f0)) st)
    as [[v1 f1|[|]|x] st1] eqn:E1; try discriminate.
  - left. inversion E; subst.
    assert (Hp' : (if r_tokn rl then Some (pos (add_defined unsafe (Seq (Call r :: xs)) (push f0)))
                   else next_token text re_at ic (pos (add_defined unsafe (Seq (Call r :: xs)) (push f0)))) = Some p) by exact Hp.
    destruct (recursive_alternative_starts_with_the_seed n r rl xs _ st seed q p _ _ _ G L LR Hp' Hs Hn Hl eq_refl E1) as [rest I].
    exists rest. cbn [cst merge]. rewrite Hc.
    destruct (cst f1) as [| | | | |[|] l| | |]; cbn [items] in I; try discriminate; cbn [cstmerge items]; exact I.
  - right. exists st1. reflexivity.
Qed.

End LeftOperand.

(* the hypotheses of the left-operand theorems are met in a real parse: e = e '+' 'a' | 'a' on "a+a+a", in the state where the
   seed for (0, e) is 'a' ending at 1, the recursive alternative collects ['a'; '+'; 'a'] - the seed first *)
From TatsuV Require Import Engine.LrecProof.
Definition w_seed_state : gstate := set_results gstate0 [((0, 0), OOk l_a 1)].
Example left_operand_witness :
  get_rule l_rules 0 = nth_error l_rules 0 /\
  lookup (results w_seed_state) (0, 0) = Some (OOk l_a 1) /\
  exists f' st',
    feval l_text (fun _ _ => None) (fun _ => false) (fun _ => false) (fun c => c) (fun c => c) l_ic [] l_rules l_ec
          (fun _ _ => ANone) (fun _ => 0) 10 (Seq [Call 0; Leaf (LTok [43%N]); Leaf (LTok [97%N])]) (newf 0) w_seed_state
      = (Ok (VList false [l_a; l_plus; l_a]) f', st')
    /\ items (cst f') = [l_a; l_plus; l_a].
Proof. split; [reflexivity|]. split; [reflexivity|]. eexists. eexists. split; vm_compute; reflexivity. Qed.
