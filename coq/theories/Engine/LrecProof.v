(* C03: facts about the seed-growing loop of recursive_call. *)
From Coq Require Import List NArith ZArith Arith Bool Lia.
From TatsuV Require Import Base.PyStr Engine.Value Engine.Syntax Engine.Input Engine.Engine Engine.Calls.
Import ListNotations.

Section Lrec.
Variable upper : N -> N.
Variable ic : icfg.
Variable ec : ecfg.
Variable act : nat -> value -> aret.
Variable lineat : nat -> nat.
Notation grow' := (grow upper ic ec act lineat).
Notation recursive_call' := (recursive_call upper ic ec act lineat).

Definition nonfatal (rr : rres) : Prop := forall x, rr <> RFatal x.

(* the loop returns the last seed of a strictly advancing chain: either no further growth happened
   (the current best is returned) or the result ends strictly further than the previous seed *)
Lemma grow_last n : forall (ev : @ev_t gstate) rl r k lastpos best st rr st',
  grow' n ev rl r k lastpos best st = (rr, st') -> nonfatal rr ->
  rr = best \/ exists node np, rr = ROk node np /\ match lastpos with Some lp => lp < np | None => True end.
Proof.
  induction n as [|n IH]; intros ev rl r k lastpos best st rr st' E NF.
  - cbn in E. inversion E; subst. exfalso. eapply NF. reflexivity.
  - cbn [grow] in E.
    destruct (rule_call upper ic ec act lineat ev rl r k (set_memos st (clear_guards (memos st)))) as [[node np| |x] st1].
    + destruct (match lastpos with None => true | Some lp => lp <? np end) eqn:G.
      * destruct (IH _ _ _ _ _ _ _ _ _ E NF) as [->|[node' [np' [-> H]]]].
        -- right. exists node, np. split; [reflexivity|]. destruct lastpos as [lp|]; [apply Nat.ltb_lt in G; exact G|exact I].
        -- right. exists node', np'. split; [reflexivity|]. destruct lastpos as [lp|]; [apply Nat.ltb_lt in G; lia|exact I].
      * inversion E; subst. left. reflexivity.
    + inversion E; subst. left. reflexivity.
    + inversion E; subst. exfalso. eapply NF. reflexivity.
Qed.

(* a seed, once grown, is what later invocations at the same key return - without running the body *)
Lemma recursive_call_reuses_seed n (ev : @ev_t gstate) rl r k st node np :
  left_recursion ec = true -> lookup (results st) k = Some (OOk node np) ->
  recursive_call' n ev rl r k st = (ROk node np, st).
Proof. intros HL H. unfold recursive_call. rewrite HL. cbn [negb]. rewrite H. reflexivity. Qed.

(* while the seed is being grown, a re-entrant invocation at the same key fails (the initial seed) *)
Lemma recursive_call_initial_seed_fails n (ev : @ev_t gstate) rl r k st :
  left_recursion ec = true -> lookup (results st) k = Some OGuard ->
  recursive_call' n ev rl r k st = (RFail, st).
Proof. intros HL H. unfold recursive_call. rewrite HL. cbn [negb]. rewrite H. reflexivity. Qed.

(* with left recursion switched off a left-recursive rule fails instead of recursing *)
Lemma recursive_call_off n (ev : @ev_t gstate) rl r k st :
  left_recursion ec = false -> recursive_call' n ev rl r k st = (RFail, st).
Proof. intros HL. unfold recursive_call. rewrite HL. reflexivity. Qed.

(* the value returned for a left-recursive rule is the last seed of a strictly advancing chain *)
Theorem recursive_call_returns_last_seed n (ev : @ev_t gstate) rl r k st node np st' :
  lookup (results st) k = None -> left_recursion ec = true ->
  recursive_call' n ev rl r k st = (ROk node np, st') ->
  exists st0, grow' n ev rl r k None RFail st0 = (ROk node np, st').
Proof.
  intros HN HL E. unfold recursive_call in E. rewrite HL in E. cbn [negb] in E. rewrite HN in E.
  eexists. exact E.
Qed.

End Lrec.

(* ---- a concrete left-recursive parse: e = e '+' 'a' | 'a' on "a+a+a" grows the seed three times and folds to the left ---- *)
Definition l_text : str := [97; 43; 97; 43; 97]%N.
Definition l_ic : icfg := {| ws_re := None; cm_re := None; eol_re := None; nameguard := false; ignorecase := false; namechars := [] |}.
Definition l_ec : ecfg := {| memoization := true; left_recursion := true; prune_on_cut := true; memo_cap := 16; parseinfo := false; keywords := [] |}.
Definition l_rules : list rule :=
  [{| r_name := 0; r_exp := Choice [Seq [Call 0; Leaf (LTok [43%N]); Leaf (LTok [97%N])]; Leaf (LTok [97%N])];
      r_tokn := false; r_isname := false; r_nomemo := false; r_lrec := true; r_memo := false |}].
Definition l_run := parse_with l_text (fun _ _ => None) (fun _ => false) (fun _ => false) (fun c => c) (fun c => c)
                               l_ic [] l_rules l_ec (fun _ _ => ANone) (fun _ => 0) 40 0.
Definition l_a := VStr [97%N].
Definition l_plus := VStr [43%N].

Lemma lrec_witness :
  exists f, fst l_run = Ok (VList true [VList true [l_a; l_plus; l_a]; l_plus; l_a]) f /\ pos f = 5.
Proof. eexists. split; vm_compute; reflexivity. Qed.
