(* Fuel monotonicity and determinism of the clean and of the faithful evaluator. *)
From Coq Require Import List NArith ZArith Arith Bool Lia.
From TatsuV Require Import Base.PyStr Engine.Value Engine.Syntax Engine.Input Engine.Engine Engine.Calls Engine.EngineRel.
Import ListNotations.

Section Mono.
Variable text : str.
Variable re_at : nat -> nat -> option (nat * str).
Variable isalnum isalpha : N -> bool.
Variable lower upper : N -> N.
Variable ic : icfg.
Variable unsafe : list str.

(* ---- generic: a call handler that is monotone gives a monotone evaluator ---- *)
Section Gen.
Context {St : Type}.
Variable on_cut : frame -> St -> St.
Variable on_call : nat -> @ev_t St -> nat -> frame -> St -> res * St.
Notation gev := (geval text re_at isalnum isalpha lower ic unsafe on_cut on_call).

Definition call_mono : Prop :=
  forall k1 k2 ev1 ev2, k1 <= k2 -> Rel (@eq St) ev1 ev2 ->
    forall r f s res s', on_call k1 ev1 r f s = (res, s') -> res <> Fatal OOF ->
      exists s2', on_call k2 ev2 r f s = (res, s2') /\ okst res (s' = s2').

Hypothesis HC : call_mono.

Lemma geval_mono : forall n1 n2, n1 <= n2 -> Rel (@eq St) (gev n1) (gev n2).
Proof.
  induction n1 as [|n1 IH]; intros n2 Hn.
  - intros e f s1 s2 r s1' _ E Hr. rewrite geval_O in E. inversion E; subst. exfalso; apply Hr; reflexivity.
  - destruct n2 as [|n2]; [lia|].
    apply geval_step_rel; [intros f s1 s2 ->; reflexivity | lia | apply IH; lia |].
    intros r f s1 s2 res s1' -> E Hres.
    eapply HC; [| apply IH | exact E | exact Hres]; lia.
Qed.

Lemma geval_mono_eq n1 n2 e f s r s' :
  n1 <= n2 -> gev n1 e f s = (r, s') -> r <> Fatal OOF ->
  exists s2', gev n2 e f s = (r, s2') /\ okst r (s' = s2').
Proof. intros Hn E Hr. exact (geval_mono n1 n2 Hn e f s s r s' eq_refl E Hr). Qed.

Lemma geval_mono_res n1 n2 e f s :
  n1 <= n2 -> fst (gev n1 e f s) <> Fatal OOF -> fst (gev n2 e f s) = fst (gev n1 e f s).
Proof.
  intros Hn H. destruct (gev n1 e f s) as [r s'] eqn:E. cbn [fst] in *.
  destruct (geval_mono_eq _ _ _ _ _ _ _ Hn E H) as [s2 [E2 _]]. rewrite E2. reflexivity.
Qed.

Lemma geval_det n1 n2 e f s :
  fst (gev n1 e f s) <> Fatal OOF -> fst (gev n2 e f s) <> Fatal OOF ->
  fst (gev n1 e f s) = fst (gev n2 e f s).
Proof.
  intros H1 H2. destruct (Nat.le_ge_cases n1 n2) as [L|L].
  - symmetry. apply geval_mono_res; assumption.
  - apply geval_mono_res; assumption.
Qed.
End Gen.

Variable rules : list rule.
Variable ec : ecfg.
Variable act : nat -> value -> aret.
Variable lineat : nat -> nat.

Notation pcall' := (pcall text re_at upper ic rules ec act lineat).
Notation fcall' := (fcall text re_at upper ic rules ec act lineat).

Lemma pcall_mono : call_mono pcall'.
Proof.
  intros k1 k2 ev1 ev2 Hk X r f s res s' E Hres. destruct s, s'. unfold pcall in *.
  destruct (get_rule rules r) as [rl|]; [|exists tt; split; [exact E|destruct res; cbn; auto]].
  destruct (if r_tokn rl then Some (pos f) else next_token text re_at ic (pos f)) as [p|];
    [|exists tt; split; [exact E|destruct res; cbn; auto]].
  destruct (ev1 (r_exp rl) (push (newf p)) tt) as [rb sb] eqn:Eb.
  assert (Hrb : rb <> Fatal OOF).
  { intros ->. inversion E; subst. apply Hres; reflexivity. }
  destruct (X _ _ _ _ _ _ eq_refl Eb Hrb) as [s2 [E2 _]]. rewrite E2.
  exists tt. split; [exact E|destruct res; cbn; auto].
Qed.

Definition okrr (rr : rres) (P : Prop) : Prop := match rr with RFatal _ => True | _ => P end.

Lemma rule_call_mono ev1 ev2 : Rel (@eq gstate) ev1 ev2 ->
  forall rl r k st rr st', rule_call upper ic ec act lineat ev1 rl r k st = (rr, st') -> rr <> RFatal OOF ->
    exists st2', rule_call upper ic ec act lineat ev2 rl r k st = (rr, st2') /\ okrr rr (st' = st2').
Proof.
  intros X rl r k st rr st' E Hrr. unfold rule_call in *.
  destruct (lookup (memos st) k) as [o|]; [exists st'; split; [exact E|destruct rr; cbn; auto]|].
  set (st1 := if left_recursion ec then memoize ec rl st k OGuard else st) in *.
  destruct (ev1 (r_exp rl) (push (newf (fst k))) st1) as [rb sb] eqn:Eb.
  assert (Hrb : rb <> Fatal OOF).
  { intros ->. inversion E; subst. apply Hrr; reflexivity. }
  destruct (X _ _ _ _ _ _ eq_refl Eb Hrb) as [s2 [E2 Hs]]. rewrite E2.
  destruct rb as [v fb|c|x]; cbn [okst] in Hs.
  - subst s2. exists st'. split; [exact E|destruct rr; cbn; auto].
  - subst s2. exists st'. split; [exact E|destruct rr; cbn; auto].
  - inversion E; subst. eexists. split; [reflexivity|exact I].
Qed.

Lemma grow_mono ev1 ev2 : Rel (@eq gstate) ev1 ev2 ->
  forall n1 n2 rl r k lastpos best st rr st', n1 <= n2 ->
    grow upper ic ec act lineat n1 ev1 rl r k lastpos best st = (rr, st') -> rr <> RFatal OOF ->
    exists st2', grow upper ic ec act lineat n2 ev2 rl r k lastpos best st = (rr, st2') /\ okrr rr (st' = st2').
Proof.
  intros X n1. induction n1 as [|n1 IH]; intros n2 rl r k lastpos best st rr st' Hn E Hrr.
  - cbn in E. inversion E; subst. exfalso; apply Hrr; reflexivity.
  - destruct n2 as [|n2]; [lia|]. cbn [grow] in *.
    destruct (rule_call upper ic ec act lineat ev1 rl r k (set_memos st (clear_guards (memos st)))) as [rr1 st1] eqn:E1.
    assert (H1 : rr1 <> RFatal OOF).
    { intros ->. inversion E; subst. apply Hrr; reflexivity. }
    destruct (rule_call_mono _ _ X _ _ _ _ _ _ E1 H1) as [st2 [E2 Hs]]. rewrite E2.
    destruct rr1 as [node np| |x]; cbn [okrr] in Hs.
    + subst st2. destruct (match lastpos with None => true | Some lp => lp <? np end).
      * eapply IH; [lia | exact E | exact Hrr].
      * exists st'. split; [exact E|destruct rr; cbn; auto].
    + subst st2. exists st'. split; [exact E|destruct rr; cbn; auto].
    + inversion E; subst. eexists. split; [reflexivity|exact I].
Qed.

Lemma fcall_mono : call_mono fcall'.
Proof.
  intros k1 k2 ev1 ev2 Hk X r f s res s' E Hres. unfold fcall in *.
  destruct (get_rule rules r) as [rl|]; [|exists s'; split; [exact E|destruct res; cbn; auto]].
  destruct (if r_tokn rl then Some (pos f) else next_token text re_at ic (pos f)) as [p|];
    [|exists s'; split; [exact E|destruct res; cbn; auto]].
  destruct (r_lrec rl).
  - unfold recursive_call in *.
    destruct (negb (left_recursion ec)); [exists s'; split; [exact E|destruct res; cbn; auto]|].
    destruct (lookup (results s) (p, r)) as [o|]; [exists s'; split; [exact E|destruct res; cbn; auto]|].
    match type of E with
    | (match grow _ _ _ _ _ ?n ?ev ?rl ?r ?k ?lp ?b ?st with _ => _ end) = _ =>
      destruct (grow upper ic ec act lineat n ev rl r k lp b st) as [rr st1] eqn:Eg
    end.
    assert (Hg : rr <> RFatal OOF).
    { intros ->. inversion E; subst. apply Hres; reflexivity. }
    destruct (grow_mono _ _ X _ _ _ _ _ _ _ _ _ _ Hk Eg Hg) as [st2 [E2 Hs]]. rewrite E2.
    destruct rr as [node np| |x]; cbn [okrr] in Hs.
    + subst st2. exists s'. split; [exact E|destruct res; cbn; auto].
    + subst st2. exists s'. split; [exact E|destruct res; cbn; auto].
    + inversion E; subst. eexists. split; [reflexivity|exact I].
  - destruct (rule_call upper ic ec act lineat ev1 rl r (p, r) s) as [rr st1] eqn:Er.
    assert (Hg : rr <> RFatal OOF).
    { intros ->. inversion E; subst. apply Hres; reflexivity. }
    destruct (rule_call_mono _ _ X _ _ _ _ _ _ Er Hg) as [st2 [E2 Hs]]. rewrite E2.
    destruct rr as [node np| |x]; cbn [okrr] in Hs.
    + subst st2. exists s'. split; [exact E|destruct res; cbn; auto].
    + subst st2. exists s'. split; [exact E|destruct res; cbn; auto].
    + inversion E; subst. eexists. split; [reflexivity|exact I].
Qed.

End Mono.
