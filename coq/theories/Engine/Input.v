(* Input layer (input/textlines.py TextLinesCursor): next_token, match, matchre, dot, atend.
   The regex engine and the Unicode tables are oracles (Section variables).  Model only. *)
From Coq Require Import List NArith Arith Bool.
From TatsuV Require Import Base.PyStr.
Import ListNotations.

Record icfg := {
  ws_re : option nat;        (* whitespace regex id (None: no whitespace skipping) *)
  cm_re : option nat;        (* comments regex id *)
  eol_re : option nat;       (* eol_comments regex id *)
  nameguard : bool;          (* resolved: config.nameguard, or bool(whitespace_re) or bool(namechars) *)
  ignorecase : bool;
  namechars : list N;
}.

Section Input.
Variable text : str.
Variable re_at : nat -> nat -> option (nat * str).   (* regex id, position -> (match length, value) *)
Variable isalnum isalpha : N -> bool.
Variable lower : N -> N.
Variable c : icfg.

Definition len := length text.

(* _eat_regex: `while self._matchre_fast(regex)`; an empty match counts as no match (it skips nothing).
   None = fuel exhausted, which cannot happen for an oracle whose matches stay inside the text (InputProof). *)
Fixpoint eat_f (fuel : nat) (id : nat) (pos : nat) : option (nat * bool) :=
  match fuel with
  | O => None
  | S f =>
    match re_at id pos with
    | None => Some (pos, false)
    | Some (O, _) => Some (pos, false)
    | Some (n, _) =>
      match eat_f f id (Nat.min len (pos + n)) with
      | Some (p, _) => Some (p, true)
      | None => None
      end
    end
  end.

Definition eat (oid : option nat) (pos : nat) : option (nat * bool) :=
  match oid with
  | None => Some (pos, false)
  | Some id => eat_f (S (S len)) id pos
  end.

(* `while self.eat_eol_comments(): self.eat_whitespace()` *)
Fixpoint eol_loop (fuel : nat) (pos : nat) : option nat :=
  match fuel with
  | O => None
  | S f =>
    match eat (eol_re c) pos with
    | None => None
    | Some (p, false) => Some p
    | Some (p, true) =>
      match eat (ws_re c) p with
      | None => None
      | Some (p', _) => eol_loop f p'
      end
    end
  end.

(* next_token: p = -1; while pos != p: p = pos; eat_whitespace; eol loop; eat_comments *)
Fixpoint next_token_f (fuel : nat) (pos : nat) : option nat :=
  match fuel with
  | O => None
  | S f =>
    match eat (ws_re c) pos with
    | None => None
    | Some (p1, _) =>
      match eol_loop (S (S len)) p1 with
      | None => None
      | Some p2 =>
        match eat (cm_re c) p2 with
        | None => None
        | Some (p3, _) => if Nat.eqb p3 pos then Some p3 else next_token_f f p3
        end
      end
    end
  end.

(* None = the loop never ends (a whitespace/comment regex matched the empty string) *)
Definition next_token (pos : nat) : option nat := next_token_f (S (S len)) pos.

Definition char_at (pos : nat) : option N := nth_error text pos.

Definition is_name_char (ch : N) : bool := isalnum ch || existsb (N.eqb ch) (namechars c).

Definition is_name (s : str) : bool :=
  match s with
  | [] => false
  | ch :: tl => (isalpha ch || existsb (N.eqb ch) (namechars c)) && forallb is_name_char tl
  end.

Definition slice (s : str) (pos n : nat) : str := firstn n (skipn pos s).

(* TextLinesCursor.match: Some newpos on success *)
Definition match_token (tok : str) (pos : nat) : option nat :=
  match tok with
  | [] => None
  | _ =>
    let seg := slice text pos (length tok) in
    let is_match := if ignorecase c then str_eqb (map lower seg) (map lower tok) else str_eqb seg tok in
    if is_match then
      let p := Nat.min len (pos + length tok) in
      let partial := nameguard c
                     && match char_at p with Some ch => is_name_char ch | None => false end
                     && is_name tok in
      if partial then None else Some p
    else None
  end.

(* matchre: Some (newpos, value) *)
Definition match_re (id : nat) (pos : nat) : option (nat * str) :=
  match re_at id pos with
  | Some (n, v) => Some (Nat.min len (pos + n), v)
  | None => None
  end.

Definition atend (pos : nat) : bool := Nat.leb len pos.

End Input.
