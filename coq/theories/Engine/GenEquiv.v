(* C02: WHOLE-GRAMMAR equivalence of generated parsers and the model interpreter, on the fragment where the two known
   differences cannot show:
     - a name (or the override) is bound over an expression that appends exactly one value (Gen.single_append), so that
       last_node - what generated code binds - is the value the expression returned - what the interpreter binds;
     - options of a choice and optionals define no names (generated code emits `define` only at the start of sequences).
   On such grammars the generated parser and the interpreter return the SAME result for every text, configuration, action
   oracle, memo / seed state and fuel: same value, same final frame, same engine state.  A relational induction through every
   construct, with the invariant that the keys of a frame's AST are distinct (define is then the identity on an AST that
   already holds no new names).  Proofs only. *)
From Coq Require Import List NArith ZArith Arith Bool Lia.
From TatsuV Require Import Base.PyStr Engine.Value Engine.Syntax Engine.Input Engine.Engine Engine.Gen Engine.Calls
     Engine.EngineRel Engine.GenProof Engine.KeysProof.
Import ListNotations.

(* ---- ASTs with distinct keys ---- *)
Definition keys (a : ast) : list str := map fst a.
Definition NoDupK (a : ast) : Prop := NoDup (keys a).

Lemma ast_has_in a k : ast_has a k = true <-> In k (keys a).
Proof.
  unfold ast_has. induction a as [|[k0 v0] a IH]; cbn [ast_get keys map fst In].
  - split; [discriminate|contradiction].
  - destruct (str_eqb k k0) eqn:E.
    + apply str_eqb_eq in E. subst k0. split; [intros _; left; reflexivity|intros _; reflexivity].
    + split.
      * intros H. right. apply IH, H.
      * intros [H|H]; [subst k0; rewrite str_eqb_refl in E; discriminate|apply IH, H].
Qed.

Lemma ast_has_notin a k : ast_has a k = false <-> ~ In k (keys a).
Proof.
  split.
  - intros H I. apply ast_has_in in I. rewrite I in H. discriminate.
  - intros H. destruct (ast_has a k) eqn:E; [|reflexivity]. exfalso. apply H, ast_has_in, E.
Qed.

Lemma ast_put_present a k v : ast_has a k = true -> keys (ast_put a k v) = keys a.
Proof.
  unfold ast_has. induction a as [|[k0 v0] a IH]; cbn [ast_get ast_put]; [discriminate|].
  destruct (str_eqb k k0) eqn:E; intros H.
  - apply str_eqb_eq in E. subst k0. reflexivity.
  - cbn [keys map fst]. f_equal. apply IH, H.
Qed.

Lemma ast_put_absent a k v : ast_has a k = false -> ast_put a k v = a ++ [(k, v)].
Proof.
  unfold ast_has. induction a as [|[k0 v0] a IH]; cbn [ast_get ast_put app]; [reflexivity|].
  destruct (str_eqb k k0); [discriminate|]. intros H. f_equal. apply IH, H.
Qed.

Lemma nodup_snoc (l : list str) k : NoDup l -> ~ In k l -> NoDup (l ++ [k]).
Proof.
  induction l as [|x l IH]; intros H N; cbn [app].
  - constructor; [intros []|constructor].
  - inversion H; subst. constructor.
    + intros I. apply in_app_or in I. destruct I as [I|[I|[]]]; [contradiction|]. subst x. apply N. left. reflexivity.
    + apply IH; [assumption|]. intros I. apply N. right. exact I.
Qed.

Lemma nodup_put a k v : NoDupK a -> NoDupK (ast_put a k v).
Proof.
  intros H. unfold NoDupK. destruct (ast_has a k) eqn:E.
  - rewrite ast_put_present by exact E. exact H.
  - rewrite ast_put_absent by exact E. unfold keys. rewrite map_app. cbn [map fst].
    apply nodup_snoc; [exact H|apply ast_has_notin, E].
Qed.

Lemma nodup_set unsafe a k v : NoDupK a -> NoDupK (ast_set unsafe a k v).
Proof. intros H. unfold ast_set. apply nodup_put, H. Qed.
Lemma nodup_setlist unsafe a k v : NoDupK a -> NoDupK (ast_setlist unsafe a k v).
Proof. intros H. unfold ast_setlist. apply nodup_put, H. Qed.

Lemma nodup_fold_put (l : list (str * value)) : forall acc, NoDupK acc ->
  NoDupK (fold_left (fun acc kv => ast_put acc (fst kv) (snd kv)) l acc).
Proof. induction l as [|kv l IH]; intros acc H; cbn [fold_left]; [exact H|]. apply IH, nodup_put, H. Qed.

Lemma nodup_fold_defstep unsafe d ks : forall acc, NoDupK acc -> NoDupK (fold_left (defstep unsafe d) ks acc).
Proof.
  induction ks as [|k ks IH]; intros acc H; cbn [fold_left]; [exact H|]. apply IH. unfold defstep.
  destruct (ast_has acc (safekey unsafe k)); [exact H|apply nodup_put, H].
Qed.

Lemma nodup_define unsafe a ks kl : NoDupK (ast_define unsafe a ks kl).
Proof.
  unfold ast_define. apply nodup_fold_put.
  change (fun acc k => let k0 := safekey unsafe k in if ast_has acc k0 then acc else ast_put acc k0 (VList false []))
    with (defstep unsafe (VList false [])).
  change (fun acc k => let k0 := safekey unsafe k in if ast_has acc k0 then acc else ast_put acc k0 VNone)
    with (defstep unsafe VNone).
  apply nodup_fold_defstep, nodup_fold_defstep. constructor.
Qed.

Lemma fold_put_app (a : ast) : forall acc, NoDup (keys acc ++ keys a) ->
  fold_left (fun acc kv => ast_put acc (fst kv) (snd kv)) a acc = acc ++ a.
Proof.
  induction a as [|[k v] a IH]; intros acc H; cbn [fold_left fst snd]; [rewrite app_nil_r; reflexivity|].
  assert (Hk : ast_has acc k = false).
  { apply ast_has_notin. intros I. cbn [keys map fst] in H.
    apply NoDup_remove_2 in H. apply H. apply in_or_app. left. exact I. }
  rewrite ast_put_absent by exact Hk. rewrite IH.
  - rewrite <- app_assoc. reflexivity.
  - unfold keys in *. rewrite map_app. cbn [map fst] in *. rewrite <- app_assoc. exact H.
Qed.

Lemma ast_define_nonames unsafe a : NoDupK a -> ast_define unsafe a [] [] = a.
Proof. intros H. unfold ast_define. cbn [fold_left]. rewrite fold_put_app; [reflexivity|exact H]. Qed.

Definition nonames (e : exp) : bool :=
  match def_single e, def_list e with [], [] => true | _, _ => false end.

Lemma add_defined_nonames unsafe e f : nonames e = true -> NoDupK (fast f) -> add_defined unsafe e f = f.
Proof.
  unfold nonames, add_defined. intros H N.
  destruct (def_single e); [|discriminate]. destruct (def_list e); [|discriminate]. cbn [filter].
  rewrite ast_define_nonames by exact N. destruct f; reflexivity.
Qed.

(* ---- the fragment ---- *)
Fixpoint genok (e : exp) : bool :=
  match e with
  | Leaf _ | Call _ => true
  | Seq es => forallb genok es
  | Choice es => forallb (fun x => genok x && nonames x) es
  | Group e1 | SkipGroup e1 | Look _ e1 | SkipTo e1 => genok e1
  | Opt e1 => genok e1 && nonames e1
  | Rep _ sep _ e1 => genok e1 && match sep with Some s => genok s | None => true end
  | Assoc _ e1 => single_append e1 && genok e1
  | Named _ _ e1 => single_append e1 && genok e1
  | Over false e1 => single_append e1 && genok e1
  | Over true _ => false
  end.

Section Equiv.
Variable text : str.
Variable re_at : nat -> nat -> option (nat * str).
Variable isalnum isalpha : N -> bool.
Variable lower : N -> N.
Variable ic : icfg.
Variable unsafe : list str.
Context {St : Type}.
Variable on_cut : frame -> St -> St.

(* ---- (1) the keys of a frame's AST stay distinct, in the interpreter ---- *)
Definition GoodN (ev : @ev_t St) : Prop :=
  forall e f st r f' st', ev e f st = (Ok r f', st') -> NoDupK (fast f) -> NoDupK (fast f').

Lemma nodup_add_defined e f : NoDupK (fast (add_defined unsafe e f)).
Proof. unfold add_defined. cbn [fast set_ast]. apply nodup_define. Qed.

Lemma seq_go_n ev : GoodN ev -> forall es out f st r f' st',
  seq_go ev es out f st = (Ok r f', st') -> NoDupK (fast f) -> NoDupK (fast f').
Proof.
  intros G es. induction es as [|e es IH]; intros out f st r f' st' E N; cbn [seq_go] in E.
  - inversion E; subst. exact N.
  - destruct (ev e f st) as [[v f1|c|x] st1] eqn:E1; try discriminate.
    eapply IH; [exact E|]. eapply G; [exact E1|exact N].
Qed.

Lemma choice_go_n ev : GoodN ev -> forall es f st r f' st',
  choice_go unsafe ev es f st = (Ok r f', st') -> NoDupK (fast f').
Proof.
  intros G es. induction es as [|e es IH]; intros f st r f' st' E; cbn [choice_go] in E; [discriminate|].
  destruct (ev e (add_defined unsafe e (push f)) st) as [[v f1|[|]|x] st1] eqn:E1; try discriminate.
  - inversion E; subst. cbn [fast merge]. eapply G; [exact E1|apply nodup_add_defined].
  - eapply IH; exact E.
Qed.

Lemma repeat_iter_n ev : GoodN ev -> forall e sep omitsep f st f' st',
  repeat_iter on_cut ev e sep omitsep f st = (IOk f', st') -> NoDupK (fast f) -> NoDupK (fast f').
Proof.
  intros G e sep omitsep f st f' st' E N. unfold repeat_iter in E.
  destruct sep as [s|]; [destruct (ev s (push (push f)) st) as [[v f4|c|x] st1] eqn:Es; [|destruct c; discriminate|discriminate]|];
  repeat match type of E with
         | context [match ?x with _ => _ end] => let D := fresh "D" in destruct x eqn:D; try discriminate
         | context [if ?b then _ else _] => destruct b eqn:?; try discriminate
         end;
    inversion E; subst;
    repeat match goal with
           | H : ev _ _ _ = (Ok _ _, _) |- _ => let B := fresh "B" in pose proof (G _ _ _ _ _ _ H) as B; clear H
           end;
    cbn [fast merge append set_ast goto set_cut push] in *; auto.
Qed.

Lemma repeat_go_n ev : GoodN ev -> forall k e sep omitsep f st r f' st',
  repeat_go on_cut k ev e sep omitsep f st = (Ok r f', st') -> NoDupK (fast f) -> NoDupK (fast f').
Proof.
  intros G k. induction k as [|k IH]; intros e sep omitsep f st r f' st' E N; cbn [repeat_go] in E; [discriminate|].
  destruct (repeat_iter on_cut ev e sep omitsep f st) as [[f1| | |x] st1] eqn:Ei; try discriminate.
  - eapply IH; [exact E|]. eapply repeat_iter_n; eassumption.
  - inversion E; subst. exact N.
Qed.

Lemma rep_body_n ev : GoodN ev -> forall k e sep omitsep f st r f' st',
  rep_body on_cut k ev e sep omitsep f st = (Ok r f', st') -> NoDupK (fast f) -> NoDupK (fast f').
Proof.
  intros G k e sep omitsep f st r f' st' E N. unfold rep_body in E.
  destruct (ev e f st) as [[v f1|c|x] st1] eqn:E1; try discriminate.
  eapply repeat_go_n; [exact G|exact E|]. cbn [fast set_cst]. eapply G; [exact E1|exact N].
Qed.

Lemma rep_eval_n ev : GoodN ev -> forall k plus e sep omitsep f st r f' st',
  rep_eval on_cut k ev plus e sep omitsep f st = (Ok r f', st') -> NoDupK (fast f) -> NoDupK (fast f').
Proof.
  intros G k plus e sep omitsep f st r f' st' E N. unfold rep_eval in E. destruct plus.
  - destruct (rep_body on_cut k ev e sep omitsep (push f) st) as [[v f1|c|x] st1] eqn:Eb; try discriminate.
    inversion E; subst. cbn [fast merge set_cst]. eapply rep_body_n; [exact G|exact Eb|exact N].
  - destruct (rep_body on_cut k ev e sep omitsep (push (set_cst (push f) (VList false []))) st) as [[v f1|[|]|x] st1] eqn:Eb;
      try discriminate; inversion E; subst; cbn [fast merge set_cst push]; [|exact N].
    eapply rep_body_n; [exact G|exact Eb|exact N].
Qed.

Lemma skipto_go_n ev : GoodN ev -> forall k e f st r f' st',
  skipto_go text re_at ic k ev e f st = (Ok r f', st') -> NoDupK (fast f) -> NoDupK (fast f').
Proof.
  intros G k. induction k as [|k IH]; intros e f st r f' st' E N; cbn [skipto_go] in E; [discriminate|].
  destruct (atend text (pos f)).
  - eapply G; eassumption.
  - destruct (ev e (push f) st) as [[v f1|c|x] st1]; try discriminate.
    + eapply G; eassumption.
    + destruct (next_token text re_at ic (pos f)) as [q|]; [|discriminate]. eapply IH; [exact E|exact N].
Qed.

Lemma leaf_n l f st r f' st' :
  leaf_eval text re_at isalnum isalpha lower ic on_cut l f st = (Ok r f', st') -> NoDupK (fast f) -> NoDupK (fast f').
Proof.
  intros E N. destruct l; cbn [leaf_eval] in E; unfold with_next_token in E;
    repeat match type of E with
           | context [match ?x with _ => _ end] => destruct x; try discriminate
           | context [if ?x then _ else _] => destruct x; try discriminate
           end;
    inversion E; subst; cbn [fast append goto set_cut]; exact N.
Qed.

Section Step.
Variable oci ocg : nat -> @ev_t St -> nat -> frame -> St -> res * St.
Notation gevi := (geval text re_at isalnum isalpha lower ic unsafe on_cut oci).
Notation gevg := (geval_gen text re_at isalnum isalpha lower ic unsafe on_cut ocg).
Hypothesis call_n : forall k ev r f st v f' st', oci k ev r f st = (Ok v f', st') -> NoDupK (fast f) -> NoDupK (fast f').
Hypothesis call_appends : forall k ev r f st v f1 st1,
  ocg k ev r f st = (Ok v f1, st1) -> last f1 = v /\ cst f1 = cstadd (cst f) v.

Theorem geval_n : forall n, GoodN (gevi n).
Proof.
  induction n as [|n IH]; intros e f st r f' st' E N; [rewrite geval_O in E; discriminate|].
  rewrite geval_S in E.
  destruct e as [l|es|es|e1|e1|e1|plus sep omitsep e1|neg e1|e1|lft e1|rr|il nm e1|il e1].
  - eapply leaf_n; eassumption.
  - eapply seq_go_n; [exact IH|exact E|apply nodup_add_defined].
  - eapply choice_go_n; [exact IH|exact E].
  - eapply IH; eassumption.
  - destruct (gevi n e1 (push f) st) as [[v f1|c|x] st1]; try discriminate. inversion E; subst. exact N.
  - destruct (gevi n e1 (add_defined unsafe (Opt e1) (push f)) st) as [[v f1|[|]|x] st1] eqn:E1; try discriminate;
      inversion E; subst; [|exact N]. cbn [fast merge]. eapply IH; [exact E1|apply nodup_add_defined].
  - eapply rep_eval_n; [exact IH|exact E|exact N].
  - destruct neg; destruct (gevi n e1 (push f) st) as [[v f1|c|x] st1]; try discriminate; inversion E; subst; exact N.
  - eapply skipto_go_n; [exact IH|exact E|exact N].
  - destruct (gevi n e1 (push f) st) as [[v f1|c|x] st1] eqn:E1; try discriminate.
    inversion E; subst. cbn [fast merge set_cst]. eapply IH; [exact E1|exact N].
  - eapply call_n; eassumption.
  - destruct il; destruct (gevi n e1 f st) as [[v f1|c|x] st1] eqn:E1; try discriminate;
      inversion E; subst; cbn [fast set_ast]; [apply nodup_setlist|apply nodup_set]; eapply IH; eassumption.
  - destruct il; destruct (gevi n e1 f st) as [[v f1|c|x] st1] eqn:E1; try discriminate;
      inversion E; subst; cbn [fast set_ast]; apply nodup_set; eapply IH; eassumption.
Qed.

(* ---- (2) the two evaluators agree on the fragment ---- *)
Definition RG0 (o1 o2 : res * St) : Prop :=
  snd o1 = snd o2 /\
  match fst o1, fst o2 with
  | Ok _ f1, Ok _ f2 => f1 = f2
  | Fail c1, Fail c2 => c1 = c2
  | Fatal x, Fatal y => x = y
  | _, _ => False
  end.

Definition RG (e : exp) (o1 o2 : res * St) : Prop :=
  RG0 o1 o2 /\
  match fst o1, fst o2 with
  | Ok r1 _, Ok r2 _ => single_append e = true -> r1 = r2
  | _, _ => True
  end.

Definition RelG (evi evg : @ev_t St) : Prop :=
  forall e f st, genok e = true -> NoDupK (fast f) -> RG e (evi e f st) (evg e f st).

Lemma seq_go_g evi evg : RelG evi evg -> GoodN evi -> forall es o1 o2 f st,
  forallb genok es = true -> NoDupK (fast f) -> RG0 (seq_go evi es o1 f st) (seq_go evg es o2 f st).
Proof.
  intros H GN es. induction es as [|e es IH]; intros o1 o2 f st Hg N; cbn [seq_go].
  - split; reflexivity.
  - cbn [forallb] in Hg. apply andb_true_iff in Hg. destruct Hg as [He Hes].
    pose proof (H e f st He N) as [[S0 R0] _].
    destruct (evi e f st) as [[v1 g1|c1|x1] s1] eqn:E1; destruct (evg e f st) as [[v2 g2|c2|x2] s2];
      cbn [fst snd] in *; try contradiction; subst.
    + apply IH; [exact Hes|]. eapply GN; [exact E1|exact N].
    + split; reflexivity.
    + split; reflexivity.
Qed.

Lemma choice_go_g evi evg : RelG evi evg -> forall es f st,
  forallb (fun x => genok x && nonames x) es = true -> NoDupK (fast f) ->
  RG0 (choice_go unsafe evi es f st) (choice_go_gen evg es f st) /\
  match fst (choice_go unsafe evi es f st), fst (choice_go_gen evg es f st) with
  | Ok r1 _, Ok r2 _ => forallb single_append es = true -> r1 = r2
  | _, _ => True
  end.
Proof.
  intros H es. induction es as [|e es IH]; intros f st Hg N; cbn [choice_go choice_go_gen].
  - split; [split; reflexivity|exact I].
  - cbn [forallb] in Hg. apply andb_true_iff in Hg. destruct Hg as [He Hes].
    apply andb_true_iff in He. destruct He as [He Hn].
    rewrite (add_defined_nonames unsafe e (push f) Hn N).
    pose proof (H e (push f) st He N) as [[S0 R0] RV0].
    destruct (evi e (push f) st) as [[v1 g1|c1|x1] s1]; destruct (evg e (push f) st) as [[v2 g2|c2|x2] s2];
      cbn [fst snd] in *; try contradiction; subst.
    + split; [split; reflexivity|]. cbn [fst forallb]. intros Hs. apply andb_true_iff in Hs. apply RV0, Hs.
    + destruct c2.
      * split; [split; reflexivity|exact I].
      * destruct (IH f s2 Hes N) as [A B]. split; [exact A|].
        destruct (fst (choice_go unsafe evi es f s2)), (fst (choice_go_gen evg es f s2)); try exact I.
        cbn [forallb]. intros Hs. apply andb_true_iff in Hs. apply B, Hs.
    + split; [split; reflexivity|exact I].
Qed.

(* repetitions never look at the values their elements return: exact agreement *)
Definition iter_body (ev : @ev_t St) (e : exp) (f f3c : frame) (p : nat) (st1 : St) : iter * St :=
  match ev e (push f3c) st1 with
  | (Ok _ f5, st2) =>
    let f3c' := if cutseen f5 then set_cut f3c else f3c in
    let f3d := append (set_ast (goto f3c' (pos f5)) (fast f5)) (cstfinal (cst f5)) in
    if Nat.eqb (pos f3d) p
    then (if cutseen f3d then ICommit else IStop, st2)
    else (IOk (merge f f3d), st2)
  | (Fail c, st2) => (if cutseen f3c || c then ICommit else IStop, st2)
  | (Fatal k, st2) => (IFatal k, st2)
  end.

Lemma repeat_iter_unfold (ev : @ev_t St) e sep omitsep f st :
  repeat_iter on_cut ev e sep omitsep f st =
  match sep with
  | None => iter_body ev e f (push f) (pos f) st
  | Some s =>
    match ev s (push (push f)) st with
    | (Ok _ f4, st1) =>
      let f3a := set_ast (goto (push f) (pos f4)) (fast f4) in
      let f3b := if omitsep then f3a else append f3a (cstfinal (cst f4)) in
      iter_body ev e f (set_cut f3b) (pos f) (on_cut (set_cut f3b) st1)
    | (Fail c, st1) => (if c then ICommit else IStop, st1)
    | (Fatal k, st1) => (IFatal k, st1)
    end
  end.
Proof.
  unfold repeat_iter, iter_body. destruct sep as [s|]; [|reflexivity].
  destruct (ev s (push (push f)) st) as [[v f4|[|]|x] st1]; reflexivity.
Qed.

Lemma iter_body_g evi evg : RelG evi evg -> forall e f c p st, genok e = true -> NoDupK (fast c) ->
  iter_body evi e f c p st = iter_body evg e f c p st.
Proof.
  intros H e f c p st He N. unfold iter_body.
  pose proof (H e (push c) st He N) as [[S1 R1] _].
  destruct (evi e (push c) st) as [[w1 h1|d1|y1] t1]; destruct (evg e (push c) st) as [[w2 h2|d2|y2] t2];
    cbn [fst snd] in *; try contradiction; subst; reflexivity.
Qed.

Lemma repeat_iter_g evi evg : RelG evi evg -> GoodN evi -> forall e sep omitsep f st,
  genok e = true -> match sep with Some s => genok s = true | None => True end -> NoDupK (fast f) ->
  repeat_iter on_cut evi e sep omitsep f st = repeat_iter on_cut evg e sep omitsep f st.
Proof.
  intros H GN e sep omitsep f st He Hs N. rewrite !repeat_iter_unfold.
  destruct sep as [s|]; [|apply iter_body_g; assumption].
  pose proof (H s (push (push f)) st Hs N) as [[S0 R0] _].
  destruct (evi s (push (push f)) st) as [[v1 g1|c1|x1] s1] eqn:Es; destruct (evg s (push (push f)) st) as [[v2 g2|c2|x2] s2];
    cbn [fst snd] in *; try contradiction; subst; try reflexivity.
  cbv zeta. apply iter_body_g; [exact H|exact He|].
  pose proof (GN _ _ _ _ _ _ Es N) as N4. destruct omitsep; cbn [fast set_cut append set_ast goto]; exact N4.
Qed.

Lemma repeat_go_g evi evg : RelG evi evg -> GoodN evi -> forall k e sep omitsep f st,
  genok e = true -> match sep with Some s => genok s = true | None => True end -> NoDupK (fast f) ->
  repeat_go on_cut k evi e sep omitsep f st = repeat_go on_cut k evg e sep omitsep f st.
Proof.
  intros H GN k. induction k as [|k IH]; intros e sep omitsep f st He Hs N; cbn [repeat_go]; [reflexivity|].
  rewrite <- (repeat_iter_g evi evg H GN e sep omitsep f st He Hs N).
  destruct (repeat_iter on_cut evi e sep omitsep f st) as [[f1| | |x] st1] eqn:Ei; try reflexivity.
  apply IH; [exact He|exact Hs|]. eapply repeat_iter_n; eassumption.
Qed.

Lemma rep_body_g evi evg : RelG evi evg -> GoodN evi -> forall k e sep omitsep f st,
  genok e = true -> match sep with Some s => genok s = true | None => True end -> NoDupK (fast f) ->
  RG0 (rep_body on_cut k evi e sep omitsep f st) (rep_body on_cut k evg e sep omitsep f st).
Proof.
  intros H GN k e sep omitsep f st He Hs N. unfold rep_body.
  pose proof (H e f st He N) as [[S0 R0] _].
  destruct (evi e f st) as [[v1 g1|c1|x1] s1] eqn:E1; destruct (evg e f st) as [[v2 g2|c2|x2] s2];
    cbn [fst snd] in *; try contradiction; subst; try (split; reflexivity).
  rewrite <- (repeat_go_g evi evg H GN k e sep omitsep _ s2 He Hs).
  - destruct (repeat_go on_cut k evi e sep omitsep (set_cst g2 (VList false [cst g2])) s2) as [[v f1|c|x] s3]; split; reflexivity.
  - cbn [fast set_cst]. eapply GN; [exact E1|exact N].
Qed.

Lemma rep_eval_g evi evg : RelG evi evg -> GoodN evi -> forall k plus e sep omitsep f st,
  genok e = true -> match sep with Some s => genok s = true | None => True end -> NoDupK (fast f) ->
  rep_eval on_cut k evi plus e sep omitsep f st = rep_eval on_cut k evg plus e sep omitsep f st.
Proof.
  intros H GN k plus e sep omitsep f st He Hs N. unfold rep_eval. destruct plus.
  - pose proof (rep_body_g evi evg H GN k e sep omitsep (push f) st He Hs N) as [S0 R0].
    destruct (rep_body on_cut k evi e sep omitsep (push f) st) as [[v1 g1|c1|x1] s1];
      destruct (rep_body on_cut k evg e sep omitsep (push f) st) as [[v2 g2|c2|x2] s2];
      cbn [fst snd] in *; try contradiction; subst; reflexivity.
  - pose proof (rep_body_g evi evg H GN k e sep omitsep (push (set_cst (push f) (VList false []))) st He Hs N) as [S0 R0].
    destruct (rep_body on_cut k evi e sep omitsep (push (set_cst (push f) (VList false []))) st) as [[v1 g1|c1|x1] s1];
      destruct (rep_body on_cut k evg e sep omitsep (push (set_cst (push f) (VList false []))) st) as [[v2 g2|c2|x2] s2];
      cbn [fst snd] in *; try contradiction; subst; reflexivity.
Qed.

Lemma skipto_go_g evi evg : RelG evi evg -> forall k e f st, genok e = true -> NoDupK (fast f) ->
  RG0 (skipto_go text re_at ic k evi e f st) (skipto_go text re_at ic k evg e f st).
Proof.
  intros H k. induction k as [|k IH]; intros e f st He N; cbn [skipto_go]; [split; reflexivity|].
  destruct (atend text (pos f)); [apply H; assumption|].
  pose proof (H e (push f) st He N) as [[S0 R0] _].
  destruct (evi e (push f) st) as [[v1 g1|c1|x1] s1]; destruct (evg e (push f) st) as [[v2 g2|c2|x2] s2];
    cbn [fst snd] in *; try contradiction; subst.
  - apply H; assumption.
  - destruct (next_token text re_at ic (pos f)) as [q|]; [|split; reflexivity]. apply IH; [exact He|exact N].
  - split; reflexivity.
Qed.

Hypothesis call_g : forall n, RelG (gevi n) (gevg n) -> GoodN (gevi n) ->
  forall r f st, NoDupK (fast f) -> oci n (gevi n) r f st = ocg n (gevg n) r f st.

Theorem geval_g : forall n, RelG (gevi n) (gevg n).
Proof.
  induction n as [|n IH]; intros e f st He N.
  - cbn. split; [split; reflexivity|exact I].
  - pose proof (geval_n n) as GN.
    pose proof (single_append_last text re_at isalnum isalpha lower ic unsafe on_cut ocg call_appends n) as SAg.
    rewrite geval_S, geval_gen_S.
    destruct e as [l|es|es|e1|e1|e1|plus sep omitsep e1|neg e1|e1|lft e1|rr|il nm e1|il e1]; cbn [genok] in He.
    + (* leaf *)
      destruct (leaf_eval text re_at isalnum isalpha lower ic on_cut l f st) as [[v g|c|x] s]; (split; [split; reflexivity|]);
        cbn [fst]; try exact I. intros _. reflexivity.
    + (* sequence *)
      split; [apply seq_go_g; [exact IH|exact GN|exact He|apply nodup_add_defined]|].
      destruct (fst (seq_go (gevi n) es VNone (add_defined unsafe (Seq es) f) st)),
               (fst (seq_go (gevg n) es VNone (add_defined unsafe (Seq es) f) st)); try exact I. discriminate.
    + (* choice *)
      destruct (choice_go_g _ _ IH es f st He N) as [A B]. split; [exact A|].
      destruct (fst (choice_go unsafe (gevi n) es f st)), (fst (choice_go_gen (gevg n) es f st)); try exact I. exact B.
    + (* group *)
      exact (IH e1 f st He N).
    + (* skip group *)
      pose proof (IH e1 (push f) st He N) as [[S0 R0] _].
      destruct (gevi n e1 (push f) st) as [[v1 g1|c1|x1] s1]; destruct (gevg n e1 (push f) st) as [[v2 g2|c2|x2] s2];
        cbn [fst snd] in *; try contradiction; subst; (split; [split; reflexivity|]); cbn [fst]; try exact I. intros _. reflexivity.
    + (* optional *)
      apply andb_true_iff in He. destruct He as [He Hn].
      assert (Hn' : nonames (Opt e1) = true) by exact Hn.
      rewrite (add_defined_nonames unsafe (Opt e1) (push f) Hn' N).
      pose proof (IH e1 (push f) st He N) as [[S0 R0] _].
      destruct (gevi n e1 (push f) st) as [[v1 g1|c1|x1] s1]; destruct (gevg n e1 (push f) st) as [[v2 g2|c2|x2] s2];
        cbn [fst snd] in *; try contradiction; subst.
      * split; [split; reflexivity|]. cbn [fst]. discriminate.
      * destruct c2; (split; [split; reflexivity|]); cbn [fst]; try exact I. discriminate.
      * split; [split; reflexivity|exact I].
    + (* repetition *)
      apply andb_true_iff in He. destruct He as [He Hs].
      assert (Hs' : match sep with Some s => genok s = true | None => True end) by (destruct sep; [exact Hs|exact I]).
      rewrite (rep_eval_g _ _ IH GN n plus e1 sep omitsep f st He Hs' N).
      destruct (rep_eval on_cut n (gevg n) plus e1 sep omitsep f st) as [[v g|c|x] s]; (split; [split; reflexivity|]);
        cbn [fst]; try exact I. intros _. reflexivity.
    + (* lookaheads *)
      pose proof (IH e1 (push f) st He N) as [[S0 R0] _].
      destruct neg; destruct (gevi n e1 (push f) st) as [[v1 g1|c1|x1] s1]; destruct (gevg n e1 (push f) st) as [[v2 g2|c2|x2] s2];
        cbn [fst snd] in *; try contradiction; subst; (split; [split; reflexivity|]); cbn [fst]; try exact I; discriminate.
    + (* skip to *)
      split; [apply skipto_go_g; assumption|].
      destruct (fst (skipto_go text re_at ic n (gevi n) e1 f st)), (fst (skipto_go text re_at ic n (gevg n) e1 f st)); try exact I.
      discriminate.
    + (* left / right join *)
      apply andb_true_iff in He. destruct He as [Hs He].
      pose proof (IH e1 (push f) st He N) as [[S0 R0] RV0].
      destruct (gevi n e1 (push f) st) as [[v1 g1|c1|x1] s1]; destruct (gevg n e1 (push f) st) as [[v2 g2|c2|x2] s2];
        cbn [fst snd] in *; try contradiction; subst.
      * rewrite (RV0 Hs). split; [split; reflexivity|]. cbn [fst]. intros _. reflexivity.
      * split; [split; reflexivity|exact I].
      * split; [split; reflexivity|exact I].
    + (* rule call *)
      rewrite (call_g n IH GN rr f st N).
      destruct (ocg n (gevg n) rr f st) as [[v g|c|x] s]; (split; [split; reflexivity|]); cbn [fst]; try exact I. intros _. reflexivity.
    + (* named *)
      apply andb_true_iff in He. destruct He as [Hs He].
      pose proof (IH e1 f st He N) as [[S0 R0] RV0].
      destruct il; destruct (gevi n e1 f st) as [[v1 g1|c1|x1] s1]; destruct (gevg n e1 f st) as [[v2 g2|c2|x2] s2] eqn:E2;
        cbn [fst snd] in *; try contradiction; subst; try (split; [split; reflexivity|exact I]);
        destruct (SAg _ _ _ _ _ _ Hs E2) as [HL _]; rewrite HL, (RV0 Hs); (split; [split; reflexivity|]); cbn [fst]; discriminate.
    + (* override *)
      destruct il; [discriminate|].
      apply andb_true_iff in He. destruct He as [Hs He].
      pose proof (IH e1 f st He N) as [[S0 R0] RV0].
      destruct (gevi n e1 f st) as [[v1 g1|c1|x1] s1]; destruct (gevg n e1 f st) as [[v2 g2|c2|x2] s2] eqn:E2;
        cbn [fst snd] in *; try contradiction; subst; try (split; [split; reflexivity|exact I]).
      destruct (SAg _ _ _ _ _ _ Hs E2) as [HL _]. rewrite HL, (RV0 Hs). split; [split; reflexivity|]. cbn [fst]. discriminate.
Qed.

End Step.
End Equiv.

(* ---- the engine: rule calls, memo, seeds and the seed-growing loop only see frames and states ---- *)
Section Faithful.
Variable text : str.
Variable re_at : nat -> nat -> option (nat * str).
Variable isalnum isalpha : N -> bool.
Variable lower upper : N -> N.
Variable ic : icfg.
Variable unsafe : list str.
Variable rules : list rule.
Variable ec : ecfg.
Variable act : nat -> value -> aret.
Variable lineat : nat -> nat.
(* every rule body lies in the fragment *)
Hypothesis rules_ok : forall r rl, get_rule rules r = Some rl -> genok (r_exp rl) = true.

Lemma nodup_nil : NoDupK (fast (push (newf 0))) /\ forall p, NoDupK (fast (push (newf p))).
Proof. split; [|intros p]; cbn; constructor. Qed.

Lemma rule_call_g (evi evg : @ev_t gstate) rl r k st : RelG evi evg -> genok (r_exp rl) = true ->
  rule_call upper ic ec act lineat evi rl r k st = rule_call upper ic ec act lineat evg rl r k st.
Proof.
  intros H Hg. unfold rule_call. destruct (lookup (memos st) k) as [[node np| |]|]; try reflexivity.
  pose proof (H (r_exp rl) (push (newf (fst k))) (if left_recursion ec then memoize ec rl st k OGuard else st) Hg
                (proj2 nodup_nil (fst k))) as [[S0 R0] _].
  destruct (evi (r_exp rl) (push (newf (fst k))) (if left_recursion ec then memoize ec rl st k OGuard else st)) as [[v1 g1|c1|x1] s1];
    destruct (evg (r_exp rl) (push (newf (fst k))) (if left_recursion ec then memoize ec rl st k OGuard else st)) as [[v2 g2|c2|x2] s2];
    cbn [fst snd] in *; try contradiction; subst; reflexivity.
Qed.

Lemma grow_g n (evi evg : @ev_t gstate) rl r k : RelG evi evg -> genok (r_exp rl) = true -> forall lastpos best st,
  grow upper ic ec act lineat n evi rl r k lastpos best st = grow upper ic ec act lineat n evg rl r k lastpos best st.
Proof.
  intros H Hg. induction n as [|n IH]; intros lastpos best st; cbn [grow]; [reflexivity|].
  rewrite (rule_call_g evi evg rl r k _ H Hg).
  destruct (rule_call upper ic ec act lineat evg rl r k (set_memos st (clear_guards (memos st)))) as [[node np| |x] st1]; try reflexivity.
  destruct (match lastpos with None => true | Some lp => lp <? np end); [apply IH|reflexivity].
Qed.

Lemma fcall_g n (evi evg : @ev_t gstate) r f st : RelG evi evg ->
  fcall text re_at upper ic rules ec act lineat n evi r f st = fcall text re_at upper ic rules ec act lineat n evg r f st.
Proof.
  intros H. unfold fcall. destruct (get_rule rules r) as [rl|] eqn:G; [|reflexivity].
  pose proof (rules_ok r rl G) as Hg.
  destruct (if r_tokn rl then Some (pos f) else next_token text re_at ic (pos f)) as [p|]; [|reflexivity].
  destruct (r_lrec rl).
  - unfold recursive_call. destruct (negb (left_recursion ec)); [reflexivity|].
    destruct (lookup (results st) (p, r)) as [[node np| |]|]; try reflexivity.
    rewrite (grow_g n evi evg rl r (p, r) H Hg). reflexivity.
  - rewrite (rule_call_g evi evg rl r (p, r) st H Hg). reflexivity.
Qed.

Lemma fcall_n k (ev : @ev_t gstate) r f st v f' st' :
  fcall text re_at upper ic rules ec act lineat k ev r f st = (Ok v f', st') -> NoDupK (fast f) -> NoDupK (fast f').
Proof.
  unfold fcall. intros E N.
  destruct (get_rule rules r) as [rl|]; [|discriminate].
  destruct (if r_tokn rl then Some (pos f) else next_token text re_at ic (pos f)) as [p|]; [|discriminate].
  destruct (if r_lrec rl then recursive_call upper ic ec act lineat k ev rl r (p, r) st
            else rule_call upper ic ec act lineat ev rl r (p, r) st) as [[node np| |x] st1]; try discriminate.
  inversion E; subst. cbn [fast append goto]. exact N.
Qed.

Theorem generated_equals_model : forall n,
  RelG (feval text re_at isalnum isalpha lower upper ic unsafe rules ec act lineat n)
       (geneval text re_at isalnum isalpha lower upper ic unsafe rules ec act lineat n).
Proof.
  unfold feval, geneval. apply geval_g.
  - exact fcall_n.
  - intros k ev r f st v f1 st1 E. eapply fcall_appends; exact E.
  - intros n H _ r f st _. apply fcall_g, H.
Qed.

(* THE THEOREM: a generated parser and the model interpreter return the same result and leave the same engine state *)
Theorem genparse_equals_parse n start :
  genparse_with text re_at isalnum isalpha lower upper ic unsafe rules ec act lineat n start
  = parse_with text re_at isalnum isalpha lower upper ic unsafe rules ec act lineat n start.
Proof.
  unfold genparse_with, parse_with.
  pose proof (generated_equals_model n (Call start) (newf 0) gstate0 eq_refl) as [[S0 R0] RV0]; [cbn; constructor|].
  destruct (feval text re_at isalnum isalpha lower upper ic unsafe rules ec act lineat n (Call start) (newf 0) gstate0) as [[v1 g1|c1|x1] s1];
    destruct (geneval text re_at isalnum isalpha lower upper ic unsafe rules ec act lineat n (Call start) (newf 0) gstate0) as [[v2 g2|c2|x2] s2];
    cbn [fst snd] in *; try contradiction; subst; try reflexivity.
  rewrite (RV0 eq_refl). reflexivity.
Qed.

End Faithful.

(* the fragment is not empty, and not trivial: a rule with names, a choice, an optional, a closure and a join *)
Example genok_example :
  genok (Seq [Named false [110%N] (Choice [Leaf (LTok [97%N]); Leaf (LTok [98%N])]);
              Opt (Leaf (LTok [99%N]));
              Named true [109%N] (Rep true (Some (Leaf (LTok [44%N]))) false (Call 1));
              Choice [Call 1; Leaf (LPat 0)]]) = true.
Proof. reflexivity. Qed.
