(* Configuration layering (util/configs.py Config.override / hard_override / merge, Grammar.__init__,
   Grammar.new_parse_config).  Field values are abstract: [None] stands for Python None / Undefined (a value
   that "erases", i.e. is ignored by a soft override).  Model only. *)
From Coq Require Import List NArith Bool.
From TatsuV Require Import Base.PyStr.
Import ListNotations.

Definition fieldv := option N.                    (* None = None/Undefined; Some v = any other value *)
Definition config := list (str * fieldv).         (* all fields of the dataclass, fixed set of names *)
Definition settings := list (str * fieldv).       (* keyword arguments, in call order *)

Fixpoint cfg_get (c : config) (k : str) : option fieldv :=
  match c with
  | [] => None
  | (k', v) :: c' => if str_eqb k k' then Some v else cfg_get c' k
  end.

Fixpoint cfg_set (c : config) (k : str) (v : fieldv) : config :=
  match c with
  | [] => []                                       (* unknown names are rejected before (ValueError) *)
  | (k', v') :: c' => if str_eqb k k' then (k', v) :: c' else (k', v') :: cfg_set c' k v
  end.

Definition known (c : config) (s : settings) : bool :=
  forallb (fun kv => match cfg_get c (fst kv) with Some _ => true | None => false end) s.

(* _find_common + dataclasses.replace: a soft override ignores erasing values, a hard one applies all *)
Definition override (hard : bool) (c : config) (s : settings) : config :=
  fold_left (fun acc kv =>
               match snd kv with
               | None => if hard then cfg_set acc (fst kv) None else acc
               | Some v => cfg_set acc (fst kv) (Some v)
               end) s c.

(* merge: only fields that are currently None are filled *)
Definition merge (c : config) (s : settings) : config :=
  fold_left (fun acc kv =>
               match snd kv, cfg_get acc (fst kv) with
               | Some v, Some None => cfg_set acc (fst kv) (Some v)
               | _, _ => acc
               end) s c.

(* Grammar.__init__ then Grammar.new_parse_config:
   defaults < settings given when the grammar is built < directives (hard) < parse-time settings *)
Definition effective (defaults : config) (compile_time directives parse_time : settings) : config :=
  override false (override true (override false defaults compile_time) directives) parse_time.

(* the specification: first defined among parse-time, directive, compile-time, default *)
Fixpoint last_binding (s : settings) (k : str) : option fieldv :=
  match s with
  | [] => None
  | (k', v) :: s' =>
    match last_binding s' k with
    | Some r => Some r
    | None => if str_eqb k k' then Some v else None
    end
  end.

Fixpoint last_defined (s : settings) (k : str) : option N :=
  match s with
  | [] => None
  | (k', v) :: s' =>
    match last_defined s' k with
    | Some r => Some r
    | None => if str_eqb k k' then v else None
    end
  end.

Definition spec_value (defaults : config) (compile_time directives parse_time : settings) (k : str) : option fieldv :=
  match cfg_get defaults k with
  | None => None
  | Some d =>
    match last_defined parse_time k with
    | Some v => Some (Some v)
    | None =>
      match last_binding directives k with
      | Some b => Some b                 (* a directive wins over compile-time settings and defaults, whatever its value *)
      | None =>
        match last_defined compile_time k with
        | Some v => Some (Some v)
        | None => Some d
        end
      end
    end
  end.
