(* Laws of the documented PEG semantics, proved of the clean evaluator [peval] (and of the generic
   helpers, for any element evaluator): ordered choice, commit at cuts, containment of cuts, pure
   lookahead, greedy closures returning closed lists, rule calls contributing one element. *)
From Coq Require Import List NArith ZArith Arith Bool Lia.
From TatsuV Require Import Base.PyStr Engine.Value Engine.Syntax Engine.Input Engine.Engine Engine.Calls
     Engine.EngineRel Engine.EngineMono Engine.InputProof.
Import ListNotations.

Section Laws.
Variable text : str.
Variable re_at : nat -> nat -> option (nat * str).
Variable isalnum isalpha : N -> bool.
Variable lower upper : N -> N.
Variable ic : icfg.
Variable unsafe : list str.
Variable rules : list rule.
Variable ec : ecfg.
Variable act : nat -> value -> aret.
Variable lineat : nat -> nat.

Notation pcall' := (pcall text re_at upper ic rules ec act lineat).
Notation pcut := (fun (_ : frame) (u : unit) => u).
Notation pev := (geval text re_at isalnum isalpha lower ic unsafe pcut pcall').
Notation peval' := (peval text re_at isalnum isalpha lower upper ic unsafe rules ec act lineat).

Lemma peval_S n e f : peval' (S n) e f = fst (pev (S n) e f tt).
Proof. reflexivity. Qed.

(* ---- determinism: the result does not depend on the fuel once it is not "out of fuel" ---- *)
Theorem peval_deterministic n1 n2 e f :
  peval' n1 e f <> Fatal OOF -> peval' n2 e f <> Fatal OOF -> peval' n1 e f = peval' n2 e f.
Proof.
  unfold peval. apply (geval_det text re_at isalnum isalpha lower ic unsafe pcut pcall'). apply pcall_mono.
Qed.

Theorem peval_monotone n1 n2 e f :
  n1 <= n2 -> peval' n1 e f <> Fatal OOF -> peval' n2 e f = peval' n1 e f.
Proof.
  unfold peval. apply (geval_mono_res text re_at isalnum isalpha lower ic unsafe pcut pcall'). apply pcall_mono.
Qed.

(* ---- ordered choice (generic in the element evaluator) ---- *)
Section Choice.
Variable ev : @ev_t unit.
Definition opt_res (e : exp) (f : frame) : res := fst (ev e (add_defined unsafe e (push f)) tt).

Lemma ev_unit e f : ev e f tt = (fst (ev e f tt), tt).
Proof. destruct (ev e f tt) as [r []]. reflexivity. Qed.

(* the first option that succeeds wins; options after it are never consulted *)
Lemma choice_first_success es1 : forall e es2 f r f1,
  (forall x, In x es1 -> opt_res x f = Fail false) ->
  opt_res e f = Ok r f1 ->
  choice_go unsafe ev (es1 ++ e :: es2) f tt = (Ok r (merge f f1), tt).
Proof.
  induction es1 as [|x es1 IH]; intros e es2 f r f1 Hf He; cbn [app choice_go].
  - unfold opt_res in He. rewrite ev_unit, He. reflexivity.
  - pose proof (Hf x (or_introl eq_refl)) as Hx. unfold opt_res in Hx. rewrite ev_unit, Hx.
    apply IH; [|exact He]. intros y Hy. apply Hf. right. exact Hy.
Qed.

(* every option fails without having seen a cut: the choice fails, with the caller's cut flag *)
Lemma choice_all_fail es : forall f,
  (forall x, In x es -> opt_res x f = Fail false) ->
  choice_go unsafe ev es f tt = (Fail (cutseen f), tt).
Proof.
  induction es as [|x es IH]; intros f Hf; cbn [choice_go]; [reflexivity|].
  pose proof (Hf x (or_introl eq_refl)) as Hx. unfold opt_res in Hx. rewrite ev_unit, Hx.
  apply IH. intros y Hy. apply Hf. right. exact Hy.
Qed.

(* C05: an option that fails after a cut commits the choice: later options are not tried *)
Lemma choice_commit es1 : forall e es2 f,
  (forall x, In x es1 -> opt_res x f = Fail false) ->
  opt_res e f = Fail true ->
  choice_go unsafe ev (es1 ++ e :: es2) f tt = (Fail (cutseen f), tt).
Proof.
  induction es1 as [|x es1 IH]; intros e es2 f Hf He; cbn [app choice_go].
  - unfold opt_res in He. rewrite ev_unit, He. reflexivity.
  - pose proof (Hf x (or_introl eq_refl)) as Hx. unfold opt_res in Hx. rewrite ev_unit, Hx.
    apply IH; [|exact He]. intros y Hy. apply Hf. right. exact Hy.
Qed.

(* C05 containment: whatever the options do, the choice leaves the caller's cut flag alone *)
Lemma choice_contained es : forall f r f',
  choice_go unsafe ev es f tt = (Ok r f', tt) -> cutseen f' = cutseen f.
Proof.
  induction es as [|x es IH]; intros f r f' H; cbn [choice_go] in H; [discriminate|].
  rewrite ev_unit in H. destruct (fst (ev x (add_defined unsafe x (push f)) tt)) as [v f1|[|]|k];
    try discriminate.
  - inversion H; subst. reflexivity.
  - eapply IH; exact H.
Qed.

Lemma choice_fail_flag es : forall f c,
  choice_go unsafe ev es f tt = (Fail c, tt) -> c = cutseen f.
Proof.
  induction es as [|x es IH]; intros f c H; cbn [choice_go] in H; [inversion H; reflexivity|].
  rewrite ev_unit in H. destruct (fst (ev x (add_defined unsafe x (push f)) tt)) as [v f1|[|]|k];
    try discriminate.
  - inversion H; reflexivity.
  - eapply IH; exact H.
Qed.
End Choice.

(* ---- the same laws, stated of the semantics ---- *)
Theorem peval_choice_first_success n es1 e es2 f r f1 :
  (forall x, In x es1 -> peval' n x (add_defined unsafe x (push f)) = Fail false) ->
  peval' n e (add_defined unsafe e (push f)) = Ok r f1 ->
  peval' (S n) (Choice (es1 ++ e :: es2)) f = Ok r (merge f f1).
Proof.
  intros Hf He. unfold peval. rewrite geval_S.
  rewrite (choice_first_success (pev n) es1 e es2 f r f1 Hf He). reflexivity.
Qed.

Theorem peval_choice_all_fail n es f :
  (forall x, In x es -> peval' n x (add_defined unsafe x (push f)) = Fail false) ->
  peval' (S n) (Choice es) f = Fail (cutseen f).
Proof.
  intros Hf. unfold peval. rewrite geval_S. rewrite (choice_all_fail (pev n) es f Hf). reflexivity.
Qed.

Theorem peval_choice_commit n es1 e es2 f :
  (forall x, In x es1 -> peval' n x (add_defined unsafe x (push f)) = Fail false) ->
  peval' n e (add_defined unsafe e (push f)) = Fail true ->
  peval' (S n) (Choice (es1 ++ e :: es2)) f = Fail (cutseen f).
Proof.
  intros Hf He. unfold peval. rewrite geval_S.
  rewrite (choice_commit (pev n) es1 e es2 f Hf He). reflexivity.
Qed.

(* ---- left / right joins (op<{e}+ , op>{e}+) ---- *)
Theorem peval_assoc n lft e f :
  peval' (S n) (Assoc lft e) f =
    match peval' n e (push f) with
    | Ok r f1 => let v := (if lft then left_assoc else right_assoc) (list_items r) in
                 Ok v (merge f (set_cst f1 v))
    | Fail _ => Fail (cutseen f)
    | Fatal x => Fatal x
    end.
Proof.
  unfold peval. rewrite geval_S. destruct (pev n e (push f) tt) as [[v f1|c|x] []]; reflexivity.
Qed.

(* the tree is ONE contribution merged into what the sequence had collected: nothing collected before the join is lost,
   and the position is where the flat join ended *)
Theorem peval_assoc_keeps_collected n lft e f v f' :
  peval' (S n) (Assoc lft e) f = Ok v f' ->
  exists r f1, peval' n e (push f) = Ok r f1 /\
    v = (if lft then left_assoc else right_assoc) (list_items r) /\
    cst f' = cstmerge (cst f) v /\ pos f' = pos f1 /\ fast f' = fast f1 /\ cutseen f' = cutseen f /\ last f' = v.
Proof.
  rewrite peval_assoc. destruct (peval' n e (push f)) as [r f1|c|x]; try discriminate.
  intros E. inversion E; subst. exists r, f1. cbn. repeat split; reflexivity.
Qed.

(* ---- optional ---- *)
Theorem peval_optional n e f :
  peval' (S n) (Opt e) f =
    match peval' n e (add_defined unsafe (Opt e) (push f)) with
    | Ok r f1 => Ok r (merge f f1)
    | Fail true => Fail (cutseen f)          (* a cut inside commits: the optional fails *)
    | Fail false => Ok VNone f               (* skipped: nothing consumed, nothing added *)
    | Fatal x => Fatal x
    end.
Proof.
  unfold peval. rewrite geval_S.
  destruct (pev n e (add_defined unsafe (Opt e) (push f)) tt) as [[v f1|[|]|x] []]; reflexivity.
Qed.

(* ---- lookaheads consume nothing and leave cst, ast and cut flag alone ---- *)
Theorem peval_lookahead_pure n neg e f r f' :
  peval' (S n) (Look neg e) f = Ok r f' -> f' = f /\ r = VNone.
Proof.
  unfold peval. rewrite geval_S. destruct neg;
    destruct (pev n e (push f) tt) as [[v f1|c|x] []]; cbn; intros H; inversion H; split; reflexivity.
Qed.

Theorem peval_lookahead_iff n e f :
  (exists r f1, peval' n e (push f) = Ok r f1) <-> peval' (S n) (Look false e) f = Ok VNone f.
Proof.
  unfold peval. rewrite geval_S. destruct (pev n e (push f) tt) as [[v f1|c|x] []]; cbn [fst]; split.
  - intros _. reflexivity.
  - intros _. exists v, f1. reflexivity.
  - intros [r [f1 H]]. discriminate.
  - intros H. discriminate.
  - intros [r [f1 H]]. discriminate.
  - intros H. discriminate.
Qed.

Theorem peval_neg_lookahead_iff n e f :
  (exists c, peval' n e (push f) = Fail c) <-> peval' (S n) (Look true e) f = Ok VNone f.
Proof.
  unfold peval. rewrite geval_S. destruct (pev n e (push f) tt) as [[v f1|c|x] []]; cbn [fst]; split.
  - intros [c H]. discriminate.
  - intros H. discriminate.
  - intros _. reflexivity.
  - intros _. exists c. reflexivity.
  - intros [c H]. discriminate.
  - intros H. discriminate.
Qed.

(* ---- closures: closed lists, no failure without a cut, containment ---- *)
Theorem peval_closure_shape n sep omitsep e f r f' :
  peval' (S n) (Rep false sep omitsep e) f = Ok r f' ->
  exists items, r = VList true items /\ cutseen f' = cutseen f /\ fast f' = fast f' /\
                cst f' = cstmerge (cst f) (VList true items).
Proof.
  unfold peval. rewrite geval_S. unfold rep_eval.
  destruct (rep_body pcut n (pev n) e sep omitsep (push (set_cst (push f) (VList false []))) tt)
    as [[v f2|[|]|x] []]; cbn; intros H; inversion H; subst; eexists; repeat split.
Qed.

Theorem peval_closure_never_plain_fail n sep omitsep e f c :
  peval' (S n) (Rep false sep omitsep e) f = Fail c ->
  (* only a cut inside the body or a separator can make a closure fail *)
  fst (rep_body pcut n (pev n) e sep omitsep (push (set_cst (push f) (VList false []))) tt) = Fail true.
Proof.
  unfold peval. rewrite geval_S. unfold rep_eval.
  destruct (rep_body pcut n (pev n) e sep omitsep (push (set_cst (push f) (VList false []))) tt)
    as [[v f2|[|]|x] []]; cbn; intros H; inversion H; reflexivity.
Qed.

(* every iteration after the first consumed input: an iteration that makes no progress ends the loop *)
Lemma repeat_iter_progress (ev : @ev_t unit) e sep omitsep f f' :
  repeat_iter pcut ev e sep omitsep f tt = (IOk f', tt) -> pos f' <> pos f.
Proof.
  unfold repeat_iter. intros H.
  repeat match type of H with
         | context [match ?x with _ => _ end] => let E := fresh "E" in destruct x eqn:E; try discriminate
         | context [if ?b then _ else _] => let E := fresh "E" in destruct b eqn:E; try discriminate
         end;
    inversion H; subst; cbn [merge pos push] in *;
    match goal with E : Nat.eqb _ _ = false |- _ => apply Nat.eqb_neq in E; cbn [pos push append set_ast goto set_cut] in E; exact E end.
Qed.

Lemma pcall_unfold k (ev : @ev_t unit) r f u :
  pcall' k ev r f u =
  match get_rule rules r with
  | None => (Fatal (Foreign 1), u)
  | Some rl =>
    match (if r_tokn rl then Some (pos f) else next_token text re_at ic (pos f)) with
    | None => (Fatal Hang, u)
    | Some p =>
      match ev (r_exp rl) (push (newf p)) u with
      | (Ok _ fb, _) =>
        match fst (post_body upper ic ec act lineat rl r p fb) with
        | ROk node np => (Ok node (append (goto f np) node), u)
        | RFail => (Fail (cutseen f), u)
        | RFatal x => (Fatal x, u)
        end
      | (Fail _, _) => (Fail (cutseen f), u)
      | (Fatal x, _) => (Fatal x, u)
      end
    end
  end.
Proof. reflexivity. Qed.

(* ---- whitespace at rule entry (C09): a lower-case rule skips it, so its amount does not matter; an upper-case rule
   starts its body exactly where the caller stands ---- *)
Theorem peval_call_skips_ws n r rl f q :
  get_rule rules r = Some rl -> r_tokn rl = false -> next_token text re_at ic (pos f) = Some q ->
  peval' (S n) (Call r) f = peval' (S n) (Call r) (goto f q).
Proof.
  intros G T Q. unfold peval. rewrite !geval_S, !pcall_unfold, G, T. cbn [pos goto].
  rewrite Q, (next_token_idempotent text re_at ic _ _ Q). reflexivity.
Qed.

Theorem peval_token_rule_never_skips n r rl f :
  get_rule rules r = Some rl -> r_tokn rl = true ->
  peval' (S n) (Call r) f =
    match pev n (r_exp rl) (push (newf (pos f))) tt with
    | (Ok _ fb, _) =>
      match fst (post_body upper ic ec act lineat rl r (pos f) fb) with
      | ROk node np => Ok node (append (goto f np) node)
      | RFail => Fail (cutseen f)
      | RFatal x => Fatal x
      end
    | (Fail _, _) => Fail (cutseen f)
    | (Fatal x, _) => Fatal x
    end.
Proof.
  intros G T. unfold peval. rewrite geval_S, pcall_unfold, G, T.
  destruct (pev n (r_exp rl) (push (newf (pos f))) tt) as [[vb fb|c|x] []]; [|reflexivity|reflexivity].
  destruct (fst (post_body upper ic ec act lineat rl r (pos f) fb)); reflexivity.
Qed.

(* ---- a rule call contributes exactly one element to its caller ---- *)
Theorem peval_call_one_element n r f v f' :
  peval' (S n) (Call r) f = Ok v f' ->
  exists np, f' = append (goto f np) v /\ cutseen f' = cutseen f /\ fast f' = fast f
             /\ cst f' = cstadd (cst f) v.
Proof.
  unfold peval. rewrite geval_S, pcall_unfold.
  destruct (get_rule rules r) as [rl|]; [|discriminate].
  destruct (if r_tokn rl then Some (pos f) else next_token text re_at ic (pos f)) as [p|]; [|discriminate].
  destruct (pev n (r_exp rl) (push (newf p)) tt) as [[vb fb|c|x] []]; try discriminate.
  destruct (fst (post_body upper ic ec act lineat rl r p fb)) as [node np| |x]; try discriminate.
  cbn. intros H; inversion H; subst. exists np. repeat split.
Qed.

(* C05: a cut inside a rule body never reaches the caller *)
Theorem peval_call_contains_cut n r f c :
  peval' (S n) (Call r) f = Fail c -> c = cutseen f.
Proof.
  unfold peval. rewrite geval_S, pcall_unfold.
  destruct (get_rule rules r) as [rl|]; [|discriminate].
  destruct (if r_tokn rl then Some (pos f) else next_token text re_at ic (pos f)) as [p|]; [|discriminate].
  destruct (pev n (r_exp rl) (push (newf p)) tt) as [[vb fb|c0|x] []]; try discriminate.
  - destruct (fst (post_body upper ic ec act lineat rl r p fb)) as [node np| |x]; try discriminate.
    cbn. intros H; inversion H; reflexivity.
  - cbn. intros H; inversion H; reflexivity.
Qed.

(* ---- C05: commit inside repetitions ---- *)
(* an iteration (after the first) that fails after a cut commits: the repetition fails *)
Lemma repeat_iter_commit_body (ev : @ev_t unit) e omitsep f :
  ev e (push (push f)) tt = (Fail true, tt) ->
  repeat_iter pcut ev e None omitsep f tt = (ICommit, tt).
Proof. intros H. unfold repeat_iter. rewrite H. cbn. reflexivity. Qed.

Lemma repeat_iter_stop_body (ev : @ev_t unit) e omitsep f :
  ev e (push (push f)) tt = (Fail false, tt) ->
  repeat_iter pcut ev e None omitsep f tt = (IStop, tt).
Proof. intros H. unfold repeat_iter. rewrite H. cbn. reflexivity. Qed.

(* a join commits after each separator: once the separator matched, a failing element is fatal to the join *)
Lemma repeat_iter_join_commits (ev : @ev_t unit) e s omitsep f v f4 c :
  ev s (push (push f)) tt = (Ok v f4, tt) ->
  (forall F, ev e (push F) tt = (Fail c, tt)) ->
  repeat_iter pcut ev e (Some s) omitsep f tt = (ICommit, tt).
Proof.
  intros Hs He. unfold repeat_iter. rewrite Hs, He. destruct omitsep; cbn; reflexivity.
Qed.

Lemma repeat_go_commit k (ev : @ev_t unit) e sep omitsep f :
  repeat_iter pcut ev e sep omitsep f tt = (ICommit, tt) ->
  repeat_go pcut (S k) ev e sep omitsep f tt = (Fail (cutseen f), tt).
Proof. intros H. cbn [repeat_go]. rewrite H. reflexivity. Qed.

(* ---- C05: containment - these constructs never leak a cut to their caller ---- *)
Theorem peval_contained n e f :
  (match e with Call _ | Choice _ | Opt _ | Rep _ _ _ _ | Look _ _ | SkipGroup _ | Assoc _ _ => True | _ => False end) ->
  match peval' (S n) e f with
  | Ok _ f' => cutseen f' = cutseen f
  | Fail c => c = cutseen f
  | Fatal _ => True
  end.
Proof.
  intros He. destruct e as [l|es|es|e1|e1|e1|plus sep omitsep e1|neg e1|e1|lft e1|r|il nm e1|il e1]; try contradiction.
  - (* Choice *)
    unfold peval. rewrite geval_S. destruct (choice_go unsafe (pev n) es f tt) as [[v f'|c|x] []] eqn:E; cbn [fst].
    + eapply choice_contained; exact E.
    + eapply choice_fail_flag; exact E.
    + exact I.
  - (* SkipGroup *)
    unfold peval. rewrite geval_S. destruct (pev n e1 (push f) tt) as [[v f1|c|x] []]; cbn; auto.
  - (* Opt *)
    rewrite peval_optional. destruct (peval' n e1 (add_defined unsafe (Opt e1) (push f))) as [v f1|[|]|x]; cbn; auto.
  - (* Rep *)
    unfold peval. rewrite geval_S. unfold rep_eval. destruct plus.
    + destruct (rep_body pcut n (pev n) e1 sep omitsep (push f) tt) as [[v f1|c|x] []]; cbn; auto.
    + destruct (rep_body pcut n (pev n) e1 sep omitsep (push (set_cst (push f) (VList false []))) tt)
        as [[v f1|[|]|x] []]; cbn; auto.
  - (* Look *)
    unfold peval. rewrite geval_S. destruct neg; destruct (pev n e1 (push f) tt) as [[v f1|c|x] []]; cbn; auto.
  - (* Assoc *)
    rewrite peval_assoc. destruct (peval' n e1 (push f)) as [v f1|c|x]; cbn; auto.
  - (* Call *)
    destruct (peval' (S n) (Call r) f) as [v f'|c|x] eqn:E; [|eapply peval_call_contains_cut; exact E|exact I].
    destruct (peval_call_one_element _ _ _ _ _ E) as [np [_ [Hc _]]]. exact Hc.
Qed.

(* items: the elements a cst stands for (None = no element yet, an open list = its elements, anything else = one element) *)
Definition items (c : value) : list value :=
  match c with VNone => [] | VList false l => l | v => [v] end.

Lemma cstadd_items c v : v <> VNone -> islist v = false -> items (cstadd c v) = items c ++ [v].
Proof.
  intros Hn Hl. destruct c as [| | | | |cl l| | |]; cbn [cstadd items]; try reflexivity.
  - destruct v as [| | | | |vl vs| | |]; try reflexivity; [contradiction|]. destruct vl; [reflexivity|discriminate].
  - destruct cl; reflexivity.
Qed.

(* the exact guard of "a rule's value is one element of its caller": it holds unless the value is None (first element
   vanishes: D1b) or an open list (an override of several elements: D1a) *)
Theorem peval_call_one_element_exact n r f v f' :
  peval' (S n) (Call r) f = Ok v f' -> v <> VNone -> islist v = false ->
  items (cst f') = items (cst f) ++ [v].
Proof.
  intros E Hn Hl. destruct (peval_call_one_element _ _ _ _ _ E) as [np [_ [_ [_ Hc]]]].
  rewrite Hc. apply cstadd_items; assumption.
Qed.

(* without an override the value of a rule body is never an open list *)
Lemma fold_closed f : ast_get (fast f) key_at = None -> islist (fold f) = false.
Proof.
  unfold fold. intros H. destruct (fast f) as [|kv a].
  - destruct (cst f) as [| | | | |cl l| | |]; try reflexivity. destruct cl; reflexivity.
  - rewrite H. reflexivity.
Qed.

End Laws.

(* ---- "a rule's value is always ONE element of its caller" fails in one corner: an override whose value is an open
        list (a group of several elements) hands that open list to the caller, and if it is the caller's first
        element the following elements are appended INTO it.  start = r 'c' ; r = @:('a' 'b') on "abc". ---- *)
Definition o_text : str := [97; 98; 99]%N.
Definition o_ic : icfg := {| ws_re := None; cm_re := None; eol_re := None; nameguard := false; ignorecase := false; namechars := [] |}.
Definition o_ec : ecfg := {| memoization := true; left_recursion := true; prune_on_cut := true; memo_cap := 8; parseinfo := false; keywords := [] |}.
Definition o_rule (e : exp) : rule :=
  {| r_name := 0; r_exp := e; r_tokn := false; r_isname := false; r_nomemo := false; r_lrec := false; r_memo := true |}.
Definition o_rules : list rule :=
  [o_rule (Seq [Call 1; Leaf (LTok [99%N])]);
   o_rule (Over false (Group (Seq [Leaf (LTok [97%N]); Leaf (LTok [98%N])])))].
Definition o_run := pparse_with o_text (fun _ _ => None) (fun _ => false) (fun _ => false) (fun c => c) (fun c => c)
                                o_ic [] o_rules o_ec (fun _ _ => ANone) (fun _ => 0) 30 0.

Lemma override_list_is_flattened :
  exists f, o_run = Ok (VList true [VStr [97%N]; VStr [98%N]; VStr [99%N]]) f.
Proof. eexists. vm_compute. reflexivity. Qed.
