(* Rule invocation: ParserEngine.call / rule_call / recursive_call / func_call / semantics_call,
   the packrat memo (BoundedDict), seeds for left recursion, guards, pruning at cuts - and the
   clean, memo-free semantics used as the reference.  Model only, no proofs. *)
From Coq Require Import List NArith ZArith Arith Bool.
From TatsuV Require Import Base.PyStr Engine.Value Engine.Syntax Engine.Input Engine.Engine Engine.Gen.
Import ListNotations.

(* engine configuration, resolved *)
Record ecfg := {
  memoization : bool;
  left_recursion : bool;
  prune_on_cut : bool;
  memo_cap : nat;             (* int(max(1.0, perlinememos) * linecount) *)
  parseinfo : bool;
  keywords : list str;        (* as declared; both sides are upper-cased at the check under ignorecase *)
}.

(* semantic actions: an oracle, a pure function of (rule, ast) *)
Inductive aret := ARet (v : value) | ANone (* no action for this rule *) | AFailed | ARaise (exn : nat).

Inductive outcome :=
| OOk (node : value) (newpos : nat)
| OFail                 (* a memoised FailedParse *)
| OGuard.               (* FailedLeftRecursion stored by set_left_recursion_guard / seed *)

Definition key := (nat * nat)%type.     (* (pos, rule) *)
Definition key_eqb (a b : key) : bool := Nat.eqb (fst a) (fst b) && Nat.eqb (snd a) (snd b).

Definition table := list (key * outcome).

Fixpoint lookup (m : table) (k : key) : option outcome :=
  match m with
  | [] => None
  | (k', o) :: m' => if key_eqb k k' then Some o else lookup m' k
  end.

Definition remove (m : table) (k : key) : table := filter (fun e => negb (key_eqb k (fst e))) m.

(* BoundedDict._enforce_limit: drop the oldest entries while over capacity *)
Fixpoint trim (cap : nat) (m : table) : table :=
  if Nat.leb (length m) cap then m else match m with [] => [] | _ :: m' => trim cap m' end.

(* BoundedDict.__setitem__: delete, append, enforce *)
Definition insert (cap : nat) (m : table) (k : key) (o : outcome) : table :=
  trim cap (remove m k ++ [(k, o)]).

Definition is_guard (o : outcome) : bool := match o with OGuard => true | _ => false end.

(* ParserCore.cut pruning: drop entries before cutpos that are not guards *)
Definition prune (m : table) (cutpos : nat) : table :=
  filter (fun e => negb (Nat.ltb (fst (fst e)) cutpos && negb (is_guard (snd e)))) m.

(* clear_recursion_errors *)
Definition clear_guards (m : table) : table := filter (fun e => negb (is_guard (snd e))) m.

Record gstate := {
  memos : table;
  results : table;      (* seeds: ParserCore._results, unbounded *)
  nbody : list nat;     (* log: rules whose semantic action was invoked (after a successful body), most recent first *)
  raised : list fatal;  (* ghost: what semantic actions raised (other than FailedSemantics), most recent first *)
}.

Definition gstate0 : gstate := {| memos := []; results := []; nbody := []; raised := [] |}.

Definition set_memos (st : gstate) (m : table) : gstate :=
  {| memos := m; results := results st; nbody := nbody st; raised := raised st |}.
Definition set_results (st : gstate) (m : table) : gstate :=
  {| memos := memos st; results := m; nbody := nbody st; raised := raised st |}.
Definition log_body (st : gstate) (r : nat) : gstate :=
  {| memos := memos st; results := results st; nbody := r :: nbody st; raised := raised st |}.
Definition log_raise (st : gstate) (x : fatal) : gstate :=
  {| memos := memos st; results := results st; nbody := nbody st; raised := x :: raised st |}.

Section Calls.
Variable text : str.
Variable re_at : nat -> nat -> option (nat * str).
Variable isalnum isalpha : N -> bool.
Variable lower upper : N -> N.
Variable ic : icfg.
Variable unsafe : list str.
Variable rules : list rule.
Variable ec : ecfg.
Variable act : nat -> value -> aret.
Variable lineat : nat -> nat.          (* cursor.lineat, C12 *)

Definition dummy_rule : rule :=
  {| r_name := 0; r_exp := Leaf LFail; r_tokn := false; r_isname := false; r_nomemo := false;
     r_lrec := false; r_memo := true |}.
Definition get_rule (r : nat) : option rule := nth_error rules r.

(* validate_is_not_keyword: str(node) is compared; only strings can equal a keyword *)
Definition is_keyword (node : value) : bool :=
  match node with
  | VStr s => if ignorecase ic then mem_str (map upper s) (map (map upper) (keywords ec))
              else mem_str s (keywords ec)
  | _ => false
  end.

Definition key_parseinfo : str := [112; 97; 114; 115; 101; 105; 110; 102; 111]%N.                  (* "parseinfo" *)
Definition key_parseinfo2 : str := [95; 95; 112; 97; 114; 115; 101; 105; 110; 102; 111; 95; 95]%N.  (* "__parseinfo__" *)

(* set_parseinfo: only AST nodes carry it in the model *)
Definition with_parseinfo (node : value) (r : nat) (p endp : nat) : value :=
  if parseinfo ec then
    match node with
    | VDict a =>
      (* only an AST carries it: the plain dict that a nested override leaks (it holds the override key) has no parseinfo attribute *)
      if ast_has a key_at then node else
      let info := VInfo r p endp (lineat p) (lineat endp) in
      VDict (ast_put (ast_put a key_parseinfo info) key_parseinfo2 info)
    | _ => node
    end
  else node.

Inductive rres := ROk (node : value) (newpos : nat) | RFail | RFatal (k : fatal).

(* what happens between a successful body and the RuleResult: keyword check, action, parseinfo *)
Definition post_body (rl : rule) (r : nat) (p : nat) (fb : frame) : rres * bool (* action ran *) :=
  let node := fold fb in
  if r_isname rl && is_keyword node then (RFail, false)
  else
    match act r node with
    | ANone => (ROk (with_parseinfo node r p (pos fb)) (pos fb), false)
    | ARet v => (ROk (with_parseinfo v r p (pos fb)) (pos fb), true)
    | AFailed => (RFail, true)
    | ARaise x => (RFatal (Foreign x), true)
    end.

(* ======================= the clean semantics: no memo, no seeds ======================= *)
Definition pcall (k : nat) (ev : @ev_t unit) (r : nat) (f : frame) (u : unit) : res * unit :=
  match get_rule r with
  | None => (Fatal (Foreign 1), u)                           (* KeyError -> FailedRef is C08's subject *)
  | Some rl =>
    match (if r_tokn rl then Some (pos f) else next_token text re_at ic (pos f)) with
    | None => (Fatal Hang, u)
    | Some p =>
      match ev (r_exp rl) (push (newf p)) u with
      | (Ok _ fb, _) =>
        match fst (post_body rl r p fb) with
        | ROk node np => (Ok node (append (goto f np) node), u)
        | RFail => (Fail (cutseen f), u)
        | RFatal x => (Fatal x, u)
        end
      | (Fail _, _) => (Fail (cutseen f), u)
      | (Fatal x, _) => (Fatal x, u)
      end
    end
  end.

Definition peval (n : nat) (e : exp) (f : frame) : res :=
  fst (geval text re_at isalnum isalpha lower ic unsafe (fun _ u => u) pcall n e f tt).

(* ======================= the faithful semantics ======================= *)
Definition memoize (rl : rule) (st : gstate) (k : key) (o : outcome) : gstate :=
  if memoizable rl && memoization ec then set_memos st (insert (memo_cap ec) (memos st) k o) else st.

Definition f_on_cut (f : frame) (st : gstate) : gstate :=
  if prune_on_cut ec then set_memos st (prune (memos st) (pos f)) else st.

(* rule_call *)
Definition rule_call (ev : @ev_t gstate) (rl : rule) (r : nat) (k : key) (st : gstate) : rres * gstate :=
  match lookup (memos st) k with
  | Some (OOk node np) => (ROk node np, st)
  | Some OFail => (RFail, st)
  | Some OGuard => (RFail, st)
  | None =>
    let st1 := if left_recursion ec then memoize rl st k OGuard else st in
    match ev (r_exp rl) (push (newf (fst k))) st1 with
    | (Ok _ fb, st2) =>
      match post_body rl r (fst k) fb with
      | (ROk node np, ran) =>
        let st3 := if ran then log_body st2 r else st2 in
        (ROk node np, memoize rl st3 k (OOk node np))
      | (RFail, ran) =>
        let st3 := if ran then log_body st2 r else st2 in
        (RFail, memoize rl st3 k OFail)
      | (RFatal x, ran) => (RFatal x, if ran then log_raise (log_body st2 r) x else st2)
      end
    | (Fail _, st2) => (RFail, memoize rl st2 k OFail)
    | (Fatal x, st2) => (RFatal x, st2)
    end
  end.

(* the seed-growing loop of recursive_call *)
Fixpoint grow (n : nat) (ev : @ev_t gstate) (rl : rule) (r : nat) (k : key)
         (lastpos : option nat) (best : rres) (st : gstate) : rres * gstate :=
  match n with
  | O => (RFatal OOF, st)
  | S n' =>
    let st0 := set_memos st (clear_guards (memos st)) in
    match rule_call ev rl r k st0 with
    | (ROk node np, st1) =>
      let grew := match lastpos with None => true | Some lp => Nat.ltb lp np end in
      if grew then
        let st2 := set_results st1 (insert (S (length (results st1))) (results st1) k (OOk (cstfinal node) np)) in
        grow n' ev rl r k (Some np) (ROk node np) st2
      else (best, st1)
    | (RFail, st1) => (best, st1)
    | (RFatal x, st1) => (RFatal x, st1)
    end
  end.

Definition recursive_call (n : nat) (ev : @ev_t gstate) (rl : rule) (r : nat) (k : key) (st : gstate)
  : rres * gstate :=
  if negb (left_recursion ec) then (RFail, st)
  else
    match lookup (results st) k with
    | Some (OOk node np) => (ROk node np, st)
    | Some _ => (RFail, st)
    | None =>
      let st1 := set_results st (insert (S (length (results st))) (results st) k OGuard) in
      grow n ev rl r k None RFail st1
    end.

Definition fcall (n : nat) (ev : @ev_t gstate) (r : nat) (f : frame) (st : gstate) : res * gstate :=
  match get_rule r with
  | None => (Fatal (Foreign 1), st)
  | Some rl =>
    match (if r_tokn rl then Some (pos f) else next_token text re_at ic (pos f)) with
    | None => (Fatal Hang, st)
    | Some p =>
      let k := (p, r) in
      match (if r_lrec rl then recursive_call n ev rl r k st else rule_call ev rl r k st) with
      | (ROk node np, st1) => (Ok node (append (goto f np) node), st1)
      | (RFail, st1) => (Fail (cutseen f), st1)
      | (RFatal x, st1) => (Fatal x, st1)
      end
    end
  end.

Definition feval (n : nat) (e : exp) (f : frame) (st : gstate) : res * gstate :=
  geval text re_at isalnum isalpha lower ic unsafe f_on_cut fcall n e f st.

(* the generated parser: the same call machinery around the generated-code semantics of Gen.v *)
Definition geneval (n : nat) (e : exp) (f : frame) (st : gstate) : res * gstate :=
  geval_gen text re_at isalnum isalpha lower ic unsafe f_on_cut fcall n e f st.
Definition genparse_with (n : nat) (start : nat) : res * gstate := geneval n (Call start) (newf 0) gstate0.

(* the API entry point: parse from rule `start` at position 0; the result is the rule's value *)
Definition parse_with (n : nat) (start : nat) : res * gstate := feval n (Call start) (newf 0) gstate0.
Definition pparse_with (n : nat) (start : nat) : res := peval n (Call start) (newf 0).

End Calls.
