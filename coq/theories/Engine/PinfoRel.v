(* C04: "enabling parse information only adds the parseinfo entries" for WHOLE parses.
   Two runs of the clean semantics, one with parseinfo on and one with it off, started on related frames, end in related
   results: same success / failure / exception, same positions and cut flags, and values that are equal once the two
   reserved entries are erased from every dict in them ([er]).  A relational induction through every construct.
   Proofs only. *)
From Coq Require Import List NArith ZArith Arith Bool Lia.
From TatsuV Require Import Base.PyStr Engine.Value Engine.Syntax Engine.Input Engine.Engine Engine.Calls
     Engine.EngineRel Engine.SemProof Engine.MemoProof.
Import ListNotations.

(* ---- erasing the reserved entries, everywhere in a value ---- *)
Fixpoint er (v : value) : value :=
  match v with
  | VTuple l => VTuple (map er l)
  | VList c l => VList c (map er l)
  | VDict kv => VDict ((fix go (kv : list (str * value)) : list (str * value) :=
                          match kv with
                          | [] => []
                          | (k, x) :: t => if reserved k then go t else (k, er x) :: go t
                          end) kv)
  | VTag t l => VTag t (map er l)
  | _ => v
  end.

Fixpoint era (a : ast) : ast :=
  match a with
  | [] => []
  | (k, x) :: t => if reserved k then era t else (k, er x) :: era t
  end.

Definition unD (v : value) : ast := match v with VDict l => l | _ => [] end.

Lemma unD_er a : unD (er (VDict a)) = era a.
Proof.
  induction a as [|[k x] a IH]; [reflexivity|].
  change (unD (er (VDict ((k, x) :: a))))
    with (if reserved k then unD (er (VDict a)) else (k, er x) :: unD (er (VDict a))).
  rewrite IH. reflexivity.
Qed.

Lemma er_dict a : er (VDict a) = VDict (era a).
Proof. rewrite <- unD_er. reflexivity. Qed.

Definition RV (v1 v2 : value) : Prop := er v1 = er v2.

Lemma RV_refl v : RV v v.  Proof. reflexivity. Qed.

Lemma er_isnone v : isnone (er v) = isnone v.
Proof. destruct v; reflexivity. Qed.

Lemma RV_isnone a b : RV a b -> isnone a = isnone b.
Proof. intros H. rewrite <- (er_isnone a), <- (er_isnone b), H. reflexivity. Qed.

Ltac er_tac := cbn [cstadd cstaddlist cstmerge cstfinal list_items islist er map]; rewrite ?map_app, ?er_dict;
  cbn [cstadd cstaddlist cstmerge cstfinal list_items islist er map]; rewrite ?er_dict; try reflexivity.

Lemma er_cstadd c n : er (cstadd c n) = cstadd (er c) (er n).
Proof. destruct c as [| | | | |[|] l| | |]; er_tac. Qed.

Lemma er_cstaddlist c n : er (cstaddlist c n) = cstaddlist (er c) (er n).
Proof. destruct c as [| | | | |[|] l| | |]; er_tac. Qed.

Lemma er_cstfinal v : er (cstfinal v) = cstfinal (er v).
Proof. destruct v as [| | | | |[|] l| | |]; er_tac. Qed.

Lemma er_list_items v : list_items (er v) = map er (list_items v).
Proof. destruct v as [| | | | |[|] l| | |]; er_tac. Qed.

Lemma er_islist v : islist (er v) = islist v.
Proof. destruct v as [| | | | |[|] l| | |]; er_tac. Qed.

Lemma er_cstmerge a b : er (cstmerge a b) = cstmerge (er a) (er b).
Proof.
  destruct b as [| | | | |[|] m| | |]; destruct a as [| | | | |[|] l2| | |]; er_tac.
Qed.

Lemma RV_cstadd c1 c2 n1 n2 : RV c1 c2 -> RV n1 n2 -> RV (cstadd c1 n1) (cstadd c2 n2).
Proof. unfold RV. intros H1 H2. rewrite !er_cstadd, H1, H2. reflexivity. Qed.
Lemma RV_cstaddlist c1 c2 n1 n2 : RV c1 c2 -> RV n1 n2 -> RV (cstaddlist c1 n1) (cstaddlist c2 n2).
Proof. unfold RV. intros H1 H2. rewrite !er_cstaddlist, H1, H2. reflexivity. Qed.
Lemma RV_cstmerge c1 c2 n1 n2 : RV c1 c2 -> RV n1 n2 -> RV (cstmerge c1 n1) (cstmerge c2 n2).
Proof. unfold RV. intros H1 H2. rewrite !er_cstmerge, H1, H2. reflexivity. Qed.
Lemma RV_cstfinal c1 c2 : RV c1 c2 -> RV (cstfinal c1) (cstfinal c2).
Proof. unfold RV. intros H1. rewrite !er_cstfinal, H1. reflexivity. Qed.
Lemma RV_closed c1 c2 : RV c1 c2 -> RV (VList true (list_items c1)) (VList true (list_items c2)).
Proof. unfold RV. intros H. cbn [er]. rewrite <- !er_list_items, H. reflexivity. Qed.
Lemma RV_list_items c1 c2 : RV c1 c2 -> map er (list_items c1) = map er (list_items c2).
Proof. unfold RV. intros H. rewrite <- !er_list_items, H. reflexivity. Qed.
Lemma RV_list2 c x y a b : RV x a -> RV y b -> RV (VList c [x; y]) (VList c [a; b]).
Proof. unfold RV. intros H1 H2. cbn [er map]. rewrite H1, H2. reflexivity. Qed.
Lemma RV_list1 c x a : RV x a -> RV (VList c [x]) (VList c [a]).
Proof. unfold RV. intros H1. cbn [er map]. rewrite H1. reflexivity. Qed.

(* a string stays what it is: only containers change under [er] *)
Lemma er_str_inv v s : er v = VStr s -> v = VStr s.
Proof. destruct v; cbn [er]; try discriminate; intros H; exact H. Qed.

(* ---- the ASTs of two related frames: same keys in the same order, related values ---- *)
Definition RA (a1 a2 : ast) : Prop := Forall2 (fun kv1 kv2 => fst kv1 = fst kv2 /\ RV (snd kv1) (snd kv2)) a1 a2.

Lemma RA_refl a : RA a a.
Proof. induction a as [|kv a IH]; constructor; [split; reflexivity|exact IH]. Qed.

Lemma RA_get a1 a2 k : RA a1 a2 ->
  match ast_get a1 k, ast_get a2 k with
  | Some v1, Some v2 => RV v1 v2
  | None, None => True
  | _, _ => False
  end.
Proof.
  intros H. induction H as [|[k1 v1] [k2 v2] a1 a2 [Hk Hv] H IH]; cbn [ast_get]; [exact I|].
  cbn [fst snd] in Hk, Hv. subst k2. destruct (str_eqb k k1); [exact Hv|exact IH].
Qed.

Lemma RA_has a1 a2 k : RA a1 a2 -> ast_has a1 k = ast_has a2 k.
Proof.
  intros H. pose proof (RA_get a1 a2 k H) as G. unfold ast_has.
  destruct (ast_get a1 k), (ast_get a2 k); try contradiction; reflexivity.
Qed.

Lemma RA_put a1 a2 k v1 v2 : RA a1 a2 -> RV v1 v2 -> RA (ast_put a1 k v1) (ast_put a2 k v2).
Proof.
  intros H Hv. induction H as [|[k1 x1] [k2 x2] a1 a2 [Hk Hx] H IH]; cbn [ast_put].
  - constructor; [split; [reflexivity|exact Hv]|constructor].
  - cbn [fst snd] in Hk, Hx. subst k2. destruct (str_eqb k k1).
    + constructor; [split; [reflexivity|exact Hv]|exact H].
    + constructor; [split; [reflexivity|exact Hx]|exact IH].
Qed.

Lemma RA_old a1 a2 k : RA a1 a2 ->
  RV (match ast_get a1 k with Some v => v | None => VNone end) (match ast_get a2 k with Some v => v | None => VNone end).
Proof.
  intros H. pose proof (RA_get a1 a2 k H) as G.
  destruct (ast_get a1 k), (ast_get a2 k); try contradiction; [exact G|reflexivity].
Qed.

Lemma RA_set unsafe a1 a2 k v1 v2 : RA a1 a2 -> RV v1 v2 -> RA (ast_set unsafe a1 k v1) (ast_set unsafe a2 k v2).
Proof. intros H Hv. unfold ast_set. apply RA_put; [exact H|]. apply RV_cstadd; [apply RA_old, H|exact Hv]. Qed.

Lemma RA_setlist unsafe a1 a2 k v1 v2 : RA a1 a2 -> RV v1 v2 -> RA (ast_setlist unsafe a1 k v1) (ast_setlist unsafe a2 k v2).
Proof. intros H Hv. unfold ast_setlist. apply RA_put; [exact H|]. apply RV_cstaddlist; [apply RA_old, H|exact Hv]. Qed.

Lemma RA_fold_put a1 a2 : RA a1 a2 -> forall acc1 acc2, RA acc1 acc2 ->
  RA (fold_left (fun acc kv => ast_put acc (fst kv) (snd kv)) a1 acc1)
     (fold_left (fun acc kv => ast_put acc (fst kv) (snd kv)) a2 acc2).
Proof.
  intros H. induction H as [|[k1 x1] [k2 x2] a1 a2 [Hk Hx] H IH]; intros acc1 acc2 HA; cbn [fold_left]; [exact HA|].
  cbn [fst snd] in *. subst k2. apply IH. apply RA_put; assumption.
Qed.

Lemma RA_define unsafe a1 a2 ks kl : RA a1 a2 -> RA (ast_define unsafe a1 ks kl) (ast_define unsafe a2 ks kl).
Proof. intros H. unfold ast_define. apply RA_fold_put; [exact H|apply RA_refl]. Qed.

Lemma RA_era a1 a2 : RA a1 a2 -> era a1 = era a2.
Proof.
  intros H. induction H as [|[k1 x1] [k2 x2] a1 a2 [Hk Hx] H IH]; [reflexivity|].
  cbn [fst snd] in *. subst k2. cbn [era]. rewrite IH. unfold RV in Hx. rewrite Hx. reflexivity.
Qed.

Lemma RA_dict a1 a2 : RA a1 a2 -> RV (VDict a1) (VDict a2).
Proof. intros H. unfold RV. rewrite !er_dict, (RA_era _ _ H). reflexivity. Qed.

(* ---- frames ---- *)
Definition RF (f1 f2 : frame) : Prop :=
  pos f1 = pos f2 /\ cutseen f1 = cutseen f2 /\ RA (fast f1) (fast f2) /\ RV (cst f1) (cst f2) /\ RV (last f1) (last f2).

Lemma RF_refl f : RF f f.
Proof. repeat split; try reflexivity. apply RA_refl. Qed.

Ltac rf := unfold RF in *; cbn [pos cutseen fast cst last push merge popf append goto set_cst set_ast set_cut newf] in *.

Lemma RF_push f1 f2 : RF f1 f2 -> RF (push f1) (push f2).
Proof. intros [P [C [A [S L]]]]. rf. repeat split; try assumption; reflexivity. Qed.
Lemma RF_merge f1 f2 c1 c2 : RF f1 f2 -> RF c1 c2 -> RF (merge f1 c1) (merge f2 c2).
Proof. intros [P [C [A [S L]]]] [P' [C' [A' [S' L']]]]. rf. repeat split; try assumption. apply RV_cstmerge; assumption. Qed.
Lemma RF_popf f1 f2 c1 c2 : RF f1 f2 -> RF c1 c2 -> RF (popf f1 c1) (popf f2 c2).
Proof. intros [P [C [A [S L]]]] [P' [C' [A' [S' L']]]]. rf. repeat split; assumption. Qed.
Lemma RF_append f1 f2 v1 v2 : RF f1 f2 -> RV v1 v2 -> RF (append f1 v1) (append f2 v2).
Proof. intros [P [C [A [S L]]]] V. rf. repeat split; try assumption. apply RV_cstadd; assumption. Qed.
Lemma RF_goto f1 f2 p : RF f1 f2 -> RF (goto f1 p) (goto f2 p).
Proof. intros [P [C [A [S L]]]]. rf. repeat split; try assumption; reflexivity. Qed.
Lemma RF_set_cst f1 f2 v1 v2 : RF f1 f2 -> RV v1 v2 -> RF (set_cst f1 v1) (set_cst f2 v2).
Proof. intros [P [C [A [S L]]]] V. rf. repeat split; assumption. Qed.
Lemma RF_set_ast f1 f2 a1 a2 : RF f1 f2 -> RA a1 a2 -> RF (set_ast f1 a1) (set_ast f2 a2).
Proof. intros [P [C [A [S L]]]] V. rf. repeat split; assumption. Qed.
Lemma RF_set_cut f1 f2 : RF f1 f2 -> RF (set_cut f1) (set_cut f2).
Proof. intros [P [C [A [S L]]]]. rf. repeat split; try assumption; reflexivity. Qed.
Lemma RF_add_defined unsafe e f1 f2 : RF f1 f2 -> RF (add_defined unsafe e f1) (add_defined unsafe e f2).
Proof. intros H. unfold add_defined. apply RF_set_ast; [exact H|]. apply RA_define. apply H. Qed.
Lemma RF_pos f1 f2 : RF f1 f2 -> pos f1 = pos f2.  Proof. intros H; apply H. Qed.
Lemma RF_cut f1 f2 : RF f1 f2 -> cutseen f1 = cutseen f2.  Proof. intros H; apply H. Qed.

Lemma RV_fold f1 f2 : RF f1 f2 -> RV (fold f1) (fold f2).
Proof.
  intros [P [C [A [S L]]]]. unfold fold.
  pose proof (RA_get _ _ key_at A) as G.
  destruct (fast f1) as [|kv1 a1] eqn:E1; destruct (fast f2) as [|kv2 a2] eqn:E2; try (inversion A; fail).
  - apply RV_cstfinal, S.
  - destruct (ast_get (kv1 :: a1) key_at), (ast_get (kv2 :: a2) key_at); try contradiction; [exact G|].
    apply RA_dict, A.
Qed.

Global Hint Resolve RV_refl RF_refl RF_push RF_merge RF_popf RF_append RF_goto RF_set_cst RF_set_ast RF_set_cut RF_add_defined
  RV_cstadd RV_cstaddlist RV_cstmerge RV_cstfinal RV_closed RV_list1 RV_list2 RV_fold RA_set RA_setlist RA_dict : rf.

(* ---- results ---- *)
Definition RR (r1 r2 : res) : Prop :=
  match r1, r2 with
  | Ok v1 f1, Ok v2 f2 => RV v1 v2 /\ RF f1 f2
  | Fail c1, Fail c2 => c1 = c2
  | Fatal x, Fatal y => x = y
  | _, _ => False
  end.

Definition RI (i1 i2 : iter) : Prop :=
  match i1, i2 with
  | IOk f1, IOk f2 => RF f1 f2
  | IStop, IStop => True
  | ICommit, ICommit => True
  | IFatal x, IFatal y => x = y
  | _, _ => False
  end.

Section RelV.
Variable text : str.
Variable re_at : nat -> nat -> option (nat * str).
Variable isalnum isalpha : N -> bool.
Variable lower : N -> N.
Variable ic : icfg.
Variable unsafe : list str.
Notation cutid := (fun (_ : frame) (u : unit) => u).

Definition RelV (ev1 ev2 : @ev_t unit) : Prop :=
  forall e f1 f2, RF f1 f2 -> RR (fst (ev1 e f1 tt)) (fst (ev2 e f2 tt)).

(* run both sides of one sub-evaluation and keep only the related cases *)
Ltac both H e f1 f2 HF R :=
  pose proof (H e f1 f2 HF) as R;
  match type of R with RR (fst ?t1) (fst ?t2) =>
    let v1 := fresh "v" in let g1 := fresh "g" in let c1 := fresh "c" in let x1 := fresh "x" in
    let v2 := fresh "w" in let g2 := fresh "h" in let c2 := fresh "d" in let x2 := fresh "y" in
    destruct t1 as [[v1 g1|c1|x1] []]; destruct t2 as [[v2 g2|c2|x2] []]; cbn [fst RR] in R; try contradiction
  end.

Lemma seq_go_rv ev1 ev2 : RelV ev1 ev2 -> forall es o1 o2 f1 f2, RV o1 o2 -> RF f1 f2 ->
  RR (fst (seq_go ev1 es o1 f1 tt)) (fst (seq_go ev2 es o2 f2 tt)).
Proof.
  intros H es. induction es as [|e es IH]; intros o1 o2 f1 f2 HO HF; cbn [seq_go].
  - cbn. split; assumption.
  - both H e f1 f2 HF R.
    + destruct R as [Rv Rf]. apply IH; [|exact Rf]. rewrite (RV_isnone _ _ Rv). destruct (isnone w); auto with rf.
    + exact R.
    + exact R.
Qed.

Lemma choice_go_rv ev1 ev2 : RelV ev1 ev2 -> forall es f1 f2, RF f1 f2 ->
  RR (fst (choice_go unsafe ev1 es f1 tt)) (fst (choice_go unsafe ev2 es f2 tt)).
Proof.
  intros H es. induction es as [|e es IH]; intros f1 f2 HF; cbn [choice_go].
  - cbn. apply RF_cut, HF.
  - assert (HF' : RF (add_defined unsafe e (push f1)) (add_defined unsafe e (push f2))) by auto with rf.
    both H e (add_defined unsafe e (push f1)) (add_defined unsafe e (push f2)) HF' R.
    + destruct R as [Rv Rf]. cbn. split; auto with rf.
    + subst d. destruct c; [cbn; apply RF_cut, HF|apply IH, HF].
    + cbn. exact R.
Qed.

(* the second half of one pass through repeat(): the element, in the frame f3c that the separator left *)
Definition iter_body (ev : @ev_t unit) (e : exp) (f f3c : frame) (p : nat) : iter * unit :=
  match ev e (push f3c) tt with
  | (Ok _ f5, st2) =>
    let f3c' := if cutseen f5 then set_cut f3c else f3c in
    let f3d := append (set_ast (goto f3c' (pos f5)) (fast f5)) (cstfinal (cst f5)) in
    if Nat.eqb (pos f3d) p
    then (if cutseen f3d then ICommit else IStop, st2)
    else (IOk (merge f f3d), st2)
  | (Fail c, st2) => (if cutseen f3c || c then ICommit else IStop, st2)
  | (Fatal k, st2) => (IFatal k, st2)
  end.

Lemma repeat_iter_unfold (ev : @ev_t unit) e sep omitsep f :
  repeat_iter cutid ev e sep omitsep f tt =
  match sep with
  | None => iter_body ev e f (push f) (pos f)
  | Some s =>
    match ev s (push (push f)) tt with
    | (Ok _ f4, _) =>
      let f3a := set_ast (goto (push f) (pos f4)) (fast f4) in
      let f3b := if omitsep then f3a else append f3a (cstfinal (cst f4)) in
      iter_body ev e f (set_cut f3b) (pos f)
    | (Fail c, _) => (if c then ICommit else IStop, tt)
    | (Fatal k, _) => (IFatal k, tt)
    end
  end.
Proof.
  unfold repeat_iter, iter_body. destruct sep as [s|]; [|reflexivity].
  destruct (ev s (push (push f)) tt) as [[v f4|[|]|x] []]; reflexivity.
Qed.

Lemma iter_body_rv ev1 ev2 : RelV ev1 ev2 -> forall e f1 f2 c1 c2 p, RF f1 f2 -> RF c1 c2 ->
  RI (fst (iter_body ev1 e f1 c1 p)) (fst (iter_body ev2 e f2 c2 p)).
Proof.
  intros H e f1 f2 c1 c2 p HF HC. unfold iter_body.
  assert (HP : RF (push c1) (push c2)) by auto with rf.
  both H e (push c1) (push c2) HP R.
  - destruct R as [_ Rf]. destruct Rf as [P5 [C5 [A5 [S5 L5]]]]. rewrite <- C5, <- P5.
    assert (HD : forall x1 x2, RF x1 x2 -> RF (append (set_ast (goto x1 (pos g)) (fast g)) (cstfinal (cst g)))
                    (append (set_ast (goto x2 (pos g)) (fast h)) (cstfinal (cst h)))) by (intros; auto with rf).
    destruct (cutseen g); cbn [pos cutseen append set_ast goto set_cut];
      (destruct (Nat.eqb (pos g) p); [|cbn [fst RI]; apply RF_merge; [exact HF|apply HD; auto with rf]]).
    + exact I.
    + rewrite <- (RF_cut _ _ HC). destruct (cutseen c1); exact I.
  - subst d. rewrite <- (RF_cut _ _ HC). destruct (cutseen c1 || c); exact I.
  - exact R.
Qed.

Lemma repeat_iter_rv ev1 ev2 : RelV ev1 ev2 -> forall e sep omitsep f1 f2, RF f1 f2 ->
  RI (fst (repeat_iter cutid ev1 e sep omitsep f1 tt)) (fst (repeat_iter cutid ev2 e sep omitsep f2 tt)).
Proof.
  intros H e sep omitsep f1 f2 HF. rewrite !repeat_iter_unfold. rewrite <- (RF_pos _ _ HF).
  destruct sep as [s|].
  - assert (HP : RF (push (push f1)) (push (push f2))) by auto with rf.
    both H s (push (push f1)) (push (push f2)) HP R.
    + destruct R as [_ Rf]. destruct Rf as [P4 [C4 [A4 [S4 L4]]]]. cbv zeta. rewrite <- P4.
      apply iter_body_rv; [exact H|exact HF|]. apply RF_set_cut.
      destruct omitsep; auto with rf.
    + subst d. destruct c; exact I.
    + exact R.
  - apply iter_body_rv; auto with rf.
Qed.

Lemma repeat_go_rv ev1 ev2 : RelV ev1 ev2 -> forall k e sep omitsep f1 f2, RF f1 f2 ->
  RR (fst (repeat_go cutid k ev1 e sep omitsep f1 tt)) (fst (repeat_go cutid k ev2 e sep omitsep f2 tt)).
Proof.
  intros H k. induction k as [|k IH]; intros e sep omitsep f1 f2 HF; cbn [repeat_go]; [reflexivity|].
  pose proof (repeat_iter_rv ev1 ev2 H e sep omitsep f1 f2 HF) as R.
  destruct (repeat_iter cutid ev1 e sep omitsep f1 tt) as [[g1| | |x1] []];
    destruct (repeat_iter cutid ev2 e sep omitsep f2 tt) as [[g2| | |x2] []]; cbn [fst RI] in R; try contradiction.
  - apply IH, R.
  - cbn. split; auto with rf.
  - cbn. apply RF_cut, HF.
  - cbn. exact R.
Qed.

Lemma rep_body_rv ev1 ev2 : RelV ev1 ev2 -> forall k e sep omitsep f1 f2, RF f1 f2 ->
  RR (fst (rep_body cutid k ev1 e sep omitsep f1 tt)) (fst (rep_body cutid k ev2 e sep omitsep f2 tt)).
Proof.
  intros H k e sep omitsep f1 f2 HF. unfold rep_body.
  both H e f1 f2 HF R.
  - destruct R as [_ Rf]. apply repeat_go_rv; [exact H|]. apply RF_set_cst; [exact Rf|]. apply RV_list1, Rf.
  - exact R.
  - exact R.
Qed.

Lemma rep_eval_rv ev1 ev2 : RelV ev1 ev2 -> forall k plus e sep omitsep f1 f2, RF f1 f2 ->
  RR (fst (rep_eval cutid k ev1 plus e sep omitsep f1 tt)) (fst (rep_eval cutid k ev2 plus e sep omitsep f2 tt)).
Proof.
  intros H k plus e sep omitsep f1 f2 HF. unfold rep_eval. destruct plus.
  - pose proof (rep_body_rv ev1 ev2 H k e sep omitsep (push f1) (push f2) (RF_push _ _ HF)) as R.
    destruct (rep_body cutid k ev1 e sep omitsep (push f1) tt) as [[v1 g1|c1|x1] []];
      destruct (rep_body cutid k ev2 e sep omitsep (push f2) tt) as [[v2 g2|c2|x2] []]; cbn [fst RR] in R; try contradiction.
    + destruct R as [_ Rf]. cbn [fst RR]. split; [apply RV_closed, Rf|]. apply RF_merge; [exact HF|]. apply RF_set_cst; [exact Rf|apply RV_closed, Rf].
    + cbn. apply RF_cut, HF.
    + cbn. exact R.
  - assert (H1 : RF (set_cst (push f1) (VList false [])) (set_cst (push f2) (VList false []))) by auto with rf.
    pose proof (rep_body_rv ev1 ev2 H k e sep omitsep _ _ (RF_push _ _ H1)) as R.
    destruct (rep_body cutid k ev1 e sep omitsep (push (set_cst (push f1) (VList false []))) tt) as [[v1 g1|c1|x1] []];
      destruct (rep_body cutid k ev2 e sep omitsep (push (set_cst (push f2) (VList false []))) tt) as [[v2 g2|c2|x2] []];
      cbn [fst RR] in R; try contradiction.
    + destruct R as [_ Rf]. cbn [fst RR].
      assert (HM : RF (merge (set_cst (push f1) (VList false [])) g1) (merge (set_cst (push f2) (VList false [])) g2)) by auto with rf.
      split; [apply RV_closed, HM|]. apply RF_merge; [exact HF|]. apply RF_set_cst; [exact HM|apply RV_closed, HM].
    + subst c2. destruct c1; cbn [fst RR].
      * apply RF_cut, HF.
      * split; [apply RV_closed, H1|]. apply RF_merge; [exact HF|]. apply RF_set_cst; [exact H1|apply RV_closed, H1].
    + cbn. exact R.
Qed.

Lemma skipto_go_rv ev1 ev2 : RelV ev1 ev2 -> forall k e f1 f2, RF f1 f2 ->
  RR (fst (skipto_go text re_at ic k ev1 e f1 tt)) (fst (skipto_go text re_at ic k ev2 e f2 tt)).
Proof.
  intros H k. induction k as [|k IH]; intros e f1 f2 HF; cbn [skipto_go]; [reflexivity|].
  rewrite <- (RF_pos _ _ HF). destruct (atend text (pos f1)); [apply H, HF|].
  assert (HP : RF (push f1) (push f2)) by auto with rf.
  both H e (push f1) (push f2) HP R.
  - apply H, HF.
  - destruct (next_token text re_at ic (pos f1)) as [q|]; [|reflexivity]. apply IH. auto with rf.
  - exact R.
Qed.

Lemma leaf_eval_rv l f1 f2 : RF f1 f2 ->
  RR (fst (leaf_eval text re_at isalnum isalpha lower ic cutid l f1 tt))
     (fst (leaf_eval text re_at isalnum isalpha lower ic cutid l f2 tt)).
Proof.
  intros HF. destruct l; cbn [leaf_eval]; unfold with_next_token; rewrite <- ?(RF_pos _ _ HF), <- ?(RF_cut _ _ HF);
    cbn [pos goto];
    repeat match goal with
           | |- context [match ?x with _ => _ end] => destruct x
           end;
    cbn [fst RR]; try reflexivity; try (split; auto with rf).
Qed.

Variable oc1 oc2 : nat -> @ev_t unit -> nat -> frame -> unit -> res * unit.
Notation gev1 := (geval text re_at isalnum isalpha lower ic unsafe cutid oc1).
Notation gev2 := (geval text re_at isalnum isalpha lower ic unsafe cutid oc2).

Lemma RV_assoc (lft : bool) v1 v2 : RV v1 v2 ->
  RV ((if lft then left_assoc else right_assoc) (list_items v1)) ((if lft then left_assoc else right_assoc) (list_items v2)).
Proof.
  intros H. pose proof (RV_list_items _ _ H) as M. clear H. unfold RV.
  assert (HL : forall n l1 l2 a1 a2, length l1 <= n -> er a1 = er a2 -> map er l1 = map er l2 ->
                 er (left_assoc_go a1 l1) = er (left_assoc_go a2 l2)).
  { induction n as [|n IH]; intros l1 l2 a1 a2 Hn Ha Hm.
    - destruct l1; [|cbn in Hn; lia]. destruct l2; [|discriminate]. exact Ha.
    - destruct l1 as [|o1 [|e1 l1]]; destruct l2 as [|o2 [|e2 l2]]; cbn [map] in Hm; try discriminate; cbn [left_assoc_go]; try exact Ha.
      injection Hm as Ho He Hm. apply IH; [cbn [length] in Hn; lia| |exact Hm]. cbn [er map]. rewrite Ho, Ha, He. reflexivity. }
  assert (HR : forall fuel l1 l2, map er l1 = map er l2 -> er (right_assoc_go fuel l1) = er (right_assoc_go fuel l2)).
  { induction fuel as [|fuel IH]; intros l1 l2 Hm; cbn [right_assoc_go]; [reflexivity|].
    destruct l1 as [|a1 [|o1 [|b1 l1]]]; destruct l2 as [|a2 [|o2 [|b2 l2]]]; cbn [map] in Hm; try discriminate; try reflexivity;
      try (injection Hm as Ha; exact Ha); try (injection Hm as Ha Ho; exact Ha).
    injection Hm as Ha Ho Hb Hm. cbn [er map]. rewrite Ha, Ho. f_equal. f_equal. f_equal. f_equal.
    apply IH. cbn [map]. rewrite Hb, Hm. reflexivity. }
  destruct lft.
  - unfold left_assoc. destruct (list_items v1) as [|a1 l1]; destruct (list_items v2) as [|a2 l2]; cbn [map] in M; try discriminate; [reflexivity|].
    injection M as Ha Hm. apply (HL (length l1)); [lia|exact Ha|exact Hm].
  - unfold right_assoc. assert (HLen : length (list_items v1) = length (list_items v2)).
    { rewrite <- (map_length er (list_items v1)), M, map_length. reflexivity. }
    rewrite HLen. apply HR, M.
Qed.

Lemma geval_step_rv n :
  RelV (gev1 n) (gev2 n) ->
  (forall r f1 f2, RF f1 f2 -> RR (fst (oc1 n (gev1 n) r f1 tt)) (fst (oc2 n (gev2 n) r f2 tt))) ->
  RelV (gev1 (S n)) (gev2 (S n)).
Proof.
  intros X XC e f1 f2 HF. rewrite !geval_S.
  destruct e as [l|es|es|e1|e1|e1|plus sep omitsep e1|neg e1|e1|lft e1|rr|il nm e1|il e1].
  - apply leaf_eval_rv, HF.
  - apply seq_go_rv; auto with rf.
  - apply choice_go_rv; assumption.
  - apply X, HF.
  - both X e1 (push f1) (push f2) (RF_push _ _ HF) R.
    + destruct R as [_ Rf]. cbn. split; auto with rf.
    + cbn. apply RF_cut, HF.
    + exact R.
  - assert (HP : RF (add_defined unsafe (Opt e1) (push f1)) (add_defined unsafe (Opt e1) (push f2))) by auto with rf.
    both X e1 (add_defined unsafe (Opt e1) (push f1)) (add_defined unsafe (Opt e1) (push f2)) HP R.
    + destruct R as [Rv Rf]. cbn. split; auto with rf.
    + subst d. destruct c; cbn; [apply RF_cut, HF|split; auto with rf].
    + exact R.
  - apply rep_eval_rv; assumption.
  - destruct neg; both X e1 (push f1) (push f2) (RF_push _ _ HF) R; cbn;
      first [ apply RF_cut, HF | split; auto with rf | exact R ].
  - apply skipto_go_rv; assumption.
  - both X e1 (push f1) (push f2) (RF_push _ _ HF) R.
    + destruct R as [Rv Rf]. cbn [fst RR].
      pose proof (RV_assoc lft _ _ Rv) as Ra. split; [exact Ra|]. apply RF_merge; [exact HF|]. apply RF_set_cst; assumption.
    + cbn. apply RF_cut, HF.
    + exact R.
  - apply XC, HF.
  - destruct il; both X e1 f1 f2 HF R; cbn [fst RR]; try exact R; destruct R as [Rv Rf];
      (split; [exact Rv|]); apply RF_set_ast; try exact Rf; [apply RA_setlist|apply RA_set]; try exact Rv; apply Rf.
  - destruct il; both X e1 f1 f2 HF R; cbn [fst RR]; try exact R; destruct R as [Rv Rf].
    + rewrite (RA_has _ _ key_at (proj1 (proj2 (proj2 Rf)))).
      assert (Hr : RV (if ast_has (fast h) key_at then v else VList false [v]) (if ast_has (fast h) key_at then w else VList false [w]))
        by (destruct (ast_has (fast h) key_at); auto with rf).
      split; [apply RA_dict; constructor; [split; [reflexivity|exact Hr]|constructor]|].
      apply RF_set_ast; [exact Rf|]. apply RA_set; [apply Rf|exact Hr].
    + split; [apply RA_dict; constructor; [split; [reflexivity|exact Rv]|constructor]|].
      apply RF_set_ast; [exact Rf|]. apply RA_set; [apply Rf|exact Rv].
Qed.

End RelV.

(* ---- rule calls: the only place where the two configurations differ ---- *)
Lemma era_put_reserved a k v : reserved k = true -> era (ast_put a k v) = era a.
Proof.
  intros H. induction a as [|[k0 x] a IH]; cbn [ast_put era].
  - rewrite H. reflexivity.
  - destruct (str_eqb k k0) eqn:E.
    + apply str_eqb_eq in E. subst k0. cbn [era]. rewrite H. reflexivity.
    + cbn [era]. rewrite IH. reflexivity.
Qed.

Lemma reserved_keys : reserved key_parseinfo = true /\ reserved key_parseinfo2 = true.
Proof. unfold reserved. rewrite !str_eqb_refl. split; [reflexivity|apply orb_true_r]. Qed.

Definition RAret (a1 a2 : aret) : Prop :=
  match a1, a2 with
  | ARet v1, ARet v2 => RV v1 v2
  | ANone, ANone => True
  | AFailed, AFailed => True
  | ARaise x, ARaise y => x = y
  | _, _ => False
  end.

Definition RRres (r1 r2 : rres) : Prop :=
  match r1, r2 with
  | ROk n1 p1, ROk n2 p2 => RV n1 n2 /\ p1 = p2
  | RFail, RFail => True
  | RFatal x, RFatal y => x = y
  | _, _ => False
  end.

Section Final.
Variable text : str.
Variable re_at : nat -> nat -> option (nat * str).
Variable isalnum isalpha : N -> bool.
Variable lower upper : N -> N.
Variable ic : icfg.
Variable unsafe : list str.
Variable rules : list rule.
Variable ec : ecfg.
Variable act : nat -> value -> aret.
Variable lineat : nat -> nat.
(* the semantic actions do not look at the parseinfo entries: on arguments that differ only there they do the same *)
Hypothesis act_blind : forall r v1 v2, RV v1 v2 -> RAret (act r v1) (act r v2).

Notation econ := (with_pinfo ec true).
Notation ecoff := (with_pinfo ec false).

Lemma er_with_parseinfo e' node r p q : er (with_parseinfo e' lineat node r p q) = er node.
Proof.
  unfold with_parseinfo. destruct (parseinfo e'); [|reflexivity].
  destruct node; try reflexivity. destruct (ast_has kv key_at); [reflexivity|].
  rewrite !er_dict. destruct reserved_keys as [H1 H2]. rewrite !era_put_reserved by assumption. reflexivity.
Qed.

Lemma RV_is_keyword e' n1 n2 : RV n1 n2 -> is_keyword upper ic e' n1 = is_keyword upper ic e' n2.
Proof.
  intros H. unfold RV in H. destruct n1 as [|s1| | | | | | |]; destruct n2 as [|s2| | | | | | |];
    try reflexivity; cbn [er] in H; try discriminate;
    try (rewrite ?er_dict in H; discriminate).
  injection H as ->. reflexivity.
Qed.

Lemma post_body_rv rl r p fb1 fb2 : RF fb1 fb2 ->
  RRres (fst (post_body upper ic econ act lineat rl r p fb1)) (fst (post_body upper ic ecoff act lineat rl r p fb2)).
Proof.
  intros HF. unfold post_body. pose proof (RV_fold _ _ HF) as Hn.
  rewrite (RV_is_keyword econ _ _ Hn). unfold is_keyword. cbn [keywords with_pinfo].
  match goal with |- context [r_isname rl && ?b] => destruct (r_isname rl && b) end; [exact I|].
  pose proof (act_blind r _ _ Hn) as Ha.
  destruct (act r (fold fb1)) as [v1| | |x1]; destruct (act r (fold fb2)) as [v2| | |x2]; cbn [RAret] in Ha; try contradiction;
    cbn [fst RRres].
  - split; [|apply RF_pos, HF]. unfold RV. rewrite !er_with_parseinfo. exact Ha.
  - split; [|apply RF_pos, HF]. unfold RV. rewrite !er_with_parseinfo. exact Hn.
  - exact I.
  - f_equal. exact Ha.
Qed.

Lemma pcall_rv k ev1 ev2 : RelV ev1 ev2 -> forall r f1 f2, RF f1 f2 ->
  RR (fst (pcall text re_at upper ic rules econ act lineat k ev1 r f1 tt))
     (fst (pcall text re_at upper ic rules ecoff act lineat k ev2 r f2 tt)).
Proof.
  intros H r f1 f2 HF. unfold pcall. destruct (get_rule rules r) as [rl|]; [|reflexivity].
  rewrite <- (RF_pos _ _ HF).
  destruct (if r_tokn rl then Some (pos f1) else next_token text re_at ic (pos f1)) as [p|]; [|reflexivity].
  pose proof (H (r_exp rl) (push (newf p)) (push (newf p)) (RF_refl _)) as R.
  destruct (ev1 (r_exp rl) (push (newf p)) tt) as [[v1 g1|c1|x1] []];
    destruct (ev2 (r_exp rl) (push (newf p)) tt) as [[v2 g2|c2|x2] []]; cbn [fst RR] in R; try contradiction.
  - destruct R as [_ Rf]. pose proof (post_body_rv rl r p g1 g2 Rf) as PB.
    destruct (fst (post_body upper ic econ act lineat rl r p g1)) as [n1 p1| |y1];
      destruct (fst (post_body upper ic ecoff act lineat rl r p g2)) as [n2 p2| |y2]; cbn [RRres] in PB; try contradiction;
      cbn [fst RR].
    + destruct PB as [Pn ->]. split; [exact Pn|]. auto with rf.
    + apply RF_cut, HF.
    + f_equal. exact PB.
  - cbn. apply RF_cut, HF.
  - cbn. exact R.
Qed.

Notation pev1 := (geval text re_at isalnum isalpha lower ic unsafe (fun (_ : frame) (u : unit) => u)
                        (pcall text re_at upper ic rules econ act lineat)).
Notation pev2 := (geval text re_at isalnum isalpha lower ic unsafe (fun (_ : frame) (u : unit) => u)
                        (pcall text re_at upper ic rules ecoff act lineat)).

Theorem pinfo_relv : forall n, RelV (pev1 n) (pev2 n).
Proof.
  induction n as [|n IH].
  - intros e f1 f2 HF. rewrite !geval_O. reflexivity.
  - apply geval_step_rv; [exact IH|]. intros r f1 f2 HF. apply pcall_rv; assumption.
Qed.

(* THE THEOREM: on the same frame, the run with parse information and the run without end alike - same class of outcome,
   same exception, same position, same cut flag - and the value, the AST under construction and the cst of the final frame
   are equal once the reserved entries are erased *)
Theorem parseinfo_only_adds n e f :
  RR (peval text re_at isalnum isalpha lower upper ic unsafe rules econ act lineat n e f)
     (peval text re_at isalnum isalpha lower upper ic unsafe rules ecoff act lineat n e f).
Proof. unfold peval. apply pinfo_relv, RF_refl. Qed.

(* ... and so do two runs of the ENGINE (memo cache of any capacity, pruning, guards), for grammars without left recursion *)
Theorem parseinfo_only_adds_engine :
  (forall r rl, get_rule rules r = Some rl -> r_lrec rl = false) ->
  forall n e f,
  peval text re_at isalnum isalpha lower upper ic unsafe rules econ act lineat n e f <> Fatal OOF ->
  RR (fst (feval text re_at isalnum isalpha lower upper ic unsafe rules econ act lineat n e f gstate0))
     (fst (feval text re_at isalnum isalpha lower upper ic unsafe rules ecoff act lineat n e f gstate0)).
Proof.
  intros NL n e f Hn. pose proof (parseinfo_only_adds n e f) as R.
  pose proof (memo_transparent text re_at isalnum isalpha lower upper ic unsafe rules econ act lineat NL n e f Hn) as M1.
  assert (Hoff : peval text re_at isalnum isalpha lower upper ic unsafe rules ecoff act lineat n e f <> Fatal OOF).
  { intros Hoff. rewrite Hoff in R.
    destruct (peval text re_at isalnum isalpha lower upper ic unsafe rules econ act lineat n e f) as [v g|c|x]; cbn [RR] in R;
      try contradiction. subst x. apply Hn. reflexivity. }
  pose proof (memo_transparent text re_at isalnum isalpha lower upper ic unsafe rules ecoff act lineat NL n e f Hoff) as M2.
  unfold feval. unfold peval in *. rewrite M1, M2. exact R.
Qed.

End Final.

(* hypotheses are satisfiable: no semantics at all, and a tagging action, are blind to parseinfo *)
Example no_semantics_is_blind : forall r v1 v2, RV v1 v2 -> RAret ((fun (_ : nat) (_ : value) => ANone) r v1) ((fun (_ : nat) (_ : value) => ANone) r v2).
Proof. intros; exact I. Qed.

Example tagging_is_blind : forall r v1 v2, RV v1 v2 ->
  RAret ((fun (r : nat) (v : value) => ARet (VTag (N.of_nat r) [v])) r v1) ((fun (r : nat) (v : value) => ARet (VTag (N.of_nat r) [v])) r v2).
Proof. intros r v1 v2 H. cbn [RAret]. unfold RV in *. cbn [er map]. rewrite H. reflexivity. Qed.
