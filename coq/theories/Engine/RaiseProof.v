(* C06: an exception raised by a semantic action (anything but FailedSemantics) reaches the caller of parse()
   unchanged, through every construct, the memo, the seeds and the seed-growing loop.
   [raised] is a ghost log: rule_call appends to it exactly when post_body reports an action that raised. *)
From Coq Require Import List NArith ZArith Arith Bool Lia.
From TatsuV Require Import Base.PyStr Engine.Value Engine.Syntax Engine.Input Engine.Engine Engine.Calls
     Engine.EngineRel Engine.Triple.
Import ListNotations.

Section Raise.
Variable text : str.
Variable re_at : nat -> nat -> option (nat * str).
Variable isalnum isalpha : N -> bool.
Variable lower upper : N -> N.
Variable ic : icfg.
Variable unsafe : list str.
Variable rules : list rule.
Variable ec : ecfg.
Variable act : nat -> value -> aret.
Variable lineat : nat -> nat.

Definition Quiet (st : gstate) : Prop := raised st = [].
(* engine_made: what the engine produces by itself - never a foreign exception, except the two markers of the model:
   Foreign 0 = a leaf the engine model does not cover (Lib/Matchers.v), Foreign 1 = call of an undefined rule (FailedRef) *)
Definition engine_made (k : fatal) : Prop := match k with Foreign x => x = 0 \/ x = 1 | _ => True end.
Definition Reaches (r : res) (st : gstate) : Prop :=
  (raised st = [] /\ forall k, r = Fatal k -> engine_made k) \/ exists x, raised st = [x] /\ r = Fatal x.
Definition ReachesR (r : rres) (st : gstate) : Prop :=
  (raised st = [] /\ forall k, r = RFatal k -> engine_made k) \/ exists x, raised st = [x] /\ r = RFatal x.

Lemma quiet_reaches r st : Quiet st -> builtin r -> Reaches r st.
Proof.
  intros Q Bi. left. split; [exact Q|]. intros k ->. destruct k as [| |x]; cbn in *; [exact I|exact I|left; exact Bi].
Qed.

Lemma reaches_quiet r st : Reaches r st -> nonfatal r -> Quiet st.
Proof. intros [[Q _]|[x [_ ->]]] N; [exact Q|destruct N]. Qed.

Lemma cut_quiet f st : Quiet st -> Quiet (f_on_cut ec f st).
Proof. unfold Quiet, f_on_cut. destruct (prune_on_cut ec); intros Q; exact Q. Qed.

Lemma memoize_raised rl st k o : raised (memoize ec rl st k o) = raised st.
Proof. unfold memoize. destruct (memoizable rl && memoization ec); reflexivity. Qed.

Notation TrQ := (Tr Quiet Reaches).

(* post_body reports a fatal result exactly when the action raised *)
Lemma post_body_fatal rl r p fb x ran :
  post_body upper ic ec act lineat rl r p fb = (RFatal x, ran) ->
  ran = true /\ exists e, act r (fold fb) = ARaise e /\ x = Foreign e.
Proof.
  unfold post_body. destruct (r_isname rl && is_keyword upper ic ec (fold fb)); [discriminate|].
  destruct (act r (fold fb)) as [v| | |e] eqn:A; intros E; inversion E; subst.
  split; [reflexivity|]. exists e. split; reflexivity.
Qed.

Lemma quietR rr st : Quiet st -> (forall k, rr = RFatal k -> engine_made k) -> ReachesR rr st.
Proof. intros Q H. left. split; assumption. Qed.

Ltac nonfatalR := let k := fresh "k" in let H := fresh "H" in intros k H; discriminate H.

Lemma rule_call_reaches (ev : @ev_t gstate) : TrQ ev -> forall rl r k st rr st',
  Quiet st -> rule_call upper ic ec act lineat ev rl r k st = (rr, st') -> ReachesR rr st'.
Proof.
  intros T rl r k st rr st' Q E. unfold rule_call in E.
  destruct (lookup (memos st) k) as [[node np| |]|]; try (inversion E; subst; apply quietR; [exact Q|nonfatalR]).
  match type of E with context [ev (r_exp rl) ?fr ?s1] => destruct (ev (r_exp rl) fr s1) as [[v fb|c|x] st2] eqn:Eb;
    assert (Q1 : Quiet s1) by (unfold Quiet; destruct (left_recursion ec); [rewrite memoize_raised|]; exact Q) end.
  - assert (Q2 : Quiet st2) by (eapply (tr_ok Quiet Reaches reaches_quiet ev T); eassumption).
    destruct (post_body upper ic ec act lineat rl r (fst k) fb) as [[node np| |x] ran] eqn:Pb.
    + inversion E; subst. apply quietR; [|nonfatalR]. unfold Quiet. rewrite memoize_raised. destruct ran; exact Q2.
    + inversion E; subst. apply quietR; [|nonfatalR]. unfold Quiet. rewrite memoize_raised. destruct ran; exact Q2.
    + destruct (post_body_fatal _ _ _ _ _ _ Pb) as [-> _]. inversion E; subst.
      right. exists x. split; [|reflexivity]. cbn. unfold Quiet in Q2. rewrite Q2. reflexivity.
  - inversion E; subst. apply quietR; [|nonfatalR]. unfold Quiet. rewrite memoize_raised.
    eapply (tr_fail Quiet Reaches reaches_quiet ev T); eassumption.
  - inversion E; subst. destruct (tr_fatal Quiet Reaches ev T _ _ _ _ _ Q1 Eb) as [[Q2 M]|[y [Ry Hy]]].
    + apply quietR; [exact Q2|]. intros k0 H. inversion H; subst. apply M. reflexivity.
    + right. exists y. inversion Hy; subst. split; [exact Ry|reflexivity].
Qed.

Lemma reachesR_quiet rr st : ReachesR rr st -> (forall x, rr <> RFatal x) -> Quiet st.
Proof. intros [[Q _]|[y [_ Hy]]] N; [exact Q|exfalso; exact (N _ Hy)]. Qed.

Lemma grow_reaches (ev : @ev_t gstate) : TrQ ev -> forall n rl r k lastpos best st rr st',
  Quiet st -> (forall x, best <> RFatal x) ->
  grow upper ic ec act lineat n ev rl r k lastpos best st = (rr, st') -> ReachesR rr st'.
Proof.
  intros T n. induction n as [|n IH]; intros rl r k lastpos best st rr st' Q HB E; cbn [grow] in E.
  - inversion E; subst. apply quietR; [exact Q|]. intros k0 H. inversion H; subst. exact I.
  - match type of E with context [rule_call upper ic ec act lineat ev rl r k ?s0] =>
      destruct (rule_call upper ic ec act lineat ev rl r k s0) as [[node np| |x] st1] eqn:Er;
      assert (Q0 : Quiet s0) by exact Q;
      pose proof (rule_call_reaches ev T _ _ _ _ _ _ Q0 Er) as R1 end.
    + assert (Q1 : Quiet st1) by (apply (reachesR_quiet _ _ R1); intros y; discriminate).
      destruct (match lastpos with Some lp => Nat.ltb lp np | None => true end).
      * eapply (fun Q HB => IH _ _ _ _ _ _ _ _ Q HB E); [exact Q1|intros y; discriminate].
      * inversion E; subst. apply quietR; [exact Q1|]. intros k0 H. exfalso. exact (HB _ H).
    + assert (Q1 : Quiet st1) by (apply (reachesR_quiet _ _ R1); intros y; discriminate).
      inversion E; subst. apply quietR; [exact Q1|]. intros k0 H. exfalso. exact (HB _ H).
    + inversion E; subst. exact R1.
Qed.

Lemma fcall_reaches n (ev : @ev_t gstate) : TrQ ev -> forall r f st res st',
  Quiet st -> fcall text re_at upper ic rules ec act lineat n ev r f st = (res, st') -> Reaches res st'.
Proof.
  intros T r f st res st' Q E. unfold fcall in E.
  destruct (get_rule rules r) as [rl|]; [|inversion E; subst; left; split; [exact Q|intros k H; inversion H; subst; right; reflexivity]].
  destruct (if r_tokn rl then Some (pos f) else next_token text re_at ic (pos f)) as [p|];
    [|inversion E; subst; left; split; [exact Q|intros k H; inversion H; subst; exact I]].
  assert (RR : forall rr st1, (if r_lrec rl then recursive_call upper ic ec act lineat n ev rl r (p, r) st
                               else rule_call upper ic ec act lineat ev rl r (p, r) st) = (rr, st1) -> ReachesR rr st1).
  { intros rr st1 Ec. destruct (r_lrec rl).
    - unfold recursive_call in Ec. destruct (negb (left_recursion ec)); [inversion Ec; subst; apply quietR; [exact Q|nonfatalR]|].
      destruct (lookup (results st) (p, r)) as [[node np| |]|]; try (inversion Ec; subst; apply quietR; [exact Q|nonfatalR]).
      eapply (fun Q HB => grow_reaches ev T _ _ _ _ _ _ _ _ _ Q HB Ec); [exact Q|intros y; discriminate].
    - eapply rule_call_reaches; eassumption. }
  destruct (if r_lrec rl then recursive_call upper ic ec act lineat n ev rl r (p, r) st
            else rule_call upper ic ec act lineat ev rl r (p, r) st) as [[node np| |x] st1] eqn:Ec;
    specialize (RR _ _ eq_refl); inversion E; subst.
  - left. split; [apply (reachesR_quiet _ _ RR); intros y; discriminate|intros k H; discriminate H].
  - left. split; [apply (reachesR_quiet _ _ RR); intros y; discriminate|intros k H; discriminate H].
  - destruct RR as [[Q1 M]|[y [Ry Hy]]].
    + left. split; [exact Q1|]. intros k H. inversion H; subst. apply M. reflexivity.
    + inversion Hy; subst. right. exists y. split; [exact Ry|reflexivity].
Qed.

Theorem feval_reaches n : TrQ (feval text re_at isalnum isalpha lower upper ic unsafe rules ec act lineat n).
Proof.
  unfold feval. apply geval_tr.
  - exact quiet_reaches.
  - exact reaches_quiet.
  - exact cut_quiet.
  - intros k ev T r f st res st' Q E. eapply fcall_reaches; eassumption.
Qed.

(* the whole parse: whatever an action raised is the result of parse(), and nothing else was raised *)
Theorem raise_reaches_caller n start r st :
  parse_with text re_at isalnum isalpha lower upper ic unsafe rules ec act lineat n start = (r, st) ->
  raised st = [] \/ exists x, raised st = [x] /\ r = Fatal x.
Proof.
  unfold parse_with. intros E. assert (Q0 : Quiet gstate0) by reflexivity.
  destruct (feval_reaches n _ _ _ _ _ Q0 E) as [[Q _]|R]; [left; exact Q|right; exact R].
Qed.

(* and the engine raises nothing foreign by itself: when no action raised, a fatal result is fuel exhaustion, the
   empty-whitespace hang marker, an unmodelled leaf (Foreign 0) or the call of an undefined rule (Foreign 1 = FailedRef) *)
Theorem engine_raises_nothing_foreign n start k st :
  parse_with text re_at isalnum isalpha lower upper ic unsafe rules ec act lineat n start = (Fatal k, st) ->
  raised st = [] -> engine_made k.
Proof.
  unfold parse_with. intros E Q. assert (Q0 : Quiet gstate0) by reflexivity.
  destruct (feval_reaches n _ _ _ _ _ Q0 E) as [[_ M]|[x [R _]]].
  - apply M. reflexivity.
  - rewrite Q in R. discriminate.
Qed.

(* the ghost log is written exactly there: a raising action ends the invocation with that exception, logs it, stores nothing *)
Lemma rule_call_raises (ev : @ev_t gstate) rl r k st v fb st2 e :
  lookup (memos st) k = None ->
  ev (r_exp rl) (push (newf (fst k))) (if left_recursion ec then memoize ec rl st k OGuard else st) = (Ok v fb, st2) ->
  r_isname rl && is_keyword upper ic ec (fold fb) = false ->
  act r (fold fb) = ARaise e ->
  rule_call upper ic ec act lineat ev rl r k st = (RFatal (Foreign e), log_raise (log_body st2 r) (Foreign e)).
Proof.
  intros HL Hb Hk Ha. unfold rule_call. rewrite HL, Hb. unfold post_body. rewrite Hk, Ha. reflexivity.
Qed.

End Raise.

(* ---- non-vacuity: an action raising deep inside a lookahead inside a closure inside an optional ---- *)
Definition x_text : str := [97; 97]%N.
Definition x_ic : icfg := {| ws_re := None; cm_re := None; eol_re := None; nameguard := false; ignorecase := false; namechars := [] |}.
Definition x_ec : ecfg := {| memoization := true; left_recursion := true; prune_on_cut := true; memo_cap := 8; parseinfo := false; keywords := [] |}.
Definition x_rule (e : exp) : rule :=
  {| r_name := 0; r_exp := e; r_tokn := false; r_isname := false; r_nomemo := false; r_lrec := false; r_memo := true |}.
(* start = [ { &item 'a' } ] | 'a' 'a' ;  item = 'a' ;   the action of item raises exception 7 *)
Definition x_rules : list rule :=
  [x_rule (Choice [Opt (Rep false None false (Seq [Look false (Call 1); Leaf (LTok [97%N])]));
                   Seq [Leaf (LTok [97%N]); Leaf (LTok [97%N])]]);
   x_rule (Leaf (LTok [97%N]))].
Definition x_act (r : nat) (v : value) : aret := if Nat.eqb r 1 then ARaise 7 else ANone.
Definition x_run := parse_with x_text (fun _ _ => None) (fun _ => false) (fun _ => false) (fun c => c) (fun c => c)
                               x_ic [] x_rules x_ec x_act (fun _ => 0) 40 0.

Lemma raise_witness : fst x_run = Fatal (Foreign 7) /\ raised (snd x_run) = [Foreign 7].
Proof. split; vm_compute; reflexivity. Qed.
