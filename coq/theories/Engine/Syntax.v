(* Grammar expressions (tatsu/peg/*.py) with variants folded into flags; `defines` and
   `optimized` as the code computes them.  Model only, no proofs. *)
From Coq Require Import List NArith ZArith Arith Bool.
From TatsuV Require Import Base.PyStr Engine.Value.
Import ListNotations.

Inductive meta := MName | MInt | MUInt | MFloat | MBool.

Inductive leaf :=
| LTok (t : str)          (* Token *)
| LPat (id : nat)         (* Pattern: index into the regex oracle *)
| LConst (v : value)      (* Constant, already evaluated (C17 covers the evaluation) *)
| LVoid | LFail | LCut | LEOF | LDot | LEmpty   (* () !() ~ $ /./ {} *)
| LMeta (m : meta).

Inductive exp :=
| Leaf (l : leaf)
| Seq (es : list exp)
| Choice (es : list exp)
| Group (e : exp)
| SkipGroup (e : exp)
| Opt (e : exp)
| Rep (plus : bool) (sep : option exp) (omitsep : bool) (e : exp)
      (* Closure / PositiveClosure / Join / PositiveJoin / Gather / PositiveGather *)
| Look (neg : bool) (e : exp)
| SkipTo (e : exp)
| Assoc (left : bool) (e : exp)
      (* LeftJoin / RightJoin (sep<{e}+ , sep>{e}+): e is the positive join Rep true (Some sep) false body *)
| Call (r : nat)
| Named (islist : bool) (n : str) (e : exp)
| Over (islist : bool) (e : exp).

Record rule := {
  r_name : nat;           (* index = identity of the rule; the printable name lives in the harness *)
  r_exp : exp;
  r_tokn : bool;          (* is_tokn: upper-case rule, no whitespace skipping at entry *)
  r_isname : bool;        (* @name *)
  r_nomemo : bool;        (* @nomemo *)
  r_lrec : bool;          (* is_lrec, from the left-recursion analysis (C16) *)
  r_memo : bool;          (* RuleInfo.is_memo = Rule.memoizable *)
}.

Definition memoizable (r : rule) : bool := r_memo r && negb (r_nomemo r).

(* ---- defines_single / defines_list (before the `not in keys_list` filter) ---- *)
Fixpoint def_single (e : exp) : list str :=
  match e with
  | Leaf _ | Call _ => []
  | Seq es | Choice es => flat_map def_single es
  | Group e | SkipGroup e | Opt e | Look _ e | SkipTo e | Assoc _ e | Over _ e => def_single e
  | Rep _ _ _ e => def_single e        (* Join.sep is not a Box child for defines *)
  | Named _ n e => n :: def_single e
  end.

Fixpoint def_list (e : exp) : list str :=
  match e with
  | Leaf _ | Call _ => []
  | Seq es | Choice es => flat_map def_list es
  | Group e | SkipGroup e | Opt e | Look _ e | SkipTo e | Assoc _ e | Over _ e => def_list e
  | Rep _ _ _ e => def_list e
  | Named true n e => n :: def_list e
  | Named false _ e => def_list e
  end.

(* ---- Model.optimized ---- *)
Definition is_leaf_or_group (e : exp) : bool :=
  match e with Leaf _ | Call _ | Group _ => true | _ => false end.

Definition is_nonpositive_rep_or_opt (e : exp) : bool :=
  match e with Opt _ => true | Rep false _ _ _ => true | _ => false end.

Fixpoint optimized (e : exp) : exp :=
  match e with
  | Leaf _ | Call _ => e
  | Seq es =>
    match map optimized es with
    | [x] => x
    | es' => Seq es'
    end
  | Choice es =>
    match map optimized es with
    | [x] => x
    | es' => Choice es'
    end
  | Group e1 =>
    let o := optimized e1 in if is_leaf_or_group o then o else Group o
  | SkipGroup e1 => SkipGroup (optimized e1)
  | Opt e1 =>
    let o := optimized e1 in if is_nonpositive_rep_or_opt o then o else Opt o
  | Rep plus sep om e1 => Rep plus sep om (optimized e1)     (* Box.optimized leaves `sep` alone *)
  | Look neg e1 => Look neg (optimized e1)
  | SkipTo e1 => SkipTo (optimized e1)
  | Assoc l e1 => Assoc l (optimized e1)
  | Named il n e1 => Named il n (optimized e1)
  | Over il e1 => Over il (optimized e1)
  end.

(* Rule.optimized: unwrap single-element sequences and groups at the top until stable.
   After `optimized` a top-level Seq has >= 2 elements or 0; a Group holds a non-leaf, non-group. *)
Fixpoint rule_unwrap (fuel : nat) (e : exp) : exp :=
  match fuel with
  | O => e
  | S f =>
    match e with
    | Seq [x] => rule_unwrap f x
    | Group x => rule_unwrap f (optimized x)
    | _ => e
    end
  end.

Fixpoint exp_size (e : exp) : nat :=
  match e with
  | Leaf _ | Call _ => 1
  | Seq es | Choice es => S (fold_right (fun x n => exp_size x + n) 0 es)
  | Group e | SkipGroup e | Opt e | Look _ e | SkipTo e | Assoc _ e | Named _ _ e | Over _ e => S (exp_size e)
  | Rep _ sep _ e => S (exp_size e + match sep with Some s => exp_size s | None => 0 end)
  end.

Definition rule_optimized (r : rule) : rule :=
  let o := optimized (r_exp r) in
  {| r_name := r_name r; r_exp := rule_unwrap (S (exp_size o)) o; r_tokn := r_tokn r;
     r_isname := r_isname r; r_nomemo := r_nomemo r; r_lrec := r_lrec r; r_memo := r_memo r |}.
