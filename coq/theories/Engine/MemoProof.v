(* C04: memoization (any capacity, failures memoised, pruning at cuts, left-recursion guards) never
   changes what a parse of a grammar without left-recursive rules returns. *)
From Coq Require Import List NArith ZArith Arith Bool Lia.
From TatsuV Require Import Base.PyStr Engine.Value Engine.Syntax Engine.Input Engine.Engine Engine.Calls
     Engine.EngineRel Engine.EngineMono.
Import ListNotations.

Lemma least_fuel (P : nat -> bool) n : P n = true ->
  exists g, g <= n /\ P g = true /\ forall j, j < g -> P j = false.
Proof.
  induction n as [n IH] using lt_wf_ind. intros Hn.
  destruct (existsb P (seq 0 n)) eqn:E.
  - apply existsb_exists in E. destruct E as [j [Hj Pj]]. apply in_seq in Hj.
    destruct (IH j ltac:(lia) Pj) as [g [Hg [Pg Hmin]]]. exists g. repeat split; [lia|exact Pg|exact Hmin].
  - exists n. repeat split; [lia|exact Hn|]. intros j Hj.
    destruct (P j) eqn:Pj; [|reflexivity]. exfalso.
    assert (existsb P (seq 0 n) = true) by (apply existsb_exists; exists j; split; [apply in_seq; lia|exact Pj]).
    congruence.
Qed.

Definition is_oof (r : res) : bool := match r with Fatal OOF => true | _ => false end.
Lemma is_oof_false r : is_oof r = false <-> r <> Fatal OOF.
Proof. destruct r as [| |[| |]]; cbn; split; intros; try congruence; try reflexivity; exfalso; auto. Qed.

Section Memo.
Variable text : str.
Variable re_at : nat -> nat -> option (nat * str).
Variable isalnum isalpha : N -> bool.
Variable lower upper : N -> N.
Variable ic : icfg.
Variable unsafe : list str.
Variable rules : list rule.
Variable ec : ecfg.
Variable act : nat -> value -> aret.
Variable lineat : nat -> nat.

Hypothesis no_lrec : forall r rl, get_rule rules r = Some rl -> r_lrec rl = false.

Notation pcall' := (pcall text re_at upper ic rules ec act lineat).
Notation fcall' := (fcall text re_at upper ic rules ec act lineat).
Notation fcut := (f_on_cut ec).
Notation pcut := (fun (_ : frame) (u : unit) => u).
Notation pev := (geval text re_at isalnum isalpha lower ic unsafe pcut pcall').
Notation mev := (geval text re_at isalnum isalpha lower ic unsafe fcut fcall').
Notation ntok rl f := (if r_tokn rl then Some (pos f) else next_token text re_at ic (pos f)).

(* the clean result of a rule invocation at a key, at a given fuel *)
Definition clean_rule (n : nat) (rl : rule) (r p : nat) : rres :=
  match pev n (r_exp rl) (push (newf p)) tt with
  | (Ok _ fb, _) => fst (post_body upper ic ec act lineat rl r p fb)
  | (Fail _, _) => RFail
  | (Fatal x, _) => RFatal x
  end.

Definition outcome_of (rr : rres) : option outcome :=
  match rr with ROk node np => Some (OOk node np) | RFail => Some OFail | RFatal _ => None end.

(* memo invariant: guards belong to calls in progress (the set A); every other entry is the clean
   outcome of its key at some fuel *)
Definition Inv (A : list key) (st : gstate) : Prop :=
  forall k o, In (k, o) (memos st) ->
    (o = OGuard /\ In k A) \/
    (exists rl n, get_rule rules (snd k) = Some rl /\ outcome_of (clean_rule n rl (snd k) (fst k)) = Some o).

(* a call in progress cannot be re-entered by a clean evaluation that terminates at this fuel *)
Definition GInv (A : list key) (n : nat) : Prop :=
  forall p r, In (p, r) A -> forall f rl, get_rule rules r = Some rl -> ntok rl f = Some p ->
    fst (pev n (Call r) f tt) = Fatal OOF.

Definition RS (A : list key) (_ : unit) (st : gstate) : Prop := Inv A st.

Lemma key_eqb_eq a b : key_eqb a b = true <-> a = b.
Proof.
  destruct a, b; unfold key_eqb; cbn. rewrite andb_true_iff, !Nat.eqb_eq.
  split; [intros [-> ->]; reflexivity | intros H; inversion H; auto].
Qed.

Lemma lookup_In m k o : lookup m k = Some o -> In (k, o) m.
Proof.
  induction m as [|[k' o'] m IH]; cbn; [discriminate|].
  destruct (key_eqb k k') eqn:E.
  - intros H; inversion H; subst. apply key_eqb_eq in E. subst. left; reflexivity.
  - intros H. right. apply IH; exact H.
Qed.

Lemma In_trim cap m x : In x (trim cap m) -> In x m.
Proof.
  induction m as [|a m IH]; cbn [trim].
  - destruct (length (@nil (key * outcome)) <=? cap); auto.
  - destruct (length (a :: m) <=? cap); [auto|]. intros H; right; apply IH; exact H.
Qed.

Lemma In_insert cap m k o k' o' :
  In (k', o') (insert cap m k o) -> (k' = k /\ o' = o) \/ (In (k', o') m /\ k' <> k).
Proof.
  unfold insert. intros H. apply In_trim in H. apply in_app_or in H. destruct H as [H|[H|[]]].
  - apply filter_In in H. destruct H as [H Hk]. right. split; [exact H|].
    cbn in Hk. intros ->. rewrite (proj2 (key_eqb_eq k k) eq_refl) in Hk. discriminate.
  - inversion H; subst. left; auto.
Qed.

Lemma Inv_weaken A A' st : (forall k, In k A -> In k A') -> Inv A st -> Inv A' st.
Proof.
  intros HA I k o Hin. destruct (I k o Hin) as [[-> Hk]|H]; [left; split; [reflexivity|apply HA; exact Hk]|right; exact H].
Qed.

Lemma Inv_prune A st f : Inv A st -> Inv A (fcut f st).
Proof.
  intros I. unfold f_on_cut. destruct (prune_on_cut ec); [|exact I].
  intros k o Hin. cbn in Hin. unfold prune in Hin. apply filter_In in Hin. destruct Hin as [Hin _].
  exact (I k o Hin).
Qed.

Lemma Inv_log A st r : Inv A st -> Inv A (log_body st r).
Proof. intros I k o Hin. exact (I k o Hin). Qed.

(* storing the guard for key k *)
Lemma Inv_guard A st rl k : Inv A st -> Inv (k :: A) (memoize ec rl st k OGuard).
Proof.
  intros I. unfold memoize. destruct (memoizable rl && memoization ec).
  - intros k' o' Hin. cbn in Hin. apply In_insert in Hin. destruct Hin as [[-> ->]|[Hin _]].
    + left. split; [reflexivity|left; reflexivity].
    + destruct (I k' o' Hin) as [[-> Hk]|H]; [left; split; [reflexivity|right; exact Hk]|right; exact H].
  - eapply Inv_weaken; [|exact I]. intros k' Hk. right. exact Hk.
Qed.

(* storing a justified outcome for key k removes k's guard *)
Lemma Inv_store A st rl r p o n :
  get_rule rules r = Some rl -> outcome_of (clean_rule n rl r p) = Some o ->
  Inv ((p, r) :: A) st -> memoizable rl && memoization ec = true ->
  Inv A (memoize ec rl st (p, r) o).
Proof.
  intros Hrl Ho I Hm. unfold memoize. rewrite Hm.
  intros k' o' Hin. cbn in Hin. apply In_insert in Hin. destruct Hin as [[-> ->]|[Hin Hne]].
  - right. exists rl, n. split; [exact Hrl|exact Ho].
  - destruct (I k' o' Hin) as [[-> [Hk|Hk]]|H].
    + exfalso. apply Hne. symmetry. exact Hk.
    + left. split; [reflexivity|exact Hk].
    + right. exact H.
Qed.

Lemma Inv_store_nomemo A st rl k o :
  Inv A st -> memoizable rl && memoization ec = false -> Inv A (memoize ec rl st k o).
Proof. intros I Hm. unfold memoize. rewrite Hm. exact I. Qed.

Lemma Inv_store_same A st rl r p o n :
  get_rule rules r = Some rl -> outcome_of (clean_rule n rl r p) = Some o ->
  Inv A st -> Inv A (memoize ec rl st (p, r) o).
Proof.
  intros Hrl Ho I. destruct (memoizable rl && memoization ec) eqn:Hm.
  - apply (Inv_store A st rl r p o n Hrl Ho); [|exact Hm].
    eapply Inv_weaken; [|exact I]. intros k Hk. right. exact Hk.
  - apply Inv_store_nomemo; assumption.
Qed.

(* ---- clean evaluator facts ---- *)
Lemma pev_mono_res n1 n2 e f : n1 <= n2 -> fst (pev n1 e f tt) <> Fatal OOF ->
  fst (pev n2 e f tt) = fst (pev n1 e f tt).
Proof.
  intros. apply (geval_mono_res text re_at isalnum isalpha lower ic unsafe pcut pcall'); auto.
  apply pcall_mono.
Qed.

Lemma pev_det n1 n2 e f : fst (pev n1 e f tt) <> Fatal OOF -> fst (pev n2 e f tt) <> Fatal OOF ->
  fst (pev n1 e f tt) = fst (pev n2 e f tt).
Proof.
  intros. apply (geval_det text re_at isalnum isalpha lower ic unsafe pcut pcall'); auto.
  apply pcall_mono.
Qed.

Lemma pev_call_S n r f :
  pev (S n) (Call r) f tt = pcall' n (pev n) r f tt.
Proof. rewrite geval_S. reflexivity. Qed.

Lemma GInv_mono A n1 n2 : n1 <= n2 -> GInv A n2 -> GInv A n1.
Proof.
  intros Hn G p r Hin f rl Hrl Hp.
  destruct (is_oof (fst (pev n1 (Call r) f tt))) eqn:E.
  - destruct (fst (pev n1 (Call r) f tt)) as [| |[| |]]; cbn in E; try discriminate. reflexivity.
  - apply is_oof_false in E. rewrite <- (pev_mono_res n1 n2 _ _ Hn E) in E.
    exfalso. apply E. exact (G p r Hin f rl Hrl Hp).
Qed.

Lemma clean_rule_det n1 n2 rl r p o1 o2 :
  outcome_of (clean_rule n1 rl r p) = Some o1 -> outcome_of (clean_rule n2 rl r p) = Some o2 -> o1 = o2.
Proof.
  unfold clean_rule. intros H1 H2.
  assert (N1 : fst (pev n1 (r_exp rl) (push (newf p)) tt) <> Fatal OOF).
  { intros E. destruct (pev n1 (r_exp rl) (push (newf p)) tt) as [rb sb]. cbn in E. subst rb. discriminate. }
  assert (N2 : fst (pev n2 (r_exp rl) (push (newf p)) tt) <> Fatal OOF).
  { intros E. destruct (pev n2 (r_exp rl) (push (newf p)) tt) as [rb sb]. cbn in E. subst rb. discriminate. }
  pose proof (pev_det n1 n2 _ _ N1 N2) as D.
  destruct (pev n1 (r_exp rl) (push (newf p)) tt) as [rb1 sb1].
  destruct (pev n2 (r_exp rl) (push (newf p)) tt) as [rb2 sb2]. cbn [fst] in D. subst rb2.
  rewrite H1 in H2. inversion H2; reflexivity.
Qed.

Lemma pcall_eq k (ev : @ev_t unit) r f u :
  pcall' k ev r f u =
  match get_rule rules r with
  | None => (Fatal (Foreign 1), u)
  | Some rl =>
    match ntok rl f with
    | None => (Fatal Hang, u)
    | Some p =>
      match ev (r_exp rl) (push (newf p)) u with
      | (Ok _ fb, _) =>
        match fst (post_body upper ic ec act lineat rl r p fb) with
        | ROk node np => (Ok node (append (goto f np) node), u)
        | RFail => (Fail (cutseen f), u)
        | RFatal x => (Fatal x, u)
        end
      | (Fail _, _) => (Fail (cutseen f), u)
      | (Fatal x, _) => (Fatal x, u)
      end
    end
  end.
Proof. reflexivity. Qed.

Lemma fcall_eq k (ev : @ev_t gstate) r f st :
  fcall' k ev r f st =
  match get_rule rules r with
  | None => (Fatal (Foreign 1), st)
  | Some rl =>
    match ntok rl f with
    | None => (Fatal Hang, st)
    | Some p =>
      match (if r_lrec rl then recursive_call upper ic ec act lineat k ev rl r (p, r) st
             else rule_call upper ic ec act lineat ev rl r (p, r) st) with
      | (ROk node np, st1) => (Ok node (append (goto f np) node), st1)
      | (RFail, st1) => (Fail (cutseen f), st1)
      | (RFatal x, st1) => (Fatal x, st1)
      end
    end
  end.
Proof. reflexivity. Qed.

Lemma rule_call_eq (ev : @ev_t gstate) rl r k st :
  rule_call upper ic ec act lineat ev rl r k st =
  match lookup (memos st) k with
  | Some (OOk node np) => (ROk node np, st)
  | Some OFail => (RFail, st)
  | Some OGuard => (RFail, st)
  | None =>
    let st1 := if left_recursion ec then memoize ec rl st k OGuard else st in
    match ev (r_exp rl) (push (newf (fst k))) st1 with
    | (Ok _ fb, st2) =>
      match post_body upper ic ec act lineat rl r (fst k) fb with
      | (ROk node np, ran) =>
        let st3 := if ran then log_body st2 r else st2 in
        (ROk node np, memoize ec rl st3 k (OOk node np))
      | (RFail, ran) =>
        let st3 := if ran then log_body st2 r else st2 in
        (RFail, memoize ec rl st3 k OFail)
      | (RFatal x, ran) => (RFatal x, if ran then log_raise (log_body st2 r) x else st2)
      end
    | (Fail _, st2) => (RFail, memoize ec rl st2 k OFail)
    | (Fatal x, st2) => (RFatal x, st2)
    end
  end.
Proof. reflexivity. Qed.

(* ---- the call case ---- *)
Lemma call_sim n :
  (forall g A, g <= n -> GInv A g -> Rel (RS A) (pev g) (mev g)) ->
  forall A, GInv A (S n) ->
  forall r f s1 s2 res s1', RS A s1 s2 -> pcall' n (pev n) r f s1 = (res, s1') -> res <> Fatal OOF ->
    exists s2', fcall' n (mev n) r f s2 = (res, s2') /\ okst res (RS A s1' s2').
Proof.
  intros IH A G r f s1 s2 res s1' HR E Hres. destruct s1, s1'. unfold RS in *.
  pose proof E as Ecall.
  rewrite pcall_eq in E. rewrite fcall_eq.
  destruct (get_rule rules r) as [rl|] eqn:Hrl;
    [|inversion E; subst; exists s2; split; [reflexivity|exact I]].
  destruct (ntok rl f) as [p|] eqn:Hp;
    [|inversion E; subst; exists s2; split; [reflexivity|exact I]].
  rewrite (no_lrec r rl Hrl).
  destruct (pev n (r_exp rl) (push (newf p)) tt) as [rb sb] eqn:Eb.
  assert (Hrb : rb <> Fatal OOF).
  { intros ->. inversion E; subst. apply Hres; reflexivity. }
  rewrite rule_call_eq.
  destruct (lookup (memos s2) (p, r)) as [o|] eqn:L.
  - (* memo hit *)
    apply lookup_In in L. destruct (HR _ _ L) as [[-> Hin]|[rl' [j [Hrl' Ho]]]].
    + (* a guard: the clean call would not terminate *)
      exfalso. pose proof (G p r Hin f rl Hrl Hp) as GO. rewrite pev_call_S, Ecall in GO. cbn in GO.
      apply Hres. exact GO.
    + cbn [fst snd] in *. rewrite Hrl in Hrl'. inversion Hrl'; subst rl'.
      assert (Hn : outcome_of (clean_rule n rl r p) = Some
                     match rb with Ok _ fb => match fst (post_body upper ic ec act lineat rl r p fb) with
                                              | ROk node np => OOk node np | _ => OFail end
                              | _ => OFail end \/ True) by (right; exact I).
      clear Hn.
      destruct rb as [v fb|c|x].
      * destruct (fst (post_body upper ic ec act lineat rl r p fb)) as [node np| |x] eqn:Epb.
        -- assert (Hc : outcome_of (clean_rule n rl r p) = Some (OOk node np)).
           { unfold clean_rule. rewrite Eb, Epb. reflexivity. }
           rewrite (clean_rule_det _ _ _ _ _ _ _ Ho Hc). inversion E; subst.
           exists s2. split; [reflexivity|exact HR].
        -- assert (Hc : outcome_of (clean_rule n rl r p) = Some OFail).
           { unfold clean_rule. rewrite Eb, Epb. reflexivity. }
           rewrite (clean_rule_det _ _ _ _ _ _ _ Ho Hc). inversion E; subst.
           exists s2. split; [reflexivity|exact HR].
        -- exfalso. unfold clean_rule in Ho.
           assert (N1 : fst (pev j (r_exp rl) (push (newf p)) tt) <> Fatal OOF).
           { intros EE. destruct (pev j (r_exp rl) (push (newf p)) tt) as [rbj sbj]. cbn in EE. subst rbj. discriminate. }
           assert (N2 : fst (pev n (r_exp rl) (push (newf p)) tt) <> Fatal OOF) by (rewrite Eb; exact Hrb).
           pose proof (pev_det j n _ _ N1 N2) as D. rewrite Eb in D. cbn [fst] in D.
           destruct (pev j (r_exp rl) (push (newf p)) tt) as [rbj sbj]. cbn [fst] in D. subst rbj.
           rewrite Epb in Ho. discriminate.
      * assert (Hc : outcome_of (clean_rule n rl r p) = Some OFail).
        { unfold clean_rule. rewrite Eb. reflexivity. }
        rewrite (clean_rule_det _ _ _ _ _ _ _ Ho Hc). inversion E; subst.
        exists s2. split; [reflexivity|exact HR].
      * exfalso. unfold clean_rule in Ho.
        assert (N1 : fst (pev j (r_exp rl) (push (newf p)) tt) <> Fatal OOF).
        { intros EE. destruct (pev j (r_exp rl) (push (newf p)) tt) as [rbj sbj]. cbn in EE. subst rbj. discriminate. }
        assert (N2 : fst (pev n (r_exp rl) (push (newf p)) tt) <> Fatal OOF) by (rewrite Eb; exact Hrb).
        pose proof (pev_det j n _ _ N1 N2) as D. rewrite Eb in D. cbn [fst] in D.
        destruct (pev j (r_exp rl) (push (newf p)) tt) as [rbj sbj]. cbn [fst] in D. subst rbj. discriminate.
  - (* miss: evaluate the body under the guard *)
    set (guarded := left_recursion ec && (memoizable rl && memoization ec)).
    set (st1 := if left_recursion ec then memoize ec rl s2 (p, r) OGuard else s2).
    set (A' := if guarded then (p, r) :: A else A).
    assert (I1 : Inv A' st1).
    { unfold A', st1, guarded. destruct (left_recursion ec); cbn [andb].
      - destruct (memoizable rl && memoization ec) eqn:Hm.
        + apply Inv_guard. exact HR.
        + unfold memoize. rewrite Hm. exact HR.
      - exact HR. }
    (* least fuel at which the clean body terminates *)
    destruct (least_fuel (fun j => negb (is_oof (fst (pev j (r_exp rl) (push (newf p)) tt)))) n) as [g [Hg [Pg Hmin]]].
    { rewrite Eb. cbn [fst]. apply negb_true_iff. apply is_oof_false. exact Hrb. }
    apply negb_true_iff, is_oof_false in Pg.
    assert (G' : GInv A' g).
    { unfold A'. destruct guarded.
      - intros p0 r0 [Hk|Hk] f0 rl0 Hrl0 Hp0.
        + inversion Hk; subst p0 r0. rewrite Hrl in Hrl0. inversion Hrl0; subst rl0.
          destruct g as [|g']; [reflexivity|].
          rewrite pev_call_S, pcall_eq. rewrite Hrl, Hp0.
          specialize (Hmin g' ltac:(lia)). apply negb_false_iff in Hmin.
          destruct (pev g' (r_exp rl) (push (newf p)) tt) as [rbg sbg]. cbn [fst] in Hmin.
          destruct rbg as [| |[| |]]; cbn in Hmin; try discriminate. reflexivity.
        + exact (GInv_mono A g (S n) ltac:(lia) G p0 r0 Hk f0 rl0 Hrl0 Hp0).
      - exact (GInv_mono A g (S n) ltac:(lia) G). }
    destruct (pev g (r_exp rl) (push (newf p)) tt) as [rbg sbg] eqn:Ebg. cbn [fst] in Pg.
    assert (Erb : rbg = rb).
    { pose proof (pev_mono_res g n (r_exp rl) (push (newf p)) Hg) as M. rewrite Ebg, Eb in M. cbn [fst] in M.
      symmetry. apply M. exact Pg. }
    subst rbg.
    destruct (IH g A' Hg G' (r_exp rl) (push (newf p)) tt st1 rb sbg I1 Ebg Hrb) as [st2 [Em I2]].
    (* lift the faithful evaluation from fuel g to fuel n *)
    destruct (geval_mono_eq text re_at isalnum isalpha lower ic unsafe fcut fcall'
                (fcall_mono text re_at upper ic rules ec act lineat) g n _ _ _ _ _ Hg Em Hrb) as [st2' [Em' Hst]].
    cbv zeta. cbn [fst snd]. fold st1. rewrite Em'.
    destruct rb as [v fb|c|x]; cbn [okst] in Hst, I2.
    + subst st2'. unfold RS in I2.
      destruct (post_body upper ic ec act lineat rl r p fb) as [rr ran] eqn:Epb. cbn [fst] in E.
      assert (Hc : clean_rule n rl r p = rr).
      { unfold clean_rule. rewrite Eb, Epb. reflexivity. }
      assert (I2' : Inv A' (if ran then log_body st2 r else st2)) by (destruct ran; [apply Inv_log|]; exact I2).
      destruct rr as [node np| |x].
      * inversion E; subst. eexists. split; [reflexivity|]. cbn [okst]. unfold RS.
        unfold A' in I2'. destruct guarded eqn:Hgd.
        -- apply (Inv_store A _ rl r p (OOk node np) n Hrl); [rewrite Hc; reflexivity|exact I2'|].
           unfold guarded in Hgd. apply andb_true_iff in Hgd. tauto.
        -- apply (Inv_store_same A _ rl r p (OOk node np) n Hrl); [rewrite Hc; reflexivity|exact I2'].
      * inversion E; subst. eexists. split; [reflexivity|]. cbn [okst]. unfold RS.
        unfold A' in I2'. destruct guarded eqn:Hgd.
        -- apply (Inv_store A _ rl r p OFail n Hrl); [rewrite Hc; reflexivity|exact I2'|].
           unfold guarded in Hgd. apply andb_true_iff in Hgd. tauto.
        -- apply (Inv_store_same A _ rl r p OFail n Hrl); [rewrite Hc; reflexivity|exact I2'].
      * inversion E; subst. eexists. split; [reflexivity|exact I].
    + subst st2'. unfold RS in I2. inversion E; subst. eexists. split; [reflexivity|]. cbn [okst]. unfold RS.
      assert (Hc : clean_rule n rl r p = RFail) by (unfold clean_rule; rewrite Eb; reflexivity).
      unfold A' in I2. destruct guarded eqn:Hgd.
      * apply (Inv_store A _ rl r p OFail n Hrl); [rewrite Hc; reflexivity|exact I2|].
        unfold guarded in Hgd. apply andb_true_iff in Hgd. tauto.
      * apply (Inv_store_same A _ rl r p OFail n Hrl); [rewrite Hc; reflexivity|exact I2].
    + inversion E; subst. eexists. split; [reflexivity|exact I].
Qed.

Theorem memo_sim : forall n A, GInv A n -> Rel (RS A) (pev n) (mev n).
Proof.
  induction n as [n IH] using lt_wf_ind. intros A G.
  destruct n as [|n].
  - intros e f s1 s2 r s1' _ E Hr. rewrite geval_O in E. inversion E; subst. exfalso; apply Hr; reflexivity.
  - apply geval_step_rel.
    + intros f s1 s2 H. apply Inv_prune. exact H.
    + lia.
    + apply IH; [lia|]. apply (GInv_mono A n (S n)); [lia|exact G].
    + apply call_sim; [|exact G]. intros g A0 Hg G0. apply IH; [lia|exact G0].
Qed.

(* Memoization never changes what a parse returns: for every grammar without left-recursive rules,
   every text, every capacity, with or without pruning at cuts, with or without guards. *)
Theorem memo_transparent n e f :
  fst (pev n e f tt) <> Fatal OOF ->
  fst (mev n e f gstate0) = fst (pev n e f tt).
Proof.
  intros H. destruct (pev n e f tt) as [r u] eqn:E. cbn [fst] in *.
  assert (G0 : GInv [] n) by (intros p r0 []).
  assert (I0 : RS [] tt gstate0) by (intros k o []).
  destruct (memo_sim n [] G0 e f tt gstate0 r u I0 E H) as [s2 [E2 _]]. rewrite E2. reflexivity.
Qed.

End Memo.
