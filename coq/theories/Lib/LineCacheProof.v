(* Proofs about Lib/LineCache.v (property C12, text/line part). *)
From Coq Require Import List NArith Arith Bool Lia.
From TatsuV Require Import Base.PyStr Lib.LineCache.
Import ListNotations.
Local Open Scope nat_scope.

(* ---- small list facts ------------------------------------------------------------------------ *)
Lemma nth_error_repeat_lt {A} (x : A) m k : k < m -> nth_error (repeat x m) k = Some x.
Proof.
  revert k; induction m as [|m IH]; intros k H; [lia|].
  destruct k as [|k]; [reflexivity|]. cbn. apply IH. lia.
Qed.

Lemma nth_error_seq_lt a m k : k < m -> nth_error (seq a m) k = Some (a + k).
Proof.
  revert a k; induction m as [|m IH]; intros a k H; [lia|].
  destruct k as [|k]; cbn; [f_equal; lia|]. rewrite IH by lia. f_equal. lia.
Qed.

Lemma last_app_ne {A} (l r : list A) d : r <> [] -> last (l ++ r) d = last r d.
Proof.
  intros H. induction l as [|x l IH]; [reflexivity|].
  cbn [List.app]. destruct (l ++ r) eqn:E.
  - destruct l; cbn in E; [congruence|discriminate].
  - cbn [last]. exact IH.
Qed.

Lemma last_cons_ne {A} (x : A) l d : l <> [] -> last (x :: l) d = last l d.
Proof. intros H. destruct l; [congruence|reflexivity]. Qed.

Lemma last_char_last l : l <> [] -> last_char l = Some (last l 0%N).
Proof.
  intros H. unfold last_char.
  rewrite (app_removelast_last 0%N H) at 1. rewrite rev_app_distr. reflexivity.
Qed.

Lemma is_crlf_linebreak c : is_crlf c = true -> is_linebreak c = true.
Proof.
  unfold is_crlf. rewrite orb_true_iff, !N.eqb_eq. intros [-> | ->]; reflexivity.
Qed.

Lemma is_linebreak_CR : is_linebreak CR = true. Proof. reflexivity. Qed.
Lemma is_linebreak_LF : is_linebreak LF = true. Proof. reflexivity. Qed.

(* ---- generic facts about the specification (any break predicate) ------------------------------ *)
Section SpecFacts.
  Variable isb : N -> bool.
  Notation sline := (spec_line isb).
  Notation sstart := (spec_start isb).
  Notation send := (spec_end isb).

  Lemma spec_line_0 s : sline s 0 = 0.
  Proof. destruct s; reflexivity. Qed.
  Lemma spec_start_0 s : sstart s 0 = 0.
  Proof. destruct s; reflexivity. Qed.

  Lemma spec_line_S c tl p : sline (c :: tl) (S p) = (if ends_line isb c tl then 1 else 0) + sline tl p.
  Proof. reflexivity. Qed.
  Lemma spec_start_S c tl p :
    sstart (c :: tl) (S p) =
      match sstart tl p with O => if ends_line isb c tl then 1 else 0 | S k => S (S k) end.
  Proof. reflexivity. Qed.
  Lemma spec_end_S c tl p : send (c :: tl) (S p) = S (send tl p).
  Proof. reflexivity. Qed.
  Lemma spec_end_O c tl : send (c :: tl) 0 = if ends_line isb c tl then 1 else S (send tl 0).
  Proof. reflexivity. Qed.

  Lemma spec_start_le s p : sstart s p <= p.
  Proof.
    revert p; induction s as [|c tl IH]; intros [|p]; try (cbn; lia).
    rewrite spec_start_S. specialize (IH p). destruct (sstart tl p); [destruct (ends_line isb c tl)|]; lia.
  Qed.

  Lemma spec_end_gt s p : p < length s -> p < send s p.
  Proof.
    revert p; induction s as [|c tl IH]; intros p H; cbn [length] in H; [lia|].
    destruct p as [|p].
    - rewrite spec_end_O. destruct (ends_line isb c tl); lia.
    - rewrite spec_end_S. specialize (IH p). lia.
  Qed.

  Lemma spec_end_le s p : send s p <= length s.
  Proof.
    revert p; induction s as [|c tl IH]; intros p; [cbn; lia|].
    destruct p as [|p]; cbn [length].
    - rewrite spec_end_O. destruct (ends_line isb c tl); [lia|]. specialize (IH 0). lia.
    - rewrite spec_end_S. specialize (IH p). lia.
  Qed.

  (* offsets behind a prefix l *)
  Lemma spec_line_app l r k : sline (l ++ r) (length l + k) = sline (l ++ r) (length l) + sline r k.
  Proof.
    induction l as [|c l IH]; cbn [List.app length Nat.add].
    - rewrite spec_line_0. reflexivity.
    - rewrite !spec_line_S, IH. lia.
  Qed.

  Lemma spec_end_app l r k : send (l ++ r) (length l + k) = length l + send r k.
  Proof.
    induction l as [|c l IH]; cbn [List.app length Nat.add]; [reflexivity|].
    rewrite spec_end_S, IH. reflexivity.
  Qed.

  Lemma spec_start_app l r k :
    sstart (l ++ r) (length l + k) =
      match sstart r k with O => sstart (l ++ r) (length l) | S j => length l + S j end.
  Proof.
    induction l as [|c l IH]; cbn [List.app length Nat.add].
    - rewrite spec_start_0. destruct (sstart r k); reflexivity.
    - rewrite !spec_start_S, IH. destruct (sstart r k) as [|j]; [reflexivity|].
      replace (length l + S j) with (S (length l + j)) by lia. reflexivity.
  Qed.
End SpecFacts.

(* two break predicates that agree on the characters of the text give the same specification *)
Lemma spec_line_ext (f g : N -> bool) s p :
  (forall c, In c s -> f c = g c) -> spec_line f s p = spec_line g s p.
Proof.
  revert p; induction s as [|c tl IH]; intros p H; destruct p as [|p]; try reflexivity.
  rewrite !spec_line_S. rewrite IH by (intros; apply H; right; assumption).
  unfold ends_line. rewrite (H c) by (left; reflexivity). reflexivity.
Qed.

(* ---- one line of splitlines ------------------------------------------------------------------ *)
Notation sline := (spec_line is_linebreak).
Notation sstart := (spec_start is_linebreak).
Notation send := (spec_end is_linebreak).

Definition terminated (l : str) : bool := is_linebreak (last l 0%N).

Lemma ends_line_nobreak c tl : is_linebreak c = false -> ends_line is_linebreak c tl = false.
Proof. intros H. unfold ends_line. rewrite H. reflexivity. Qed.

Lemma ends_line_last c : is_linebreak c = true -> ends_line is_linebreak c [] = true.
Proof. intros H. unfold ends_line. rewrite H, andb_false_r. reflexivity. Qed.

Lemma ends_line_crlf_no c d tl :
  is_linebreak c = true -> N.eqb c CR && N.eqb d LF = false -> ends_line is_linebreak c (d :: tl) = true.
Proof. intros H E. unfold ends_line. rewrite H, E. reflexivity. Qed.

Lemma ends_line_crlf_yes c d tl :
  N.eqb c CR && N.eqb d LF = true -> ends_line is_linebreak c (d :: tl) = false.
Proof. intros E. unfold ends_line. rewrite E, andb_false_r. reflexivity. Qed.

Lemma ends_line_LF tl : ends_line is_linebreak LF tl = true.
Proof. reflexivity. Qed.

(* Everything the proofs need to know about the first line (l, r) = span_line s of a non-empty s. *)
Lemma span_line_spec s l r :
  s <> [] -> span_line s = (l, r) ->
  s = l ++ r /\ l <> [] /\
  (forall p, p < length l -> sline s p = 0 /\ sstart s p = 0 /\ send s p = length l) /\
  (terminated l = true -> sline s (length l) = 1 /\ sstart s (length l) = length l) /\
  (terminated l = false -> r = [] /\ sline s (length l) = 0 /\ sstart s (length l) = 0).
Proof.
  revert l r; induction s as [|c tl IH]; intros l r Hne H; [congruence|]. clear Hne.
  cbn [span_line] in H. destruct (is_linebreak c) eqn:Hc.
  - (* c is a line break character *)
    destruct tl as [|d tl'].
    + inversion H; subst. pose proof (ends_line_last c Hc) as E.
      split; [reflexivity|]. split; [discriminate|]. split; [|split].
      * intros p Hp. cbn [length] in Hp. assert (p = 0) by lia; subst p.
        cbn [spec_line spec_start spec_end length]. rewrite E. auto.
      * intros _. cbn [length]. rewrite spec_line_S, spec_start_S, E. cbn. auto.
      * unfold terminated. cbn [last]. rewrite Hc. discriminate.
    + destruct (N.eqb c CR && N.eqb d LF) eqn:E.
      * (* CR LF *)
        inversion H; subst. pose proof (ends_line_crlf_yes c d r E) as E1.
        apply andb_true_iff in E. destruct E as [Ec Ed]. apply N.eqb_eq in Ec, Ed. subst c d.
        pose proof (ends_line_LF r) as E2.
        split; [reflexivity|]. split; [discriminate|]. split; [|split].
        -- intros p Hp. cbn [length] in Hp.
           assert (p = 0 \/ p = 1) as [-> | ->] by lia.
           ++ cbn [spec_line spec_start]. rewrite spec_end_O, E1, spec_end_O, E2. auto.
           ++ rewrite spec_line_S, spec_start_S, spec_end_S, E1, spec_line_0, spec_start_0, spec_end_O, E2. auto.
        -- intros _. cbn [length].
           rewrite spec_line_S, spec_start_S, E1, spec_line_S, spec_start_S, E2, spec_line_0, spec_start_0. auto.
        -- unfold terminated. cbn. discriminate.
      * inversion H; subst. pose proof (ends_line_crlf_no c d tl' Hc E) as E1.
        split; [reflexivity|]. split; [discriminate|]. split; [|split].
        -- intros p Hp. cbn [length] in Hp. assert (p = 0) by lia; subst p.
           cbn [spec_line spec_start]. rewrite spec_end_O, E1. auto.
        -- intros _. cbn [length]. rewrite spec_line_S, spec_start_S, E1, spec_line_0, spec_start_0. auto.
        -- unfold terminated. cbn [last]. rewrite Hc. discriminate.
  - (* c is an ordinary character *)
    pose proof (ends_line_nobreak c tl Hc) as E.
    destruct (span_line tl) as [l' r'] eqn:Hs. inversion H; subst l r; clear H.
    destruct tl as [|d tl'].
    + cbn in Hs. inversion Hs; subst.
      split; [reflexivity|]. split; [discriminate|]. split; [|split].
      * intros p Hp. cbn [length] in Hp. assert (p = 0) by lia; subst p.
        cbn [spec_line spec_start]. rewrite spec_end_O, E. cbn. auto.
      * unfold terminated. cbn [last]. rewrite Hc. discriminate.
      * intros _. cbn [length]. rewrite spec_line_S, spec_start_S, E. cbn. auto.
    + destruct (IH l' r' ltac:(discriminate) eq_refl) as (Happ & Hl' & HA & HT & HU).
      assert (Hlast : terminated (c :: l') = terminated l').
      { unfold terminated. rewrite last_cons_ne by assumption. reflexivity. }
      assert (Hlen : 1 <= length l') by (destruct l'; [congruence|cbn; lia]).
      split; [cbn [List.app]; rewrite <- Happ; reflexivity|]. split; [discriminate|]. split; [|split].
      * intros p Hp. cbn [length] in Hp. destruct p as [|p].
        -- cbn [spec_line spec_start]. rewrite spec_end_O, E.
           destruct (HA 0 ltac:(lia)) as (_ & _ & ->). auto.
        -- rewrite spec_line_S, spec_start_S, spec_end_S, E.
           destruct (HA p ltac:(lia)) as (-> & -> & ->). auto.
      * rewrite Hlast. intros T. destruct (HT T) as (H1 & H2). cbn [length].
        rewrite spec_line_S, spec_start_S, E, H1, H2. split; [reflexivity|].
        destruct (length l'); [lia|reflexivity].
      * rewrite Hlast. intros T. destruct (HU T) as (H0 & H1 & H2). cbn [length].
        rewrite spec_line_S, spec_start_S, E, H1, H2. auto.
Qed.

Lemma span_line_terminated_rest s l r k :
  s <> [] -> span_line s = (l, r) -> terminated l = true ->
  sline s (length l + k) = S (sline r k) /\ sstart s (length l + k) = length l + sstart r k
  /\ send s (length l + k) = length l + send r k.
Proof.
  intros Hne H T. destruct (span_line_spec s l r Hne H) as (-> & Hl & _ & HT & _).
  destruct (HT T) as (H1 & H2).
  rewrite spec_line_app, spec_start_app, spec_end_app, H1, H2.
  split; [reflexivity|]. split; [|reflexivity]. destruct (spec_start is_linebreak r k); lia.
Qed.

Lemma span_line_rest_terminated s l r :
  s <> [] -> span_line s = (l, r) -> r <> [] -> terminated l = true.
Proof.
  intros Hne H Hr. destruct (span_line_spec s l r Hne H) as (_ & _ & _ & _ & HU).
  destruct (terminated l); [reflexivity|]. destruct (HU eq_refl) as (-> & _). congruence.
Qed.

(* ---- splitlines ------------------------------------------------------------------------------ *)
Lemma splitlines_f_S fuel c tl :
  splitlines_f (S fuel) (c :: tl) = let '(l, r) := span_line (c :: tl) in l :: splitlines_f fuel r.
Proof. reflexivity. Qed.

Lemma splitlines_f_nil fuel : splitlines_f fuel [] = [].
Proof. destruct fuel; reflexivity. Qed.

Lemma span_line_length s l r : s <> [] -> span_line s = (l, r) -> length s = length l + length r /\ 1 <= length l.
Proof.
  intros Hne H. destruct (span_line_spec s l r Hne H) as (-> & Hl & _).
  rewrite app_length. split; [reflexivity|]. destruct l; [congruence|cbn; lia].
Qed.

Lemma concat_splitlines_f fuel s : length s <= fuel -> concat (splitlines_f fuel s) = s.
Proof.
  revert s; induction fuel as [|fuel IH]; intros s H.
  - destruct s; [reflexivity|cbn in H; lia].
  - destruct s as [|c tl]; [reflexivity|].
    rewrite splitlines_f_S. destruct (span_line (c :: tl)) as [l r] eqn:E.
    destruct (span_line_spec (c :: tl) l r ltac:(discriminate) E) as (Happ & _).
    destruct (span_line_length (c :: tl) l r ltac:(discriminate) E) as (HL & H1).
    cbn [concat]. rewrite IH by lia. symmetry; exact Happ.
Qed.

Lemma concat_splitlines s : concat (splitlines s) = s.
Proof. apply concat_splitlines_f. lia. Qed.

Lemma splitlines_f_nonempty fuel s : length s <= fuel -> forall l, In l (splitlines_f fuel s) -> l <> [].
Proof.
  revert s; induction fuel as [|fuel IH]; intros s H l Hin; [destruct Hin|].
  destruct s as [|c tl]; [destruct Hin|].
  rewrite splitlines_f_S in Hin. destruct (span_line (c :: tl)) as [l0 r] eqn:E.
  destruct (span_line_spec (c :: tl) l0 r ltac:(discriminate) E) as (_ & Hl & _).
  destruct (span_line_length (c :: tl) l0 r ltac:(discriminate) E) as (HL & H1).
  destruct Hin as [<- | Hin]; [exact Hl|]. apply (IH r); [lia|exact Hin].
Qed.

(* str.splitlines never yields an empty line: lines[-1][-1] in build_line_cache cannot raise *)
Lemma splitlines_nonempty s l : In l (splitlines s) -> l <> [].
Proof. apply splitlines_f_nonempty. lia. Qed.

Lemma splitlines_f_ne fuel s : length s <= fuel -> s <> [] -> splitlines_f fuel s <> [].
Proof.
  intros H Hne. destruct fuel; [destruct s; [congruence|cbn in H; lia]|].
  destruct s as [|c tl]; [congruence|]. rewrite splitlines_f_S.
  destruct (span_line (c :: tl)). discriminate.
Qed.

(* ---- the cache: entry p is (start, line, length) of the specification --------------------------- *)
Lemma cache_body_length ls i n : length (cache_body ls i n) = length (concat ls).
Proof.
  revert i n; induction ls as [|l ls IH]; intros i n; [reflexivity|].
  cbn [cache_body concat]. rewrite !app_length, repeat_length, IH. reflexivity.
Qed.

Lemma cache_body_nth fuel s i n p :
  length s <= fuel -> p < length s ->
  nth_error (cache_body (splitlines_f fuel s) i n) p =
    Some (mkPL (i + sstart s p) (n + sline s p) (send s p - sstart s p))
  /\ sline s p < length (splitlines_f fuel s).
Proof.
  revert s i n p; induction fuel as [|fuel IH]; intros s i n p H Hp; [lia|].
  destruct s as [|c tl]; [cbn in Hp; lia|].
  rewrite splitlines_f_S. destruct (span_line (c :: tl)) as [l r] eqn:E.
  set (s := c :: tl) in *. assert (Hne : s <> []) by (subst s; discriminate). clearbody s.
  destruct (span_line_spec s l r Hne E) as (Happ & Hl & HA & _ & _).
  destruct (span_line_length s l r Hne E) as (HL & H1).
  cbn [cache_body length].
  destruct (lt_dec p (length l)) as [Hlt | Hge].
  - destruct (HA p Hlt) as (-> & -> & ->).
    rewrite nth_error_app1 by (rewrite repeat_length; exact Hlt).
    rewrite nth_error_repeat_lt by exact Hlt.
    split; [f_equal; f_equal; lia|lia].
  - assert (Hr : r <> []) by (intros ->; cbn [length] in HL; lia).
    pose proof (span_line_rest_terminated s l r Hne E Hr) as T.
    replace p with (length l + (p - length l)) by lia.
    destruct (span_line_terminated_rest s l r (p - length l) Hne E T) as (-> & -> & ->).
    rewrite nth_error_app2 by (rewrite repeat_length; lia).
    rewrite repeat_length. replace (length l + (p - length l) - length l) with (p - length l) by lia.
    destruct (IH r (i + length l) (S n) (p - length l) ltac:(lia) ltac:(lia)) as (-> & Hb).
    split; [f_equal; f_equal; lia|lia].
Qed.

(* ---- the end of the text ---------------------------------------------------------------------- *)
Lemma end_facts fuel s :
  length s <= fuel -> s <> [] ->
  let ls := splitlines_f fuel s in
  ls <> [] /\ last ls [] <> [] /\ last (last ls []) 0%N = last s 0%N /\ length (last ls []) <= length s /\
  (terminated s = true -> sline s (length s) = length ls /\ sstart s (length s) = length s) /\
  (terminated s = false -> S (sline s (length s)) = length ls /\ sstart s (length s) = length s - length (last ls [])).
Proof.
  revert s; induction fuel as [|fuel IH]; intros s H Hne; [destruct s; [congruence|cbn in H; lia]|].
  destruct s as [|c tl]; [congruence|]. cbv zeta.
  rewrite splitlines_f_S. destruct (span_line (c :: tl)) as [l r] eqn:E.
  set (s := c :: tl) in *. clearbody s.
  destruct (span_line_spec s l r Hne E) as (Happ & Hl & _ & HT & HU).
  destruct (span_line_length s l r Hne E) as (HL & H1).
  destruct r as [|d r'].
  - (* the last line *)
    rewrite splitlines_f_nil. rewrite app_nil_r in Happ. subst s. cbn [last length].
    split; [discriminate|]. split; [exact Hl|]. split; [reflexivity|]. split; [lia|]. split.
    + intros T. destruct (HT T) as (-> & ->). auto.
    + intros T. destruct (HU T) as (_ & -> & ->). split; [reflexivity|lia].
  - set (r := d :: r') in *. assert (Hr : r <> []) by (subst r; discriminate). clearbody r.
    pose proof (span_line_rest_terminated s l r Hne E Hr) as T.
    destruct (IH r ltac:(lia) Hr) as (Hls & Hll & Hlast & Hlen & HT' & HU').
    set (rest := splitlines_f fuel r) in *.
    rewrite (last_cons_ne l rest []) by exact Hls.
    assert (Hs : terminated s = terminated r).
    { unfold terminated. rewrite Happ. rewrite last_app_ne by exact Hr. reflexivity. }
    split; [discriminate|]. split; [exact Hll|]. split.
    { rewrite Hlast, Happ. rewrite last_app_ne by exact Hr. reflexivity. }
    split; [lia|].
    rewrite Hs. rewrite HL. cbn [length].
    destruct (span_line_terminated_rest s l r (length r) Hne E T) as (-> & -> & _).
    split.
    + intros T'. destruct (HT' T') as (-> & ->). auto.
    + intros T'. destruct (HU' T') as (<- & ->). split; [reflexivity|lia].
Qed.

(* ---- the input object ------------------------------------------------------------------------- *)
Lemma mk_input_textstr v s : textstr (mk_input v s) = s.
Proof. apply concat_splitlines. Qed.

Lemma mk_input_index v s : line_index (mk_input v s) = seq 0 (length (splitlines s)).
Proof. reflexivity. Qed.

Lemma mk_input_cache_nil v : line_cache (mk_input v []) = [].
Proof. reflexivity. Qed.

Lemma mk_input_cache v s :
  s <> [] -> line_cache (mk_input v s) = cache_body (splitlines s) 0 0 ++ [sentinel v (splitlines s)].
Proof.
  intros Hne. unfold mk_input. cbn [line_cache]. unfold build_line_cache.
  pose proof (splitlines_f_ne (length s) s (le_n _) Hne) as H. fold (splitlines s) in H.
  destruct (splitlines s); [congruence|reflexivity].
Qed.

Lemma mk_input_cache_length v s : s <> [] -> length (line_cache (mk_input v s)) = S (length s).
Proof.
  intros Hne. rewrite mk_input_cache by exact Hne.
  rewrite app_length, cache_body_length, concat_splitlines. cbn. lia.
Qed.

Lemma cache_nth v s p :
  p < length s ->
  nth_error (line_cache (mk_input v s)) p = Some (mkPL (sstart s p) (sline s p) (send s p - sstart s p))
  /\ sline s p < length (splitlines s).
Proof.
  intros Hp. assert (Hne : s <> []) by (destruct s; [cbn in Hp; lia|discriminate]).
  rewrite mk_input_cache by exact Hne.
  destruct (cache_body_nth (length s) s 0 0 p (le_n _) Hp) as (H1 & H2).
  split; [|exact H2].
  rewrite nth_error_app1 by (rewrite cache_body_length; fold (splitlines s); rewrite concat_splitlines; exact Hp).
  exact H1.
Qed.

Lemma cache_nth_end v s :
  s <> [] -> nth_error (line_cache (mk_input v s)) (length s) = Some (sentinel v (splitlines s)).
Proof.
  intros Hne. rewrite mk_input_cache by exact Hne.
  rewrite nth_error_app2 by (rewrite cache_body_length, concat_splitlines; lia).
  rewrite cache_body_length, concat_splitlines, Nat.sub_diag. reflexivity.
Qed.

Lemma cache_nth_beyond v s p : length s < p -> nth_error (line_cache (mk_input v s)) p = None.
Proof.
  intros Hp. apply nth_error_None. destruct s as [|c tl]; [cbn; lia|].
  rewrite mk_input_cache_length by discriminate. lia.
Qed.

Lemma lineinfo_of_nonempty inp pos :
  line_cache inp <> [] -> line_index inp <> [] ->
  lineinfo_of inp pos =
    let pos' := Nat.min pos (length (line_cache inp) - 2) in
    match nth_error (line_cache inp) pos' with
    | None => None
    | Some pl =>
      let e := startpos pl + pl_length pl in
      let n := Nat.min (length (line_index inp) - 1) (lineno pl) in
      match nth_error (line_index inp) n with
      | None => None
      | Some actual => Some (mkLI actual (pos' - startpos pl) (startpos pl) e (slice (textstr inp) (startpos pl) e))
      end
    end.
Proof.
  intros H1 H2. unfold lineinfo_of. destruct (line_cache inp); [congruence|]. destruct (line_index inp); [congruence|].
  reflexivity.
Qed.


Lemma lineat_of_ne g inp pos :
  line_cache inp <> [] -> lineat_of g inp pos = option_map lineno (nth_error (line_cache inp) pos).
Proof. intros H. unfold lineat_of. destruct (line_cache inp); [congruence|reflexivity]. Qed.

Lemma poscol_of_ne g inp pos :
  line_cache inp <> [] ->
  poscol_of g inp pos = option_map (fun pl => pos - startpos pl) (nth_error (line_cache inp) pos).
Proof. intros H. unfold poscol_of. destruct (line_cache inp); [congruence|reflexivity]. Qed.

Lemma posline_of_ne inp pos :
  line_cache inp <> [] ->
  posline_of inp pos =
    option_map lineno (nth_error (line_cache inp) (Nat.max 0 (Nat.min pos (length (line_cache inp) - 2)))).
Proof. intros H. unfold posline_of. destruct (line_cache inp); [congruence|reflexivity]. Qed.

Lemma cache_ne v s : s <> [] -> line_cache (mk_input v s) <> [].
Proof. intros Hne E. pose proof (mk_input_cache_length v s Hne) as HL. rewrite E in HL. discriminate. Qed.

(* ---- main theorem, inside the text ------------------------------------------------------------- *)
Theorem lineinfo_exact : forall (v : variant) (g : bool) (s : str) (pos : nat),
  pos < length s ->
  lineinfo v s pos = Some (spec_info is_linebreak s pos)
  /\ lineat g v s pos = Some (spec_line is_linebreak s pos)
  /\ poscol g v s pos = Some (spec_col is_linebreak s pos)
  /\ posline_at v s pos = Some (spec_line is_linebreak s pos).
Proof.
  intros v g s pos Hp.
  assert (Hne : s <> []) by (destruct s; [cbn in Hp; lia|discriminate]).
  destruct (cache_nth v s pos Hp) as (Hn & Hb).
  pose proof (mk_input_cache_length v s Hne) as HL.
  assert (Hc : line_cache (mk_input v s) <> []) by (intros E; rewrite E in HL; discriminate).
  pose proof (spec_start_le is_linebreak s pos) as Hs1.
  pose proof (spec_end_gt is_linebreak s pos Hp) as Hs2.
  split; [|split; [|split]].
  - unfold lineinfo. rewrite lineinfo_of_nonempty; [|exact Hc|].
    2:{ rewrite mk_input_index. destruct (splitlines s); [cbn in Hb; lia|discriminate]. }
    cbv zeta. rewrite HL. replace (Nat.min pos (S (length s) - 2)) with pos by lia.
    rewrite Hn. cbn [startpos lineno pl_length].
    rewrite mk_input_index, seq_length.
    replace (Nat.min (length (splitlines s) - 1) (sline s pos)) with (sline s pos) by lia.
    rewrite nth_error_seq_lt by exact Hb. rewrite mk_input_textstr.
    unfold spec_info, spec_col, spec_text. cbn [Nat.add].
    replace (sstart s pos + (send s pos - sstart s pos)) with (send s pos) by lia. reflexivity.
  - unfold lineat. rewrite lineat_of_ne by exact Hc. rewrite Hn. reflexivity.
  - unfold poscol. rewrite poscol_of_ne by exact Hc. rewrite Hn. reflexivity.
  - unfold posline_at. rewrite posline_of_ne by exact Hc. rewrite HL. replace (Nat.max 0 (Nat.min pos (S (length s) - 2))) with pos by lia.
    rewrite Hn. reflexivity.
Qed.

(* the three accessors agree with each other inside the text *)
Theorem accessors_agree : forall v g s pos, pos < length s ->
  exists i, lineinfo v s pos = Some i
    /\ lineat g v s pos = Some (li_line i) /\ poscol g v s pos = Some (li_col i)
    /\ posline_at v s pos = Some (li_line i)
    /\ li_col i = pos - li_start i /\ li_start i <= pos < li_end i /\ li_end i <= length s
    /\ li_text i = slice s (li_start i) (li_end i).
Proof.
  intros v g s pos Hp. destruct (lineinfo_exact v g s pos Hp) as (H1 & H2 & H3 & H4).
  exists (spec_info is_linebreak s pos). cbn [spec_info li_line li_col li_start li_end li_text].
  pose proof (spec_start_le is_linebreak s pos). pose proof (spec_end_gt is_linebreak s pos Hp).
  pose proof (spec_end_le is_linebreak s pos).
  repeat (split; [assumption || reflexivity || lia|]). reflexivity.
Qed.

(* ---- at and beyond the end -------------------------------------------------------------------- *)
(* lineinfo clamps: every offset from the last character on gives the answer for the last character *)
Theorem lineinfo_clamped : forall v s pos, length s - 1 <= pos -> lineinfo v s pos = lineinfo v s (length s - 1).
Proof.
  intros v s pos Hp. unfold lineinfo.
  destruct s as [|c tl]; [reflexivity|].
  pose proof (mk_input_cache_length v (c :: tl) ltac:(discriminate)) as HL.
  unfold lineinfo_of. destruct (line_cache (mk_input v (c :: tl))) eqn:E; [reflexivity|].
  destruct (line_index (mk_input v (c :: tl))); [reflexivity|].
  rewrite HL. cbn [length] in *.
  replace (Nat.min pos (S (S (length tl)) - 2)) with (length tl) by lia.
  replace (Nat.min (S (length tl) - 1) (S (S (length tl)) - 2)) with (length tl) by lia.
  reflexivity.
Qed.

Theorem lineinfo_sentinel_free : forall s pos, lineinfo Shipped s pos = lineinfo Fixed s pos.
Proof.
  intros s pos. destruct s as [|c tl]; [reflexivity|]. set (s := c :: tl).
  assert (Hne : s <> []) by discriminate.
  destruct (lt_dec pos (length s)) as [Hlt|Hge].
  - destruct (lineinfo_exact Shipped true s pos Hlt) as (-> & _).
    destruct (lineinfo_exact Fixed true s pos Hlt) as (-> & _). reflexivity.
  - rewrite (lineinfo_clamped Shipped s pos) by lia. rewrite (lineinfo_clamped Fixed s pos) by lia.
    assert (Hl : length s - 1 < length s) by (subst s; cbn; lia).
    destruct (lineinfo_exact Shipped true s _ Hl) as (-> & _).
    destruct (lineinfo_exact Fixed true s _ Hl) as (-> & _). reflexivity.
Qed.

Theorem lineinfo_at_end : forall v s, s <> [] ->
  lineinfo v s (length s) = Some (spec_info is_linebreak s (length s - 1)).
Proof.
  intros v s Hne. rewrite lineinfo_clamped by lia.
  assert (Hl : length s - 1 < length s) by (destruct s; [congruence|cbn; lia]).
  destruct (lineinfo_exact v true s _ Hl) as (-> & _). reflexivity.
Qed.

Theorem lineinfo_empty : forall v pos, lineinfo v [] pos = Some (mkLI 0 0 0 0 []).
Proof. reflexivity. Qed.

Lemma ends_crlf_last_line s : s <> [] -> ends_crlf (last (splitlines s) []) = ends_crlf s.
Proof.
  intros Hne. destruct (end_facts (length s) s (le_n _) Hne) as (_ & Hll & Hlast & _).
  fold (splitlines s) in *. unfold ends_crlf.
  rewrite (last_char_last _ Hll), (last_char_last _ Hne), Hlast. reflexivity.
Qed.

Lemma ends_flags s : s <> [] ->
  ends_crlf s = is_crlf (last s 0%N) /\ ends_other_sep s = terminated s && negb (is_crlf (last s 0%N)).
Proof.
  intros Hne. unfold ends_crlf, ends_other_sep, terminated. rewrite (last_char_last _ Hne). auto.
Qed.

(* the sentinel as shipped: line number one too many unless the text ends in a separator that the
   sentinel code does not know; column 0 *)
Theorem at_end_shipped : forall g s, s <> [] ->
  lineat g Shipped s (length s)
    = Some (spec_line is_linebreak s (length s) + (if ends_other_sep s then 0 else 1))
  /\ poscol g Shipped s (length s) = Some 0
  /\ posline_at Shipped s (length s) = Some (spec_line is_linebreak s (length s - 1)).
Proof.
  intros g s Hne.
  pose proof (cache_nth_end Shipped s Hne) as Hn.
  pose proof (mk_input_cache_length Shipped s Hne) as HL.
  destruct (end_facts (length s) s (le_n _) Hne) as (_ & _ & _ & _ & HT & HU). fold (splitlines s) in *.
  destruct (ends_flags s Hne) as (F1 & F2).
  split; [|split].
  - unfold lineat. rewrite lineat_of_ne by (apply cache_ne; exact Hne).
    rewrite Hn. cbn [option_map]. f_equal. unfold sentinel. cbn [lineno].
    rewrite ends_crlf_last_line by exact Hne. rewrite F1, F2.
    destruct (terminated s) eqn:T.
    + destruct (HT eq_refl) as (-> & _). destruct (is_crlf (last s 0%N)); cbn; lia.
    + destruct (HU eq_refl) as (<- & _).
      destruct (is_crlf (last s 0%N)) eqn:C.
      * apply is_crlf_linebreak in C. unfold terminated in T. congruence.
      * cbn. lia.
  - unfold poscol. rewrite poscol_of_ne by (apply cache_ne; exact Hne).
    rewrite Hn. cbn [option_map]. f_equal. unfold sentinel. cbn [startpos].
    rewrite concat_splitlines. lia.
  - assert (Hl : length s - 1 < length s) by (destruct s; [congruence|cbn; lia]).
    destruct (lineinfo_exact Shipped g s _ Hl) as (_ & _ & _ & <-).
    unfold posline_at. rewrite !posline_of_ne by (apply cache_ne; exact Hne).
    rewrite HL. f_equal. f_equal. lia.
Qed.

(* the repaired sentinel: exact at the end for every text that does not end in one of the other separators *)
Theorem at_end_fixed : forall g s, (g = true \/ s <> []) -> ends_other_sep s = false ->
  lineat g Fixed s (length s) = Some (spec_line is_linebreak s (length s))
  /\ poscol g Fixed s (length s) = Some (spec_col is_linebreak s (length s)).
Proof.
  intros g s Hg Ho. destruct s as [|c tl].
  - destruct Hg as [-> | H]; [split; reflexivity|congruence].
  - set (s := c :: tl) in *. assert (Hne : s <> []) by discriminate. clear Hg.
    pose proof (cache_nth_end Fixed s Hne) as Hn.
    pose proof (mk_input_cache_length Fixed s Hne) as HL.
    destruct (end_facts (length s) s (le_n _) Hne) as (_ & _ & _ & Hlen & HT & HU). fold (splitlines s) in *.
    destruct (ends_flags s Hne) as (F1 & F2). rewrite F2 in Ho.
    assert (Hs : sentinel Fixed (splitlines s) =
                 mkPL (sstart s (length s)) (sline s (length s)) (pl_length (sentinel Fixed (splitlines s)))).
    { unfold sentinel. rewrite ends_crlf_last_line by exact Hne. rewrite F1, concat_splitlines.
      destruct (terminated s) eqn:T.
      - destruct (is_crlf (last s 0%N)) eqn:C; [|discriminate].
        destruct (HT eq_refl) as (-> & ->). reflexivity.
      - destruct (is_crlf (last s 0%N)) eqn:C.
        + apply is_crlf_linebreak in C. unfold terminated in T. congruence.
        + destruct (HU eq_refl) as (H1 & ->). cbn [pl_length]. f_equal. lia. }
    split.
    + unfold lineat. rewrite lineat_of_ne by (apply cache_ne; exact Hne).
      rewrite Hn, Hs. reflexivity.
    + unfold poscol. rewrite poscol_of_ne by (apply cache_ne; exact Hne).
      rewrite Hn, Hs. reflexivity.
Qed.

(* beyond the end: lineat/poscol raise IndexError, posline clamps *)
Theorem beyond_end : forall g v s pos, s <> [] -> length s < pos ->
  lineat g v s pos = None /\ poscol g v s pos = None.
Proof.
  intros g v s pos Hne Hp. pose proof (cache_nth_beyond v s pos Hp) as Hn.
  pose proof (mk_input_cache_length v s Hne) as HL.
  unfold lineat, poscol. rewrite lineat_of_ne, poscol_of_ne by (apply cache_ne; exact Hne).
  rewrite Hn. auto.
Qed.

(* empty text: the guarded accessors answer (0, 0); the unguarded ones of the legacy buffer raise *)
Theorem empty_text : forall v pos,
  lineat true v [] pos = Some 0 /\ poscol true v [] pos = Some 0 /\ posline_at v [] pos = Some 0
  /\ lineat false v [] pos = None /\ poscol false v [] pos = None.
Proof. intros v pos. repeat split; reflexivity. Qed.

(* ---- refutations: the statement "line/column obtained by splitting the text" fails at pos = len -- *)
Definition txt_a : str := [97%N].

Theorem lineat_at_end_refuted :
  exists s, forall g, lineat g Shipped s (length s) <> Some (spec_line is_linebreak s (length s)).
Proof. exists txt_a. intros g. vm_compute. discriminate. Qed.

Theorem poscol_at_end_refuted :
  exists s, forall g, poscol g Shipped s (length s) <> Some (spec_col is_linebreak s (length s)).
Proof. exists txt_a. intros g. vm_compute. discriminate. Qed.

Theorem lineinfo_col_at_end_refuted :
  exists s, forall v i, lineinfo v s (length s) = Some i -> li_col i <> spec_col is_linebreak s (length s).
Proof.
  exists txt_a. intros v i H. destruct v; vm_compute in H; inversion H; subst; vm_compute; discriminate.
Qed.

Theorem buffer_empty_refuted :
  forall v, lineat false v [] 0 = None /\ poscol false v [] 0 = None.
Proof. intros v. split; reflexivity. Qed.

(* ---- linecount -------------------------------------------------------------------------------- *)
Lemma count_newlines_spec_n n s : length s <= n -> count_newlines s = spec_line is_crlf s (length s).
Proof.
  revert s; induction n as [|n IH]; intros s H; [destruct s; [reflexivity|cbn in H; lia]|].
  destruct s as [|c tl]; [reflexivity|]. cbn [length] in *.
  rewrite spec_line_S. cbn [count_newlines].
  destruct (N.eqb c CR) eqn:Ec.
  - apply N.eqb_eq in Ec; subst c. destruct tl as [|d tl'].
    + reflexivity.
    + destruct (N.eqb d LF) eqn:Ed.
      * apply N.eqb_eq in Ed; subst d. cbn [length]. rewrite spec_line_S.
        rewrite (IH tl') by (cbn [length] in H; lia). reflexivity.
      * rewrite (IH (d :: tl')) by lia. unfold ends_line. cbn [is_crlf]. rewrite Ed. reflexivity.
  - destruct (N.eqb c LF) eqn:El.
    + apply N.eqb_eq in El; subst c. rewrite (IH tl) by lia. reflexivity.
    + rewrite (IH tl) by lia. unfold ends_line, is_crlf. rewrite Ec, El. reflexivity.
Qed.

(* linecount = 1 + number of LF / CR / CRLF line breaks in the text *)
Theorem linecount_spec : forall s, linecount s = S (spec_line is_crlf s (length s)).
Proof. intros s. unfold linecount. f_equal. apply (count_newlines_spec_n (length s)). lia. Qed.

Definition only_crlf_breaks (s : str) : Prop := forall c, In c s -> is_linebreak c = is_crlf c.

(* for a text whose only line break characters are CR and LF: linecount = index of the line of the
   end offset + 1 = number of split lines, plus one more (empty) line after a final line break or for
   the empty text; and the repaired sentinel is linecount - 1 *)
Theorem linecount_lines : forall s, only_crlf_breaks s ->
  linecount s = S (spec_line is_linebreak s (length s))
  /\ linecount s = length (splitlines s) + (if terminated s then 1 else match s with [] => 1 | _ => 0 end)
  /\ lineat true Fixed s (length s) = Some (linecount s - 1).
Proof.
  intros s H. rewrite linecount_spec. rewrite <- (spec_line_ext is_linebreak is_crlf s (length s) H).
  split; [reflexivity|]. split.
  - destruct s as [|c tl]; [reflexivity|]. set (s := c :: tl) in *.
    destruct (end_facts (length s) s (le_n _) ltac:(discriminate)) as (_ & _ & _ & _ & HT & HU).
    fold (splitlines s) in *. destruct (terminated s).
    + destruct (HT eq_refl) as (-> & _). lia.
    + destruct (HU eq_refl) as (<- & _). lia.
  - assert (Ho : ends_other_sep s = false).
    { unfold ends_other_sep. destruct s as [|c tl]; [reflexivity|].
      rewrite (last_char_last (c :: tl)) by discriminate.
      assert (Hin : In (last (c :: tl) 0%N) (c :: tl)).
      { rewrite (app_removelast_last 0%N (l := c :: tl)) at 2 by discriminate. apply in_or_app. right. left. reflexivity. }
      rewrite (H _ Hin). destruct (is_crlf (last (c :: tl) 0%N)); reflexivity. }
    destruct (at_end_fixed true s (or_introl eq_refl) Ho) as (-> & _). f_equal. lia.
Qed.

(* ---- lineinfo with the repaired column (fixes/C12-lineinfo-col.patch) --------------------------- *)
Lemma index_ne v s : s <> [] -> line_index (mk_input v s) <> [].
Proof.
  intros Hne. rewrite mk_input_index.
  pose proof (splitlines_f_ne (length s) s (le_n _) Hne) as H. fold (splitlines s) in H.
  destruct (splitlines s); [congruence|discriminate].
Qed.

Lemma lineinfo_cf_rel v s pos i :
  s <> [] -> lineinfo v s pos = Some i ->
  lineinfo_cf v s pos =
    Some (mkLI (li_line i) (Nat.min pos (li_end i) - li_start i) (li_start i) (li_end i) (li_text i)).
Proof.
  intros Hne. unfold lineinfo, lineinfo_cf, lineinfo_of, lineinfo_cf_of.
  pose proof (cache_ne v s Hne) as Hc. pose proof (index_ne v s Hne) as Hi.
  destruct (line_cache (mk_input v s)) as [|p0 c0]; [congruence|].
  destruct (line_index (mk_input v s)) as [|n0 i0]; [congruence|].
  cbv zeta. destruct (nth_error (p0 :: c0) _) as [pl|]; [|discriminate].
  destruct (nth_error (n0 :: i0) _) as [a|]; [|discriminate].
  intros H; inversion H; subst; reflexivity.
Qed.

Lemma spec_end_len s : send s (length s) = length s.
Proof. induction s as [|c tl IH]; [reflexivity|]. cbn [length]. rewrite spec_end_S, IH. reflexivity. Qed.

Lemma spec_end_last s : s <> [] -> send s (length s - 1) = length s.
Proof.
  intros Hne. assert (Hl : length s - 1 < length s) by (destruct s; [congruence|cbn; lia]).
  pose proof (spec_end_gt is_linebreak s _ Hl). pose proof (spec_end_le is_linebreak s (length s - 1)). lia.
Qed.

(* the end offset lies on the line of the last character unless that character ends a line break *)
Lemma spec_last_step s : s <> [] ->
  sline s (length s) = sline s (length s - 1) + (if terminated s then 1 else 0)
  /\ sstart s (length s) = if terminated s then length s else sstart s (length s - 1).
Proof.
  induction s as [|c tl IH]; intros Hne; [congruence|]. clear Hne.
  destruct tl as [|d tl'].
  - cbn [length Nat.sub]. rewrite spec_line_S, spec_start_S, !spec_line_0, !spec_start_0.
    unfold terminated. cbn [last]. unfold ends_line. rewrite andb_false_r. cbn [negb]. rewrite andb_true_r.
    destruct (is_linebreak c); split; reflexivity.
  - set (tl := d :: tl') in *. assert (Hne : tl <> []) by (subst tl; discriminate).
    destruct (IH Hne) as (I1 & I2).
    assert (HT : terminated (c :: tl) = terminated tl) by (unfold terminated; rewrite last_cons_ne by exact Hne; reflexivity).
    assert (HL : length tl = S (length tl - 1)) by (subst tl; cbn; lia).
    clearbody tl. rewrite HT. cbn [length]. replace (S (length tl) - 1) with (length tl) by lia.
    rewrite HL in *. replace (S (length tl - 1) - 1) with (length tl - 1) in * by lia.
    rewrite !spec_line_S, !spec_start_S, I1, I2.
    destruct (terminated tl); split; try reflexivity; lia.
Qed.

Theorem lineinfo_cf_exact : forall v s pos, pos < length s ->
  lineinfo_cf v s pos = Some (spec_info is_linebreak s pos).
Proof.
  intros v s pos Hp. assert (Hne : s <> []) by (destruct s; [cbn in Hp; lia|discriminate]).
  destruct (lineinfo_exact v true s pos Hp) as (H & _).
  rewrite (lineinfo_cf_rel v s pos _ Hne H). unfold spec_info at 2. cbn [spec_info li_line li_col li_start li_end li_text].
  pose proof (spec_end_gt is_linebreak s pos Hp).
  replace (Nat.min pos (send s pos)) with pos by lia. reflexivity.
Qed.

(* at and beyond the end: still the last line of the split (the pinned clamp), now with the column of
   the end offset; for a text that does not end in a line break this is the specification at pos = len *)
Theorem lineinfo_cf_at_end : forall v s pos, s <> [] -> length s <= pos ->
  lineinfo_cf v s pos =
    Some (mkLI (sline s (length s - 1)) (length s - sstart s (length s - 1)) (sstart s (length s - 1))
               (length s) (slice s (sstart s (length s - 1)) (length s))).
Proof.
  intros v s pos Hne Hp.
  assert (Hl : length s - 1 < length s) by (destruct s; [congruence|cbn; lia]).
  assert (H : lineinfo v s pos = Some (spec_info is_linebreak s (length s - 1))).
  { rewrite lineinfo_clamped by lia. destruct (lineinfo_exact v true s _ Hl) as (-> & _). reflexivity. }
  rewrite (lineinfo_cf_rel v s pos _ Hne H). cbn [spec_info li_line li_col li_start li_end li_text].
  unfold spec_text. rewrite (spec_end_last s Hne).
  replace (Nat.min pos (length s)) with (length s) by lia. reflexivity.
Qed.

Theorem lineinfo_cf_at_end_exact : forall v s, s <> [] -> terminated s = false ->
  lineinfo_cf v s (length s) = Some (spec_info is_linebreak s (length s)).
Proof.
  intros v s Hne T. rewrite lineinfo_cf_at_end by (exact Hne || lia).
  destruct (spec_last_step s Hne) as (H1 & H2). rewrite T in H1, H2.
  unfold spec_info, spec_col, spec_text. rewrite H1, H2, spec_end_len, Nat.add_0_r. reflexivity.
Qed.
