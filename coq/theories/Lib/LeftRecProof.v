(* Proofs about the left-recursion analysis model (LeftRec.v). *)
From Coq Require Import List NArith Arith Bool Lia.
From TatsuV Require Import Base.PyStr Lib.LeftRec.
Import ListNotations.
Local Open Scope nat_scope.

(* ------------------------------------------------------------------ induction over expressions *)
Section ExpInd.
  Variable P : exp -> Prop.
  Hypothesis HCall : forall i, P (Call i).
  Hypothesis HLeaf : forall b, P (Leaf b).
  Hypothesis HCut : P CutE.
  Hypothesis HSeq : forall l, Forall P l -> P (Seq l).
  Hypothesis HChoice : forall l, Forall P l -> P (Choice l).
  Hypothesis HBox : forall k e, P e -> P (Box k e).
  Fixpoint exp_ind' (e : exp) : P e :=
    match e with
    | Call i => HCall i
    | Leaf b => HLeaf b
    | CutE => HCut
    | Seq l => HSeq l ((fix go (l : list exp) : Forall P l :=
                          match l with [] => Forall_nil P | x :: r => Forall_cons x (exp_ind' x) (go r) end) l)
    | Choice l => HChoice l ((fix go (l : list exp) : Forall P l :=
                          match l with [] => Forall_nil P | x :: r => Forall_cons x (exp_ind' x) (go r) end) l)
    | Box k e' => HBox k e' (exp_ind' e')
    end.
End ExpInd.

(* ------------------------------------------------------------------ specification of left calls *)
(* "able to match empty" as the analysis understands it: a call never is (the property's guard);
   the one place where the code looks through a call is PositiveClosure/PositiveGather directly
   over a call, which asks the oracle [rn] (the called rule's own `_nullable`). *)
Inductive Empty (rn : nat -> bool) : exp -> Prop :=
| E_leaf : Empty rn (Leaf true)
| E_cut : Empty rn CutE
| E_seq l : (forall x, In x l -> Empty rn x) -> Empty rn (Seq l)
| E_choice l x : In x l -> Empty rn x -> Empty rn (Choice l)
| E_plain e : Empty rn e -> Empty rn (Box BPlain e)
| E_true e : Empty rn (Box BTrue e)
| E_pos_call i : rn i = true -> Empty rn (Box BPos (Call i))
| E_pos e : (forall i, e <> Call i) -> Empty rn e -> Empty rn (Box BPos e).

(* a call to r in e preceded only by elements able to match empty *)
Inductive LeftCall (rn : nat -> bool) : exp -> nat -> Prop :=
| LC_call i : LeftCall rn (Call i) i
| LC_choice l x r : In x l -> LeftCall rn x r -> LeftCall rn (Choice l) r
| LC_seq pre x post r :
    (forall y, In y pre -> Empty rn y) -> LeftCall rn x r -> LeftCall rn (Seq (pre ++ x :: post)) r
| LC_box k e r : LeftCall rn e r -> LeftCall rn (Box k e) r.

Section LeftCalls.
  Variable rn : nat -> bool.

  Lemma safe_eq_nullable : forall e, is_nullable_safe rn e = nullable rn e.
  Proof.
    induction e using exp_ind'; cbn; try reflexivity.
    - induction H as [|x r Hx _ IH]; cbn; [reflexivity|]. now rewrite Hx, IH.
    - induction H as [|x r Hx _ IH]; cbn; [reflexivity|]. now rewrite Hx, IH.
  Qed.

  Lemma nullable_Empty : forall e, nullable rn e = true <-> Empty rn e.
  Proof.
    induction e using exp_ind'; cbn.
    - split; [discriminate | intro E; inversion E].
    - split.
      + intros ->. constructor.
      + intro E; inversion E; reflexivity.
    - split; [constructor | reflexivity].
    - rewrite forallb_forall. split.
      + intros Hn. constructor. intros x Hx. rewrite Forall_forall in H. apply (H x Hx). auto.
      + intros E x Hx. inversion E; subst. rewrite Forall_forall in H. apply (H x Hx). auto.
    - rewrite existsb_exists. split.
      + intros (x & Hx & Hn). rewrite Forall_forall in H. apply E_choice with x; [assumption|]. apply (H x Hx), Hn.
      + intros E. inversion E; subst. exists x. split; [assumption|]. rewrite Forall_forall in H. now apply (H x).
    - destruct k.
      + split; [intro Hn; constructor; now apply IHe | intro E; inversion E; subst; now apply IHe].
      + split; [constructor | reflexivity].
      + split.
        * intro Hn. destruct e; try (apply E_pos; [intros j; discriminate | now apply IHe]).
          now apply E_pos_call.
        * intro E. inversion E; subst; [assumption|].
          destruct e; try now apply IHe. exfalso. now apply (H0 i).
  Qed.

  Lemma safe_Empty e : is_nullable_safe rn e = true <-> Empty rn e.
  Proof. rewrite safe_eq_nullable. apply nullable_Empty. Qed.

  Lemma not_Empty_call i : ~ Empty rn (Call i).
  Proof. intro E; inversion E. Qed.

  Lemma seq_ids_spec (f : exp -> list nat) l r :
    In r (seq_ids rn f l) <->
    exists pre x post, l = pre ++ x :: post /\ (forall y, In y pre -> Empty rn y) /\ In r (f x) /\ x <> CutE.
  Proof.
    induction l as [|x l IH].
    - cbn. split; [tauto|]. intros (pre & y & post & E & _). now destruct pre.
    - assert (Hgen : In r (f x ++ (if is_nullable_safe rn x then seq_ids rn f l else [])) <->
                     (In r (f x) \/ (Empty rn x /\ In r (seq_ids rn f l)))).
      { rewrite in_app_iff. destruct (is_nullable_safe rn x) eqn:En.
        - apply safe_Empty in En. tauto.
        - assert (~ Empty rn x) by (rewrite <- safe_Empty; congruence). cbn. tauto. }
      assert (Hmain : (In r (f x) /\ x <> CutE) \/ (Empty rn x /\ In r (seq_ids rn f l)) <->
              exists pre y post, x :: l = pre ++ y :: post /\ (forall z, In z pre -> Empty rn z) /\ In r (f y) /\ y <> CutE).
      { split.
        - intros [[Hr Hx] | [Ex Hr]].
          + exists [], x, l. cbn. tauto.
          + apply IH in Hr. destruct Hr as (pre & y & post & -> & Hp & Hr & Hy).
            exists (x :: pre), y, post. cbn. split; [reflexivity|]. split; [|tauto].
            intros z [<- | Hz]; auto.
        - intros (pre & y & post & E & Hp & Hr & Hy). destruct pre as [|p pre]; cbn in E; injection E as -> ->.
          + left; tauto.
          + right. split; [apply Hp; now left|]. apply IH. exists pre, y, post. split; [reflexivity|].
            split; [|tauto]. intros z Hz. apply Hp. now right. }
      rewrite <- Hmain. destruct x; cbn [seq_ids]; try (rewrite Hgen; intuition congruence).
      (* CutE: skipped; it is Empty and (f CutE) plays no role *)
      split; [intro Hr; right; split; [constructor | assumption] | intros [[_ Hc] | [_ Hr]]; [congruence | assumption]].
  Qed.

  Theorem left_calls_exact : forall e r, In r (callable_rule_ids rn e) <-> LeftCall rn e r.
  Proof.
    induction e using exp_ind'; intro r; cbn [callable_rule_ids].
    - cbn. split; [intros [<- | []]; constructor | intro L; inversion L; now left].
    - cbn. split; [tauto | intro L; inversion L].
    - cbn. split; [tauto | intro L; inversion L].
    - rewrite seq_ids_spec. rewrite Forall_forall in H. split.
      + intros (pre & x & post & -> & Hp & Hr & _). apply LC_seq; [assumption|].
        apply H; [apply in_elt | assumption].
      + intro L. inversion L; subst. exists pre, x, post. split; [reflexivity|]. split; [assumption|].
        split; [apply H; [apply in_elt | assumption]|]. intros ->. match goal with HL : LeftCall _ CutE _ |- _ => inversion HL end.
    - rewrite in_flat_map. rewrite Forall_forall in H. split.
      + intros (x & Hx & Hr). apply LC_choice with x; [assumption|]. now apply H.
      + intro L. inversion L; subst. exists x. split; [assumption|]. now apply H.
    - rewrite IHe. split; [intro L; now constructor | intro L; now inversion L].
  Qed.
End LeftCalls.

(* ------------------------------------------------------------------ graphs: paths, bounded reachability *)
Definition edge (g : graph) (i j : nat) : Prop := In j (succ g i).

(* i -> l1 -> l2 -> ... : the nodes visited after i *)
Fixpoint chain (g : graph) (i : nat) (l : list nat) : Prop :=
  match l with [] => True | x :: r => edge g i x /\ chain g x r end.

Inductive Path (g : graph) : nat -> nat -> Prop :=
| P_one i j : edge g i j -> Path g i j
| P_step i k j : edge g i k -> Path g k j -> Path g i j.

Definition wf (g : graph) : Prop := forall i j, edge g i j -> j < length g.

Lemma memn_In x l : memn x l = true <-> In x l.
Proof.
  unfold memn. rewrite existsb_exists. split.
  - intros (y & Hy & E). apply Nat.eqb_eq in E. now subst.
  - intro H. exists x. split; [assumption | apply Nat.eqb_refl].
Qed.

Lemma last_default_irrel (l : list nat) d d' : l <> [] -> last l d = last l d'.
Proof.
  induction l as [|x r IH]; [congruence|]. intros _. destruct r; [reflexivity|].
  change (last (n :: r) d = last (n :: r) d'). apply IH. discriminate.
Qed.

Lemma last_cons (x : nat) r d : last (x :: r) d = last r x.
Proof.
  destruct r as [|y r]; [reflexivity|]. change (last (y :: r) d = last (y :: r) x).
  apply last_default_irrel. discriminate.
Qed.

Lemma last_app_ne (a c : list nat) d : c <> [] -> last (a ++ c) d = last c d.
Proof.
  intro Hc. induction a as [|x a IH]; [reflexivity|]. cbn [List.app].
  rewrite last_cons. rewrite <- IH. apply last_default_irrel. destruct a; cbn; [assumption | discriminate].
Qed.

Lemma last_In (l : list nat) d : l <> [] -> In (last l d) l.
Proof.
  intro H. destruct (exists_last H) as (l' & a & ->). rewrite last_last. apply in_or_app. right. now left.
Qed.

Lemma chain_app g : forall a i b, chain g i (a ++ b) <-> chain g i a /\ chain g (last a i) b.
Proof.
  induction a as [|x a IH]; intros i b.
  - cbn. tauto.
  - cbn [List.app chain]. rewrite last_cons. rewrite IH. tauto.
Qed.

Lemma Path_chain g i j : Path g i j <-> exists l, l <> [] /\ chain g i l /\ last l i = j.
Proof.
  split.
  - induction 1 as [i j E | i k j E _ (l & Hne & Hc & Hl)].
    + exists [j]. cbn. split; [discriminate | tauto].
    + exists (k :: l). split; [discriminate|]. split; [cbn; tauto|]. now rewrite last_cons.
  - intros (l & Hne & Hc & Hl). revert i Hne Hc Hl. induction l as [|x r IH]; intros i Hne Hc Hl; [congruence|].
    destruct Hc as [E Hc]. rewrite last_cons in Hl. destruct r as [|y r].
    + cbn in Hl. subst. now apply P_one.
    + apply P_step with x; [assumption|]. apply IH; [discriminate | assumption | assumption].
Qed.

Lemma Path_trans g i j k : Path g i j -> Path g j k -> Path g i k.
Proof. induction 1; intro; [eapply P_step; eauto | eapply P_step; eauto]. Qed.

Lemma chain_bound g : wf g -> forall l i x, chain g i l -> In x l -> x < length g.
Proof.
  intros W. induction l as [|y r IH]; intros i x Hc Hx; [contradiction|].
  destruct Hc as [E Hc]. destruct Hx as [<- | Hx]; [now apply (W i) | now apply (IH y)].
Qed.

Lemma Path_target_lt g i j : wf g -> Path g i j -> j < length g.
Proof. intros W P. induction P; [now apply (W i) | assumption]. Qed.

Lemma NoDup_app_r (a b : list nat) : NoDup (a ++ b) -> NoDup b.
Proof. induction a; cbn; [auto|]. intro H. inversion H; auto. Qed.

(* every walk can be cut down to one without repeated nodes, over the same nodes *)
Lemma shorten g : forall l i, chain g i l -> l <> [] ->
  exists l', l' <> [] /\ NoDup l' /\ incl l' l /\ chain g i l' /\ last l' i = last l i.
Proof.
  induction l as [|x r IH]; intros i Hc Hne; [congruence|]. destruct Hc as [E Hc].
  destruct r as [|y r'].
  - exists [x]. split; [discriminate|]. split; [repeat constructor; auto|]. split; [apply incl_refl|].
    cbn. tauto.
  - destruct (IH x Hc) as (l' & Hne' & Hnd & Hin & Hc' & Hl'); [discriminate|].
    destruct (in_dec Nat.eq_dec x l') as [Hx | Hx].
    + destruct (in_split _ _ Hx) as (a & b & ->).
      exists (x :: b). split; [discriminate|].
      split; [apply (NoDup_app_r a), Hnd|].
      split. { intros z [<- | Hz]; [now left | right; apply Hin, in_or_app; right; now right]. }
      split. { apply chain_app in Hc'. destruct Hc' as [_ Hc']. cbn in Hc'. cbn. tauto. }
      rewrite (last_cons x b i), (last_cons x (y :: r') i). rewrite <- Hl'.
      rewrite last_app_ne by discriminate. now rewrite (last_cons x b x).
    + exists (x :: l'). split; [discriminate|]. split; [now constructor|].
      split. { intros z [<- | Hz]; [now left | right; now apply Hin]. }
      split; [cbn; tauto|]. rewrite (last_cons x l' i), (last_cons x (y :: r') i). assumption.
Qed.

Lemma NoDup_bounded_length (l : list nat) n : NoDup l -> (forall x, In x l -> x < n) -> length l <= n.
Proof.
  intros Hnd Hb. rewrite <- (seq_length n 0). apply NoDup_incl_length; [assumption|].
  intros x Hx. apply in_seq. specialize (Hb x Hx). lia.
Qed.

Lemma grow_In g s j : In j (grow g s) <-> In j s \/ exists m, In m s /\ edge g m j.
Proof.
  unfold grow. rewrite nodup_In, in_app_iff, in_flat_map. unfold edge. tauto.
Qed.

Lemma reach_set_spec g : forall k i j,
  In j (reach_set g k i) <-> exists l, l <> [] /\ length l <= S k /\ chain g i l /\ last l i = j.
Proof.
  induction k as [|k IH]; intros i j.
  - cbn [reach_set]. split.
    + intro H. exists [j]. cbn. split; [discriminate|]. split; [lia|]. tauto.
    + intros (l & Hne & Hlen & Hc & Hl). destruct l as [|x [|y r]]; [congruence | | cbn in Hlen; lia].
      cbn in Hl, Hc. subst. apply Hc.
  - cbn [reach_set]. rewrite grow_In. split.
    + intros [H | (m & Hm & E)].
      * apply IH in H. destruct H as (l & Hne & Hlen & Hc & Hl). exists l. repeat split; auto.
      * apply IH in Hm. destruct Hm as (l & Hne & Hlen & Hc & Hl). exists (l ++ [j]).
        split; [destruct l; discriminate|]. split; [rewrite app_length; cbn; lia|].
        split; [apply chain_app; split; [assumption | cbn; rewrite Hl; tauto]|]. apply last_last.
    + intros (l & Hne & Hlen & Hc & Hl). destruct (exists_last Hne) as (l' & a & ->).
      rewrite last_last in Hl. subst a. apply chain_app in Hc. destruct Hc as [Hc1 Hc2].
      rewrite app_length in Hlen. cbn in Hlen. destruct l' as [|x l''].
      * left. apply IH. exists [j]. cbn in *. split; [discriminate|]. split; [lia|]. tauto.
      * right. exists (last (x :: l'') i). split; [|cbn in Hc2; tauto].
        apply IH. exists (x :: l''). split; [discriminate|]. split; [cbn in *; lia|]. tauto.
Qed.

Theorem reach_spec g i j : wf g -> (reach g i j = true <-> Path g i j).
Proof.
  intro W. unfold reach. rewrite memn_In, reach_set_spec, Path_chain. split.
  - intros (l & Hne & _ & Hc & Hl). now exists l.
  - intros (l & Hne & Hc & Hl). destruct (shorten g l i Hc Hne) as (l' & Hne' & Hnd & Hin & Hc' & Hl').
    exists l'. split; [assumption|]. split; [|split; [assumption | congruence]].
    assert (length l' <= length g); [|lia].
    apply NoDup_bounded_length; [assumption|]. intros x Hx. now apply (chain_bound g W l' i).
Qed.

(* ------------------------------------------------------------------ strongly connected components *)
Lemma scc_spec g i j : wf g ->
  (In j (scc_of g i) <-> j < length g /\ (j = i \/ (Path g i j /\ Path g j i))).
Proof.
  intro W. unfold scc_of. rewrite filter_In, in_seq, orb_true_iff, andb_true_iff, Nat.eqb_eq.
  rewrite !reach_spec by assumption. intuition lia.
Qed.

Lemma scc_self g i : wf g -> i < length g -> In i (scc_of g i).
Proof. intros W H. apply scc_spec; auto. Qed.

Lemma scc_NoDup g i : NoDup (scc_of g i).
Proof. unfold scc_of. apply NoDup_filter, seq_NoDup. Qed.

Lemma scc_same g i j : wf g -> In j (scc_of g i) -> scc_of g j = scc_of g i.
Proof.
  intros W Hj. apply scc_spec in Hj; [|assumption]. destruct Hj as [_ Hj].
  unfold scc_of. apply filter_ext_in. intros a _.
  apply eq_true_iff_eq. rewrite !orb_true_iff, !andb_true_iff, !Nat.eqb_eq, !reach_spec by assumption.
  destruct Hj as [-> | [Pij Pji]]; [tauto|]. split.
  - intros [-> | [Pja Paj]]; [right; tauto|]. right. split; eapply Path_trans; eauto.
  - intros [-> | [Pia Pai]]; [right; tauto|]. right. split; eapply Path_trans; eauto.
Qed.

Lemma scc_big_cycle g i : wf g -> i < length g -> 1 < length (scc_of g i) -> Path g i i.
Proof.
  intros W Hi Hlen. pose proof (scc_NoDup g i) as Hnd.
  assert (Hex : exists j, In j (scc_of g i) /\ j <> i).
  { destruct (scc_of g i) as [|a [|b r]]; cbn in Hlen; try lia.
    destruct (Nat.eq_dec a i) as [-> | Ha].
    - exists b. split; [right; now left|]. inversion Hnd; subst. intros ->. apply H1. now left.
    - exists a. split; [now left | assumption]. }
  destruct Hex as (j & Hj & Hne). apply scc_spec in Hj; [|assumption].
  destruct Hj as [_ [-> | [P1 P2]]]; [congruence|]. eapply Path_trans; eauto.
Qed.

(* the nodes of a closed walk through i all belong to the component of i *)
Lemma walk_in_scc g i l x : wf g -> chain g i l -> last l i = i -> In x l -> In x (scc_of g i).
Proof.
  intros W Hc Hl Hx. apply scc_spec; [assumption|]. split; [now apply (chain_bound g W l i)|].
  destruct (in_split _ _ Hx) as (a & b & ->).
  replace (a ++ x :: b) with ((a ++ [x]) ++ b) in Hc, Hl by (rewrite <- app_assoc; reflexivity).
  apply chain_app in Hc. destruct Hc as [Hc1 Hc2]. rewrite last_last in Hc2.
  assert (P1 : Path g i x).
  { apply Path_chain. exists (a ++ [x]). split; [destruct a; discriminate|]. split; [assumption | apply last_last]. }
  destruct b as [|y b].
  - rewrite app_nil_r, last_last in Hl. now left.
  - right. split; [assumption|]. apply Path_chain. exists (y :: b). split; [discriminate|]. split; [assumption|].
    rewrite last_app_ne in Hl by discriminate.
    transitivity (last (y :: b) i); [apply last_default_irrel; discriminate | exact Hl].
Qed.

Lemma small_scc_walk g i l x : wf g -> length (scc_of g i) <= 1 -> l <> [] ->
  chain g i l -> last l i = i -> In x l -> x = i.
Proof.
  intros W Hlen Hne Hc Hl Hx.
  assert (Hi : In i (scc_of g i)). { apply (walk_in_scc g i l); auto. rewrite <- Hl at 1. now apply last_In. }
  pose proof (walk_in_scc g i l x W Hc Hl Hx) as Hxs.
  destruct (scc_of g i) as [|a [|b r]]; cbn in Hlen; [contradiction | | lia].
  destruct Hi as [<- | []]. destruct Hxs as [<- | []]. reflexivity.
Qed.

(* ------------------------------------------------------------------ leaders *)
Lemma argmin_In rules : forall l c, In (argmin rules c l) (c :: l).
Proof.
  induction l as [|x r IH]; intro c; cbn [argmin]; [now left|].
  destruct (str_ltb (name_of rules x) (name_of rules c)).
  - destruct (IH x) as [<- | H]; [right; now left | right; now right].
  - destruct (IH c) as [<- | H]; [now left | right; now right].
Qed.

Lemma min_by_name_In rules l : l <> [] -> In (min_by_name rules l) l.
Proof. destruct l; [congruence|]. intros _. apply argmin_In. Qed.

Lemma common_incl g s m : In m (common g s) -> In m s.
Proof. unfold common. rewrite filter_In. tauto. Qed.

Lemma leaders_incl fixd rules g s m : s <> [] -> In m (leaders fixd rules g s) -> In m s.
Proof.
  intros Hs. unfold leaders. destruct (common g s) eqn:Ec.
  - destruct fixd; [auto|]. intros [<- | []]. now apply min_by_name_In.
  - intros [<- | []]. apply (common_incl g). rewrite Ec. apply min_by_name_In. discriminate.
Qed.

Lemma leaders_ne fixd rules g s : s <> [] -> leaders fixd rules g s <> [].
Proof. intro Hs. unfold leaders. destruct (common g s); [destruct fixd; [assumption | discriminate] | discriminate]. Qed.

(* find_cycles_in_scc reports every simple cycle of the component (and the fuel is enough for it) *)
Lemma cyc_complete g scc : forall q' x p t fuel,
  NoDup (p ++ x :: q') -> (forall y, In y q' -> In y scc) -> chain g x q' ->
  edge g (last q' x) t -> In t (p ++ x :: q') -> In t scc -> length (x :: q') < fuel ->
  In (p ++ (x :: q') ++ [t]) (cyc g scc fuel x p).
Proof.
  induction q' as [|y q'' IH]; intros x p t fuel Hnd Hs Hc He Ht Hts Hf.
  - destruct fuel as [|[|f]]; cbn in Hf; try lia. cbn [cyc].
    assert (Hx : memn x p = false).
    { destruct (memn x p) eqn:E; [|reflexivity]. apply memn_In in E. apply NoDup_remove_2 in Hnd.
      exfalso. apply Hnd. rewrite app_nil_r. assumption. }
    rewrite Hx. apply in_flat_map. exists t. split.
    + apply filter_In. split; [exact He | now apply memn_In].
    + assert (Hm : memn t (p ++ [x]) = true) by now apply memn_In.
      rewrite Hm. left. rewrite <- app_assoc. reflexivity.
  - destruct fuel as [|f]; [cbn in Hf; lia|]. cbn [cyc].
    assert (Hx : memn x p = false).
    { destruct (memn x p) eqn:E; [|reflexivity]. apply memn_In in E. apply NoDup_remove_2 in Hnd.
      exfalso. apply Hnd. apply in_or_app. now left. }
    rewrite Hx. destruct Hc as [Exy Hc]. apply in_flat_map. exists y. split.
    + apply filter_In. split; [exact Exy | apply memn_In, Hs; now left].
    + replace (p ++ (x :: y :: q'') ++ [t]) with ((p ++ [x]) ++ (y :: q'') ++ [t])
        by (rewrite <- app_assoc; reflexivity).
      apply IH.
      * rewrite <- app_assoc. exact Hnd.
      * intros z Hz. apply Hs. now right.
      * assumption.
      * rewrite last_cons in He. exact He.
      * rewrite <- app_assoc. exact Ht.
      * assumption.
      * cbn in *. lia.
Qed.

(* a node found on every reported cycle lies on every closed walk inside the component *)
Lemma common_on_walk g i l m : wf g -> l <> [] -> chain g i l -> last l i = i ->
  In m (common g (scc_of g i)) -> In m l.
Proof.
  intros W Hne Hc Hl Hm.
  destruct (shorten g l i Hc Hne) as (l' & Hne' & Hnd & Hin & Hc' & Hl'). rewrite Hl in Hl'.
  destruct (exists_last Hne') as (q' & a & ->). rewrite last_last in Hl'. subst a.
  assert (Hscc : forall y, In y (q' ++ [i]) -> In y (scc_of g i)).
  { intros y Hy. apply (walk_in_scc g i (q' ++ [i])); auto. apply last_last. }
  assert (Hi : In i (scc_of g i)) by (apply Hscc, in_or_app; right; now left).
  apply chain_app in Hc'. destruct Hc' as [Hc1 Hc2]. cbn in Hc2. destruct Hc2 as [He _].
  apply NoDup_remove in Hnd. rewrite app_nil_r in Hnd. destruct Hnd as [Hndq Hiq].
  assert (Hcyc : In ([] ++ (i :: q') ++ [i]) (cyc g (scc_of g i) (S (S (length (scc_of g i)))) i [])).
  { apply cyc_complete; cbn [List.app]; auto.
    - now constructor.
    - intros y Hy. apply Hscc, in_or_app. now left.
    - now left.
    - assert (length (i :: q') <= length (scc_of g i)); [|cbn in *; lia].
      apply NoDup_incl_length; [now constructor|].
      intros y [<- | Hy]; [assumption | apply Hscc, in_or_app; now left]. }
  unfold common in Hm. apply filter_In in Hm. destruct Hm as [_ Hall]. rewrite forallb_forall in Hall.
  specialize (Hall ([] ++ (i :: q') ++ [i])). rewrite memn_In in Hall.
  assert (Hmc : In m ([] ++ (i :: q') ++ [i])).
  { apply Hall. unfold all_cycles. apply in_flat_map. exists i. split; [assumption | exact Hcyc]. }
  cbn [List.app] in Hmc. apply Hin.
  destruct Hmc as [<- | Hmc]; [apply in_or_app; right; now left | exact Hmc].
Qed.

(* ------------------------------------------------------------------ the marks *)
Lemma graph_of_length rn rules : length (graph_of rn rules) = length rules.
Proof. unfold graph_of. apply map_length. Qed.

Lemma graph_of_wf rn rules : wf (graph_of rn rules).
Proof.
  intros i j E. unfold edge, succ in E. rewrite graph_of_length.
  destruct (nth_in_or_default i (graph_of rn rules) []) as [Hin | Hd].
  - unfold graph_of in Hin, E. apply in_map_iff in Hin. destruct Hin as (r & Hr & _).
    rewrite <- Hr in E. apply filter_In in E. destruct E as [_ E]. now apply Nat.ltb_lt in E.
  - rewrite Hd in E. contradiction.
Qed.

(* the edges of the first graph are exactly the left calls to defined rules *)
Lemma graph_of_edge rn rules i j : i < length rules ->
  (edge (graph_of rn rules) i j <-> LeftCall rn (body_of rules i) j /\ j < length rules).
Proof.
  intro Hi. unfold edge, succ, graph_of, body_of.
  rewrite (nth_indep _ [] (filter (fun j => j <? length rules) (callable_rule_ids rn (r_body dummy_rule))))
    by (now rewrite map_length).
  rewrite (map_nth (fun r => filter (fun j => j <? length rules) (callable_rule_ids rn (r_body r)))).
  rewrite filter_In, Nat.ltb_lt, left_calls_exact. tauto.
Qed.

Lemma mark_with_length fixd rn rules : length (mark_with fixd rn rules) = length rules.
Proof. unfold mark_with. now rewrite map_length, seq_length. Qed.

Lemma nth_map_seq {A} (f : nat -> A) n i d : i < n -> nth i (map f (seq 0 n)) d = f i.
Proof.
  intro Hi. rewrite (nth_indep _ d (f 0)) by (now rewrite map_length, seq_length).
  rewrite map_nth. now rewrite seq_nth.
Qed.

Lemma mark_with_nth fixd rn rules i d : i < length rules ->
  nth i (mark_with fixd rn rules) d =
  (is_lrec fixd rules (graph_of rn rules) i, is_memo rules (graph_of rn rules) i).
Proof. intro Hi. unfold mark_with. now rewrite nth_map_seq. Qed.

Lemma some_marked fixd rn rules :
  existsb fst (mark_with fixd rn rules) = true <->
  exists i, i < length rules /\ is_lrec fixd rules (graph_of rn rules) i = true.
Proof.
  unfold mark_with. rewrite existsb_exists. split.
  - intros (p & Hp & Hf). apply in_map_iff in Hp. destruct Hp as (i & <- & Hi). apply in_seq in Hi.
    exists i. split; [lia | exact Hf].
  - intros (i & Hi & Hl). exists (is_lrec fixd rules (graph_of rn rules) i, is_memo rules (graph_of rn rules) i).
    split; [|exact Hl]. apply in_map_iff. exists i. split; [reflexivity | apply in_seq; lia].
Qed.

Section Marks.
  Variables (fixd : bool) (rules : list rule) (g : graph).
  Hypothesis W : wf g.

  Lemma lrec_on_cycle i : i < length g -> is_lrec fixd rules g i = true -> Path g i i.
  Proof.
    intros Hi. unfold is_lrec. destruct (1 <? length (scc_of g i)) eqn:E.
    - intros _. apply Nat.ltb_lt in E. now apply scc_big_cycle.
    - intro H. apply memn_In in H. now apply P_one.
  Qed.

  Lemma cycle_some_lrec i : Path g i i -> exists m, m < length g /\ is_lrec fixd rules g m = true.
  Proof.
    intro P. assert (Hi : i < length g) by now apply (Path_target_lt g i i).
    destruct (1 <? length (scc_of g i)) eqn:E.
    - assert (Hs : scc_of g i <> []). { intro H0. rewrite H0 in E. discriminate. }
      destruct (leaders fixd rules g (scc_of g i)) as [|m r] eqn:El; [now apply leaders_ne in El|].
      assert (Hm : In m (scc_of g i)). { apply (leaders_incl fixd rules g); [assumption|]. rewrite El. now left. }
      exists m. split; [apply scc_spec in Hm; tauto|].
      unfold is_lrec. rewrite (scc_same g i m W Hm), E, El. apply memn_In. now left.
    - exists i. split; [assumption|]. unfold is_lrec. rewrite E. apply memn_In.
      apply Path_chain in P. destruct P as (l & Hne & Hc & Hl). apply Nat.ltb_ge in E.
      destruct l as [|x r]; [congruence|].
      assert (x = i) by (apply (small_scc_walk g i (x :: r)); auto; now left).
      subst x. apply Hc.
  Qed.

  Lemma off_cycle i : i < length g -> ~ Path g i i ->
    is_lrec fixd rules g i = false /\ is_memo rules g i = negb (nomemo_of rules i).
  Proof.
    intros Hi Hn.
    assert (E : 1 <? length (scc_of g i) = false).
    { destruct (1 <? length (scc_of g i)) eqn:E; [|reflexivity]. apply Nat.ltb_lt in E.
      exfalso. apply Hn. now apply scc_big_cycle. }
    assert (E2 : memn i (succ g i) = false).
    { destruct (memn i (succ g i)) eqn:E2; [|reflexivity]. apply memn_In in E2. exfalso. apply Hn. now apply P_one. }
    unfold is_lrec, is_memo. now rewrite E, E2.
  Qed.

  (* rules on a cycle are never memoized *)
  Lemma on_cycle_not_memo i : Path g i i -> is_memo rules g i = false.
  Proof.
    intro P. unfold is_memo. destruct (1 <? length (scc_of g i)) eqn:E; [reflexivity|].
    apply Path_chain in P. destruct P as (l & Hne & Hc & Hl). apply Nat.ltb_ge in E.
    destruct l as [|x r]; [congruence|].
    assert (x = i) by (apply (small_scc_walk g i (x :: r)); auto; now left).
    subst x. destruct Hc as [He _]. apply memn_In in He. now rewrite He.
  Qed.

  Lemma walk_has_leader i l : l <> [] -> chain g i l -> last l i = i ->
    fixd = true \/ common g (scc_of g i) <> [] \/ length (scc_of g i) <= 1 ->
    exists r, In r l /\ is_lrec fixd rules g r = true.
  Proof.
    intros Hne Hc Hl Hyp.
    assert (Hil : In i l) by (rewrite <- Hl at 1; now apply last_In).
    assert (Hi : In i (scc_of g i)) by now apply (walk_in_scc g i l).
    destruct (1 <? length (scc_of g i)) eqn:E.
    - destruct (common g (scc_of g i)) as [|c0 c'] eqn:Ec.
      + assert (fixd = true).
        { destruct Hyp as [H | [H | H]]; [assumption | congruence | apply Nat.ltb_lt in E; lia]. }
        subst fixd. exists i. split; [assumption|]. unfold is_lrec, leaders. rewrite E, Ec. now apply memn_In.
      + set (m := min_by_name rules (c0 :: c')).
        assert (Hmc : In m (common g (scc_of g i))) by (rewrite Ec; apply min_by_name_In; discriminate).
        exists m. split; [now apply (common_on_walk g i)|].
        pose proof (common_incl g _ m Hmc) as Hms.
        unfold is_lrec, leaders. rewrite (scc_same g i m W Hms), E, Ec. apply memn_In. now left.
    - exists i. split; [assumption|]. unfold is_lrec. rewrite E. apply memn_In. apply Nat.ltb_ge in E.
      destruct l as [|x r]; [congruence|].
      assert (x = i) by (apply (small_scc_walk g i (x :: r)); auto; now left).
      subst x. apply Hc.
  Qed.
End Marks.

Definition lrec_at (m : list (bool * bool)) (i : nat) : bool := fst (nth i m (false, true)).
Definition memo_at (m : list (bool * bool)) (i : nat) : bool := snd (nth i m (false, true)).

(* ------------------------------------------------------------------ main statements *)
(* All statements hold for every oracle [rn] of rule nullability (consulted only below PositiveClosure /
   PositiveGather directly over a call), in particular for [rn_of rules] - the code as it is, [mark] - and
   for [fun _ => false] - PositiveClosure._nullable repaired to exp._nullable. *)
Section Main.
  Variable rn : nat -> bool.
  Variable rules : list rule.
  Let g := graph_of rn rules.

  Theorem detection_exact :
    lr_error_with false rn false rules = true <-> exists i, Path g i i.
  Proof.
    unfold lr_error_with. cbn [negb andb]. rewrite some_marked. subst g. split.
    - intros (i & Hi & Hl). exists i.
      apply (lrec_on_cycle false rules); [apply graph_of_wf | now rewrite graph_of_length | exact Hl].
    - intros (i & P). destruct (cycle_some_lrec false rules _ (graph_of_wf _ _) i P) as (m & Hm & Hl).
      exists m. split; [now rewrite graph_of_length in Hm | exact Hl].
  Qed.

  Theorem detection_exact_fixed :
    lr_error_with true rn false rules = true <-> exists i, Path g i i.
  Proof.
    unfold lr_error_with. cbn [negb andb]. rewrite some_marked. subst g. split.
    - intros (i & Hi & Hl). exists i.
      apply (lrec_on_cycle true rules); [apply graph_of_wf | now rewrite graph_of_length | exact Hl].
    - intros (i & P). destruct (cycle_some_lrec true rules _ (graph_of_wf _ _) i P) as (m & Hm & Hl).
      exists m. split; [now rewrite graph_of_length in Hm | exact Hl].
  Qed.

  Theorem detection_on_never_errors fixd : lr_error_with fixd rn true rules = false.
  Proof. reflexivity. Qed.

  Theorem off_cycle_untouched fixd i : i < length rules -> ~ Path g i i ->
    nth i (mark_with fixd rn rules) (false, true) = (false, negb (nomemo_of rules i)).
  Proof.
    intros Hi Hn. rewrite mark_with_nth by assumption.
    destruct (off_cycle fixd rules _ (graph_of_wf rn rules) i) as [E1 E2]; auto.
    - subst g. now rewrite graph_of_length.
    - subst g. now rewrite E1, E2.
  Qed.

  Lemma walk_nodes_lt i l x : chain g i l -> In x l -> x < length rules.
  Proof.
    intros Hc Hx. rewrite <- (graph_of_length rn). apply (chain_bound _ (graph_of_wf _ _) l i); assumption.
  Qed.

  (* the code as it is: holds when the component has a member common to all its cycles *)
  Theorem every_cycle_has_leader_common i l :
    l <> [] -> chain g i l -> last l i = i ->
    common g (scc_of g i) <> [] \/ length (scc_of g i) <= 1 ->
    exists r, In r l /\ lrec_at (mark_with false rn rules) r = true.
  Proof.
    intros Hne Hc Hl Hyp.
    destruct (walk_has_leader false rules _ (graph_of_wf rn rules) i l Hne Hc Hl) as (r & Hr & Hlr); [tauto|].
    exists r. split; [assumption|]. unfold lrec_at. rewrite mark_with_nth by (now apply (walk_nodes_lt i l)).
    exact Hlr.
  Qed.

  (* the repaired leader choice: unconditional *)
  Theorem every_cycle_has_leader_fixed i l :
    l <> [] -> chain g i l -> last l i = i ->
    exists r, In r l /\ lrec_at (mark_with true rn rules) r = true.
  Proof.
    intros Hne Hc Hl.
    destruct (walk_has_leader true rules _ (graph_of_wf rn rules) i l Hne Hc Hl) as (r & Hr & Hlr); [tauto|].
    exists r. split; [assumption|]. unfold lrec_at. rewrite mark_with_nth by (now apply (walk_nodes_lt i l)).
    exact Hlr.
  Qed.

  (* a rule on a cycle is never memoizable: its only guard is is_lrec *)
  Theorem on_cycle_not_memoizable fixd i : i < length rules -> Path g i i ->
    memo_at (mark_with fixd rn rules) i = false /\ memoizable rules (mark_with fixd rn rules) i = false.
  Proof.
    intros Hi P. unfold memo_at, memoizable. rewrite mark_with_nth by assumption.
    rewrite (on_cycle_not_memo rules _ (graph_of_wf rn rules) i P). split; reflexivity.
  Qed.
End Main.

(* witness: a, b, c all calling each other first; the cycle b -> c -> b has no leader *)
Definition tok : exp := Leaf false.
Definition alt (i : nat) : exp := Box BPlain (Seq [Call i; tok]).
Definition abc_rules : list rule :=
  [ {| r_name := [97%N]; r_nomemo := false; r_body := Choice [alt 1; alt 2; Box BPlain tok] |};
    {| r_name := [98%N]; r_nomemo := false; r_body := Choice [alt 0; alt 2; Box BPlain tok] |};
    {| r_name := [99%N]; r_nomemo := false; r_body := Choice [alt 0; alt 1; Box BPlain tok] |} ].

Definition first_graph (rules : list rule) : graph := graph_of (rn_of rules) rules.

Theorem every_cycle_has_leader_refuted :
  exists rules i l, l <> [] /\ chain (first_graph rules) i l /\ last l i = i /\
                    forall r, In r l -> lrec_at (mark rules) r = false.
Proof.
  exists abc_rules, 1, [2; 1]. split; [discriminate|]. split; [vm_compute; tauto|]. split; [reflexivity|].
  intros r [<- | [<- | []]]; vm_compute; reflexivity.
Qed.

Example abc_marks : mark abc_rules = [(true, false); (false, false); (false, false)]
                 /\ mark_fixed abc_rules = [(true, false); (true, false); (true, false)].
Proof. split; vm_compute; reflexivity. Qed.

(* ------------------------------------------------------------------ the fuelled rule nullability *)
(* whenever the evaluation that can tell "never returns" (None) does return, the boolean one agrees, and more
   fuel never changes an answer *)
Lemma nullable_opt_sound (rno : nat -> option bool) (rn : nat -> bool) :
  (forall i b, rno i = Some b -> rn i = b) ->
  forall e b, nullable_opt rno e = Some b -> nullable rn e = b.
Proof.
  intros Hr. induction e using exp_ind'; intros b0; cbn [nullable_opt nullable].
  - now intros [= <-].
  - now intros [= <-].
  - now intros [= <-].
  - revert b0. induction H as [|x r Hx _ IH]; intros b0; cbn.
    + now intros [= <-].
    + destruct (nullable_opt rno x) as [[|]|] eqn:Ex; try discriminate.
      * rewrite (Hx true eq_refl). cbn. apply IH.
      * rewrite (Hx false eq_refl). now intros [= <-].
  - revert b0. induction H as [|x r Hx _ IH]; intros b0; cbn.
    + now intros [= <-].
    + destruct (nullable_opt rno x) as [[|]|] eqn:Ex; try discriminate.
      * rewrite (Hx true eq_refl). now intros [= <-].
      * rewrite (Hx false eq_refl). cbn. apply IH.
  - destruct k.
    + apply IHe.
    + now intros [= <-].
    + destruct e; try apply IHe. apply Hr.
Qed.

Lemma rule_nullable_opt_sound rules : forall fuel i b,
  rule_nullable_opt fuel rules i = Some b -> rule_nullable fuel rules i = b.
Proof.
  induction fuel as [|f IH]; intros i b; cbn [rule_nullable_opt rule_nullable]; [discriminate|].
  apply nullable_opt_sound. exact IH.
Qed.

Lemma nullable_opt_mono (r1 r2 : nat -> option bool) :
  (forall i b, r1 i = Some b -> r2 i = Some b) ->
  forall e b, nullable_opt r1 e = Some b -> nullable_opt r2 e = Some b.
Proof.
  intros Hr. induction e using exp_ind'; intros b0; cbn [nullable_opt]; auto.
  - revert b0. induction H as [|x r Hx _ IH]; intros b0; cbn; auto.
    destruct (nullable_opt r1 x) as [[|]|] eqn:Ex; try discriminate.
    + rewrite (Hx true eq_refl). apply IH.
    + rewrite (Hx false eq_refl). auto.
  - revert b0. induction H as [|x r Hx _ IH]; intros b0; cbn; auto.
    destruct (nullable_opt r1 x) as [[|]|] eqn:Ex; try discriminate.
    + rewrite (Hx true eq_refl). auto.
    + rewrite (Hx false eq_refl). apply IH.
  - destruct k; auto. destruct e; try apply IHe. apply Hr.
Qed.

Lemma rule_nullable_opt_mono rules : forall f1 f2 i b, f1 <= f2 ->
  rule_nullable_opt f1 rules i = Some b -> rule_nullable_opt f2 rules i = Some b.
Proof.
  induction f1 as [|f1 IH]; intros f2 i b Hle; cbn [rule_nullable_opt]; [discriminate|].
  destruct f2 as [|f2]; [lia|]. cbn [rule_nullable_opt]. apply nullable_opt_mono.
  intros j c. apply IH. lia.
Qed.
