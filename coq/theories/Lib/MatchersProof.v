From Coq Require Import List NArith Arith Bool Lia.
From TatsuV Require Import Base.PyStr Lib.Matchers.
Import ListNotations.

Section Proofs.
Variable isdecimal isalpha isalnum : N -> bool.
Variable namechars : list N.
(* the underscore and the signs are not decimal digits *)
Hypothesis us_not_decimal : isdecimal c_us = false.

Notation uint_go := (uint_go isdecimal isalpha).
Notation match_uint := (match_uint isdecimal isalpha).
Notation match_int := (match_int isdecimal isalpha).
Notation digits_tail := (digits_tail isdecimal).

Lemma uint_go_sound l : forall n, uint_go l = Some n ->
  (n <= length l)%nat /\ digits_tail (firstn n l) = true.
Proof.
  induction l as [|ch tl IH]; intros n H; cbn [Matchers.uint_go] in H.
  - inversion H; subst. split; [lia|reflexivity].
  - destruct (isdecimal ch) eqn:D.
    + destruct (uint_go tl) as [m|] eqn:E; [|discriminate]. inversion H; subst.
      destruct (IH m eq_refl) as [L V]. split; [cbn; lia|]. cbn [firstn Matchers.digits_tail]. rewrite D. exact V.
    + destruct (N.eqb ch c_us) eqn:U.
      * destruct tl as [|d tl']; [discriminate|]. destruct (isdecimal d) eqn:Dd; [|discriminate].
        destruct (uint_go (d :: tl')) as [m|] eqn:E; [|discriminate]. inversion H; subst.
        destruct (IH m eq_refl) as [L V]. split; [cbn in *; lia|].
        (* m >= 1 because d is decimal *)
        cbn [Matchers.uint_go] in E. rewrite Dd in E.
        destruct (uint_go tl') as [k|] eqn:E'; [|discriminate]. inversion E; subst.
        cbn [firstn Matchers.digits_tail]. rewrite D, U, Dd. cbn [andb].
        cbn [firstn Matchers.digits_tail] in V. rewrite Dd in V. exact V.
      * destruct (isalpha ch); [discriminate|]. inversion H; subst. split; [lia|reflexivity].
Qed.

(* @uint: a match is non-empty, inside the text, and a literal int() accepts *)
Theorem match_uint_sound l n : match_uint l = Some n ->
  (0 < n <= length l)%nat /\ valid_uint isdecimal (firstn n l) = true.
Proof.
  unfold Matchers.match_uint. destruct l as [|ch tl]; [discriminate|].
  destruct (isdecimal ch) eqn:D; [|discriminate].
  destruct (uint_go tl) as [m|] eqn:E; [|discriminate]. intros H; inversion H; subst.
  destruct (uint_go_sound tl m E) as [L V]. split; [cbn; lia|].
  cbn [firstn valid_uint]. rewrite D, V. reflexivity.
Qed.

(* @int *)
Theorem match_int_sound l n : match_int l = Some n ->
  (0 < n <= length l)%nat /\ valid_int isdecimal (firstn n l) = true.
Proof.
  unfold Matchers.match_int. destruct l as [|ch tl]; [discriminate|].
  destruct (is_sign ch) eqn:S.
  - destruct (match_uint tl) as [m|] eqn:E; [|discriminate]. intros H; inversion H; subst.
    destruct (match_uint_sound tl m E) as [L V]. split; [cbn; lia|].
    cbn [firstn valid_int]. rewrite S. exact V.
  - intros H. destruct (match_uint_sound _ _ H) as [L V]. split; [exact L|].
    destruct n as [|n]; [lia|]. cbn [firstn valid_int] in *. rewrite S. exact V.
Qed.

(* @name: non-empty and inside the text *)
Theorem match_name_sound l n : match_name isalpha isalnum namechars l = Some n -> (0 < n <= length l)%nat.
Proof.
  unfold match_name. destruct l as [|ch tl]; [discriminate|].
  destruct (name_start isalpha namechars ch); [|discriminate]. intros H; inversion H; subst.
  assert (B : forall p (l : str), (span_while p l <= length l)%nat).
  { intros p l. induction l as [|x l IH]; cbn; [lia|]. destruct (p x); cbn; lia. }
  specialize (B (name_char isalnum namechars) tl). cbn. lia.
Qed.

(* @bool: exactly the four spellings, value as spelled *)
Theorem match_bool_sound l n b : match_bool l = Some (n, b) ->
  (0 < n <= length l)%nat /\
  (b = true -> firstn n l = s_true \/ firstn n l = s_True) /\
  (b = false -> firstn n l = s_false \/ firstn n l = s_False).
Proof.
  unfold match_bool, startswith.
  assert (P : forall p s r, strip_prefix p s = Some r -> firstn (length p) s = p /\ (length p <= length s)%nat).
  { intros p s r H. apply strip_prefix_some in H. subst s. rewrite firstn_app, Nat.sub_diag, firstn_all. cbn.
    rewrite app_nil_r, app_length. split; [reflexivity|lia]. }
  intros H.
  destruct (strip_prefix s_true l) as [r1|] eqn:E1; destruct (strip_prefix s_True l) as [r2|] eqn:E2;
    destruct (strip_prefix s_false l) as [r3|] eqn:E3; destruct (strip_prefix s_False l) as [r4|] eqn:E4;
    cbn in H; inversion H; subst;
    first
      [ destruct (P _ _ _ E1) as [F L]; unfold s_true in L; cbn [length] in L;
        split; [clear - L; lia|split; [intros _; left; exact F|discriminate]]
      | destruct (P _ _ _ E2) as [F L]; unfold s_True in L; cbn [length] in L;
        split; [clear - L; lia|split; [intros _; right; exact F|discriminate]]
      | destruct (P _ _ _ E3) as [F L]; unfold s_false in L; cbn [length] in L;
        split; [clear - L; lia|split; [discriminate|intros _; left; exact F]]
      | destruct (P _ _ _ E4) as [F L]; unfold s_False in L; cbn [length] in L;
        split; [clear - L; lia|split; [discriminate|intros _; right; exact F]] ].
Qed.

End Proofs.
