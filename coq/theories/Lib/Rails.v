(* C13, railroads: model of tatsu/railroads/railmath.py over lists of strings (lists of code points).
   The display width of a character (unicode_display_len: 2 for East-Asian W/F, else 1) is the section
   variable [cw].  No proofs here. *)
From Coq Require Import List NArith Arith Bool.
From TatsuV Require Import Base.PyStr.
Import ListNotations.
Local Open Scope N_scope.

Definition rails := list str.

Definition c_sp : N := 32.
Definition c_rail : N := 9472.     (* U+2500 box drawings light horizontal *)
Definition c_etx : N := 65284.     (* U+FF04 fullwidth dollar sign, railmath.ETX *)

(* the fixed pieces, as code points *)
Definition s_tee_l   : str := [32; 32; 9500; 9472].          (* "  |-"  with U+251C *)
Definition s_tee_r   : str := [9472; 9508; 32].              (* "-|  "  with U+2524 *)
Definition s_bar_r   : str := [32; 9474; 32].                (* " | " *)
Definition s_bar_l   : str := [32; 32; 9474; 32].            (* "  | " *)
Definition s_bot_l   : str := [32; 32; 9492; 9472].          (* "  `-" U+2514 *)
Definition s_bot_r   : str := [9472; 9496; 32].              (* "-'  " U+2518 : also the corner *)
Definition s_blank3  : str := [32; 32; 32].
Definition s_blank4  : str := [32; 32; 32; 32].
Definition s_top_l   : str := [9472; 9472; 9516; 9472].      (* "--T-" U+252C *)
Definition s_top_r   : str := [9472; 9516; 9472].            (* "-T-" *)
Definition s_top_re  : str := [32; 9516; 9472].              (* " T-" *)
Definition s_lt_barr : str := [32; 9474; 32; 32].            (* " |  " *)
Definition s_lt_botr : str := [60; 9496; 32; 32].            (* "<'  " *)
Definition s_lp_topl : str := [9472; 9472; 9516; 8594].      (* "--T>" with U+2192 *)
Definition s_lp_topr : str := [9472; 9516; 9472; 9472].      (* "-T--" *)
Definition s_lp_inl  : str := [32; 32; 9500; 8594].          (* "  |>" *)
Definition s_lp_inr  : str := [9472; 9508; 32; 32].          (* "-|  " *)
Definition s_empty_loop : str := [9472; 9472; 9472; 62; 9472; 9472; 9472].   (* "--->---" *)

Definition lit_chars : list N := [32; 60; 62; 8594; 9472; 9474; 9492; 9496; 9500; 9508; 9516].

Section Rails.
  Variable cw : N -> nat.

  Definition ulen (s : str) : nat := fold_right (fun c n => (cw c + n)%nat) O s.

  Definition has_c (c : N) (s : str) : bool := existsb (N.eqb c) s.

  (* pad(rrl, c, maxl) = rrl + c * (maxl - ulen(rrl))   (a negative count gives the empty string) *)
  Definition pad (rrl : str) (c : N) (maxl : nat) : str := rrl ++ repeat_c c (maxl - ulen rrl).
  Definition railpad (rrl : str) (maxl : nat) := pad rrl c_rail maxl.
  Definition blankpad (rrl : str) (maxl : nat) := pad rrl c_sp maxl.

  Definition maxlen (r : rails) : nat := fold_right (fun s n => Nat.max (ulen s) n) O r.

  (* ---- looptail / stopnloop / loop ---- *)
  Definition looptail (r : rails) (maxl : nat) : rails :=
    map (fun line => s_bar_l ++ blankpad line maxl ++ s_lt_barr) r
    ++ [s_bot_l ++ railpad [] maxl ++ s_lt_botr].

  Definition stopnloop (r : rails) : rails :=
    match r with
    | [] => [s_empty_loop]
    | first :: tl =>
      let maxl := maxlen r in
      (s_top_l ++ railpad first maxl ++ s_lp_topr) :: looptail tl maxl
    end.

  Definition loop (r : rails) : rails :=
    match r with
    | [] => [s_empty_loop]
    | first :: tl =>
      let maxl := maxlen r in
      (s_lp_topl ++ railpad [] maxl ++ s_lp_topr)
      :: (s_lp_inl ++ railpad first maxl ++ s_lp_inr)
      :: looptail tl maxl
    end.

  (* ---- weldtwo / weld ----
     `ETX in left` is LIST membership (a line that is exactly the ETX string); `ETX not in out[i]` is
     substring membership. *)
  Fixpoint weld_go (ll lr : nat) (l r : rails) {struct l} : rails :=
    match l with
    | [] => map (fun y => repeat_c c_sp ll ++ y) r
    | x :: l' =>
      match r with
      | y :: r' => (if has_c c_etx x then x ++ repeat_c c_sp lr else x ++ y) :: weld_go ll lr l' r'
      | [] => (x ++ repeat_c c_sp lr) :: weld_go ll lr l' []
      end
    end.

  Definition weldtwo (l r : rails) : rails :=
    match r with
    | [] => l
    | r0 :: _ =>
      if existsb (str_eqb [c_etx]) l then l
      else match l with
           | [] => r
           | l0 :: _ => weld_go (ulen l0) (ulen r0) l r
           end
    end.

  Definition weld (tracks : list rails) : rails :=
    match tracks with
    | [] => []
    | t0 :: tl => fold_left weldtwo tl t0
    end.

  (* ---- lay_out ----  None models the IndexError of rails[0] / out[-1] on an empty list *)
  Definition lay_mid (maxl : nat) (r : rails) : rails :=
    match r with
    | [] => []
    | joint :: tl =>
      (if has_c c_etx joint then s_tee_l ++ blankpad joint maxl ++ s_bar_r
       else s_tee_l ++ railpad joint maxl ++ s_tee_r)
      :: map (fun rail => s_bar_l ++ blankpad rail maxl ++ s_bar_r) tl
    end.

  Definition set_last (out : rails) (f : str -> str) : option rails :=
    match rev out with
    | [] => None
    | x :: tl => Some (rev tl ++ [f x])
    end.

  Definition cut3_corner (s : str) : str := firstn (length s - 3) s ++ s_bot_r.

  Definition set_first (out : rails) (x : str) : option rails :=
    match out with [] => None | _ :: tl => Some (x :: tl) end.

  Definition head_len (r : rails) : nat := match r with [] => O | x :: _ => ulen x end.

  Definition lay_out (tracks : list rails) : option rails :=
    match tracks with
    | [] => Some []
    | [t] => Some t
    | t0 :: _ =>
      let maxl := fold_right (fun p n => Nat.max (head_len p) n) O tracks in
      let body := flat_map (lay_mid maxl) (removelast tracks) in
      match last tracks [] with
      | [] => None
      | joint :: tl =>
        let tail := map (fun rail => s_blank4 ++ blankpad rail maxl ++ s_blank3) tl in
        let out :=
          if has_c c_etx joint
          then match set_last body cut3_corner with
               | Some b => Some (b ++ [s_bot_l ++ blankpad joint maxl ++ s_blank3] ++ tail)
               | None => None
               end
          else Some (body ++ [s_bot_l ++ railpad joint maxl ++ s_bot_r] ++ tail) in
        match out with
        | None => None
        | Some o =>
          let j0 := match t0 with [] => [] | x :: _ => x end in
          set_first o (if has_c c_etx j0 then s_top_l ++ blankpad j0 maxl ++ s_top_re
                       else s_top_l ++ railpad j0 maxl ++ s_top_r)
        end
      end
    end.

  (* assert_one_length *)
  Definition one_length (r : rails) : bool :=
    match r with [] => true | x :: tl => forallb (fun y => Nat.eqb (ulen y) (ulen x)) tl end.
End Rails.
