(* Model of tatsu/packetz/queue.py (PacketzQueue.send / receive) at record granularity.
   The file is a list of complete lines; a reader holds (_told, _seen).  A read may observe the
   file cut short: [Recv k] reads a view holding only the first k complete lines (anything after
   them - a partial record without its newline - is left unread, as `endswith("\n")` dictates).  *)
From Coq Require Import List NArith Arith Bool Lia.
Import ListNotations.

Inductive line := Good (id : N) | Corrupt.   (* Corrupt: fails to unpack (bad checksum, bad JSON) *)

Record reader := { told : nat; seen : list N; delivered : list N }.
Definition reader0 : reader := {| told := 0; seen := []; delivered := [] |}.

Definition mem (i : N) (l : list N) : bool := existsb (N.eqb i) l.

(* one complete line read by `receive` *)
Definition read_line (r : reader) (l : line) : reader :=
  match l with
  | Corrupt => {| told := S (told r); seen := seen r; delivered := delivered r |}
  | Good i =>
    if mem i (seen r)
    then {| told := S (told r); seen := seen r; delivered := delivered r |}
    else {| told := S (told r); seen := i :: seen r; delivered := delivered r ++ [i] |}
  end.

(* receive() on a view holding the first k complete lines of the file *)
Definition recv (file : list line) (k : nat) (r : reader) : reader :=
  fold_left read_line (skipn (told r) (firstn k file)) r.

Inductive op := Send (l : line) | Recv (k : nat).

Definition step (st : list line * reader) (o : op) : list line * reader :=
  match o with
  | Send l => (fst st ++ [l], snd st)
  | Recv k => (fst st, recv (fst st) k (snd st))
  end.

Definition run (ops : list op) : list line * reader := fold_left step ops ([], reader0).

Definition goods (ls : list line) : list N :=
  flat_map (fun l => match l with Good i => [i] | Corrupt => [] end) ls.
