(* receive() is a generator: it keeps its own position in the file between yields, while _told and _seen
   live on the reader object and are shared by every generator opened on it.  This file models several
   live generators on one reader, advanced in any order, with sends in between (complete lines only; views
   cut short are Queue.v's Recv).  Model only. *)
From Coq Require Import List NArith Arith Bool.
From TatsuV Require Import Lib.Queue.
Import ListNotations.

(* advance a generator standing before line p (rest = the lines from p on) until it yields or the file ends:
   (yielded?, new position, reader) *)
Fixpoint gstep (rest : list line) (p : nat) (r : reader) : bool * nat * reader :=
  match rest with
  | [] => (false, p, r)
  | l :: rest' =>
    let t := Nat.max (S p) (told r) in          (* self._told = max(q.tell(), self._told) *)
    match l with
    | Corrupt => gstep rest' (S p) {| told := t; seen := seen r; delivered := delivered r |}
    | Good i =>
      if mem i (seen r)
      then gstep rest' (S p) {| told := t; seen := seen r; delivered := delivered r |}
      else (true, S p, {| told := t; seen := i :: seen r; delivered := delivered r ++ [i] |})
    end
  end.

Record gst := { gfile : list line; grd : reader; gens : list (option nat) }.   (* None: the generator has ended *)
Definition gst0 : gst := {| gfile := []; grd := reader0; gens := [] |}.

Inductive gop := GSend (l : line) | GOpen | GNext (j : nat).

Fixpoint set_nth {A} (l : list A) (j : nat) (x : A) : list A :=
  match l, j with
  | [], _ => []
  | _ :: t, O => x :: t
  | h :: t, S j' => h :: set_nth t j' x
  end.

Definition gop_step (st : gst) (o : gop) : gst :=
  match o with
  | GSend l => {| gfile := gfile st ++ [l]; grd := grd st; gens := gens st |}
  | GOpen => {| gfile := gfile st; grd := grd st; gens := gens st ++ [Some (told (grd st))] |}   (* q.seek(self._told) *)
  | GNext j =>
    match nth_error (gens st) j with
    | Some (Some p) =>
      match gstep (skipn p (gfile st)) p (grd st) with
      | (y, p', r') => {| gfile := gfile st; grd := r'; gens := set_nth (gens st) j (if y then Some p' else None) |}
      end
    | _ => st                                      (* unknown or ended generator: next() raises StopIteration *)
    end
  end.

Definition grun (ops : list gop) : gst := fold_left gop_step ops gst0.
