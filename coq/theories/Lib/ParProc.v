(* Model of tatsu/parproc: task.py (taskproc), pmap.py (executor_pmap, process_pmap, thread_pmap),
   parproc.py (parproc).  No proofs here (see ParProcProof.v).

   executor_pmap keeps a dict `futures` (future -> task, insertion ordered) and an iterator `taskiter`
   of the tasks not yet submitted.  `as_completed(futures)` takes a snapshot of the dict's keys when it is
   called and yields each future of the snapshot exactly once, in the order they complete.  Between two
   calls of as_completed the dict is therefore, in insertion order,

        (futures of the current snapshot not yet yielded)  ++  (futures submitted since the snapshot)

   which is what the state keeps: [snap] and [fresh].  Futures are positions in these lists (two equal
   tasks are two futures).  The schedule is an arbitrary [list nat]: its head, modulo the number of
   snapshot futures not yet yielded, is the future that completes - and is yielded by as_completed - next;
   an exhausted schedule reads as 0.  A task's function runs when its future completes.              *)
From Coq Require Import List NArith Arith Bool.
Import ListNotations.

(* ------------------------------------------------------------------ exceptions and the capture table *)
(* An exception is represented by the MRO of its class: the list of the ids of the classes it is an
   instance of (`except C` and isinstance(e, C) both test membership of C in the MRO).               *)
Definition exc := list N.
Definition C_BaseException     : N := 0%N.
Definition C_KeyboardInterrupt : N := 1%N.
Definition C_RuntimeError      : N := 2%N.
Definition C_Exception         : N := 3%N.
Definition C_RecursionError    : N := 4%N.
Definition C_TypeError         : N := 5%N.
Definition C_InterruptedError  : N := 6%N.
Definition C_OSError           : N := 7%N.
Definition C_object            : N := 8%N.

Definition isa (e : exc) (c : N) : bool := existsb (N.eqb c) e.

(* InterruptedError("stopped") *)
Definition mro_InterruptedError : exc :=
  [C_InterruptedError; C_OSError; C_Exception; C_BaseException; C_object].

(* what one call of the user function does *)
Inductive fout := Ret (v : N) | Exc (e : exc).

Record task := mkTask {
  t_payload : N;          (* identity of the payload *)
  t_visual  : bool;       (* isinstance(payload, VisualPayload) *)
  t_first   : fout;       (* func(payload, *args, **kwargs) *)
  t_second  : fout;       (* func(payload.path, *args, **kwargs): the backwards-compatibility retry *)
  t_reraise : bool;       (* task.reraise *)
  t_raises  : list N      (* payload.raises(): class ids *)
}.

Record result := mkResult {
  r_payload   : N;
  r_outcome   : option N;      (* None: outcome stays None (pickable(None)) *)
  r_exception : option exc
}.

Inductive tres (R E : Type) := Res (r : R) | Fail (e : E).
Arguments Res {R E} r.
Arguments Fail {R E} e.

(* the inner try: `except TypeError: if not isinstance(payload, VisualPayload): raise` else retry with .path *)
Definition call (t : task) : fout :=
  match t_first t with
  | Ret v => Ret v
  | Exc e => if isa e C_TypeError && t_visual t then t_second t else Exc e
  end.

Definition is_nil {A} (l : list A) : bool := match l with [] => true | _ => false end.

(* taskproc, clause by clause.  [Fail e]: the exception leaves taskproc (the future raises it). *)
Definition taskproc (stop : bool) (t : task) : tres result exc :=
  if stop then Res (mkResult (t_payload t) None (Some mro_InterruptedError))
  else
    match call t with
    | Ret v => Res (mkResult (t_payload t) (Some v) None)
    | Exc e =>
      if isa e C_KeyboardInterrupt then Fail e                 (* except KeyboardInterrupt: stop.set(); raise *)
      else if isa e C_RuntimeError then Fail e                 (* except RuntimeError: raise *)
      else if isa e C_Exception || isa e C_RecursionError then (* except (Exception, RecursionError) as e *)
        if t_reraise t
           || (negb (is_nil (t_raises t)) && negb (existsb (isa e) (t_raises t)))
        then Fail e
        else Res (mkResult (t_payload t) None (Some e))
      else Fail e                                              (* any other BaseException: only `finally` runs *)
    end.

Definition is_ki (e : exc) : bool := isa e C_KeyboardInterrupt.

(* ------------------------------------------------------------------ the loops, over any task type *)
Inductive ending (E : Type) := Done | Raised (e : E) | Interrupted | OutOfFuel.
Arguments Done {E}.
Arguments Raised {E} e.
Arguments Interrupted {E}.
Arguments OutOfFuel {E}.

Section Pmap.
  Variables T R E : Type.
  Variable process : T -> tres R E.     (* the function submitted to the executor *)
  Variable ki : E -> bool.              (* isinstance(e, KeyboardInterrupt) *)

  (* what the deterministic executor of the harness can observe *)
  Inductive event :=
  | ESubmit0 (t : T)                       (* a submission of the initial window *)
  | ESnap (pending : list T)               (* as_completed(futures) called: the dict at that time *)
  | ESubmit (t : T) (pending : list T)     (* a refill: the dict just before the new future is added *)
  | EYield (r : R).

  Record st := mkSt {
    snap  : list T;     (* futures of the current as_completed snapshot not yet yielded *)
    fresh : list T;     (* futures submitted since that snapshot was taken *)
    rest  : list T;     (* taskiter: tasks not yet submitted *)
    out   : list R;     (* results yielded so far *)
    evs   : list event
  }.

  Definition remove_nth (i : nat) (l : list T) : list T := firstn i l ++ skipn (S i) l.

  (* futures.pop(future) done (the snapshot is [snap'] now); `if not stop.is_set(): submit the next task` *)
  Definition refill (stopped : bool) (snap' : list T) (s : st) : st :=
    if stopped then mkSt snap' (fresh s) (rest s) (out s) (evs s)
    else match rest s with
         | [] => mkSt snap' (fresh s) [] (out s) (evs s)
         | x :: xs => mkSt snap' (fresh s ++ [x]) xs (out s) (evs s ++ [ESubmit x (snap' ++ fresh s)])
         end.

  Definition yield (v : R) (s : st) : st :=
    mkSt (snap s) (fresh s) (rest s) (out s ++ [v]) (evs s ++ [EYield v]).

  Fixpoint loop (fuel : nat) (sched : list nat) (s : st) : ending E * st :=
    match fuel with
    | O => (OutOfFuel, s)
    | S k =>
      match snap s with
      | [] =>
        match fresh s with
        | [] => (Done, s)                                       (* while futures: false *)
        | _ :: _ =>                                             (* for future in as_completed(futures) *)
          loop k sched (mkSt (fresh s) [] (rest s) (out s) (evs s ++ [ESnap (fresh s)]))
        end
      | d :: _ =>
        let i := Nat.modulo (hd 0 sched) (length (snap s)) in
        let t := nth i (snap s) d in                            (* the future that completes next *)
        match process t with                                    (* ran in the worker *)
        | Res v =>                                              (* pop; refill; yield future.result() *)
          loop k (tl sched) (yield v (refill false (remove_nth i (snap s)) s))
        | Fail e =>                                             (* pop; refill unless stop is set; result() raises *)
          (if ki e then Interrupted else Raised e, refill (ki e) (remove_nth i (snap s)) s)
        end
      end
    end.

  (* n = 1 + (max_workers or 8); max_workers = 0 stands for None/0 *)
  Definition window (mw : nat) : nat := S (if Nat.eqb mw 0 then 8 else mw).

  Definition executor_pmap (procpool : bool) (mw : nat) (tasks : list T) (sched : list nat)
    : ending E * st :=
    match tasks with
    | [] => (Done, mkSt [] [] [] [] [])                         (* if not tasks: return *)
    | _ :: _ =>
      let init := if procpool then firstn (window mw) tasks else tasks in
      let later := if procpool then skipn (window mw) tasks else [] in
      loop (2 * length tasks + 2) sched (mkSt [] init later [] (map ESubmit0 init))
    end.

  (* map(taskproc, tasks), consumed lazily: stops at the first exception *)
  Fixpoint seq_map (tasks : list T) (acc : list R) : ending E * list R :=
    match tasks with
    | [] => (Done, acc)
    | t :: ts => match process t with
                 | Res v => seq_map ts (acc ++ [v])
                 | Fail e => (Raised e, acc)
                 end
    end.
End Pmap.

Arguments ESubmit0 {T R} t.
Arguments ESnap {T R} pending.
Arguments ESubmit {T R} t pending.
Arguments EYield {T R} r.
Arguments mkSt {T R} snap fresh rest out evs.
Arguments snap {T R} s.
Arguments fresh {T R} s.
Arguments rest {T R} s.
Arguments out {T R} s.
Arguments evs {T R} s.

(* ------------------------------------------------------------------ parproc *)
(* process_pmap / thread_pmap: max_workers=max_workers or multiprocessing.cpu_count() *)
Definition pmap_workers (mw cpu : nat) : nat := if Nat.eqb mw 0 then cpu else mw.

(* the executor loop on tasks (the stop event is clear when parproc starts) *)
Definition pmap_tasks (threads : bool) (mw cpu : nat) (tasks : list task) (sched : list nat)
  : ending exc * st task result :=
  executor_pmap task result exc (taskproc false) is_ki (negb threads) (pmap_workers mw cpu) tasks sched.

(* parproc(func, payloads, parallel=..., max_workers=...): threads = HAS_MULTITHREADING_SUPPORT *)
Definition parproc (parallel threads : bool) (mw cpu : nat) (tasks : list task) (sched : list nat)
  : ending exc * list result :=
  match tasks with
  | [t] => match taskproc false t with                        (* if len(tasks) == 1: yield taskproc(tasks[0]) *)
           | Res v => (Done, [v])
           | Fail e => (Raised e, [])
           end
  | _ =>
    if parallel
    then let '(e, s) := pmap_tasks threads mw cpu tasks sched in (e, out s)
    else seq_map task result exc (taskproc false) tasks []
  end.
