(* Proofs about Lib/Api.v (property C10). *)
From Coq Require Import List NArith Arith Bool Lia.
From TatsuV Require Import Lib.Api.
Import ListNotations.

(* ------------------------------------------------------------------ keys *)
Lemma oN_eqb_eq : forall a b, oN_eqb a b = true -> a = b.
Proof.
  intros [x|] [y|] H; simpl in H; try discriminate; auto.
  apply N.eqb_eq in H. now subst.
Qed.

Lemma oN_eqb_refl : forall a, oN_eqb a a = true.
Proof. intros [x|]; simpl; auto. apply N.eqb_refl. Qed.

Lemma key_eqb_eq : forall a b, key_eqb a b = true -> a = b.
Proof.
  intros [[[n1 g1] s1] [[m1 b1] t1]] [[[n2 g2] s2] [[m2 b2] t2]] H. simpl in H.
  repeat (apply andb_prop in H; destruct H as [H ?]).
  apply oN_eqb_eq in H. apply N.eqb_eq in H4. apply oN_eqb_eq in H3. apply Bool.eqb_prop in H2.
  apply oN_eqb_eq in H1. apply N.eqb_eq in H0. now subst.
Qed.

Lemma key_eqb_refl : forall a, key_eqb a a = true.
Proof.
  intros [[[n1 g1] s1] [[m1 b1] t1]]. simpl.
  rewrite !oN_eqb_refl, !N.eqb_refl, Bool.eqb_reflx. reflexivity.
Qed.

Lemma lookup_In : forall k c h, lookup k c = Some h -> In (k, h) c.
Proof.
  induction c as [|[k' h'] c IH]; simpl; intros h H; [discriminate|].
  destruct (key_eqb k k') eqn:E.
  - inversion H; subst. apply key_eqb_eq in E. subst. now left.
  - right. now apply IH.
Qed.

Lemma obj_of_key : forall a b, key_r a = key_r b -> obj_of a = obj_of b.
Proof.
  intros a b H. unfold key_r in H. inversion H as [[Hn Hg Hs Hm Hb Ht]].
  unfold obj_of, gm_of, new_sem. rewrite Hn, Hg, Hs, Hm, Hb, Ht. reflexivity.
Qed.

Lemma nth_error_app_old : forall A (l : list A) x i o, nth_error l i = Some o -> nth_error (l ++ [x]) i = Some o.
Proof.
  intros A l x i o H. rewrite nth_error_app1; auto. apply nth_error_Some. congruence.
Qed.

Lemma nth_error_app_new : forall A (l : list A) x, nth_error (l ++ [x]) (length l) = Some x.
Proof. intros. rewrite nth_error_app2 by lia. now rewrite Nat.sub_diag. Qed.

(* ------------------------------------------------------------------ the repaired compile *)
Section Repaired.
  Variable R : Type.
  Variable settings_valid : N -> bool.
  Variable boot_ok : option N -> N -> N -> bool.
  Variable result_of : gmodel -> sem -> N -> R.
  Variable gen_of : gmodel -> R.

  Notation compile_r := (compile_r settings_valid boot_ok).
  Notation run_r := (run_op R settings_valid result_of gen_of compile_r).
  Notation res := (res R).

  Definition boots (a : cargs) : bool := boot_ok (c_name a) (c_gram a) (c_settings a).

  (* what compile(a) does as a function of a alone *)
  Definition outcome (a : cargs) : err + unit :=
    if negb (settings_valid (c_settings a)) then inl EConfig
    else if boots a then inr tt else inl EBoot.

  (* every cache entry maps its key to what a fresh compile of that key yields; so does every variable *)
  Definition Inv (st : state) : Prop :=
    (forall k h, In (k, h) (cache st) ->
       exists a, key_r a = k /\ boots a = true /\ nth_error (heap st) h = Some (obj_of a))
    /\ (forall v h a, nth_error (vars st) v = Some (h, a) ->
          outcome a = inr tt /\ nth_error (heap st) h = Some (obj_of a)).

  Lemma Inv_init : Inv init.
  Proof.
    split; simpl.
    - intros k h [].
    - intros v h a H. destruct v; discriminate.
  Qed.

  Lemma boots_key : forall a b, key_r a = key_r b -> boots a = boots b.
  Proof.
    intros a b H. unfold key_r in H. inversion H as [[Hn Hg Hs Hm Hb Ht]].
    unfold boots. now rewrite Hn, Hg, Ht.
  Qed.

  Lemma compile_r_spec : forall a st st' r,
    Inv st -> compile_r a st = (st', r) ->
    Inv st' /\ vars st' = vars st /\
    match r with
    | inl e => outcome a = inl e /\ st' = st
    | inr h => outcome a = inr tt /\ nth_error (heap st') h = Some (obj_of a)
    end.
  Proof.
    intros a st st' r [Hc Hv] H. unfold Api.compile_r in H. unfold outcome.
    destruct (negb (settings_valid (c_settings a))) eqn:Ev.
    { inversion H; subst. split; [split; assumption|]. split; [reflexivity|]. split; reflexivity. }
    fold (boots a) in H.
    assert (Hext : forall o, Inv {| cache := cache st; heap := heap st ++ [o]; vars := vars st |}).
    { intro o. split; simpl.
      - intros k h Hin. destruct (Hc k h Hin) as (b & Hk & Hb & Hn).
        exists b. repeat split; auto. now apply nth_error_app_old.
      - intros v h b Hn. destruct (Hv v h b Hn) as [Ho Hh]. split; auto. now apply nth_error_app_old. }
    destruct (c_opaque a).
    - destruct (boots a) eqn:Eb.
      + simpl in H. inversion H; subst. split; [apply Hext|]. split; [reflexivity|].
        split; [reflexivity|]. simpl. apply nth_error_app_new.
      + inversion H; subst. split; [split; assumption|]. split; [reflexivity|]. split; reflexivity.
    - destruct (lookup (key_r a) (cache st)) as [h|] eqn:El.
      + inversion H; subst. split; [split; auto|]. split; [reflexivity|].
        apply lookup_In in El. destruct (Hc _ _ El) as (b & Hk & Hb & Hn).
        rewrite (boots_key a b) by auto. rewrite Hb. split; [reflexivity|].
        rewrite (obj_of_key a b) by auto. exact Hn.
      + destruct (boots a) eqn:Eb.
        * simpl in H. inversion H; subst. split.
          { destruct (Hext (obj_of a)) as [Hc' Hv']. split; simpl.
            - intros k h [Heq|Hin].
              + inversion Heq; subst. exists a. repeat split; auto. apply nth_error_app_new.
              + apply Hc'. exact Hin.
            - exact Hv'. }
          split; [reflexivity|]. split; [reflexivity|]. simpl. apply nth_error_app_new.
        * inversion H; subst. split; [split; assumption|]. split; [reflexivity|]. split; reflexivity.
  Qed.

  (* the result of a call as a function of the call alone *)
  Definition parse_obj (o : obj) (p : pargs) : res :=
    RVal (result_of (o_gm o) (eff_sem o p) (p_rest p)).

  Definition pure_res (o : op) : res :=
    match o with
    | OCompile a =>
        match outcome a with
        | inl e => RErr e
        | inr _ => RModel (o_gm (obj_of a)) (o_sem (obj_of a))
        end
    | OParseVar _ _ => RErr EUnbound
    | OCompileParse a p =>
        match outcome a with
        | inl e => RErr e
        | inr _ => parse_obj (obj_of a) p
        end
    | OTatsuParse t =>
        if negb (settings_valid (t_settings t)) then RErr EConfig
        else match outcome (tatsu_compile_args t) with
             | inl e => RErr e
             | inr _ =>
                 let ob := obj_of (tatsu_compile_args t) in
                 let s0 := match t_sem t with Some s => SUser s | None => o_sem ob end in
                 let s1 := if sem_is_none s0 && (t_asmodel t || is_some (t_bopt t))
                           then SBuilder (t_bopt t) else s0 in
                 RVal (result_of (o_gm ob) s1 (t_rest t))
             end
    | OGen a =>
        if negb (settings_valid (c_settings a)) then RErr EConfig
        else
        let a' := {| c_name := c_name a; c_gram := c_gram a; c_sem := None; c_asmodel := false;
                     c_bopt := None; c_settings := 0%N; c_opaque := false |} in
        match outcome a' with
        | inl e => RErr e
        | inr _ => RVal (gen_of (o_gm (obj_of a')))
        end
    end.

  Lemma Inv_bind : forall st h a,
    Inv st -> outcome a = inr tt -> nth_error (heap st) h = Some (obj_of a) -> Inv (bind_var h a st).
  Proof.
    intros st h a [Hc Hv] Ho Hn. split; simpl; auto.
    intros v h' b Hnv.
    destruct (Nat.lt_ge_cases v (length (vars st))) as [Hlt|Hge].
    - rewrite nth_error_app1 in Hnv by auto. eapply Hv; eauto.
    - rewrite nth_error_app2 in Hnv by auto.
      destruct (v - length (vars st)) as [|n]; simpl in Hnv.
      + inversion Hnv; subst. auto.
      + destruct n; discriminate.
  Qed.

  Lemma run_r_pure : forall st o,
    Inv st -> Inv (fst (run_r st o)) /\ snd (run_r st o) = pure_res (fresh_form st o).
  Proof.
    intros st o HI. destruct o as [a|v p|a p|t|a]; simpl.
    - destruct (compile_r a st) as [st1 [e|h]] eqn:E;
        destruct (compile_r_spec _ _ _ _ HI E) as (HI1 & Hvars & Hr); simpl.
      + destruct Hr as [Ho _]. rewrite Ho. auto.
      + destruct Hr as [Ho Hn]. rewrite Ho, Hn. split; auto. now apply Inv_bind.
    - destruct (nth_error (vars st) v) as [[h a]|] eqn:E; simpl; auto.
      destruct HI as [Hc Hv]. destruct (Hv _ _ _ E) as [Ho Hn].
      split; [split; auto|]. unfold parse_at. rewrite Hn, Ho. reflexivity.
    - destruct (compile_r a st) as [st1 [e|h]] eqn:E;
        destruct (compile_r_spec _ _ _ _ HI E) as (HI1 & Hvars & Hr); simpl.
      + destruct Hr as [Ho _]. rewrite Ho. auto.
      + destruct Hr as [Ho Hn]. rewrite Ho. unfold parse_at. rewrite Hn. auto.
    - destruct (negb (settings_valid (t_settings t))); simpl; auto.
      destruct (compile_r (tatsu_compile_args t) st) as [st1 [e|h]] eqn:E;
        destruct (compile_r_spec _ _ _ _ HI E) as (HI1 & Hvars & Hr); simpl.
      + destruct Hr as [Ho _]. rewrite Ho. auto.
      + destruct Hr as [Ho Hn]. rewrite Ho, Hn. simpl. auto.
    - destruct (negb (settings_valid (c_settings a))); simpl; auto.
      match goal with |- context [compile_r ?x st] => set (a' := x) end.
      destruct (compile_r a' st) as [st1 [e|h]] eqn:E;
        destruct (compile_r_spec _ _ _ _ HI E) as (HI1 & Hvars & Hr); simpl.
      + destruct Hr as [Ho _]. rewrite Ho. auto.
      + destruct Hr as [Ho Hn]. rewrite Ho, Hn. simpl. auto.
  Qed.

  Lemma Inv_runs : forall h st, Inv st -> Inv (runs R settings_valid result_of gen_of compile_r h st).
  Proof.
    induction h as [|o h IH]; simpl; intros st HI; auto.
    apply IH. apply run_r_pure. exact HI.
  Qed.

  Lemma fresh_form_init : forall o, fresh_form init o = o.
  Proof. intros [a|v p|a p|t|a]; simpl; auto. destruct v; reflexivity. Qed.

  Lemma fresh_form_idem_pure : forall st o, pure_res (fresh_form init (fresh_form st o)) = pure_res (fresh_form st o).
  Proof. intros. now rewrite fresh_form_init. Qed.

  (* every call returns, after any history, what the same call returns in a fresh process *)
  Theorem history_independent_repaired : forall (h : list op) (c : op),
    result_after R settings_valid result_of gen_of compile_r h c
    = result_fresh R settings_valid result_of gen_of compile_r h c.
  Proof.
    intros h c. unfold result_after, result_fresh.
    set (st := runs R settings_valid result_of gen_of compile_r h init).
    assert (HI : Inv st) by (apply Inv_runs, Inv_init).
    destruct (run_r_pure st c HI) as [_ H1].
    destruct (run_r_pure init (fresh_form st c) Inv_init) as [_ H2].
    rewrite H1, H2. now rewrite fresh_form_init.
  Qed.

  (* the repaired compile never writes to an object that is already on the heap *)
  Theorem repaired_never_mutates : forall (o : op) st i ob,
    nth_error (heap st) i = Some ob -> nth_error (heap (fst (run_r st o))) i = Some ob.
  Proof.
    assert (Hc : forall a st st' r i ob, compile_r a st = (st', r) ->
                 nth_error (heap st) i = Some ob -> nth_error (heap st') i = Some ob).
    { intros a st st' r i ob H Hn. unfold Api.compile_r in H.
      destruct (negb (settings_valid (c_settings a))); [inversion H; subst; auto|].
      destruct (c_opaque a).
      - destruct (boot_ok _ _ _); simpl in H; inversion H; subst; simpl; auto using nth_error_app_old.
      - destruct (lookup _ _); [inversion H; subst; auto|].
        destruct (boot_ok _ _ _); simpl in H; inversion H; subst; simpl; auto using nth_error_app_old. }
    intros o st i ob Hn. destruct o as [a|v p|a p|t|a]; simpl.
    - destruct (compile_r a st) as [st1 [e|h]] eqn:E; simpl; eauto.
    - destruct (nth_error (vars st) v) as [[h a]|]; simpl; auto.
    - destruct (compile_r a st) as [st1 [e|h]] eqn:E; simpl; eauto.
    - destruct (negb (settings_valid (t_settings t))); simpl; auto.
      destruct (compile_r (tatsu_compile_args t) st) as [st1 [e|h]] eqn:E; simpl; eauto.
      destruct (nth_error (heap st1) h); simpl; eauto.
    - destruct (negb (settings_valid (c_settings a))); simpl; auto.
      match goal with |- context [compile_r ?x st] => set (a' := x) end.
      destruct (compile_r a' st) as [st1 [e|h]] eqn:E; simpl; eauto.
      destruct (nth_error (heap st1) h); simpl; eauto.
  Qed.
End Repaired.

(* model.parse on an existing model changes nothing in the shared state, whatever compile is (in the model a
   parse reads heap[h] and the per-call arguments only; checked against the code by the A2 write-set oracle) *)
Theorem parse_does_not_mutate :
  forall (R : Type) (settings_valid : N -> bool) (result_of : gmodel -> sem -> N -> R) (gen_of : gmodel -> R)
         (compile : cargs -> state -> state * (err + nat)) (st : state) (v : nat) (p : pargs),
    fst (run_op R settings_valid result_of gen_of compile st (OParseVar v p)) = st.
Proof.
  intros. simpl. destruct (nth_error (vars st) v) as [[h a]|]; reflexivity.
Qed.

(* ------------------------------------------------------------------ the shipped compile: refutation *)
(* free interpretation: a result is the triple it is computed from *)
Definition RT : Type := (gmodel * sem * N)%type.
Definition free_result (g : gmodel) (s : sem) (r : N) : RT := (g, s, r).
Definition free_gen (g : gmodel) : RT := (g, SNone, 0%N).
Definition all_valid (_ : N) : bool := true.
Definition boot_plain (_ : option N) (_ : N) (s : N) : bool := N.eqb s 0.   (* only the empty settings boot *)

Definition plain (g : N) : cargs :=
  {| c_name := None; c_gram := g; c_sem := None; c_asmodel := false; c_bopt := None; c_settings := 0%N;
     c_opaque := false |}.
Definition with_asmodel (a : cargs) : cargs :=
  {| c_name := c_name a; c_gram := c_gram a; c_sem := c_sem a; c_asmodel := true; c_bopt := c_bopt a;
     c_settings := c_settings a; c_opaque := c_opaque a |}.
Definition with_settings (s : N) (a : cargs) : cargs :=
  {| c_name := c_name a; c_gram := c_gram a; c_sem := c_sem a; c_asmodel := c_asmodel a; c_bopt := c_bopt a;
     c_settings := s; c_opaque := c_opaque a |}.
Definition plain_parse (t : N) : pargs := {| p_sem := None; p_asmodel := false; p_rest := t |}.

Notation after_f := (result_after RT all_valid free_result free_gen (compile_f all_valid boot_plain)).
Notation fresh_f := (result_fresh RT all_valid free_result free_gen (compile_f all_valid boot_plain)).

(* witness 1: compile(g, asmodel=True) earlier makes compile(g).parse(t) build model objects *)
Definition witness1_h : list op := [OCompile (with_asmodel (plain 1))].
Definition witness1_c : op := OCompileParse (plain 1) (plain_parse 7).
(* witness 2: compile(g, whitespace='') fails in a fresh process, returns the cached model after compile(g) *)
Definition witness2_h : list op := [OCompile (plain 1)].
Definition witness2_c : op := OCompile (with_settings 5 (plain 1)).
(* witness 3 (aliasing): m = compile(g); compile(g, asmodel=True); m.parse(t) *)
Definition witness3_h : list op := [OCompile (plain 1); OCompile (with_asmodel (plain 1))].
Definition witness3_c : op := OParseVar 0 (plain_parse 7).

Lemma witness1_values :
  after_f witness1_h witness1_c = RVal ({| gm_name := None; gm_gram := 1; gm_settings := 0 |}, SBuilder None, 7%N)
  /\ fresh_f witness1_h witness1_c = RVal ({| gm_name := None; gm_gram := 1; gm_settings := 0 |}, SNone, 7%N).
Proof. split; vm_compute; reflexivity. Qed.

Lemma witness2_values :
  after_f witness2_h witness2_c = RModel {| gm_name := None; gm_gram := 1; gm_settings := 0 |} SNone
  /\ fresh_f witness2_h witness2_c = RErr EBoot.
Proof. split; vm_compute; reflexivity. Qed.

Lemma witness3_values :
  after_f witness3_h witness3_c = RVal ({| gm_name := None; gm_gram := 1; gm_settings := 0 |}, SBuilder None, 7%N)
  /\ fresh_f witness3_h witness3_c = RVal ({| gm_name := None; gm_gram := 1; gm_settings := 0 |}, SNone, 7%N).
Proof. split; vm_compute; reflexivity. Qed.

Theorem history_independent_refuted :
  exists (h : list op) (c : op), after_f h c <> fresh_f h c.
Proof.
  exists witness1_h, witness1_c. destruct witness1_values as [H1 H2]. rewrite H1, H2. discriminate.
Qed.

Theorem history_independent_refuted_settings :
  exists (h : list op) (c : op), after_f h c <> fresh_f h c /\ fresh_f h c = RErr EBoot.
Proof.
  exists witness2_h, witness2_c. destruct witness2_values as [H1 H2]. rewrite H1, H2. split; [discriminate|reflexivity].
Qed.

Theorem history_independent_refuted_alias :
  exists (h : list op) (v : nat) (p : pargs), after_f h (OParseVar v p) <> fresh_f h (OParseVar v p).
Proof.
  exists witness3_h, 0, (plain_parse 7). destruct witness3_values as [H1 H2].
  unfold witness3_c in *. rewrite H1, H2. discriminate.
Qed.

(* the same three histories are harmless for the repaired compile (instance of the general theorem) *)
Example repaired_on_witnesses :
  result_after RT all_valid free_result free_gen (compile_r all_valid boot_plain) witness1_h witness1_c
  = RVal ({| gm_name := None; gm_gram := 1; gm_settings := 0 |}, SNone, 7%N)
  /\ result_after RT all_valid free_result free_gen (compile_r all_valid boot_plain) witness2_h witness2_c = RErr EBoot.
Proof. split; vm_compute; reflexivity. Qed.

(* ------------------------------------------------------------------ failed parse leaves no state *)
Section CtxProof.
  Variable Cfg Txt Vol Out : Type.
  Variable override : Cfg -> Cfg -> Cfg.
  Variable fresh_memos fresh_results fresh_states fresh_tracer : Cfg -> Txt -> Vol.
  Variable kw_of sem_of heart_of : Cfg -> Vol.
  Variable cleared : Vol.
  Variable body : ctx Cfg Vol -> Out * ctx Cfg Vol.
  (* the parse never assigns `self._config` (checked on the code: the only writers are __init__) *)
  Hypothesis body_keeps_config : forall c, x_config _ _ (snd (body c)) = x_config _ _ c.

  Notation parse := (ctx_parse Cfg Txt Vol Out override fresh_memos fresh_results fresh_states fresh_tracer
                               kw_of sem_of heart_of cleared body).

  Lemma enter_depends_on_config_only : forall c1 c2 cfg t,
    x_config _ _ c1 = x_config _ _ c2 ->
    bound_enter Cfg Txt Vol override fresh_memos fresh_results fresh_states fresh_tracer kw_of sem_of heart_of cleared c1 cfg t
    = bound_enter Cfg Txt Vol override fresh_memos fresh_results fresh_states fresh_tracer kw_of sem_of heart_of cleared c2 cfg t.
  Proof. intros c1 c2 cfg t H. unfold bound_enter. now rewrite H. Qed.

  Lemma parse_keeps_config : forall c cfg t, x_config _ _ (snd (parse c cfg t)) = x_config _ _ c.
  Proof.
    intros c cfg t. unfold ctx_parse.
    destruct (body _) as [o c1] eqn:E. simpl.
    change c1 with (snd (o, c1)). rewrite <- E. rewrite body_keeps_config. reflexivity.
  Qed.

  Theorem parse_result_independent_of_volatile_state : forall c1 c2 cfg t,
    x_config _ _ c1 = x_config _ _ c2 -> parse c1 cfg t = parse c2 cfg t.
  Proof.
    intros. unfold ctx_parse. now rewrite (enter_depends_on_config_only c1 c2).
  Qed.

  (* whatever an earlier parse on the same context object did (succeeded, failed, left anything in any
     volatile field), the next parse behaves exactly as on the context as it was before *)
  Theorem failed_parse_leaves_no_state : forall c cfg1 t1 cfg2 t2,
    parse (snd (parse c cfg1 t1)) cfg2 t2 = parse c cfg2 t2.
  Proof.
    intros c cfg1 t1 cfg2 t2.
    apply parse_result_independent_of_volatile_state. apply parse_keeps_config.
  Qed.
End CtxProof.

(* ------------------------------------------------------------------ idempotent caches under any schedule *)
Section SchedProof.
  Variable K V A : Type.
  Variable K_eqb : K -> K -> bool.
  Variable f : K -> V.
  Hypothesis K_eqb_eq : forall a b, K_eqb a b = true -> a = b.

  Notation prog := (prog K V A).
  Notation eval := (eval K V A f).
  Notation sget := (sget K V K_eqb).
  Notation pstep := (pstep K V A K_eqb).
  Notation step_nth := (step_nth K V A K_eqb).
  Notation run_sched := (run_sched K V A K_eqb).
  Notation run_alone := (run_alone K V A K_eqb).

  (* every write is cache[k] := f k; a thread computes the same result whether a read misses or hits *)
  Fixpoint wf (p : prog) : Prop :=
    match p with
    | Ret _ => True
    | Read k c => wf (c None) /\ wf (c (Some (f k))) /\ eval (c None) = eval (c (Some (f k)))
    | Write k v c => v = f k /\ wf c
    end.

  (* cache is a subset of the graph of f *)
  Definition good (c : scache K V) : Prop := forall k v, In (k, v) c -> v = f k.

  Lemma sget_good : forall c k v, good c -> sget k c = Some v -> v = f k.
  Proof.
    induction c as [|[k' v'] c IH]; simpl; intros k v Hg H; [discriminate|].
    destruct (K_eqb k k') eqn:E.
    - inversion H; subst. apply K_eqb_eq in E. subst. apply Hg. now left.
    - apply IH; auto. intros k0 v0 Hin. apply Hg. now right.
  Qed.

  Lemma pstep_inv : forall p c, good c -> wf p ->
    good (snd (pstep p c)) /\ wf (fst (pstep p c)) /\ eval (fst (pstep p c)) = eval p.
  Proof.
    intros [a|k cont|k v cont] c Hg Hw; simpl in *.
    - auto.
    - destruct Hw as (Hn & Hs & He). split; auto.
      destruct (sget k c) as [v|] eqn:E.
      + apply sget_good in E; auto. subst. auto.
      + auto.
    - destruct Hw as [Hv Hw]. subst. split; [|auto].
      intros k0 v0 [Heq|Hin]; [inversion Heq; subst; auto|auto].
  Qed.

  Lemma step_nth_inv : forall i ps c, good c -> Forall wf ps ->
    good (snd (step_nth i ps c)) /\ Forall wf (fst (step_nth i ps c))
    /\ map eval (fst (step_nth i ps c)) = map eval ps.
  Proof.
    induction i as [|i IH]; intros [|p ps] c Hg Hw; simpl; auto.
    - inversion Hw; subst.
      destruct (pstep_inv p c Hg H1) as (G & W & E).
      destruct (pstep p c) as [p' c']; simpl in *. repeat split; auto. now rewrite E.
    - inversion Hw; subst.
      destruct (IH ps c Hg H2) as (G & W & E).
      destruct (step_nth i ps c) as [t' c']; simpl in *. repeat split; auto. now rewrite E.
  Qed.

  Lemma run_sched_inv : forall s ps c, good c -> Forall wf ps ->
    good (snd (run_sched s ps c)) /\ Forall wf (fst (run_sched s ps c))
    /\ map eval (fst (run_sched s ps c)) = map eval ps.
  Proof.
    induction s as [|i s IH]; intros ps c Hg Hw; simpl; auto.
    destruct (step_nth_inv i ps c Hg Hw) as (G & W & E).
    destruct (step_nth i ps c) as [ps' c']; simpl in *.
    destruct (IH ps' c' G W) as (G2 & W2 & E2). repeat split; auto. congruence.
  Qed.

  Lemma run_alone_eval : forall p c, good c -> wf p -> run_alone p c = eval p.
  Proof.
    induction p as [a|k cont IH|k v cont IH]; intros c Hg Hw; simpl in *; auto.
    - destruct Hw as (Hn & Hs & He).
      destruct (sget k c) as [v|] eqn:E.
      + apply sget_good in E; auto. subst. now apply IH.
      + rewrite IH; auto.
    - destruct Hw as [Hv Hw]. subst. apply IH; auto.
      intros k0 v0 [Heq|Hin]; [inversion Heq; subst; auto|auto].
  Qed.

  (* for EVERY interleaving of the threads' steps, a thread that has finished returns what it returns
     when it runs alone from the initial cache *)
  Theorem idempotent_caches_schedule_independent :
    forall (s : list nat) (ps : list prog) (c : scache K V),
      good c -> Forall wf ps ->
      forall i p a, nth_error ps i = Some p ->
        nth_error (fst (run_sched s ps c)) i = Some (Ret a) ->
        a = run_alone p c.
  Proof.
    intros s ps c Hg Hw i p a Hp Hr.
    destruct (run_sched_inv s ps c Hg Hw) as (_ & _ & E).
    assert (H1 : nth_error (map eval (fst (run_sched s ps c))) i = Some a).
    { rewrite nth_error_map, Hr. reflexivity. }
    rewrite E, nth_error_map, Hp in H1. simpl in H1. inversion H1 as [H2].
    rewrite run_alone_eval; auto.
    rewrite Forall_forall in Hw. apply Hw. eapply nth_error_In; eauto.
  Qed.

  (* ... and the shared cache stays a subset of the graph of f, so later readers are served correctly *)
  Theorem schedule_keeps_cache_good : forall s ps c, good c -> Forall wf ps -> good (snd (run_sched s ps c)).
  Proof. intros. now apply run_sched_inv. Qed.

  (* a round-robin schedule long enough finishes every thread: the theorem is not vacuous *)
  Lemma memo_get_wf : forall k cont, wf (cont (f k)) -> wf (memo_get K V A f k cont).
  Proof. intros k cont H. simpl. repeat split; auto. Qed.
End SchedProof.

(* non-vacuity of the schedule theorem: two threads doing get-or-compute on the same key, interleaved so
   that both miss and both write *)
Definition ex_f (k : N) : N := (k * k)%N.
Definition ex_thread (k : N) : prog N N N := memo_get N N N ex_f k (fun v => Ret (v + 1)%N).
Example sched_example :
  let ps := [ex_thread 3; ex_thread 3] in
  let r := run_sched N N N N.eqb [0; 1; 0; 1] ps [] in
  fst r = [Ret 10%N; Ret 10%N] /\ snd r = [(3, 9); (3, 9)]%N
  /\ Forall (wf N N N ex_f) ps.
Proof.
  split; [reflexivity|]. split; [reflexivity|].
  repeat constructor.
Qed.
