(* Model of TatSu's object models (C07): tatsu/objectmodel/{basenode,node,synth,builder}.py, tatsu/walkers.py.

   value    : plain AST values extended with nodes.  [VNode id cls fields ast attrs]:
              id     - identity of the Python object (harness numbering); the model never invents ids
              cls    - type(node).__name__
              fields - dataclasses.fields(node) names in order (for BaseNode._in_field_order)
              ast    - node.ast
              attrs  - the other entries of vars(node) in vars() order (ctx, parseinfo, named elements, _private ...)
   pub      : BaseNode.__pub__()  (AsJSONMixin.__pub__ selection, minus vars(BaseNode), the lone-`ast` case,
              rowselect over a Python *set* - its iteration order is the oracle [setord] -, then the stable
              sort by dataclass field index)
   children : Node._cached_children() = dfs(self.__pub__())
   links / parent_of : the `_parent_ref` writes done by children(), last write wins
   dfs / post / bfs  : DepthFirstWalker / PostOrderDepthFirstWalker / BreadthFirstWalker visit orders
   allin    : specification - every node of the tree, by structural recursion, independent of [setord]
   ptree / plain / build / erase : rule invocations without and with ModelBuilderSemantics._default,
              SynthNode.__post_init__ (AST keys -> attributes, ast cleared), builtin constructors = [conv]
   No proofs here (see ObjModelProof.v). *)
From Coq Require Import List NArith ZArith Bool Arith.
From TatsuV Require Import Base.PyStr.
Import ListNotations.
Local Open Scope nat_scope.

Inductive value : Type :=
| VNone
| VAtom (tag : N) (z : Z)            (* non-iterable leaf: 0 int, 1 bool, 2 float (by table index), 3 opaque object *)
| VStr (s : str)                      (* str / bytes *)
| VList (l : list value)              (* list, tuple, set, any other Iterable, in iteration order *)
| VDict (kvs : list (str * value))    (* Mapping, in items() order *)
| VNode (id : N) (cls : str) (fields : list str) (ast : value) (attrs : list (str * value)).

Definition is_none (v : value) : bool := match v with VNone => true | _ => false end.
Definition is_dict (v : value) : bool := match v with VDict _ => true | _ => false end.
Definition is_node (v : value) : bool := match v with VNode _ _ _ _ _ => true | _ => false end.
Definition vid (v : value) : N := match v with VNode i _ _ _ _ => i | _ => 0%N end.
Definition vcls (v : value) : str := match v with VNode _ c _ _ _ => c | _ => [] end.

(* name.startswith('_') *)
Definition is_private (k : str) : bool := match k with c :: _ => N.eqb c 95 | [] => false end.

(* the public names of vars(BaseNode): ast ctx parseinfo clone asjson asjsons dump dumps
   (checked against BaseNode._basenode_keys() by the harness, obligation T1) *)
Definition ast_name : str := [97; 115; 116]%N.
Definition basekeys : list str :=
  [ ast_name;
    [99; 116; 120];
    [112; 97; 114; 115; 101; 105; 110; 102; 111];
    [99; 108; 111; 110; 101];
    [97; 115; 106; 115; 111; 110];
    [97; 115; 106; 115; 111; 110; 115];
    [100; 117; 109; 112];
    [100; 117; 109; 112; 115] ]%N.
Definition is_basekey (k : str) : bool := existsb (str_eqb k) basekeys.
Definition nonbase (k : str) : bool := negb (is_basekey k).
Definition visible (kv : str * value) : bool := negb (is_private (fst kv)) && nonbase (fst kv).

(* Node._cached_children.dfs on a value: stop at nodes, skip `_` keys and None values of mappings,
   skip strings, iterate anything else iterable *)
Fixpoint nodes_of (v : value) : list value :=
  match v with
  | VNode _ _ _ _ _ => [v]
  | VList l => flat_map nodes_of l
  | VDict kvs => flat_map (fun kv => if is_private (fst kv) || is_none (snd kv) then [] else nodes_of (snd kv)) kvs
  | _ => []
  end.
Definition item_nodes (kv : str * value) : list value :=
  if is_private (fst kv) || is_none (snd kv) then [] else nodes_of (snd kv).

Fixpoint lookup (k : str) (row : list (str * value)) : option value :=
  match row with
  | [] => None
  | kv :: r => if str_eqb k (fst kv) then Some (snd kv) else lookup k r
  end.
(* rowselect(keys, row) *)
Definition select (ks : list str) (row : list (str * value)) : list (str * value) :=
  flat_map (fun k => match lookup k row with Some v => [(k, v)] | None => [] end) ks.

(* BaseNode._in_field_order: sorted(keys, key=fieldindex.get(n, len(fieldindex))) - stable *)
Fixpoint index_of (k : str) (fs : list str) : nat :=
  match fs with [] => 0 | f :: r => if str_eqb k f then 0 else S (index_of k r) end.
Fixpoint insert_by (key : str -> nat) (x : str * value) (l : list (str * value)) : list (str * value) :=
  match l with
  | [] => [x]
  | y :: r => if key (fst x) <=? key (fst y) then x :: l else y :: insert_by key x r
  end.
Definition sort_fields (fs : list str) (l : list (str * value)) : list (str * value) :=
  fold_right (insert_by (fun k => index_of k fs)) [] l.

Definition public_attrs (attrs : list (str * value)) : list (str * value) :=
  filter (fun kv => negb (is_private (fst kv))) attrs.

Section Oracle.
  (* iteration order of the Python set `pub.keys() - vars(BaseNode).keys()`, as a function of the public
     key list of vars(node) (insertion sequence); supplied by the real interpreter *)
  Variable setord : list str -> list str.

  Definition pub (v : value) : list (str * value) :=
    match v with
    | VNode _ _ fields ast attrs =>
        let row := (ast_name, ast) :: public_attrs attrs in
        let w := setord (map fst row) in
        let w' := match w with
                  | [] => if is_none ast || is_dict ast then [] else [ast_name]
                  | _ => w
                  end in
        sort_fields fields (select w' row)
    | _ => []
    end.

  Definition children (v : value) : list value := flat_map item_nodes (pub v).

  (* parent pointers written by children() of each node of [visited], in that order *)
  Definition links (visited : list value) : list (N * N) :=
    flat_map (fun n => map (fun c => (vid c, vid n)) (children n)) visited.

  Fixpoint dfs (fuel : nat) (v : value) : list value :=
    match fuel with 0 => [] | S f => v :: flat_map (dfs f) (children v) end.
  Fixpoint post (fuel : nat) (v : value) : list value :=
    match fuel with 0 => [] | S f => flat_map (post f) (children v) ++ [v] end.
  (* deque: popleft, visit, extend(children) *)
  Fixpoint bfs (fuel : nat) (q : list value) : list value :=
    match fuel with
    | 0 => []
    | S f => match q with [] => [] | x :: r => x :: bfs f (r ++ children x) end
    end.
  (* level order: the characterisation of bfs *)
  Fixpoint lev (h : nat) (q : list value) : list value :=
    match h with 0 => [] | S h' => q ++ lev h' (flat_map children q) end.
End Oracle.

Definition parent_of (ls : list (N * N)) (c : N) : option N :=
  fold_left (fun acc kv => if N.eqb (fst kv) c then Some (snd kv) else acc) ls None.

Fixpoint height (v : value) : nat :=
  match v with
  | VList l => S (fold_right (fun x m => Nat.max (height x) m) 0 l)
  | VDict kvs => S (fold_right (fun kv m => Nat.max (height (snd kv)) m) 0 kvs)
  | VNode _ _ _ ast attrs =>
      S (Nat.max (height ast) (fold_right (fun kv m => Nat.max (height (snd kv)) m) 0 attrs))
  | _ => 1
  end.

(* ---- specification side: all nodes of the tree, structurally, in vars() order ---- *)
Fixpoint allin (v : value) : list value :=
  match v with
  | VNode _ _ _ ast attrs =>
      v :: (if existsb visible attrs
            then flat_map (fun kv => if visible kv && negb (is_none (snd kv)) then allin (snd kv) else []) attrs
            else if is_dict ast then [] else allin ast)
  | VList l => flat_map allin l
  | VDict kvs => flat_map (fun kv => if is_private (fst kv) || is_none (snd kv) then [] else allin (snd kv)) kvs
  | _ => []
  end.

(* the attributes through which children are found *)
Definition spec_attrs (v : value) : list (str * value) :=
  match v with
  | VNode _ _ _ ast attrs =>
      if existsb visible attrs then filter visible attrs
      else if is_none ast || is_dict ast then [] else [(ast_name, ast)]
  | _ => []
  end.

(* [Reach v c]: node c is found in v through lists and mappings without passing another node *)
Inductive Reach : value -> value -> Prop :=
| R_node : forall c, is_node c = true -> Reach c c
| R_list : forall l x c, In x l -> Reach x c -> Reach (VList l) c
| R_dict : forall kvs k x c, In (k, x) kvs -> is_private k = false -> is_none x = false ->
                             Reach x c -> Reach (VDict kvs) c.

(* well-formed: vars(node) has distinct keys (it is a dict); `ast` is kept apart *)
Fixpoint nodupb (l : list str) : bool :=
  match l with [] => true | x :: r => negb (existsb (str_eqb x) r) && nodupb r end.
Fixpoint wfb (v : value) : bool :=
  match v with
  | VNode _ _ _ ast attrs =>
      nodupb (ast_name :: map fst attrs) && wfb ast && forallb (fun kv => wfb (snd kv)) attrs
  | VList l => forallb wfb l
  | VDict kvs => forallb (fun kv => wfb (snd kv)) kvs
  | _ => true
  end.

Definition walk_dfs (setord : list str -> list str) (v : value) : list value := dfs setord (height v) v.
Definition walk_post (setord : list str -> list str) (v : value) : list value := post setord (height v) v.
Definition walk_bfs (setord : list str -> list str) (v : value) : list value :=
  bfs setord (S (length (allin v))) [v].

(* the order in which a set would be iterated if it kept insertion order (used for non-vacuity and as
   the default when the harness supplies no table) *)
Definition setord_id (l : list str) : list str := filter nonbase l.

(* ---- building: rule invocations with and without ModelBuilderSemantics ---- *)
Inductive leaf := LNone | LStr (s : str) | LAtom (tag : N) (z : Z).
Definition leaf_value (x : leaf) : value :=
  match x with LNone => VNone | LStr s => VStr s | LAtom t z => VAtom t z end.

Inductive ptree : Type :=
| PLeaf (x : leaf)                      (* token, pattern, constant, void *)
| PList (l : list ptree)                (* sequence / closure value *)
| PDict (kvs : list (str * ptree))      (* a rule body with named elements: the AST *)
| PRule (spec : list str) (body : ptree). (* rule invocation; spec = the `A::B::C` annotation split, [] if none *)

Fixpoint plain (t : ptree) : value :=
  match t with
  | PLeaf x => leaf_value x
  | PList l => VList (map plain l)
  | PDict kvs => VDict (map (fun kv => (fst kv, plain (snd kv))) kvs)
  | PRule _ b => plain b
  end.

(* Node(ast) for a synthesized class: SynthNode.__post_init__ *)
Definition mk_node (cls : str) (a : value) : value :=
  match a with
  | VDict kvs => VNode 0 cls [] VNone kvs
  | _ => VNode 0 cls [] a []
  end.

Section Build.
  (* vars(builtins).get(name) restricted to what the harness tabulates: int str float bool tuple ... *)
  Variable conv : str -> option (value -> value).

  Fixpoint build (t : ptree) : value :=
    match t with
    | PLeaf x => leaf_value x
    | PList l => VList (map build l)
    | PDict kvs => VDict (map (fun kv => (fst kv, build (snd kv))) kvs)
    | PRule [] b => build b
    | PRule (c :: _) b =>
        match conv c with
        | Some f => f (build b)
        | None => mk_node c (build b)
        end
    end.

  (* the plain value with the builtin conversions applied *)
  Fixpoint plainc (t : ptree) : value :=
    match t with
    | PLeaf x => leaf_value x
    | PList l => VList (map plainc l)
    | PDict kvs => VDict (map (fun kv => (fst kv, plainc (snd kv))) kvs)
    | PRule [] b => plainc b
    | PRule (c :: _) b =>
        match conv c with
        | Some f => f (plainc b)
        | None => plainc b
        end
    end.

  (* no rule of the tree is annotated with a builtin name *)
  Fixpoint no_builtin (t : ptree) : bool :=
    match t with
    | PLeaf _ => true
    | PList l => forallb no_builtin l
    | PDict kvs => forallb (fun kv => no_builtin (snd kv)) kvs
    | PRule [] b => no_builtin b
    | PRule (c :: _) b => match conv c with Some _ => false | None => no_builtin b end
    end.
End Build.

(* an AST always has at least one key *)
Fixpoint dicts_nonempty (t : ptree) : bool :=
  match t with
  | PLeaf _ => true
  | PList l => forallb dicts_nonempty l
  | PDict kvs => negb (match kvs with [] => true | _ => false end) && forallb (fun kv => dicts_nonempty (snd kv)) kvs
  | PRule _ b => dicts_nonempty b
  end.

(* erase node wrappers: a node with attributes is its AST dict, a node without is its ast value *)
Fixpoint erase (v : value) : value :=
  match v with
  | VNode _ _ _ ast attrs =>
      match attrs with
      | [] => erase ast
      | _ => VDict (map (fun kv => (fst kv, erase (snd kv))) attrs)
      end
  | VList l => VList (map erase l)
  | VDict kvs => VDict (map (fun kv => (fst kv, erase (snd kv))) kvs)
  | _ => v
  end.

(* ---- class synthesis: synth.__registry keyed by name, process wide ---- *)
(* registry entry: class name -> names of its synthesized bases chain (the class's own ancestors, nearest first) *)
Definition registry := list (str * list str).
Fixpoint reg_find (r : registry) (c : str) : option (list str) :=
  match r with [] => None | e :: r' => if str_eqb c (fst e) then Some (snd e) else reg_find r' c end.
(* builder._get_constructor(name, base): existing class wins, else synthesize(name, (base,)) *)
Definition get_class (r : registry) (c : str) (base_mro : list str) : registry * list str :=
  match reg_find r c with
  | Some m => (r, c :: m)
  | None => ((c, base_mro) :: r, c :: base_mro)
  end.
(* _default: for basename in reversed(typespec): defined = get_constructor(basename, base); base = defined.
   Returns the registry and the MRO names (up to, excluding, the base type) of the class of typespec[0]. *)
Fixpoint declare_rev (r : registry) (rev_spec : list str) (base_mro : list str) : registry * list str :=
  match rev_spec with
  | [] => (r, base_mro)
  | c :: rest => let '(r', m) := get_class r c base_mro in declare_rev r' rest m
  end.
Definition declare (r : registry) (spec : list str) : registry * list str := declare_rev r (rev spec) [].
(* a history of annotated-rule reductions, process wide *)
Fixpoint declare_all (r : registry) (specs : list (list str)) : registry * list (list str) :=
  match specs with
  | [] => (r, [])
  | s :: rest => let '(r', m) := declare r s in let '(r'', ms) := declare_all r' rest in (r'', m :: ms)
  end.

(* ---- walker dispatch: tatsu/walkers.py NodeWalker._find_walker, the per-walker-class cache and
        NodeWalker.__init_subclass__ ---- *)
(* the node classes: class name -> names of its __bases__ in order *)
Definition cgraph := list (str * list str).
Fixpoint bases_of (g : cgraph) (c : str) : list str :=
  match g with [] => [] | e :: r => if str_eqb (fst e) c then snd e else bases_of r c end.
Definition mem_str (x : str) (l : list str) : bool := existsb (str_eqb x) l.

Definition walk_pfx : str := [119; 97; 108; 107; 95]%N.                                 (* walk_ *)
Fixpoint lstrip_us (s : str) : str :=
  match s with c :: r => if N.eqb c 95 then lstrip_us r else s | [] => [] end.           (* .lstrip('_') *)
(* possible_walker_names with the prefix: walk_<Name>, walk__<pythonic>, walk_<pythonic.lstrip('_')>.
   [snake] = util.pythonize_name (regular expressions: an oracle table supplied by the harness) *)
Definition walker_names (snake : str -> str) (c : str) : list str :=
  [walk_pfx ++ c; walk_pfx ++ (95%N :: snake c); walk_pfx ++ lstrip_us (snake c)].
Definition default_names : list str :=
  [ [95; 119; 97; 108; 107; 95; 95; 100; 101; 102; 97; 117; 108; 116];                    (* _walk__default *)
    [95; 119; 97; 108; 107; 95; 100; 101; 102; 97; 117; 108; 116];                        (* _walk_default *)
    [119; 97; 108; 107; 95; 95; 100; 101; 102; 97; 117; 108; 116];                        (* walk__default *)
    [119; 97; 108; 107; 95; 100; 101; 102; 97; 117; 108; 116] ]%N.                        (* walk_default *)

(* the `while class_stack and not walker` loop.  [rs] is class_stack reversed (head = the element pop() takes);
   `class_stack = [*bases, *class_stack]` with bases filtered by `b not in class_stack` becomes rest ++ rev bases.
   [has] = `callable(getattr(walker class, name, None))`.  The loop of the code has no fuel: running out of fuel
   is reported as [Some []] (no method has the empty name). *)
Fixpoint search (fuel : nat) (g : cgraph) (snake : str -> str) (has : str -> bool) (rs : list str) {struct fuel}
  : option str :=
  match rs with
  | [] => None
  | c :: rest =>
    match fuel with
    | 0 => Some []
    | S f =>
      match find has (walker_names snake c) with
      | Some m => Some m
      | None => search f g snake has
                  (rest ++ rev (filter (fun b => negb (mem_str b rest)) (bases_of g c)))
      end
    end
  end.

(* the uncached resolution: the search, then the default methods *)
Definition resolve (fuel : nat) (g : cgraph) (snake : str -> str) (has : str -> bool) (c : str) : option str :=
  match search fuel g snake has [c] with
  | Some m => Some m
  | None => find has default_names
  end.

(* _walker_cache: node class __qualname__ -> method | None  (a dict: the newest entry of a key wins) *)
Definition wcache := list (str * option str).
Fixpoint cache_get (k : wcache) (c : str) : option (option str) :=
  match k with [] => None | e :: r => if str_eqb (fst e) c then Some (snd e) else cache_get r c end.
(* _find_walker: a cached method is returned as is (a cached None is recomputed: `if walker := cache.get(..)`) *)
Definition find_walker (fuel : nat) (g : cgraph) (snake : str -> str) (has : str -> bool) (k : wcache) (c : str)
  : option str * wcache :=
  match cache_get k c with
  | Some (Some m) => (Some m, k)
  | _ => let w := resolve fuel g snake has c in (w, (c, w) :: k)
  end.

(* histories over several walker classes: a class statement runs __init_subclass__, which gives the new class an
   EMPTY cache of its own (whatever its parent has cached); a lookup uses and updates the cache of the class of
   the walker instance.  The node class graph is part of the lookup: the cache is keyed by the class NAME, and
   two different classes of the same name (synthesized / generated) may be looked up. *)
Inductive wstep : Type :=
| WDeclare (w : N)
| WLook (w : N) (g : cgraph) (c : str).
Definition wstate := list (N * wcache).
Fixpoint cache_of (st : wstate) (w : N) : wcache :=
  match st with [] => [] | e :: r => if N.eqb (fst e) w then snd e else cache_of r w end.
Fixpoint run_walkers (fuel : nat) (snake : str -> str) (has : N -> str -> bool) (st : wstate) (steps : list wstep)
  : list (option str) :=
  match steps with
  | [] => []
  | WDeclare w :: r => run_walkers fuel snake has ((w, []) :: st) r
  | WLook w g c :: r =>
      let res := find_walker fuel g snake (has w) (cache_of st w) c in
      fst res :: run_walkers fuel snake has ((w, snd res) :: st) r
  end.
(* the lookups of a history *)
Fixpoint looks (steps : list wstep) : list (N * cgraph * str) :=
  match steps with
  | [] => []
  | WDeclare _ :: r => looks r
  | WLook w g c :: r => (w, g, c) :: looks r
  end.
(* specification side: the nearest class of a linearisation that the walker has a method for *)
Fixpoint nearest (snake : str -> str) (has : str -> bool) (mro : list str) : option str :=
  match mro with
  | [] => None
  | c :: r => match find has (walker_names snake c) with Some m => Some m | None => nearest snake has r end
  end.
