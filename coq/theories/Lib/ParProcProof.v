(* Proofs about Lib/ParProc.v: the executor loop yields every task's result exactly once for every
   schedule, terminates, agrees (as a multiset) with the sequential mode; the capture table. *)
From Coq Require Import List NArith Arith Bool Lia Permutation.
From TatsuV Require Import Lib.ParProc.
Import ListNotations.

(* ------------------------------------------------------------------ list helpers *)
Lemma map_Res_inj {R E} (a b : list R) : map (@Res R E) a = map (@Res R E) b -> a = b.
Proof.
  revert b; induction a as [|x a IH]; intros [|y b] H; cbn in H; try discriminate; [reflexivity|].
  injection H as Hx Ht. subst y. f_equal. apply IH. exact Ht.
Qed.

Lemma perm_map_Res {R E} (a b : list R) :
  Permutation (map (@Res R E) a) (map (@Res R E) b) -> Permutation a b.
Proof.
  intros H. apply Permutation_sym in H.
  destruct (Permutation_map_inv _ _ H) as [c [Hc Hp]].
  apply map_Res_inj in Hc. subst c. exact Hp.
Qed.

Section PmapProof.
  Variables T R E : Type.
  Variable process : T -> tres R E.
  Variable ki : E -> bool.

  Notation st := (st T R).
  Notation loop := (loop T R E process ki).
  Notation refill := (refill T R).
  Notation yield := (yield T R).
  Notation remove_nth := (remove_nth T).

  Lemma loop_S fuel sched (s : st) :
    loop (S fuel) sched s =
      match snap s with
      | [] =>
        match fresh s with
        | [] => (Done, s)
        | _ :: _ => loop fuel sched (mkSt (fresh s) [] (rest s) (out s) (evs s ++ [ESnap (fresh s)]))
        end
      | d :: _ =>
        let i := Nat.modulo (hd 0 sched) (length (snap s)) in
        let t := nth i (snap s) d in
        match process t with
        | Res v => loop fuel (tl sched) (yield v (refill false (remove_nth i (snap s)) s))
        | Fail e => (if ki e then Interrupted else Raised e, refill (ki e) (remove_nth i (snap s)) s)
        end
      end.
  Proof. reflexivity. Qed.

  Lemma remove_nth_cons a (l : list T) i : remove_nth (S i) (a :: l) = a :: remove_nth i l.
  Proof. reflexivity. Qed.

  Lemma remove_nth_perm : forall (l : list T) i d,
    i < length l -> Permutation l (nth i l d :: remove_nth i l).
  Proof.
    induction l as [|a l IH]; intros i d Hi; cbn [length] in Hi; [lia|].
    destruct i as [|i].
    - cbn. apply Permutation_refl.
    - rewrite remove_nth_cons. cbn [nth].
      eapply perm_trans; [apply perm_skip; apply (IH i d); lia | apply perm_swap].
  Qed.

  Lemma refill_snap b sn (s : st) : snap (refill b sn s) = sn.
  Proof. unfold ParProc.refill. destruct b; [reflexivity|]. destruct (rest s); reflexivity. Qed.

  Lemma refill_out b sn (s : st) : out (refill b sn s) = out s.
  Proof. unfold ParProc.refill. destruct b; [reflexivity|]. destruct (rest s); reflexivity. Qed.

  Lemma refill_fr b sn (s : st) :
    fresh (refill b sn s) ++ rest (refill b sn s) = fresh s ++ rest s.
  Proof.
    unfold ParProc.refill. destruct b; [reflexivity|]. destruct (rest s) as [|x xs] eqn:Er; cbn.
    - reflexivity.
    - rewrite <- app_assoc. reflexivity.
  Qed.

  (* after a refill that was not suppressed, something is pending whenever something is unsubmitted *)
  Lemma refill_live sn (s : st) : rest (refill false sn s) <> [] -> fresh (refill false sn s) <> [].
  Proof.
    unfold ParProc.refill. destruct (rest s) as [|x xs]; cbn; [intros H; exact (False_ind _ (H eq_refl))|].
    intros _ H. destruct (fresh s); discriminate.
  Qed.

  (* termination measure: twice (pending + unsubmitted), plus one when a new snapshot is due *)
  Definition measure (s : st) : nat :=
    2 * (length (snap s) + length (fresh s) + length (rest s))
    + match snap s with [] => 1 | _ :: _ => 0 end.

  Section WithTasks.
    Variable tasks : list T.

    (* ys: the tasks whose results were yielded, in yield order *)
    Definition Inv (ys : list T) (s : st) : Prop :=
      Permutation (ys ++ snap s ++ fresh s ++ rest s) tasks
      /\ map process ys = map Res (out s)
      /\ (rest s <> [] -> snap s ++ fresh s <> []).

    Definition Post (r : ending E * st) : Prop :=
      match fst r with
      | Done => exists ys, Permutation ys tasks /\ map process ys = map Res (out (snd r))
      | Raised e =>
          ki e = false /\
          exists ys t others, Permutation (ys ++ t :: others) tasks
                              /\ map process ys = map Res (out (snd r)) /\ process t = Fail e
      | Interrupted =>
          exists e, ki e = true /\
          exists ys t others, Permutation (ys ++ t :: others) tasks
                              /\ map process ys = map Res (out (snd r)) /\ process t = Fail e
      | OutOfFuel => False
      end.

    Lemma loop_post : forall fuel sched (s : st) ys,
      Inv ys s -> measure s < fuel -> Post (loop fuel sched s).
    Proof.
      induction fuel as [|fuel IH]; intros sched s ys HI Hm; [lia|].
      rewrite loop_S. destruct HI as (HP & HO & HL).
      destruct (snap s) as [|d sn] eqn:Es.
      - destruct (fresh s) as [|f fr] eqn:Ef.
        + (* while futures: false *)
          unfold Post. cbn [fst snd]. exists ys. split; [|exact HO].
          destruct (rest s) as [|x xs] eqn:Er.
          * cbn in HP. rewrite app_nil_r in HP. exact HP.
          * exfalso. apply HL; [discriminate | reflexivity].
        + (* a new as_completed snapshot *)
          apply (IH sched _ ys).
          * unfold Inv. cbn [snap fresh rest out]. repeat split.
            -- cbn [List.app] in HP |- *. exact HP.
            -- exact HO.
            -- intros _. discriminate.
          * unfold measure in *. cbn [snap fresh rest length] in *. rewrite Es, Ef in Hm. cbn [length] in Hm. lia.
      - set (l := d :: sn) in *.
        set (i := Nat.modulo (hd 0 sched) (length l)).
        assert (Hi : i < length l) by (apply Nat.mod_upper_bound; subst l; cbn; lia).
        pose proof (remove_nth_perm l i d Hi) as Hperm.
        cbv zeta. fold i.
        set (t := nth i l d) in *.
        assert (Hlen : length l = S (length (remove_nth i l))).
        { apply Permutation_length in Hperm. exact Hperm. }
        destruct (process t) as [v|e] eqn:Ept.
        + (* the result is yielded; the loop goes on *)
          apply (IH (tl sched) _ (ys ++ [t])).
          * unfold Inv, ParProc.yield. cbn [snap fresh rest out].
            rewrite refill_snap, refill_out. repeat split.
            -- rewrite (refill_fr false). rewrite <- app_assoc. cbn [List.app].
               eapply perm_trans; [|exact HP].
               apply Permutation_app_head.
               apply Permutation_sym.
               eapply perm_trans; [apply Permutation_app_tail; exact Hperm|].
               cbn [List.app]. apply Permutation_refl.
            -- rewrite !map_app. cbn [map]. rewrite HO, Ept. reflexivity.
            -- intros Hr. apply refill_live in Hr. intros Hc. apply app_eq_nil in Hc. destruct Hc as [_ Hc]. exact (Hr Hc).
          * unfold measure, ParProc.yield in *. cbn [snap fresh rest] in *.
            rewrite refill_snap.
            pose proof (f_equal (@length T) (refill_fr false (remove_nth i l) s)) as Hfr.
            rewrite !app_length in Hfr. rewrite Es in Hm. fold l in Hm.
            destruct (remove_nth i l); cbn [length] in *; lia.
        + (* the future raises: the generator ends here *)
          unfold Post. cbn [fst snd]. rewrite refill_out.
          assert (HX : exists ys0 t0 others, Permutation (ys0 ++ t0 :: others) tasks
                                        /\ map process ys0 = map Res (out s) /\ process t0 = Fail e).
          { exists ys, t, (remove_nth i l ++ fresh s ++ rest s). repeat split; [|exact HO|exact Ept].
            eapply perm_trans; [|exact HP]. apply Permutation_app_head.
            apply Permutation_sym.
            eapply perm_trans; [apply Permutation_app_tail; exact Hperm|]. apply Permutation_refl. }
          destruct (ki e) eqn:Ek; cbn [fst].
          * exists e. split; [exact Ek | exact HX].
          * split; [exact Ek | exact HX].
    Qed.
  End WithTasks.

  Notation executor_pmap := (executor_pmap T R E process ki).

  Lemma firstn_window_nonnil mw (a : T) l : firstn (window mw) (a :: l) <> [].
  Proof. unfold window. cbn. discriminate. Qed.

  (* every run of executor_pmap, whatever the schedule, ends in a state described by Post *)
  Theorem pmap_post procpool mw tasks sched : Post tasks (executor_pmap procpool mw tasks sched).
  Proof.
    unfold ParProc.executor_pmap. destruct tasks as [|a l] eqn:Et.
    - unfold Post. cbn. exists []. split; [apply Permutation_refl | reflexivity].
    - rewrite <- Et. apply (loop_post tasks _ sched _ []).
      + unfold Inv. cbn [snap fresh rest out List.app map]. repeat split.
        * destruct procpool; [rewrite firstn_skipn | rewrite app_nil_r]; apply Permutation_refl.
        * destruct procpool; intros H Hc.
          -- rewrite Et in Hc. exact (firstn_window_nonnil mw a l Hc).
          -- exact (H eq_refl).
      + unfold measure. cbn [snap fresh rest length].
        assert (Hl : length (if procpool then firstn (window mw) tasks else tasks)
                     + length (if procpool then skipn (window mw) tasks else []) = length tasks).
        { destruct procpool; [rewrite <- app_length, firstn_skipn | cbn]; lia. }
        lia.
  Qed.

  (* the fuel passed by executor_pmap always suffices *)
  Theorem pmap_terminates procpool mw tasks sched :
    fst (executor_pmap procpool mw tasks sched) <> OutOfFuel.
  Proof.
    pose proof (pmap_post procpool mw tasks sched) as H. unfold Post in H.
    intros Hc. rewrite Hc in H. exact H.
  Qed.

  (* exactly once: when no task's exception leaves `process`, the loop ends normally and the yielded
     results are a permutation of the tasks' results *)
  Theorem pmap_exactly_once procpool mw tasks sched rs :
    map process tasks = map Res rs ->
    fst (executor_pmap procpool mw tasks sched) = Done
    /\ Permutation (out (snd (executor_pmap procpool mw tasks sched))) rs.
  Proof.
    intros Hall.
    assert (Hno : forall t e, In t tasks -> process t <> Fail e).
    { intros t e Hin Hf. apply (in_map process) in Hin. rewrite Hall, Hf in Hin.
      apply in_map_iff in Hin. destruct Hin as [x [Hx _]]. discriminate. }
    pose proof (pmap_post procpool mw tasks sched) as H. unfold Post in H.
    destruct (fst (executor_pmap procpool mw tasks sched)) eqn:Ef.
    - split; [reflexivity|]. destruct H as [ys [Hp Ho]].
      apply (@perm_map_Res R E). rewrite <- Ho, <- Hall. apply Permutation_map. exact Hp.
    - exfalso. destruct H as [_ [ys [t [others [Hp [_ Hf]]]]]].
      apply (Hno t e); [|exact Hf]. eapply Permutation_in; [exact Hp|]. apply in_or_app. right. left. reflexivity.
    - exfalso. destruct H as [e [_ [ys [t [others [Hp [_ Hf]]]]]]].
      apply (Hno t e); [|exact Hf]. eapply Permutation_in; [exact Hp|]. apply in_or_app. right. left. reflexivity.
    - contradiction.
  Qed.

  (* when a future raises (the generator ends: it re-raises, or returns after a KeyboardInterrupt), what was
     yielded before is still one result per task, of pairwise different tasks, and the culprit is a task *)
  Theorem pmap_abort_no_dup procpool mw tasks sched :
    fst (executor_pmap procpool mw tasks sched) <> Done ->
    exists e ys t others,
      Permutation (ys ++ t :: others) tasks
      /\ map process ys = map Res (out (snd (executor_pmap procpool mw tasks sched)))
      /\ process t = Fail e
      /\ fst (executor_pmap procpool mw tasks sched) = (if ki e then Interrupted else Raised e).
  Proof.
    intros Hf. pose proof (pmap_post procpool mw tasks sched) as H. unfold Post in H.
    destruct (fst (executor_pmap procpool mw tasks sched)) as [|e| |] eqn:Ef.
    - exfalso. apply Hf. reflexivity.
    - destruct H as [Hk [ys [t [others [Hp [Ho Hpt]]]]]].
      exists e, ys, t, others. rewrite Hk. repeat split; assumption.
    - destruct H as [e [Hk [ys [t [others [Hp [Ho Hpt]]]]]]].
      exists e, ys, t, others. rewrite Hk. repeat split; assumption.
    - contradiction.
  Qed.

  (* ---- the submission window: never more than [W] futures pending *)
  Lemma remove_nth_length : forall (l : list T) i, i < length l -> S (length (remove_nth i l)) = length l.
  Proof.
    induction l as [|a l IH]; intros i Hi; cbn [length] in Hi; [lia|].
    destruct i as [|i]; [reflexivity|].
    rewrite remove_nth_cons. cbn [length]. rewrite (IH i); [reflexivity | lia].
  Qed.

  Definition ev_ok (W : nat) (e : event T R) : Prop :=
    match e with
    | ESnap l => length l <= W
    | ESubmit _ l => S (length l) <= W
    | _ => True
    end.

  Definition WInv (W : nat) (s : st) : Prop :=
    Forall (ev_ok W) (evs s) /\ length (snap s) + length (fresh s) <= W.

  Lemma refill_winv W b i (s : st) :
    i < length (snap s) -> WInv W s -> WInv W (refill b (remove_nth i (snap s)) s).
  Proof.
    intros Hi [Hev Hlen]. pose proof (remove_nth_length (snap s) i Hi) as Hl.
    unfold WInv, ParProc.refill. destruct b; [cbn [snap fresh evs]; split; [exact Hev | lia]|].
    destruct (rest s) as [|x xs]; cbn [snap fresh evs]; [split; [exact Hev | lia]|].
    split.
    - apply Forall_app. split; [exact Hev|]. constructor; [|constructor].
      cbn [ev_ok]. rewrite app_length. lia.
    - rewrite app_length. cbn [length]. lia.
  Qed.

  Lemma loop_winv W : forall fuel sched (s : st), WInv W s -> WInv W (snd (loop fuel sched s)).
  Proof.
    induction fuel as [|fuel IH]; intros sched s HW; [exact HW|].
    rewrite loop_S. destruct (snap s) as [|d sn] eqn:Es.
    - destruct (fresh s) as [|f fr] eqn:Ef; [exact HW|].
      apply IH. destruct HW as [Hev Hlen]. unfold WInv. cbn [snap fresh evs]. rewrite Es, Ef in Hlen. split.
      + apply Forall_app. split; [exact Hev|]. constructor; [|constructor]. cbn [ev_ok length] in *. lia.
      + cbn [length] in *. lia.
    - cbv zeta. rewrite <- Es.
      assert (Hi : Nat.modulo (hd 0 sched) (length (snap s)) < length (snap s))
        by (apply Nat.mod_upper_bound; rewrite Es; cbn; lia).
      set (i := Nat.modulo (hd 0 sched) (length (snap s))) in *.
      destruct (process (nth i (snap s) d)) as [v|e].
      + apply IH. pose proof (refill_winv W false i s Hi HW) as [Hev Hlen].
        unfold WInv, ParProc.yield. cbn [snap fresh evs]. split; [|exact Hlen].
        apply Forall_app. split; [exact Hev|]. constructor; [exact I | constructor].
      + cbn [snd]. apply refill_winv; assumption.
  Qed.

  Theorem pmap_window_bound mw tasks sched :
    Forall (ev_ok (window mw)) (evs (snd (executor_pmap true mw tasks sched))).
  Proof.
    unfold ParProc.executor_pmap. destruct tasks as [|a l] eqn:Et; [constructor|]. rewrite <- Et.
    apply loop_winv. unfold WInv. cbn [snap fresh evs length]. split.
    - apply Forall_forall. intros e He. apply in_map_iff in He. destruct He as [x [<- _]]. exact I.
    - apply firstn_le_length.
  Qed.

  (* ---- the sequential mode *)
  Notation seq_map := (seq_map T R E process).

  Lemma seq_map_all tasks : forall rs acc,
    map process tasks = map Res rs -> seq_map tasks acc = (Done, acc ++ rs).
  Proof.
    induction tasks as [|t ts IH]; intros rs acc H.
    - destruct rs; [|discriminate]. cbn. rewrite app_nil_r. reflexivity.
    - destruct rs as [|r rs]; [discriminate|]. cbn in H. injection H as Ht Hts.
      cbn. rewrite Ht. rewrite (IH rs (acc ++ [r]) Hts). rewrite <- app_assoc. reflexivity.
  Qed.

  Lemma seq_map_prefix tasks : forall acc e out,
    seq_map tasks acc = (Raised e, out) ->
    exists pre t post rs, tasks = pre ++ t :: post /\ map process pre = map Res rs
                          /\ process t = Fail e /\ out = acc ++ rs.
  Proof.
    induction tasks as [|t ts IH]; intros acc e o H; cbn in H; [discriminate|].
    destruct (process t) as [v|e'] eqn:Ep.
    - destruct (IH _ _ _ H) as (pre & t' & post & rs & -> & Hpre & Hf & ->).
      exists (t :: pre), t', post, (v :: rs). cbn. rewrite Ep, Hpre, <- app_assoc. repeat split. exact Hf.
    - injection H as <- <-. exists [], t, ts, []. cbn. rewrite app_nil_r. repeat split. exact Ep.
  Qed.

  Theorem pmap_same_as_sequential procpool mw tasks sched rs :
    map process tasks = map Res rs ->
    seq_map tasks [] = (Done, rs)
    /\ Permutation (out (snd (executor_pmap procpool mw tasks sched))) (snd (seq_map tasks [])).
  Proof.
    intros H. rewrite (seq_map_all tasks rs [] H). cbn [List.app snd]. split; [reflexivity|].
    apply pmap_exactly_once. exact H.
  Qed.
End PmapProof.

(* ------------------------------------------------------------------ the capture table *)
(* closed form of taskproc's decision: is the exception e stored in the Result (true) or does it leave
   taskproc (false)? *)
Definition captured (e : exc) (reraise : bool) (raises : list N) : bool :=
  negb (isa e C_KeyboardInterrupt)
  && negb (isa e C_RuntimeError)
  && (isa e C_Exception || isa e C_RecursionError)
  && negb reraise
  && (is_nil raises || existsb (isa e) raises).

Theorem capture_table (t : task) :
  taskproc false t =
    match call t with
    | Ret v => Res (mkResult (t_payload t) (Some v) None)
    | Exc e => if captured e (t_reraise t) (t_raises t)
               then Res (mkResult (t_payload t) None (Some e))
               else Fail e
    end.
Proof.
  unfold taskproc, captured. destruct (call t) as [v|e]; [reflexivity|].
  destruct (isa e C_KeyboardInterrupt); [reflexivity|].
  destruct (isa e C_RuntimeError); [reflexivity|].
  destruct (isa e C_Exception || isa e C_RecursionError); [|reflexivity].
  destruct (t_reraise t); [reflexivity|].
  destruct (is_nil (t_raises t)); [reflexivity|].
  destruct (existsb (isa e) (t_raises t)); reflexivity.
Qed.

Theorem stop_set_result (t : task) :
  taskproc true t = Res (mkResult (t_payload t) None (Some mro_InterruptedError)).
Proof. reflexivity. Qed.

(* a class hierarchy fact of Python supplied as a hypothesis: RecursionError is a RuntimeError *)
Definition wf_exc (e : exc) : Prop := isa e C_RecursionError = true -> isa e C_RuntimeError = true.

Theorem capture_rows (e : exc) (reraise : bool) (raises : list N) :
  (* never captured *)
  (isa e C_KeyboardInterrupt = true -> captured e reraise raises = false)
  /\ (isa e C_RuntimeError = true -> captured e reraise raises = false)
  /\ (wf_exc e -> isa e C_RecursionError = true -> captured e reraise raises = false)
  /\ (isa e C_Exception = false -> wf_exc e -> captured e reraise raises = false)
  /\ (reraise = true -> captured e reraise raises = false)
  /\ (raises <> [] -> (forall c, In c raises -> isa e c = false) -> captured e reraise raises = false)
  (* captured *)
  /\ (isa e C_KeyboardInterrupt = false -> isa e C_RuntimeError = false -> isa e C_Exception = true ->
      reraise = false -> (raises = [] \/ exists c, In c raises /\ isa e c = true) ->
      captured e reraise raises = true).
Proof.
  unfold captured, wf_exc. repeat split.
  - intros ->. reflexivity.
  - intros ->. rewrite andb_false_r. reflexivity.
  - intros Hw Hr. rewrite (Hw Hr). rewrite andb_false_r. reflexivity.
  - intros He Hw. destruct (isa e C_RecursionError) eqn:Er.
    + rewrite (Hw eq_refl). rewrite andb_false_r. reflexivity.
    + rewrite He. cbn. rewrite andb_false_r. reflexivity.
  - intros ->. cbn. rewrite andb_false_r. reflexivity.
  - intros Hne Hall. destruct raises as [|c cs]; [exfalso; exact (Hne eq_refl)|].
    assert (Hex : existsb (isa e) (c :: cs) = false).
    { apply not_true_is_false. intros Hex. apply existsb_exists in Hex. destruct Hex as [x [Hx Hi]].
      rewrite (Hall x Hx) in Hi. discriminate. }
    rewrite Hex. cbn [is_nil orb]. rewrite andb_false_r. reflexivity.
  - intros -> -> -> -> Hr. cbn. destruct Hr as [->|[c [Hc Hi]]]; [reflexivity|].
    assert (Hex : existsb (isa e) raises = true) by (apply existsb_exists; exists c; split; assumption).
    rewrite Hex. rewrite orb_true_r. reflexivity.
Qed.

(* ------------------------------------------------------------------ parproc *)
Definition result_of_captured (t : task) (e : exc) : result := mkResult (t_payload t) None (Some e).

Theorem parproc_exactly_once (parallel threads : bool) (mw cpu : nat) (tasks : list task)
        (sched : list nat) (rs : list result) :
  map (taskproc false) tasks = map Res rs ->
  exists out, parproc parallel threads mw cpu tasks sched = (Done, out)
              /\ Permutation out rs
              /\ (parallel = false \/ length tasks = 1 -> out = rs).
Proof.
  intros H. unfold parproc.
  assert (Hseq : seq_map task result exc (taskproc false) tasks [] = (Done, rs))
    by (apply (seq_map_all task result exc (taskproc false) tasks rs [] H)).
  assert (Hpar : forall th, exists o,
             (let '(e, s) := pmap_tasks th mw cpu tasks sched in (e, out s)) = (Done, o)
             /\ Permutation o rs).
  { intros th. unfold pmap_tasks.
    destruct (pmap_exactly_once task result exc (taskproc false) is_ki (negb th) (pmap_workers mw cpu)
                                tasks sched rs H) as [Hd Hp].
    destruct (executor_pmap task result exc (taskproc false) is_ki (negb th) (pmap_workers mw cpu) tasks sched)
      as [e s]. cbn [fst snd] in *. subst e. exists (out s). split; [reflexivity | exact Hp]. }
  destruct tasks as [|t [|t2 ts]].
  - destruct rs; [|discriminate]. destruct parallel.
    + destruct (Hpar threads) as [o [Ho Hp]]. exists o. repeat split; [exact Ho | exact Hp |].
      intros [Hc|Hc]; [discriminate | cbn in Hc; discriminate].
    + exists []. rewrite Hseq. repeat split. apply Permutation_refl.
  - destruct rs as [|r [|r2 rs]]; try discriminate. cbn [map] in H.
    remember (taskproc false t) as x eqn:Ex. injection H as Ht.
    rewrite Ht. exists [r]. repeat split. apply Permutation_refl.
  - destruct parallel.
    + destruct (Hpar threads) as [o [Ho Hp]]. exists o. repeat split; [exact Ho | exact Hp |].
      intros [Hc|Hc]; [discriminate | cbn in Hc; discriminate].
    + exists rs. rewrite Hseq. repeat split. apply Permutation_refl.
Qed.

Theorem parproc_terminates (parallel threads : bool) (mw cpu : nat) (tasks : list task) (sched : list nat) :
  fst (parproc parallel threads mw cpu tasks sched) <> OutOfFuel.
Proof.
  unfold parproc.
  assert (Hpar : fst (let '(e, s) := pmap_tasks threads mw cpu tasks sched in (e, out s)) <> OutOfFuel).
  { unfold pmap_tasks.
    pose proof (pmap_terminates task result exc (taskproc false) is_ki (negb threads) (pmap_workers mw cpu)
                                tasks sched) as Ht.
    destruct (executor_pmap task result exc (taskproc false) is_ki (negb threads) (pmap_workers mw cpu) tasks sched)
      as [e s]. exact Ht. }
  assert (Hseq : forall l acc, fst (seq_map task result exc (taskproc false) l acc) <> OutOfFuel).
  { induction l as [|t l IH]; intros acc; cbn [ParProc.seq_map]; [cbn; discriminate|].
    destruct (taskproc false t); [apply IH | cbn; discriminate]. }
  destruct tasks as [|t [|t2 ts]].
  - destruct parallel; [exact Hpar | apply Hseq].
  - destruct (taskproc false t); cbn; discriminate.
  - destruct parallel; [exact Hpar | apply Hseq].
Qed.

(* parallel and sequential modes (and both executors) yield the same multiset *)
Theorem parproc_same_as_sequential (threads threads' : bool) (mw mw' cpu cpu' : nat) (tasks : list task)
        (sched sched' : list nat) (rs : list result) :
  map (taskproc false) tasks = map Res rs ->
  parproc false threads' mw' cpu' tasks sched' = (Done, rs)
  /\ fst (parproc true threads mw cpu tasks sched) = Done
  /\ Permutation (snd (parproc true threads mw cpu tasks sched)) (snd (parproc false threads' mw' cpu' tasks sched')).
Proof.
  intros H.
  destruct (parproc_exactly_once false threads' mw' cpu' tasks sched' rs H) as [o1 [H1 [_ E1]]].
  rewrite (E1 (or_introl eq_refl)) in H1.
  destruct (parproc_exactly_once true threads mw cpu tasks sched rs H) as [o2 [H2 [P2 _]]].
  rewrite H1, H2. cbn [fst snd]. repeat split. exact P2.
Qed.

(* a captured exception is one result carrying it; the results of the other tasks are what they are
   without that task *)
Theorem captured_exception_is_a_result (parallel threads : bool) (mw cpu : nat)
        (l1 l2 : list task) (t : task) (e : exc) (rs1 rs2 : list result) (sched sched' : list nat) :
  call t = Exc e -> captured e (t_reraise t) (t_raises t) = true ->
  map (taskproc false) l1 = map Res rs1 -> map (taskproc false) l2 = map Res rs2 ->
  exists out out',
    parproc parallel threads mw cpu (l1 ++ t :: l2) sched = (Done, out)
    /\ parproc parallel threads mw cpu (l1 ++ l2) sched' = (Done, out')
    /\ Permutation out (rs1 ++ result_of_captured t e :: rs2)
    /\ Permutation out' (rs1 ++ rs2)
    /\ Permutation out (result_of_captured t e :: out').
Proof.
  intros Hc Hcap H1 H2.
  assert (Ht : taskproc false t = Res (result_of_captured t e)).
  { rewrite capture_table, Hc, Hcap. reflexivity. }
  assert (Ha : map (taskproc false) (l1 ++ t :: l2) = map Res (rs1 ++ result_of_captured t e :: rs2)).
  { rewrite !map_app. cbn [map]. rewrite H1, H2, Ht. reflexivity. }
  assert (Hb : map (taskproc false) (l1 ++ l2) = map Res (rs1 ++ rs2)).
  { rewrite !map_app, H1, H2. reflexivity. }
  destruct (parproc_exactly_once parallel threads mw cpu _ sched _ Ha) as [o [Ho [Po _]]].
  destruct (parproc_exactly_once parallel threads mw cpu _ sched' _ Hb) as [o' [Ho' [Po' _]]].
  exists o, o'. repeat split; try assumption.
  eapply perm_trans; [exact Po|]. apply Permutation_sym.
  eapply perm_trans; [apply perm_skip; exact Po'|]. apply Permutation_middle.
Qed.
