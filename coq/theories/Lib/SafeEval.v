(* C17 - model of tatsu/util/safeeval.py and of the interpolation loop of contexts/engine.py:constant.
   (i)   safe_builtins(): the filter over the interpreter's builtin table (table, deny list, prefix and
         suffix rules, kind tests are data: coq/gen/SafeEvalGen.v, written by harness/translate/t_safeeval.py);
   (ii)  Python expression ASTs as a tagged rose tree with the fields the checker reads, [check] =
         _check_safe_eval_cached + check_eval_context;
   (iii) a capability semantics (names resolve in the context only, values carry the capabilities that
         were loaded by name, reflective attributes may yield anything);
   (iv)  the interpolation loop of ParseContext.constant, with trim / literal_eval / is_eval_safe /
         safe_eval as oracles (Section variables).
   No proofs here (SafeEvalProof.v). *)
From Coq Require Import List NArith Bool.
From TatsuV Require Import Base.PyStr.
Import ListNotations.
Local Open Scope N_scope.

(* ------------------------------------------------------------------ small string helpers *)
Definition mem (x : str) (l : list str) : bool := existsb (str_eqb x) l.

Definition endswith (suf s : str) : bool := startswith (rev suf) (rev s).

(* ------------------------------------------------------------------ (i) the builtin filter *)
Record entry := mkEntry {
  e_name : str;
  e_type : bool;       (* isinstance(value, type) *)
  e_exc : bool;        (* isinstance(value, BaseException) *)
  e_callable : bool    (* callable(value) *)
}.

Record filter_cfg := mkCfg {
  f_deny : list str;       (* unsafe_builtins *)
  f_prefixes : list str;   (* name.startswith(p) *)
  f_suffixes : list str;   (* name.endswith(s) *)
  f_by_type : bool;        (* isinstance(value, type | ...) present *)
  f_by_exc : bool          (* isinstance(value, ... | BaseException) present *)
}.

(* is_unsafe_builtin_entry *)
Definition unsafe (c : filter_cfg) (e : entry) : bool :=
  mem (e_name e) (f_deny c)
  || existsb (fun p => startswith p (e_name e)) (f_prefixes c)
  || existsb (fun s => endswith s (e_name e)) (f_suffixes c)
  || (f_by_type c && e_type e)
  || (f_by_exc c && e_exc e).

Definition safe_builtins (c : filter_cfg) (table : list entry) : list entry :=
  filter (fun e => negb (unsafe c e)) table.

Definition safe_names (c : filter_cfg) (table : list entry) : list str :=
  map e_name (safe_builtins c table).

(* the capabilities the property names: open eval exec compile input exit quit help breakpoint
   __import__ getattr setattr delattr globals locals vars memoryview type object super *)
Definition dangerous : list str := [
  [111;112;101;110];                         (* open *)
  [101;118;97;108];                          (* eval *)
  [101;120;101;99];                          (* exec *)
  [99;111;109;112;105;108;101];              (* compile *)
  [105;110;112;117;116];                     (* input *)
  [101;120;105;116];                         (* exit *)
  [113;117;105;116];                         (* quit *)
  [104;101;108;112];                         (* help *)
  [98;114;101;97;107;112;111;105;110;116];   (* breakpoint *)
  [95;95;105;109;112;111;114;116;95;95];     (* __import__ *)
  [103;101;116;97;116;116;114];              (* getattr *)
  [115;101;116;97;116;116;114];              (* setattr *)
  [100;101;108;97;116;116;114];              (* delattr *)
  [103;108;111;98;97;108;115];               (* globals *)
  [108;111;99;97;108;115];                   (* locals *)
  [118;97;114;115];                          (* vars *)
  [109;101;109;111;114;121;118;105;101;119]; (* memoryview *)
  [116;121;112;101];                         (* type *)
  [111;98;106;101;99;116];                   (* object *)
  [115;117;112;101;114]                      (* super *)
].

(* names of the filtered table that are dangerous *)
Definition leaks (c : filter_cfg) (table : list entry) : list str :=
  filter (fun n => mem n dangerous) (safe_names c table).

(* the decidable form of "every dangerous safe name is excused" *)
Definition no_dangerous_except (excused : list str) (c : filter_cfg) (table : list entry) : bool :=
  forallb (fun n => negb (mem n dangerous) || mem n excused) (safe_names c table).

(* the deny list shipped at the pinned commit (693ce06) and the part of the CPython 3.12 builtin table that
   matters for the refutation: eight callables that are neither types nor exceptions *)
Definition pinned_cfg : filter_cfg := mkCfg
  [ [98;114;101;97;107;112;111;105;110;116]; [103;101;116;97;116;116;114]; [104;97;115;97;116;116;114];
    [115;101;116;97;116;116;114]; [100;105;114]; [103;108;111;98;97;108;115]; [105;100]; [108;111;99;97;108;115];
    [118;97;114;115]; [111;98;106;101;99;116]; [112;114;111;112;101;114;116;121];
    [115;116;97;116;105;99;109;101;116;104;111;100]; [115;117;112;101;114]; [116;121;112;101];
    [105;115;105;110;115;116;97;110;99;101]; [105;115;115;117;98;99;108;97;115;115]; [97;105;116;101;114];
    [97;110;101;120;116]; [98;121;116;101;97;114;114;97;121]; [109;101;109;111;114;121;118;105;101;119];
    [99;111;112;121;114;105;103;104;116]; [99;114;101;100;105;116;115]; [100;105;115;112;108;97;121];
    [108;105;99;101;110;115;101]; [100;105;99;116] ]
  [ [95] ] [ [69;114;114;111;114]; [87;97;114;110;105;110;103] ] true true.

Definition pinned_table_fragment : list entry := [
  mkEntry [111;112;101;110] false false true;            (* open *)
  mkEntry [101;118;97;108] false false true;             (* eval *)
  mkEntry [101;120;101;99] false false true;             (* exec *)
  mkEntry [99;111;109;112;105;108;101] false false true; (* compile *)
  mkEntry [105;110;112;117;116] false false true;        (* input *)
  mkEntry [101;120;105;116] false false true;            (* exit *)
  mkEntry [113;117;105;116] false false true;            (* quit *)
  mkEntry [104;101;108;112] false false true;            (* help *)
  mkEntry [100;101;108;97;116;116;114] false false true; (* delattr *)
  mkEntry [116;121;112;101] true false true;             (* type *)
  mkEntry [95;95;105;109;112;111;114;116;95;95] false false true; (* __import__ *)
  mkEntry [108;101;110] false false true                 (* len *)
].

(* ------------------------------------------------------------------ (ii) expressions and the checker *)
(* ast.walk visits every node; the checker tests Name (id, ctx is Load), Attribute (attr), Call (func,
   len(args)), Raise/Try/ExceptHandler; every other node class is [EOther]. *)
Inductive expr :=
| EName (id : str) (load : bool)
| EAttr (attr : str) (value : expr)
| ECall (func : expr) (args : exprs) (kws : exprs)
| EForbid (kids : exprs)
| EOther (kids : exprs)
with exprs :=
| ENil
| ECons (e : expr) (tl : exprs).

Fixpoint elength (l : exprs) : nat :=
  match l with ENil => O | ECons _ tl => S (elength tl) end.

(* one entry of the evaluation context as check_eval_context sees it *)
Record centry := mkCentry {
  c_key : str;
  c_callable : bool;
  c_lambda : bool;               (* getattr(obj, '__name__', None) == '<lambda>' *)
  c_realname : option str;       (* truthy __name__ of a callable *)
  c_hasexc : bool;               (* scan_for_exceptions finds an exception class/instance inside *)
  c_cap : option str             (* Some n: the value is the builtin n (a capability); None: data *)
}.

Definition keys (ctx : list centry) : list str := map c_key ctx.

Definition dunder : str := [95; 95].

(* check_eval_context (sbuiltins = names of safe_builtins()) *)
Definition check_centry (sbuiltins : list str) (c : centry) : bool :=
  negb (c_hasexc c)
  && negb (startswith dunder (c_key c))
  && (negb (c_callable c)
      || (negb (c_lambda c)
          && match c_realname c with
             | None => true
             | Some r => str_eqb r (c_key c) || mem (c_key c) sbuiltins
             end)).

Definition check_context (sbuiltins : list str) (ctx : list centry) : bool :=
  forallb (check_centry sbuiltins) ctx.

(* the Attribute test: node.attr.startswith('__') [or node.attr in <blocked>] *)
Definition attr_blocked (blocked : list str) (a : str) : bool :=
  startswith dunder a || mem a blocked.

Definition argcount_ok (argcounts : list (str * nat)) (id : str) (n : nat) : bool :=
  forallb (fun p => negb (str_eqb (fst p) id) || Nat.eqb (snd p) n) argcounts.

Section Checker.
  Variable blocked : list str.
  Variable argcounts : list (str * nat).
  Variable ks : list str.   (* keys of the context *)

  Fixpoint check_expr (e : expr) : bool :=
    match e with
    | EName id load => negb load || mem id ks
    | EAttr a v => negb (attr_blocked blocked a) && check_expr v
    | ECall f args kws =>
        match f with
        | EName id _ => mem id ks && argcount_ok argcounts id (elength args)
        | EAttr _ _ => true
        | _ => false
        end
        && check_expr f && check_exprs args && check_exprs kws
    | EForbid _ => false
    | EOther kids => check_exprs kids
    end
  with check_exprs (l : exprs) : bool :=
    match l with
    | ENil => true
    | ECons x tl => check_expr x && check_exprs tl
    end.
End Checker.

(* is_eval_safe(expression, context) for an expression that parses (parse failure: rejected) *)
Definition check (blocked : list str) (argcounts : list (str * nat)) (sbuiltins : list str)
           (ctx : list centry) (e : option expr) : bool :=
  check_context sbuiltins ctx
  && match e with
     | None => false
     | Some e => check_expr blocked argcounts (keys ctx) e
     end.

(* the context ParseContext.constant builds: safe_builtins() | semantics.safe_context() | self.ast, later
   entries overriding earlier ones (dict union). *)
Definition builtin_centry (e : entry) : centry :=
  mkCentry (e_name e) (e_callable e) false
           (if e_callable e then Some (e_name e) else None) false (Some (e_name e)).

Definition override (base over : list centry) : list centry :=
  filter (fun c => negb (mem (c_key c) (keys over))) base ++ over.

Definition constant_context (c : filter_cfg) (table : list entry) (extra astvals : list centry) : list centry :=
  override (override (map builtin_centry (safe_builtins c table)) extra) astvals.

(* ------------------------------------------------------------------ (iii) capability semantics *)
(* Values are data or carry capabilities (builtins reachable by name).  eval(expression, {'__builtins__': {}},
   context): a name resolves in the context or not at all.  Any capability loaded anywhere in the expression
   may flow to any call site (lambda parameters, comprehension variables, walrus targets, key= callbacks), so
   a call may invoke every capability of the pool.  An attribute whose name is reflective (dunder, frame /
   generator / code introspection, str.format field lookups) may yield any object of the interpreter. *)
Inductive event :=
| Invoke (cap : str)       (* the builtin [cap] may be called *)
| Reach (attr : str).      (* a reflective attribute is read: anything is reachable *)

(* gi_frame gi_code gi_yieldfrom cr_frame cr_code ag_frame ag_code tb_frame tb_next f_back f_builtins f_code
   f_globals f_locals format format_map *)
Definition reflective_attrs : list str := [
  [103;105;95;102;114;97;109;101]; [103;105;95;99;111;100;101]; [103;105;95;121;105;101;108;100;102;114;111;109];
  [99;114;95;102;114;97;109;101]; [99;114;95;99;111;100;101]; [97;103;95;102;114;97;109;101]; [97;103;95;99;111;100;101];
  [116;98;95;102;114;97;109;101]; [116;98;95;110;101;120;116]; [102;95;98;97;99;107];
  [102;95;98;117;105;108;116;105;110;115]; [102;95;99;111;100;101]; [102;95;103;108;111;98;97;108;115];
  [102;95;108;111;99;97;108;115]; [102;111;114;109;97;116]; [102;111;114;109;97;116;95;109;97;112] ].

Definition reflective (a : str) : bool := startswith dunder a || mem a reflective_attrs.

Fixpoint lookup (id : str) (ctx : list centry) : option centry :=
  match ctx with
  | [] => None
  | c :: tl => if str_eqb (c_key c) id then Some c else lookup id tl
  end.

Section Semantics.
  Variable ctx : list centry.

  Definition cap_of_name (id : str) : list str :=
    match lookup id ctx with
    | Some c => match c_cap c with Some n => [n] | None => [] end
    | None => []          (* NameError: __builtins__ is empty *)
    end.

  (* capabilities loaded by name anywhere in e *)
  Fixpoint pool (e : expr) : list str :=
    match e with
    | EName id load => if load then cap_of_name id else []
    | EAttr _ v => pool v
    | ECall f args kws => pool f ++ pools args ++ pools kws
    | EForbid kids | EOther kids => pools kids
    end
  with pools (l : exprs) : list str :=
    match l with ENil => [] | ECons x tl => pool x ++ pools tl end.

  (* reflective attribute reads of e *)
  Fixpoint reaches (e : expr) : list str :=
    match e with
    | EName _ _ => []
    | EAttr a v => (if reflective a then [a] else []) ++ reaches v
    | ECall f args kws => reaches f ++ reachess args ++ reachess kws
    | EForbid kids | EOther kids => reachess kids
    end
  with reachess (l : exprs) : list str :=
    match l with ENil => [] | ECons x tl => reaches x ++ reachess tl end.

  Fixpoint has_call (e : expr) : bool :=
    match e with
    | EName _ _ => false
    | EAttr _ v => has_call v
    | ECall _ _ _ => true
    | EForbid kids | EOther kids => has_calls kids
    end
  with has_calls (l : exprs) : bool :=
    match l with ENil => false | ECons x tl => has_call x || has_calls tl end.

  (* what evaluating e may do *)
  Definition events (e : expr) : list event :=
    (if has_call e then map Invoke (pool e) else []) ++ map Reach (reaches e).
End Semantics.

Definition dangerous_event (ev : event) : bool :=
  match ev with
  | Invoke n => mem n dangerous
  | Reach _ => true
  end.

(* ------------------------------------------------------------------ (iv) the interpolation loop *)
Inductive value :=
| VStr (s : str)
| VObj (id : N).       (* any non-str result, identified by the oracle *)

Definition value_eqb (a b : value) : bool :=
  match a, b with
  | VStr x, VStr y => str_eqb x y
  | VObj x, VObj y => N.eqb x y
  | _, _ => false
  end.

Inductive outcome :=
| Done (v : value)      (* the value appended to the state *)
| Failed                (* FailedSemantics *)
| Diverges.             (* fuel exhausted *)

(* calls of the evaluator, recorded to state "a rejected expression is never evaluated" *)
Inductive evalcall :=
| CallF (s : str)       (* safe_eval(f'...', context) *)
| CallE (s : str).      (* safe_eval(expression, context) *)

Section Loop.
  Variable reset : bool.     (* true when `result = expression` follows the trim (the repaired loop); the pinned
                                commit keeps the untrimmed result: false *)
  Variable trim : str -> str.
  Variable strip : str -> str.
  Variable lit_eval : str -> option value.       (* ast.literal_eval; None = ValueError / SyntaxError *)
  Variable fsafe : str -> bool.                  (* is_eval_safe(f'f{expression!r}', context) *)
  Variable feval : str -> option value.          (* safe_eval of the same; None = an Exception *)
  Variable esafe : str -> bool.                  (* is_eval_safe(expression, context) *)
  Variable eeval : str -> option value.          (* safe_eval(expression, context) *)

  (* while result != expression: ...   [expression] = None stands for Undefined *)
  Fixpoint loop (fuel : nat) (result : value) (expression : option value) (tr : list evalcall)
    : outcome * list evalcall :=
    if match expression with Some x => value_eqb result x | None => false end then (Done result, tr)
    else
      match fuel with
      | O => (Diverges, tr)
      | S fuel' =>
          match result with
          | VObj _ => (Done result, tr)                         (* not a str: break *)
          | VStr s =>
              let e := trim s in
              match lit_eval (strip e) with
              | Some v => loop fuel' v (Some (VStr e)) tr       (* continue *)
              | None =>
                  let result0 := if reset then VStr e else result in
                  let stage1 := if fsafe e then (feval e, CallF e :: tr) else (Some result0, tr) in
                  match fst stage1 with
                  | None => (Failed, snd stage1)
                  | Some r1 =>
                      if value_eqb r1 (VStr e) && esafe e then
                        match eeval e with
                        | None => (Failed, CallE e :: snd stage1)
                        | Some r2 => loop fuel' r2 (Some (VStr e)) (CallE e :: snd stage1)
                        end
                      else loop fuel' r1 (Some (VStr e)) (snd stage1)
                  end
              end
          end
      end.

  Definition constant (fuel : nat) (literal : str) : outcome * list evalcall :=
    loop fuel (VStr literal) None [].

  Definition call_allowed (c : evalcall) : bool :=
    match c with CallF s => fsafe s | CallE s => esafe s end.
End Loop.
