(* Proofs about Lib/ObjModel.v (C07). *)
From Coq Require Import List NArith ZArith Bool Arith Lia Permutation.
From TatsuV Require Import Base.PyStr Lib.ObjModel.
Import ListNotations.
Local Open Scope nat_scope.

(* ------------------------------------------------------------------ induction principles *)
Section ValueInd.
  Variable P : value -> Prop.
  Hypothesis HNone : P VNone.
  Hypothesis HAtom : forall t z, P (VAtom t z).
  Hypothesis HStr : forall s, P (VStr s).
  Hypothesis HList : forall l, Forall P l -> P (VList l).
  Hypothesis HDict : forall kvs, Forall (fun kv => P (snd kv)) kvs -> P (VDict kvs).
  Hypothesis HNode : forall i c fs ast attrs, P ast -> Forall (fun kv => P (snd kv)) attrs ->
                                              P (VNode i c fs ast attrs).
  Fixpoint value_ind' (v : value) : P v :=
    match v with
    | VNone => HNone
    | VAtom t z => HAtom t z
    | VStr s => HStr s
    | VList l => HList l ((fix go (l : list value) : Forall P l :=
                             match l with [] => Forall_nil _ | x :: r => Forall_cons _ (value_ind' x) (go r) end) l)
    | VDict kvs => HDict kvs ((fix go (l : list (str * value)) : Forall (fun kv => P (snd kv)) l :=
                                 match l with [] => Forall_nil _
                                 | x :: r => Forall_cons _ (value_ind' (snd x)) (go r) end) kvs)
    | VNode i c fs ast attrs =>
        HNode i c fs ast attrs (value_ind' ast)
              ((fix go (l : list (str * value)) : Forall (fun kv => P (snd kv)) l :=
                  match l with [] => Forall_nil _
                  | x :: r => Forall_cons _ (value_ind' (snd x)) (go r) end) attrs)
    end.
End ValueInd.

Section PtreeInd.
  Variable P : ptree -> Prop.
  Hypothesis HLeaf : forall x, P (PLeaf x).
  Hypothesis HList : forall l, Forall P l -> P (PList l).
  Hypothesis HDict : forall kvs, Forall (fun kv => P (snd kv)) kvs -> P (PDict kvs).
  Hypothesis HRule : forall s b, P b -> P (PRule s b).
  Fixpoint ptree_ind' (t : ptree) : P t :=
    match t with
    | PLeaf x => HLeaf x
    | PList l => HList l ((fix go (l : list ptree) : Forall P l :=
                             match l with [] => Forall_nil _ | x :: r => Forall_cons _ (ptree_ind' x) (go r) end) l)
    | PDict kvs => HDict kvs ((fix go (l : list (str * ptree)) : Forall (fun kv => P (snd kv)) l :=
                                 match l with [] => Forall_nil _
                                 | x :: r => Forall_cons _ (ptree_ind' (snd x)) (go r) end) kvs)
    | PRule s b => HRule s b (ptree_ind' b)
    end.
End PtreeInd.

(* ------------------------------------------------------------------ list lemmas *)
Lemma flat_map_flat_map {A B C} (f : B -> list C) (g : A -> list B) l :
  flat_map f (flat_map g l) = flat_map (fun x => flat_map f (g x)) l.
Proof. induction l as [|x r IH]; cbn; [reflexivity|]. rewrite flat_map_app, IH. reflexivity. Qed.

Lemma flat_map_ext_in {A B} (f g : A -> list B) l :
  (forall x, In x l -> f x = g x) -> flat_map f l = flat_map g l.
Proof.
  induction l as [|x r IH]; cbn; intros H; [reflexivity|].
  rewrite (H x (or_introl eq_refl)), IH; [reflexivity|]. intros y Hy. apply H. right. exact Hy.
Qed.

Lemma perm_flat_map_fn {A B} (f g : A -> list B) l :
  (forall x, In x l -> Permutation (f x) (g x)) -> Permutation (flat_map f l) (flat_map g l).
Proof.
  induction l as [|x r IH]; cbn; intros H; [constructor|].
  apply Permutation_app; [apply H; left; reflexivity | apply IH; intros y Hy; apply H; right; exact Hy].
Qed.

Lemma perm_flat_map_arg {A B} (f : A -> list B) l l' :
  Permutation l l' -> Permutation (flat_map f l) (flat_map f l').
Proof.
  induction 1; cbn.
  - constructor.
  - apply Permutation_app_head. assumption.
  - rewrite !app_assoc. apply Permutation_app_tail. apply Permutation_app_comm.
  - eapply Permutation_trans; eassumption.
Qed.

Lemma perm_flat_map_cons {A} (f : A -> list A) q :
  Permutation (flat_map (fun x => x :: f x) q) (q ++ flat_map f q).
Proof.
  induction q as [|x r IH]; cbn; [constructor|].
  constructor. eapply Permutation_trans; [apply Permutation_app_head; exact IH|].
  rewrite !app_assoc. apply Permutation_app_tail. apply Permutation_app_comm.
Qed.

Lemma flat_map_filter {A B} (p : A -> bool) (f : A -> list B) l :
  flat_map f (filter p l) = flat_map (fun x => if p x then f x else []) l.
Proof. induction l as [|x r IH]; cbn; [reflexivity|]. destruct (p x); cbn; rewrite IH; reflexivity. Qed.

Lemma map_fst_filter {B} (p : str -> bool) (l : list (str * B)) :
  map fst (filter (fun kv => p (fst kv)) l) = filter p (map fst l).
Proof. induction l as [|x r IH]; cbn; [reflexivity|]. destruct (p (fst x)); cbn; rewrite IH; reflexivity. Qed.

Lemma filter_nil_existsb {A} (p : A -> bool) l : existsb p l = false <-> filter p l = [].
Proof.
  induction l as [|x r IH]; cbn; [tauto|]. destruct (p x); cbn.
  - split; discriminate.
  - exact IH.
Qed.

Lemma NoDup_app_l {A} (l r : list A) : NoDup (l ++ r) -> NoDup l.
Proof.
  induction l as [|x l IH]; cbn; intros H; [constructor|]. inversion H as [|? ? Hni Hnd]; subst.
  constructor; [intros Hi; apply Hni; apply in_or_app; left; exact Hi | apply IH; assumption].
Qed.
Lemma NoDup_app_r {A} (l r : list A) : NoDup (l ++ r) -> NoDup r.
Proof. induction l as [|x l IH]; cbn; intros H; [exact H|]. inversion H; subst. apply IH; assumption. Qed.

(* ------------------------------------------------------------------ sort and select *)
Lemma insert_by_perm key x l : Permutation (insert_by key x l) (x :: l).
Proof.
  induction l as [|y r IH]; cbn; [apply Permutation_refl|].
  destruct (key (fst x) <=? key (fst y)); [apply Permutation_refl|].
  eapply Permutation_trans; [apply perm_skip; exact IH | apply perm_swap].
Qed.

Lemma sort_fields_perm fs l : Permutation (sort_fields fs l) l.
Proof.
  unfold sort_fields. induction l as [|x r IH]; cbn; [constructor|].
  eapply Permutation_trans; [apply insert_by_perm | apply perm_skip; exact IH].
Qed.

Lemma existsb_str_In k l : existsb (str_eqb k) l = true <-> In k l.
Proof.
  rewrite existsb_exists. split.
  - intros [x [Hx He]]. apply str_eqb_eq in He. subst. exact Hx.
  - intros H. exists k. split; [exact H | apply str_eqb_refl].
Qed.

Lemma nodupb_NoDup l : nodupb l = true -> NoDup l.
Proof.
  induction l as [|x r IH]; cbn; intros H; [constructor|].
  apply andb_true_iff in H. destruct H as [H1 H2]. constructor; [|apply IH; exact H2].
  intros Hin. apply existsb_str_In in Hin. rewrite Hin in H1. discriminate.
Qed.

Lemma lookup_in row k v : NoDup (map fst row) -> In (k, v) row -> lookup k row = Some v.
Proof.
  induction row as [|[k' v'] r IH]; cbn; intros Hnd Hin; [contradiction|].
  inversion Hnd as [|? ? Hni Hnd']; subst.
  destruct Hin as [He | Hin].
  - inversion He; subst. rewrite str_eqb_refl. reflexivity.
  - destruct (str_eqb k k') eqn:E.
    + apply str_eqb_eq in E. subst. exfalso. apply Hni. change k' with (fst (k', v)). apply in_map. exact Hin.
    + apply IH; assumption.
Qed.

Lemma select_incl row row' :
  NoDup (map fst row) -> incl row' row -> select (map fst row') row = row'.
Proof.
  intros Hnd. induction row' as [|[k v] r IH]; cbn; intros Hi; [reflexivity|].
  rewrite (lookup_in row k v Hnd); [|apply Hi; left; reflexivity].
  cbn. f_equal. apply IH. intros x Hx. apply Hi. right. exact Hx.
Qed.

Lemma select_perm ks ks' row : Permutation ks ks' -> Permutation (select ks row) (select ks' row).
Proof. apply perm_flat_map_arg. Qed.

(* ------------------------------------------------------------------ pub *)
Section WithOracle.
  Variable setord : list str -> list str.
  Hypothesis setord_perm : forall l, Permutation (setord l) (filter nonbase l).

  Notation pub := (pub setord).
  Notation children := (children setord).

  Lemma ast_name_base : nonbase ast_name = false.
  Proof. reflexivity. Qed.

  Lemma visible_split (l : list (str * value)) :
    filter visible l = filter (fun kv => nonbase (fst kv)) (public_attrs l).
  Proof.
    unfold public_attrs, visible. induction l as [|x r IH]; cbn; [reflexivity|].
    destruct (is_private (fst x)); cbn; [exact IH|]. destruct (nonbase (fst x)); cbn; rewrite IH; reflexivity.
  Qed.

  Lemma NoDup_filter {A} (p : A -> bool) l : NoDup l -> NoDup (filter p l).
  Proof.
    induction 1 as [|x r Hni Hnd IH]; cbn; [constructor|]. destruct (p x); [|exact IH].
    constructor; [|exact IH]. intros Hin. apply filter_In in Hin. tauto.
  Qed.

  Lemma public_attrs_keys_nodup attrs :
    NoDup (ast_name :: map fst attrs) -> NoDup (map fst ((ast_name, VNone) :: public_attrs attrs)).
  Proof.
    intros H. cbn. inversion H as [|? ? Hni Hnd]; subst. unfold public_attrs.
    rewrite (map_fst_filter (fun k => negb (is_private k))). constructor.
    - intros Hin. apply filter_In in Hin. tauto.
    - apply NoDup_filter. exact Hnd.
  Qed.

  (* the public, selected attributes of a node, up to order *)
  Lemma pub_perm i c fs ast attrs :
    nodupb (ast_name :: map fst attrs) = true ->
    Permutation (pub (VNode i c fs ast attrs)) (spec_attrs (VNode i c fs ast attrs)).
  Proof.
    intros Hnd. apply nodupb_NoDup in Hnd.
    assert (Hrow : NoDup (map fst ((ast_name, ast) :: public_attrs attrs))).
    { exact (public_attrs_keys_nodup attrs Hnd). }
    cbn [ObjModel.pub spec_attrs].
    set (row := (ast_name, ast) :: public_attrs attrs) in *.
    eapply Permutation_trans; [apply sort_fields_perm|].
    pose proof (setord_perm (map fst row)) as Hp.
    assert (Hf : filter nonbase (map fst row) = map fst (filter visible attrs)).
    { subst row. cbn. rewrite visible_split. rewrite map_fst_filter. reflexivity. }
    rewrite Hf in Hp.
    destruct (existsb visible attrs) eqn:Ev.
    - (* some wanted names *)
      destruct (setord (map fst row)) as [|w0 wr] eqn:Ew.
      + apply Permutation_nil in Hp. apply map_eq_nil in Hp.
        apply filter_nil_existsb in Hp. congruence.
      + eapply Permutation_trans; [apply select_perm; exact Hp|].
        rewrite select_incl; [apply Permutation_refl | exact Hrow |].
        intros x Hx. rewrite visible_split in Hx. apply filter_In in Hx. subst row. right. tauto.
    - apply filter_nil_existsb in Ev. rewrite Ev in Hp.
      assert (Hp' : setord (map fst row) = []) by (apply Permutation_nil; apply Permutation_sym; exact Hp).
      rewrite Hp'.
      destruct (is_none ast || is_dict ast); cbn; [constructor|].
      subst row. cbn. apply Permutation_refl.
  Qed.

  Lemma pub_non_node v : is_node v = false -> pub v = [].
  Proof. destruct v; cbn; intros; try reflexivity; discriminate. Qed.

  (* ---------------------------------------------------------------- nodes_of *)
  Lemma nodes_of_reach v c : In c (nodes_of v) <-> Reach v c.
  Proof.
    split.
    - revert c. induction v as [| | |l IH|kvs IH|i cl fs ast attrs _ _] using value_ind'; cbn; intros c H;
        try contradiction.
      + apply in_flat_map in H. destruct H as [x [Hx Hc]]. rewrite Forall_forall in IH.
        eapply R_list; [exact Hx | apply IH; assumption].
      + apply in_flat_map in H. destruct H as [[k x] [Hx Hc]]. cbn in Hc. rewrite Forall_forall in IH.
        destruct (is_private k) eqn:Ep; cbn in Hc; [contradiction|].
        destruct (is_none x) eqn:En; cbn in Hc; [contradiction|].
        eapply R_dict; [exact Hx | exact Ep | exact En | apply (IH (k, x) Hx); exact Hc].
      + destruct H as [H|[]]. subst. apply R_node. reflexivity.
    - induction 1 as [c Hn | l x c Hx _ IH | kvs k x c Hx Hp Hn _ IH].
      + destruct c; try discriminate. cbn. left. reflexivity.
      + cbn. apply in_flat_map. exists x. split; assumption.
      + cbn. apply in_flat_map. exists (k, x). split; [assumption|]. cbn. rewrite Hp, Hn. exact IH.
  Qed.

  Lemma nodes_of_is_node v c : In c (nodes_of v) -> is_node c = true.
  Proof. intros H. apply nodes_of_reach in H. induction H; assumption. Qed.

  Lemma height_pos v : 1 <= height v.
  Proof. destruct v; cbn; lia. Qed.

  Lemma height_in_list (l : list value) x :
    In x l -> height x <= fold_right (fun y m => Nat.max (height y) m) 0 l.
  Proof. induction l as [|y r IH]; cbn; intros H; [contradiction|]. destruct H as [H|H]; [subst; lia|]. apply IH in H. lia. Qed.

  Lemma height_in_kvs (l : list (str * value)) kv :
    In kv l -> height (snd kv) <= fold_right (fun y m => Nat.max (height (snd y)) m) 0 l.
  Proof. induction l as [|y r IH]; cbn; intros H; [contradiction|]. destruct H as [H|H]; [subst; lia|]. apply IH in H. lia. Qed.

  Lemma nodes_of_height v c : In c (nodes_of v) -> height c <= height v.
  Proof.
    intros H. apply nodes_of_reach in H.
    induction H as [c Hn | l x c Hx _ IH | kvs k x c Hx Hp Hn _ IH].
    - lia.
    - pose proof (height_in_list l x Hx). cbn. lia.
    - pose proof (height_in_kvs kvs (k, x) Hx). cbn in *. lia.
  Qed.

  Lemma forallb_In {A} (p : A -> bool) l x : forallb p l = true -> In x l -> p x = true.
  Proof. intros H Hx. rewrite forallb_forall in H. apply H. exact Hx. Qed.

  Lemma nodes_of_wfb v c : wfb v = true -> In c (nodes_of v) -> wfb c = true.
  Proof.
    intros Hw H. apply nodes_of_reach in H. revert Hw.
    induction H as [c Hn | l x c Hx _ IH | kvs k x c Hx Hp Hn _ IH]; intros Hw.
    - exact Hw.
    - apply IH. cbn in Hw. exact (forallb_In _ _ _ Hw Hx).
    - apply IH. cbn in Hw. exact (forallb_In _ _ _ Hw Hx).
  Qed.

  (* entries of pub come from ast / attrs *)
  Lemma spec_attrs_in i c fs ast attrs kv :
    In kv (spec_attrs (VNode i c fs ast attrs)) -> kv = (ast_name, ast) \/ In kv attrs.
  Proof.
    cbn. destruct (existsb visible attrs).
    - intros H. apply filter_In in H. right. tauto.
    - destruct (is_none ast || is_dict ast); cbn; [contradiction|]. intros [H|[]]. left. symmetry. exact H.
  Qed.

  Lemma node_wf_parts i c fs ast attrs :
    wfb (VNode i c fs ast attrs) = true ->
    nodupb (ast_name :: map fst attrs) = true /\ wfb ast = true /\ forallb (fun kv => wfb (snd kv)) attrs = true.
  Proof. cbn [wfb]. intros H. apply andb_true_iff in H. destruct H as [H H3]. apply andb_true_iff in H. tauto. Qed.

  Lemma children_spec_in v c :
    wfb v = true ->
    (In c (children v) <-> exists kv, In kv (spec_attrs v) /\ is_none (snd kv) = false /\ Reach (snd kv) c).
  Proof.
    intros Hw. destruct v as [| | | | |i cl fs ast attrs];
      try (cbn; split; [contradiction | intros [kv [[] _]]]).
    destruct (node_wf_parts _ _ _ _ _ Hw) as [Hnd _].
    pose proof (pub_perm i cl fs ast attrs Hnd) as Hp.
    unfold ObjModel.children. rewrite in_flat_map. split.
    - intros [kv [Hkv Hc]]. exists kv. split; [eapply Permutation_in; eassumption|].
      unfold item_nodes in Hc. destruct (is_private (fst kv)); cbn in Hc; [contradiction|].
      destruct (is_none (snd kv)); cbn in Hc; [contradiction|]. split; [reflexivity|].
      apply nodes_of_reach. exact Hc.
    - intros [kv [Hkv [Hn Hr]]]. exists kv. split; [eapply Permutation_in; [apply Permutation_sym|]; eassumption|].
      unfold item_nodes. rewrite Hn.
      assert (Hpriv : is_private (fst kv) = false).
      { cbn in Hkv. destruct (existsb visible attrs).
        - apply filter_In in Hkv. destruct Hkv as [_ Hv]. unfold visible in Hv.
          apply andb_true_iff in Hv. destruct Hv as [Hv _]. apply negb_true_iff in Hv. exact Hv.
        - destruct (is_none ast || is_dict ast); cbn in Hkv; [contradiction|].
          destruct Hkv as [Hkv|[]]. subst. reflexivity. }
      rewrite Hpriv. cbn. apply nodes_of_reach. exact Hr.
  Qed.

  Lemma children_height v c : wfb v = true -> In c (children v) -> height c < height v.
  Proof.
    intros Hw H. apply (children_spec_in v c Hw) in H. destruct H as [kv [Hkv [_ Hr]]].
    apply nodes_of_reach, nodes_of_height in Hr.
    destruct v as [| | | | |i cl fs ast attrs]; try (cbn in Hkv; contradiction).
    apply spec_attrs_in in Hkv. destruct Hkv as [He | Hin].
    - subst. cbn in *. lia.
    - pose proof (height_in_kvs attrs kv Hin). cbn. lia.
  Qed.

  Lemma children_wfb v c : wfb v = true -> In c (children v) -> wfb c = true.
  Proof.
    intros Hw H. apply (children_spec_in v c Hw) in H. destruct H as [kv [Hkv [_ Hr]]].
    apply nodes_of_reach in Hr. refine (nodes_of_wfb _ _ _ Hr).
    destruct v as [| | | | |i cl fs ast attrs]; try (cbn in Hkv; contradiction).
    destruct (node_wf_parts _ _ _ _ _ Hw) as [_ [Ha Hs]].
    apply spec_attrs_in in Hkv. destruct Hkv as [He | Hin].
    - subst. exact Ha.
    - exact (forallb_In _ _ _ Hs Hin).
  Qed.

  Lemma children_is_node v c : In c (children v) -> is_node c = true.
  Proof.
    unfold ObjModel.children. rewrite in_flat_map. intros [kv [_ Hc]]. unfold item_nodes in Hc.
    destruct (is_private (fst kv) || is_none (snd kv)); [contradiction|]. eapply nodes_of_is_node. exact Hc.
  Qed.

  (* ---------------------------------------------------------------- allin *)
  Lemma allin_nodes_of v : flat_map allin (nodes_of v) = allin v.
  Proof.
    induction v as [| | |l IH|kvs IH|i cl fs ast attrs _ _] using value_ind'; try reflexivity.
    - cbn [nodes_of allin]. rewrite flat_map_flat_map. apply flat_map_ext_in.
      rewrite Forall_forall in IH. exact IH.
    - cbn [nodes_of allin]. rewrite flat_map_flat_map. apply flat_map_ext_in.
      rewrite Forall_forall in IH. intros kv Hkv.
      destruct (is_private (fst kv) || is_none (snd kv)); [reflexivity | apply IH; exact Hkv].
    - cbn [nodes_of flat_map]. apply app_nil_r.
  Qed.

  Lemma allin_items kv : flat_map allin (item_nodes kv) =
                         if is_private (fst kv) || is_none (snd kv) then [] else allin (snd kv).
  Proof. unfold item_nodes. destruct (is_private (fst kv) || is_none (snd kv)); [reflexivity | apply allin_nodes_of]. Qed.

  (* Lemma A: a node's subtree = the node, then the subtrees of its children (up to order) *)
  Lemma allin_children v :
    is_node v = true -> wfb v = true ->
    Permutation (allin v) (v :: flat_map allin (children v)).
  Proof.
    intros Hn Hw. destruct v as [| | | | |i cl fs ast attrs]; try discriminate.
    destruct (node_wf_parts _ _ _ _ _ Hw) as [Hnd _].
    pose proof (pub_perm i cl fs ast attrs Hnd) as Hp.
    cbn [allin]. apply perm_skip. unfold ObjModel.children. rewrite flat_map_flat_map.
    eapply Permutation_trans; [|apply perm_flat_map_arg; apply Permutation_sym; exact Hp].
    cbn [spec_attrs]. destruct (existsb visible attrs).
    - rewrite flat_map_filter. apply Permutation_refl'. apply flat_map_ext_in. intros kv _.
      rewrite allin_items. unfold visible. destruct (is_private (fst kv)); cbn; [reflexivity|].
      destruct (nonbase (fst kv)); cbn; [|reflexivity]. destruct (is_none (snd kv)); reflexivity.
    - assert (E : forall a, (if is_dict a then [] else allin a) =
                flat_map (fun kv => flat_map allin (item_nodes kv))
                         (if is_none a || is_dict a then [] else [(ast_name, a)])).
      { intros a. destruct (is_none a) eqn:E1; [destruct a; try discriminate; reflexivity|].
        destruct (is_dict a) eqn:E2; cbn [orb flat_map]; [reflexivity|].
        rewrite app_nil_r, allin_items. cbn [fst snd]. rewrite E1. reflexivity. }
      rewrite E. apply Permutation_refl.
  Qed.

  Lemma allin_length v : is_node v = true -> wfb v = true ->
    length (allin v) = S (length (flat_map allin (children v))).
  Proof. intros Hn Hw. rewrite (Permutation_length (allin_children v Hn Hw)). reflexivity. Qed.

  (* Lemma B: every node of the tree except the root is a child of exactly one node of the tree *)
  Lemma allin_as_children : forall h v, height v <= h -> is_node v = true -> wfb v = true ->
    Permutation (allin v) (v :: flat_map children (allin v)).
  Proof.
    induction h as [|h IH]; intros v Hh Hn Hw; [pose proof (height_pos v); lia|].
    pose proof (allin_children v Hn Hw) as HA.
    eapply Permutation_trans; [exact HA|]. apply perm_skip.
    assert (Hsub : Permutation (flat_map allin (children v))
                               (children v ++ flat_map (fun c => flat_map children (allin c)) (children v))).
    { eapply Permutation_trans; [|apply perm_flat_map_cons].
      apply perm_flat_map_fn. intros c Hc. apply IH.
      - pose proof (children_height v c Hw Hc). lia.
      - eapply children_is_node; exact Hc.
      - eapply children_wfb; eassumption. }
    eapply Permutation_trans; [exact Hsub|].
    eapply Permutation_trans; [|apply perm_flat_map_arg; apply Permutation_sym; exact HA].
    cbn [flat_map]. apply Permutation_app_head. rewrite flat_map_flat_map. apply Permutation_refl.
  Qed.

  Lemma allin_wfb v n : wfb v = true -> In n (allin v) -> wfb n = true.
  Proof.
    revert n. induction v as [| | |l IH|kvs IH|i cl fs ast attrs IHa IHs] using value_ind'; cbn [allin];
      intros n Hw Hin; try contradiction.
    - apply in_flat_map in Hin. destruct Hin as [x [Hx Hn]]. rewrite Forall_forall in IH.
      apply (IH x Hx n); [|exact Hn]. cbn in Hw. exact (forallb_In _ _ _ Hw Hx).
    - apply in_flat_map in Hin. destruct Hin as [kv [Hx Hn]]. rewrite Forall_forall in IH.
      destruct (is_private (fst kv) || is_none (snd kv)); [contradiction|].
      apply (IH kv Hx n); [|exact Hn]. cbn in Hw. exact (forallb_In _ _ _ Hw Hx).
    - destruct (node_wf_parts _ _ _ _ _ Hw) as [_ [Ha Hs]].
      destruct Hin as [He | Hin]; [subst; exact Hw|].
      destruct (existsb visible attrs).
      + apply in_flat_map in Hin. destruct Hin as [kv [Hx Hn]]. rewrite Forall_forall in IHs.
        destruct (visible kv && negb (is_none (snd kv))); [|contradiction].
        apply (IHs kv Hx n); [|exact Hn]. exact (forallb_In _ _ _ Hs Hx).
      + destruct (is_dict ast); [contradiction|]. apply IHa; assumption.
  Qed.

  Lemma allin_is_node v n : In n (allin v) -> is_node n = true.
  Proof.
    revert n. induction v as [| | |l IH|kvs IH|i cl fs ast attrs IHa IHs] using value_ind'; cbn [allin];
      intros n Hin; try contradiction.
    - apply in_flat_map in Hin. destruct Hin as [x [Hx Hn]]. rewrite Forall_forall in IH. exact (IH x Hx n Hn).
    - apply in_flat_map in Hin. destruct Hin as [kv [Hx Hn]]. rewrite Forall_forall in IH.
      destruct (is_private (fst kv) || is_none (snd kv)); [contradiction|]. exact (IH kv Hx n Hn).
    - destruct Hin as [He | Hin]; [subst; reflexivity|].
      destruct (existsb visible attrs).
      + apply in_flat_map in Hin. destruct Hin as [kv [Hx Hn]]. rewrite Forall_forall in IHs.
        destruct (visible kv && negb (is_none (snd kv))); [|contradiction]. exact (IHs kv Hx n Hn).
      + destruct (is_dict ast); [contradiction|]. apply IHa; assumption.
  Qed.

  (* ---------------------------------------------------------------- walkers *)
  Lemma dfs_fuel : forall f1 f2 v, wfb v = true -> height v <= f1 -> height v <= f2 ->
    dfs setord f1 v = dfs setord f2 v.
  Proof.
    induction f1 as [|f1 IH]; intros f2 v Hw H1 H2; [pose proof (height_pos v); lia|].
    destruct f2 as [|f2]; [pose proof (height_pos v); lia|]. cbn [dfs]. f_equal.
    apply flat_map_ext_in. intros c Hc. pose proof (children_height v c Hw Hc).
    apply IH; [eapply children_wfb; eassumption | lia | lia].
  Qed.

  Lemma post_fuel : forall f1 f2 v, wfb v = true -> height v <= f1 -> height v <= f2 ->
    post setord f1 v = post setord f2 v.
  Proof.
    induction f1 as [|f1 IH]; intros f2 v Hw H1 H2; [pose proof (height_pos v); lia|].
    destruct f2 as [|f2]; [pose proof (height_pos v); lia|]. cbn [post]. f_equal.
    apply flat_map_ext_in. intros c Hc. pose proof (children_height v c Hw Hc).
    apply IH; [eapply children_wfb; eassumption | lia | lia].
  Qed.

  Lemma walk_dfs_eq v : wfb v = true ->
    walk_dfs setord v = v :: flat_map (walk_dfs setord) (children v).
  Proof.
    intros Hw. unfold walk_dfs. destruct (height v) as [|k] eqn:Ek; [pose proof (height_pos v); lia|].
    cbn [dfs]. f_equal. apply flat_map_ext_in. intros c Hc. pose proof (children_height v c Hw Hc).
    apply dfs_fuel; [eapply children_wfb; eassumption | lia | lia].
  Qed.

  Lemma walk_post_eq v : wfb v = true ->
    walk_post setord v = flat_map (walk_post setord) (children v) ++ [v].
  Proof.
    intros Hw. unfold walk_post. destruct (height v) as [|k] eqn:Ek; [pose proof (height_pos v); lia|].
    cbn [post]. f_equal. apply flat_map_ext_in. intros c Hc. pose proof (children_height v c Hw Hc).
    apply post_fuel; [eapply children_wfb; eassumption | lia | lia].
  Qed.

  Lemma walk_dfs_perm : forall h v, height v <= h -> is_node v = true -> wfb v = true ->
    Permutation (walk_dfs setord v) (allin v).
  Proof.
    induction h as [|h IH]; intros v Hh Hn Hw; [pose proof (height_pos v); lia|].
    rewrite (walk_dfs_eq v Hw).
    eapply Permutation_trans; [|apply Permutation_sym; apply allin_children; assumption].
    apply perm_skip. apply perm_flat_map_fn. intros c Hc. apply IH.
    - pose proof (children_height v c Hw Hc). lia.
    - eapply children_is_node; exact Hc.
    - eapply children_wfb; eassumption.
  Qed.

  Lemma walk_post_perm : forall h v, height v <= h -> is_node v = true -> wfb v = true ->
    Permutation (walk_post setord v) (allin v).
  Proof.
    induction h as [|h IH]; intros v Hh Hn Hw; [pose proof (height_pos v); lia|].
    rewrite (walk_post_eq v Hw).
    eapply Permutation_trans; [|apply Permutation_sym; apply allin_children; assumption].
    eapply Permutation_trans; [apply Permutation_sym; apply Permutation_cons_append|].
    apply perm_skip. apply perm_flat_map_fn. intros c Hc. apply IH.
    - pose proof (children_height v c Hw Hc). lia.
    - eapply children_is_node; exact Hc.
    - eapply children_wfb; eassumption.
  Qed.

  (* breadth first *)
  Definition msize (q : list value) : nat := length (flat_map allin q).

  Lemma msize_app q r : msize (q ++ r) = msize q + msize r.
  Proof. unfold msize. rewrite flat_map_app, app_length. reflexivity. Qed.

  Lemma msize_cons x q : is_node x = true -> wfb x = true ->
    msize (x :: q) = S (msize (children x) + msize q).
  Proof.
    intros Hn Hw. unfold msize. cbn [flat_map]. rewrite app_length, (allin_length x Hn Hw). reflexivity.
  Qed.

  Definition good (h : nat) (x : value) : Prop := height x <= h /\ is_node x = true /\ wfb x = true.

  Lemma good_children h x : good (S h) x -> Forall (good h) (children x).
  Proof.
    intros [Hh [Hn Hw]]. apply Forall_forall. intros c Hc. split; [|split].
    - pose proof (children_height x c Hw Hc). lia.
    - eapply children_is_node; exact Hc.
    - eapply children_wfb; eassumption.
  Qed.

  Lemma good_fc h p : Forall (good (S h)) p -> Forall (good h) (flat_map children p).
  Proof.
    intros H. apply Forall_forall. intros c Hc. apply in_flat_map in Hc. destruct Hc as [x [Hx Hc]].
    rewrite Forall_forall in H. pose proof (good_children h x (H x Hx)) as G.
    rewrite Forall_forall in G. apply G. exact Hc.
  Qed.

  Lemma bfs_lev : forall h q p fuel,
    Forall (good h) (q ++ p) ->
    msize (q ++ flat_map children p) < fuel ->
    bfs setord fuel (q ++ flat_map children p) = q ++ lev setord h (flat_map children (p ++ q)).
  Proof.
    induction h as [|h IHh].
    - intros q p fuel Hg _. destruct q as [|x q].
      + destruct p as [|x p]; [destruct fuel; reflexivity|].
        inversion Hg as [|? ? [Hx _] _]; subst. pose proof (height_pos x). lia.
      + inversion Hg as [|? ? [Hx _] _]; subst. pose proof (height_pos x). lia.
    - induction q as [|x q IHq]; intros p fuel Hg Hm.
      + cbn [app] in *. rewrite app_nil_r. cbn [lev].
        pose proof (IHh (flat_map children p) [] fuel) as H. cbn [flat_map app] in H.
        rewrite !app_nil_r in H. apply H; [apply good_fc; exact Hg | exact Hm].
      + destruct fuel as [|fuel]; [lia|]. cbn [app bfs]. f_equal.
        assert (Hgx : good (S h) x) by (inversion Hg; assumption).
        destruct Hgx as [Hhx [Hnx Hwx]].
        replace ((q ++ flat_map children p) ++ children x) with (q ++ flat_map children (p ++ [x]))
          by (rewrite flat_map_app; cbn [flat_map]; rewrite app_nil_r, app_assoc; reflexivity).
        rewrite IHq.
        * rewrite <- app_assoc. reflexivity.
        * apply Forall_forall. intros y Hy. rewrite Forall_forall in Hg. apply Hg.
          apply in_app_or in Hy. destruct Hy as [Hy|Hy]; [right; apply in_or_app; left; exact Hy|].
          apply in_app_or in Hy. destruct Hy as [Hy|[Hy|[]]];
            [right; apply in_or_app; right; exact Hy | left; exact Hy].
        * cbn [app] in Hm. rewrite (msize_cons x _ Hnx Hwx) in Hm.
          rewrite msize_app in *. rewrite flat_map_app, msize_app. cbn [flat_map]. rewrite app_nil_r. lia.
  Qed.

  Lemma walk_bfs_lev v : is_node v = true -> wfb v = true ->
    walk_bfs setord v = lev setord (S (height v)) [v].
  Proof.
    intros Hn Hw. unfold walk_bfs.
    pose proof (bfs_lev (height v) [v] [] (S (length (allin v)))) as H.
    cbn [flat_map app] in H. rewrite !app_nil_r in H. cbn [lev flat_map]. rewrite app_nil_r.
    apply H.
    - constructor; [|constructor]. split; [lia | split; assumption].
    - unfold msize. cbn [flat_map]. rewrite app_nil_r. lia.
  Qed.

  Lemma lev_perm : forall h q, Forall (good h) q -> Permutation (lev setord h q) (flat_map allin q).
  Proof.
    induction h as [|h IH]; intros q Hg.
    - destruct q as [|x q]; [constructor|]. inversion Hg as [|? ? [Hx _] _]; subst.
      pose proof (height_pos x). lia.
    - cbn [lev]. eapply Permutation_trans; [apply Permutation_app_head; apply IH; apply good_fc; exact Hg|].
      rewrite flat_map_flat_map.
      eapply Permutation_trans; [apply Permutation_sym; apply perm_flat_map_cons|].
      apply perm_flat_map_fn. intros x Hx. rewrite Forall_forall in Hg. destruct (Hg x Hx) as [_ [Hn Hw]].
      apply Permutation_sym. apply allin_children; assumption.
  Qed.

  Lemma walk_bfs_perm v : is_node v = true -> wfb v = true -> Permutation (walk_bfs setord v) (allin v).
  Proof.
    intros Hn Hw. rewrite (walk_bfs_lev v Hn Hw).
    eapply Permutation_trans; [apply lev_perm|].
    - constructor; [|constructor]. split; [lia | split; assumption].
    - cbn [flat_map]. rewrite app_nil_r. apply Permutation_refl.
  Qed.

  (* ---------------------------------------------------------------- parents *)
  Lemma parent_of_acc (ls : list (N * N)) (c : N) (acc : option N) :
    ~ In c (map fst ls) ->
    fold_left (fun (a : option N) (kv : N * N) => if N.eqb (fst kv) c then Some (snd kv) else a) ls acc = acc.
  Proof.
    revert acc. induction ls as [|kv r IH]; cbn; intros acc H; [reflexivity|].
    destruct (N.eqb (fst kv) c) eqn:E; [apply N.eqb_eq in E; tauto|]. apply IH. tauto.
  Qed.

  Lemma parent_of_unique ls c p : NoDup (map fst ls) -> In (c, p) ls -> parent_of ls c = Some p.
  Proof.
    unfold parent_of. generalize (@None N) as acc.
    induction ls as [|kv r IH]; cbn; intros acc Hnd Hin; [contradiction|].
    inversion Hnd as [|? ? Hni Hnd']; subst. destruct Hin as [He|Hin].
    - subst. cbn. rewrite N.eqb_refl. apply parent_of_acc. exact Hni.
    - destruct (N.eqb (fst kv) c) eqn:E.
      + apply N.eqb_eq in E. exfalso. apply Hni. rewrite E. change c with (fst (c, p)). apply in_map. exact Hin.
      + apply IH; assumption.
  Qed.

  Lemma links_keys visited : map fst (links setord visited) = map vid (flat_map children visited).
  Proof.
    unfold links. induction visited as [|n r IH]; cbn; [reflexivity|].
    rewrite !map_app, IH. f_equal. rewrite map_map. reflexivity.
  Qed.

  Lemma children_ids_nodup root : is_node root = true -> wfb root = true ->
    NoDup (map vid (allin root)) -> NoDup (map vid (flat_map children (allin root))).
  Proof.
    intros Hn Hw Hnd.
    pose proof (allin_as_children (height root) root (le_n _) Hn Hw) as HB.
    pose proof (Permutation_NoDup (Permutation_map vid HB) Hnd) as H. cbn in H.
    inversion H; assumption.
  Qed.

  Lemma parent_after_walk root visited n c :
    is_node root = true -> wfb root = true -> NoDup (map vid (allin root)) ->
    Permutation visited (allin root) ->
    In n (allin root) -> In c (children n) ->
    parent_of (links setord visited) (vid c) = Some (vid n).
  Proof.
    intros Hn Hw Hnd Hp Hin Hc. apply parent_of_unique.
    - rewrite links_keys.
      eapply Permutation_NoDup; [|apply children_ids_nodup; eassumption].
      apply Permutation_map. apply perm_flat_map_arg. apply Permutation_sym. exact Hp.
    - unfold links. apply in_flat_map. exists n. split.
      + eapply Permutation_in; [apply Permutation_sym; exact Hp | exact Hin].
      + apply in_map_iff. exists c. split; [reflexivity | exact Hc].
  Qed.

  Lemma children_nodup n : is_node n = true -> wfb n = true ->
    NoDup (map vid (allin n)) -> NoDup (map vid (children n)).
  Proof.
    intros Hn Hw Hnd. pose proof (children_ids_nodup n Hn Hw Hnd) as H.
    pose proof (allin_children n Hn Hw) as HA.
    (* children n is a prefix of flat_map children (n :: ...) up to permutation *)
    pose proof (perm_flat_map_arg children _ _ HA) as HP. cbn [flat_map] in HP.
    pose proof (Permutation_NoDup (Permutation_map vid HP) H) as H2.
    rewrite map_app in H2. eapply NoDup_app_l. exact H2.
  Qed.

  (* ---------------------------------------------------------------- main statements *)
  Theorem children_complete : forall root n,
    is_node root = true -> wfb root = true -> In n (allin root) ->
    (* exactly the nodes reachable through the selected attributes without crossing another node *)
    (forall c, In c (children n) <->
               exists kv, In kv (spec_attrs n) /\ is_none (snd kv) = false /\ Reach (snd kv) c)
    (* in the order of pub: field order for dataclass fields *)
    /\ children n = flat_map item_nodes (pub n)
    /\ Permutation (pub n) (spec_attrs n)
    (* tree-shaped values: none twice, and after any complete walk each child's parent is n *)
    /\ (NoDup (map vid (allin root)) ->
        NoDup (map vid (children n))
        /\ forall visited c, Permutation visited (allin root) -> In c (children n) ->
                             parent_of (links setord visited) (vid c) = Some (vid n)).
  Proof.
    intros root n Hn Hw Hin.
    pose proof (allin_wfb root n Hw Hin) as Hwn. pose proof (allin_is_node root n Hin) as Hnn.
    split; [intros c; apply children_spec_in; exact Hwn|].
    split; [reflexivity|].
    split.
    - destruct n as [| | | | |i cl fs ast attrs]; try discriminate.
      apply pub_perm. destruct (node_wf_parts _ _ _ _ _ Hwn) as [H _]. exact H.
    - intros Hnd. split.
      + apply children_nodup; try assumption.
        (* ids of the subtree of n are among the ids of root's tree, without repetition *)
        clear - Hn Hw Hin Hnd Hwn Hnn setord_perm.
        revert n Hin Hwn Hnn.
        assert (G : forall h v, height v <= h -> is_node v = true -> wfb v = true -> NoDup (map vid (allin v)) ->
                      forall n, In n (allin v) -> NoDup (map vid (allin n))).
        { induction h as [|h IH]; intros v Hh Hv Hwv Hndv n Hinn; [pose proof (height_pos v); lia|].
          pose proof (allin_children v Hv Hwv) as HA.
          pose proof (Permutation_in _ HA Hinn) as Hin'. destruct Hin' as [He|Hin']; [subst; exact Hndv|].
          apply in_flat_map in Hin'. destruct Hin' as [c [Hc Hnc]].
          apply (IH c); try assumption.
          - pose proof (children_height v c Hwv Hc). lia.
          - eapply children_is_node; exact Hc.
          - eapply children_wfb; eassumption.
          - pose proof (Permutation_NoDup (Permutation_map vid HA) Hndv) as H1. cbn in H1.
            inversion H1 as [|? ? _ H2]; subst. clear H1.
            apply in_split in Hc. destruct Hc as [l1 [l2 Hc]]. rewrite Hc in H2.
            rewrite flat_map_app in H2. cbn [flat_map] in H2. rewrite !map_app in H2.
            apply NoDup_app_r in H2. apply NoDup_app_l in H2. exact H2. }
        intros n Hin _ _. exact (G (height root) root (le_n _) Hn Hw Hnd n Hin).
      + intros visited c Hp Hc. exact (parent_after_walk root visited n c Hn Hw Hnd Hp Hin Hc).
  Qed.

  Theorem walkers_cover : forall root,
    is_node root = true -> wfb root = true ->
    Permutation (walk_dfs setord root) (allin root)
    /\ Permutation (walk_post setord root) (allin root)
    /\ Permutation (walk_bfs setord root) (allin root)
    /\ (NoDup (map vid (allin root)) ->
        NoDup (map vid (walk_dfs setord root)) /\ NoDup (map vid (walk_post setord root))
        /\ NoDup (map vid (walk_bfs setord root)))
    (* the orders: pre-order, post-order, level order *)
    /\ (forall n, In n (allin root) ->
          walk_dfs setord n = n :: flat_map (walk_dfs setord) (children n)
          /\ walk_post setord n = flat_map (walk_post setord) (children n) ++ [n])
    /\ walk_bfs setord root = lev setord (S (height root)) [root].
  Proof.
    intros root Hn Hw.
    pose proof (walk_dfs_perm (height root) root (le_n _) Hn Hw) as Hd.
    pose proof (walk_post_perm (height root) root (le_n _) Hn Hw) as Hp.
    pose proof (walk_bfs_perm root Hn Hw) as Hb.
    repeat split; try assumption.
    - eapply Permutation_NoDup; [apply Permutation_map; apply Permutation_sym; exact Hd | assumption].
    - eapply Permutation_NoDup; [apply Permutation_map; apply Permutation_sym; exact Hp | assumption].
    - eapply Permutation_NoDup; [apply Permutation_map; apply Permutation_sym; exact Hb | assumption].
    - apply walk_dfs_eq. eapply allin_wfb; eassumption.
    - apply walk_post_eq. eapply allin_wfb; eassumption.
    - apply walk_bfs_lev; assumption.
  Qed.
End WithOracle.

Lemma setord_id_perm : forall l, Permutation (setord_id l) (filter nonbase l).
Proof. intros l. apply Permutation_refl. Qed.

(* ------------------------------------------------------------------ build / erase *)
Section BuildProofs.
  Variable conv : str -> option (value -> value).
  Hypothesis conv_erase : forall c f a, conv c = Some f -> erase (f a) = f (erase a).

  Lemma erase_leaf x : erase (leaf_value x) = leaf_value x.
  Proof. destruct x; reflexivity. Qed.

  Lemma erase_mk_node c a : (forall kvs, a = VDict kvs -> kvs <> []) -> erase (mk_node c a) = erase a.
  Proof.
    intros H. destruct a; try reflexivity. cbn. destruct kvs as [|kv r]; [exfalso; eapply H; reflexivity|].
    reflexivity.
  Qed.

  Lemma map_ext_Forall {A B} (f g : A -> B) l : Forall (fun x => f x = g x) l -> map f l = map g l.
  Proof. induction 1; cbn; [reflexivity|]. f_equal; assumption. Qed.

  (* what a dict-valued build looks like: only PDict bodies (through unannotated rules) give dicts *)
  Theorem model_mirrors_ast_gen : forall t,
    dicts_nonempty t = true ->
    (forall c f a, conv c = Some f -> forall kvs, f a = VDict kvs -> kvs <> []) ->
    erase (build conv t) = plainc conv t
    /\ (forall kvs, build conv t = VDict kvs -> kvs <> []).
  Proof.
    intros t Hd Hconv. revert Hd.
    induction t as [x|l IH|kvs IH|s b IH] using ptree_ind'; intros Hd.
    - split; [apply erase_leaf|]. destruct x; cbn; discriminate.
    - split; [|cbn; discriminate]. cbn. f_equal. rewrite map_map. apply map_ext_Forall.
      cbn in Hd. rewrite forallb_forall in Hd. rewrite Forall_forall in *. intros x Hx.
      apply IH; [exact Hx | apply Hd; exact Hx].
    - cbn in Hd. apply andb_true_iff in Hd. destruct Hd as [Hne Hd]. split.
      + cbn. f_equal. rewrite map_map. apply map_ext_Forall.
        rewrite forallb_forall in Hd. rewrite Forall_forall in *. intros x Hx. cbn. f_equal.
        apply IH; [exact Hx | apply Hd; exact Hx].
      + cbn. intros k Hk. inversion Hk; subst. destruct kvs; [discriminate|]. discriminate.
    - cbn in Hd. destruct (IH Hd) as [IH1 IH2]. destruct s as [|c rest]; cbn; [split; assumption|].
      destruct (conv c) as [f|] eqn:Ec.
      + split; [rewrite (conv_erase c f _ Ec), IH1; reflexivity|]. intros kvs Hk. eapply Hconv; eassumption.
      + split; [rewrite erase_mk_node; assumption|]. intros kvs Hk.
        destruct (build conv b); cbn in Hk; discriminate.
  Qed.

  Lemma plainc_plain t : no_builtin conv t = true -> plainc conv t = plain t.
  Proof.
    induction t as [x|l IH|kvs IH|s b IH] using ptree_ind'; intros Hn.
    - reflexivity.
    - cbn. f_equal. apply map_ext_Forall. cbn in Hn. rewrite forallb_forall in Hn. rewrite Forall_forall in *.
      intros x Hx. apply IH; [exact Hx | apply Hn; exact Hx].
    - cbn. f_equal. apply map_ext_Forall. cbn in Hn. rewrite forallb_forall in Hn. rewrite Forall_forall in *.
      intros x Hx. f_equal. apply IH; [exact Hx | apply Hn; exact Hx].
    - destruct s as [|c rest]; cbn in *; [apply IH; exact Hn|].
      destruct (conv c); [discriminate | apply IH; exact Hn].
  Qed.

  Theorem model_mirrors_ast : forall t,
    dicts_nonempty t = true ->
    (forall c f a, conv c = Some f -> forall kvs, f a = VDict kvs -> kvs <> []) ->
    erase (build conv t) = plainc conv t
    /\ (no_builtin conv t = true -> erase (build conv t) = plain t).
  Proof.
    intros t Hd Hc. destruct (model_mirrors_ast_gen t Hd Hc) as [H _]. split; [exact H|].
    intros Hn. rewrite H. apply plainc_plain. exact Hn.
  Qed.

  (* a node built for an annotated rule: class = first name of the annotation; with named elements its
     attributes are exactly the AST's keys holding the built values and ast is None; without, ast = value *)
  Theorem attrs_are_names : forall c rest b,
    conv c = None ->
    match build conv b with
    | VDict kvs =>
        build conv (PRule (c :: rest) b) = VNode 0 c [] VNone kvs
    | a => build conv (PRule (c :: rest) b) = VNode 0 c [] a []
    end.
  Proof. intros c rest b Hc. cbn. rewrite Hc. destruct (build conv b); reflexivity. Qed.

  Theorem attrs_are_names_dict : forall c rest kvs,
    conv c = None ->
    exists attrs, build conv (PRule (c :: rest) (PDict kvs)) = VNode 0 c [] VNone attrs
                  /\ map fst attrs = map fst kvs
                  /\ attrs = map (fun kv => (fst kv, build conv (snd kv))) kvs.
  Proof.
    intros c rest kvs Hc. eexists. cbn. rewrite Hc. cbn. split; [reflexivity|]. split; [|reflexivity].
    rewrite map_map. reflexivity.
  Qed.
End BuildProofs.

(* ------------------------------------------------------------------ class synthesis registry *)
Lemma reg_find_get_class r c bm c' :
  reg_find (fst (get_class r c bm)) c' =
  match reg_find r c' with Some m => Some m | None => if str_eqb c' c then Some bm else None end.
Proof.
  unfold get_class. destruct (reg_find r c) as [m|] eqn:E; cbn.
  - destruct (reg_find r c') eqn:E'; [reflexivity|].
    destruct (str_eqb c' c) eqn:Ec; [|reflexivity]. apply str_eqb_eq in Ec. subst. congruence.
  - destruct (str_eqb c' c) eqn:Ec.
    + apply str_eqb_eq in Ec. subst. rewrite E. reflexivity.
    + destruct (reg_find r c'); reflexivity.
Qed.

(* once a name is in the registry its bases never change, whatever is declared later *)
Lemma get_class_stable r c bm c' m : reg_find r c' = Some m -> reg_find (fst (get_class r c bm)) c' = Some m.
Proof. intros H. rewrite reg_find_get_class, H. reflexivity. Qed.

Lemma declare_rev_stable : forall rs r bm c' m,
  reg_find r c' = Some m -> reg_find (fst (declare_rev r rs bm)) c' = Some m.
Proof.
  induction rs as [|c rest IH]; intros r bm c' m H; cbn; [exact H|].
  destruct (get_class r c bm) as [r' m'] eqn:E. apply IH.
  change r' with (fst (r', m')). rewrite <- E. apply get_class_stable. exact H.
Qed.

Lemma get_class_mro r c bm : snd (get_class r c bm) =
  c :: match reg_find r c with Some m => m | None => bm end.
Proof. unfold get_class. destruct (reg_find r c); reflexivity. Qed.

(* the class of a name that is already registered ignores the declared bases (first synthesis wins) *)
Theorem synth_registry_first_wins : forall r c m bases1 bases2,
  reg_find r c = Some m ->
  snd (declare r (c :: bases1)) = c :: m /\ snd (declare r (c :: bases2)) = c :: m.
Proof.
  assert (G : forall r c m bases, reg_find r c = Some m -> snd (declare r (c :: bases)) = c :: m).
  { intros r c m bases H. unfold declare. cbn [rev].
    assert (K : forall rs r0 bm, reg_find r0 c = Some m -> snd (declare_rev r0 (rs ++ [c]) bm) = c :: m).
    { induction rs as [|x rs IH]; intros r0 bm H0; cbn.
      - destruct (get_class r0 c bm) as [r' m'] eqn:E. cbn.
        change m' with (snd (r', m')). rewrite <- E, get_class_mro, H0. reflexivity.
      - destruct (get_class r0 x bm) as [r' m'] eqn:E. apply IH.
        change r' with (fst (r', m')). rewrite <- E. apply get_class_stable. exact H0. }
    apply K. exact H. }
  intros. split; apply G; assumption.
Qed.

(* in a fresh registry a chain A::B::C with distinct names gets exactly the declared bases *)
Lemma declare_rev_fresh : forall rs r bm,
  NoDup rs -> (forall c, In c rs -> reg_find r c = None) ->
  snd (declare_rev r rs bm) = rev rs ++ bm.
Proof.
  induction rs as [|c rest IH]; intros r bm Hnd Hf; cbn; [reflexivity|].
  inversion Hnd as [|? ? Hni Hnd']; subst.
  destruct (get_class r c bm) as [r' m'] eqn:E.
  assert (Hm : m' = c :: bm).
  { change m' with (snd (r', m')). rewrite <- E, get_class_mro, (Hf c (or_introl eq_refl)). reflexivity. }
  subst m'. rewrite IH; [rewrite <- app_assoc; reflexivity | exact Hnd' |].
  intros c' Hc'. change r' with (fst (r', c :: bm)). rewrite <- E, reg_find_get_class.
  rewrite (Hf c' (or_intror Hc')). destruct (str_eqb c' c) eqn:Ec; [|reflexivity].
  apply str_eqb_eq in Ec. subst. contradiction.
Qed.

Theorem synth_registry_fresh : forall r spec,
  NoDup spec -> (forall c, In c spec -> reg_find r c = None) ->
  snd (declare r spec) = spec.
Proof.
  intros r spec Hnd Hf. unfold declare. rewrite declare_rev_fresh.
  - rewrite rev_involutive, app_nil_r. reflexivity.
  - apply NoDup_rev. exact Hnd.
  - intros c Hc. apply Hf. apply in_rev. exact Hc.
Qed.

(* the full statement "an annotated rule's class has the declared base classes" is false for histories that
   declare the same name twice with different bases: A::B then A::C leaves A with base B *)
Theorem synth_registry_refuted :
  exists (r : registry) (spec : list str),
    NoDup spec /\ (exists h, r = fst (declare_all [] h)) /\ snd (declare r spec) <> spec.
Proof.
  exists (fst (declare_all [] [[[65]; [66]]%N])), [[65]; [67]]%N. split; [|split].
  - constructor; [cbn; intros [H|[]]; discriminate | constructor; [intros [] | constructor]].
  - eexists. reflexivity.
  - vm_compute. discriminate.
Qed.

(* ------------------------------------------------------------------ walker dispatch (NodeWalker._find_walker) *)
Lemma cache_of_cons : forall st w k w',
  cache_of ((w, k) :: st) w' = if N.eqb w w' then k else cache_of st w'.
Proof. reflexivity. Qed.

(* the cache is transparent: started from the empty caches that __init_subclass__ gives every walker class, every
   lookup of a history returns the uncached resolution, provided the resolution of a (walker class, class name)
   does not depend on WHICH class of that name is looked up *)
Definition cache_inv (spec : N -> str -> option str) (st : wstate) : Prop :=
  forall w c m, cache_get (cache_of st w) c = Some (Some m) -> spec w c = Some m.

Lemma run_walkers_spec : forall fuel snake has (spec : N -> str -> option str) steps st,
  cache_inv spec st ->
  (forall w g c, In (w, g, c) (looks steps) -> resolve fuel g snake (has w) c = spec w c) ->
  run_walkers fuel snake has st steps = map (fun x => spec (fst (fst x)) (snd x)) (looks steps).
Proof.
  intros fuel snake has spec steps. induction steps as [|s steps IH]; intros st Hinv Hres; [reflexivity|].
  destruct s as [w|w g c]; cbn [run_walkers looks map].
  - apply IH; [|exact Hres].
    intros w' c' m. rewrite cache_of_cons. destruct (N.eqb w w'); [cbn; discriminate | apply Hinv].
  - cbn [fst snd]. unfold find_walker.
    assert (Hr : resolve fuel g snake (has w) c = spec w c) by (apply Hres; left; reflexivity).
    destruct (cache_get (cache_of st w) c) as [[m|]|] eqn:E; cbn [fst snd].
    + f_equal; [symmetry; apply Hinv; exact E|].
      apply IH; [|intros; apply Hres; right; assumption].
      intros w' c' m'. rewrite cache_of_cons. destruct (N.eqb w w') eqn:Ew; [|apply Hinv].
      apply N.eqb_eq in Ew. subst w'. apply Hinv.
    + f_equal; [exact Hr|].
      apply IH; [|intros; apply Hres; right; assumption].
      intros w' c' m'. rewrite cache_of_cons. destruct (N.eqb w w') eqn:Ew; [|apply Hinv].
      apply N.eqb_eq in Ew. subst w'. cbn [cache_get fst snd].
      destruct (str_eqb c c') eqn:Ec; [|apply Hinv].
      apply str_eqb_eq in Ec. subst c'. intros H. injection H as H. rewrite <- Hr. exact H.
    + f_equal; [exact Hr|].
      apply IH; [|intros; apply Hres; right; assumption].
      intros w' c' m'. rewrite cache_of_cons. destruct (N.eqb w w') eqn:Ew; [|apply Hinv].
      apply N.eqb_eq in Ew. subst w'. cbn [cache_get fst snd].
      destruct (str_eqb c c') eqn:Ec; [|apply Hinv].
      apply str_eqb_eq in Ec. subst c'. intros H. injection H as H. rewrite <- Hr. exact H.
Qed.

Theorem dispatch_cache_transparent : forall fuel snake has (spec : N -> str -> option str) steps,
  (forall w g c, In (w, g, c) (looks steps) -> resolve fuel g snake (has w) c = spec w c) ->
  run_walkers fuel snake has [] steps = map (fun x => spec (fst (fst x)) (snd x)) (looks steps).
Proof.
  intros. apply run_walkers_spec; [|assumption].
  intros w c m. cbn. discriminate.
Qed.

(* single inheritance: along a chain c0 -> c1 -> ... (each class has the next one as its only base) the search
   finds the method of the nearest class that has one *)
Fixpoint linear_to (g : cgraph) (chain : list str) : Prop :=
  match chain with
  | c :: ((d :: _) as r) => bases_of g c = [d] /\ linear_to g r
  | _ => True
  end.

Lemma search_linear : forall g snake has chain fuel m,
  linear_to g chain -> nearest snake has chain = Some m -> length chain <= fuel ->
  search fuel g snake has [hd [] chain] = Some m.
Proof.
  intros g snake has chain. induction chain as [|c r IH]; intros fuel m Hl Hn Hf; [discriminate|].
  destruct fuel as [|f]; [cbn in Hf; lia|].
  cbn [hd search]. cbn [nearest] in Hn.
  destruct (find has (walker_names snake c)) as [m'|] eqn:E; [exact Hn|].
  destruct r as [|d r']; [discriminate|].
  destruct Hl as [Hb Hl]. rewrite Hb. cbn [mem_str existsb negb filter rev app].
  apply (IH f m Hl Hn). cbn in Hf |- *. lia.
Qed.

(* whatever the search returns is a method the walker class has, named after the node's class or one of its
   ancestors *)
Inductive ancestor (g : cgraph) (c : str) : str -> Prop :=
| anc_refl : ancestor g c c
| anc_step : forall d b, ancestor g c d -> In b (bases_of g d) -> ancestor g c b.

Lemma search_sound_gen : forall g snake has c fuel rs m,
  Forall (ancestor g c) rs -> search fuel g snake has rs = Some m -> m <> [] ->
  has m = true /\ exists d, ancestor g c d /\ In m (walker_names snake d).
Proof.
  intros g snake has c fuel. induction fuel as [|f IH]; intros rs m Hall Hs Hne.
  - destruct rs; cbn in Hs; [discriminate|]. injection Hs as Hs. subst. contradiction.
  - destruct rs as [|d rest]; cbn [search] in Hs; [discriminate|].
    inversion Hall as [|? ? Hd Hrest]; subst.
    destruct (find has (walker_names snake d)) as [m'|] eqn:E.
    + injection Hs as Hs. subst m'. apply find_some in E. destruct E as [Hin Hhas].
      split; [exact Hhas|]. exists d. split; assumption.
    + refine (IH _ m _ Hs Hne).
      apply Forall_app. split; [exact Hrest|].
      apply Forall_rev. apply Forall_forall. intros b Hb. apply filter_In in Hb. destruct Hb as [Hb _].
      apply (anc_step g c d b Hd Hb).
Qed.

Theorem dispatch_sound : forall fuel g snake has c m,
  search fuel g snake has [c] = Some m -> m <> [] ->
  has m = true /\ exists d, ancestor g c d /\ In m (walker_names snake d).
Proof.
  intros fuel g snake has c m. apply search_sound_gen. constructor; [constructor|constructor].
Qed.

(* with multiple inheritance the search is NOT nearest-first: for a synthesized class of a two-name chain
   P::Q (P(Q, SynthNode), Q(Node, SynthNode), Node(BaseNode), SynthNode(BaseNode)) a walker that has walk_Node and
   walk_BaseNode gets walk_BaseNode although Node is an ancestor of P and BaseNode a base of Node *)
Definition s_P : str := [80]%N.
Definition s_Q : str := [81]%N.
Definition s_Node : str := [78; 111; 100; 101]%N.
Definition s_BaseNode : str := [66; 97; 115; 101; 78; 111; 100; 101]%N.
Definition s_SynthNode : str := [83; 121; 110; 116; 104; 78; 111; 100; 101]%N.
Definition ex_graph : cgraph :=
  [ (s_P, [s_Q; s_SynthNode]); (s_Q, [s_Node; s_SynthNode]); (s_Node, [s_BaseNode]);
    (s_SynthNode, [s_BaseNode]); (s_BaseNode, []) ].
Definition ex_has (m : str) : bool := mem_str m [walk_pfx ++ s_Node; walk_pfx ++ s_BaseNode].
Definition snake_none (c : str) : str := [0]%N.        (* no pythonic spelling in the witness *)

Theorem dispatch_nearest_refuted :
  exists g has c near far,
    ancestor g c near /\ In far (bases_of g near) /\ has (walk_pfx ++ near) = true
    /\ search 64 g snake_none has [c] = Some (walk_pfx ++ far) /\ near <> far.
Proof.
  exists ex_graph, ex_has, s_P, s_Node, s_BaseNode. split; [|split; [|split; [|split]]].
  - apply (anc_step _ _ s_Q); [apply (anc_step _ _ s_P); [constructor|left; reflexivity]|left; reflexivity].
  - left. reflexivity.
  - reflexivity.
  - vm_compute. reflexivity.
  - discriminate.
Qed.

(* non-vacuity: the same walker on the single-name class P(Node, SynthNode) and on the generated-module shape
   P(Q), Q(ModelBase), ModelBase(Node): walk_Node *)
Example dispatch_examples :
  search 64 [ (s_P, [s_Node; s_SynthNode]); (s_Node, [s_BaseNode]); (s_SynthNode, [s_BaseNode]); (s_BaseNode, []) ]
         snake_none ex_has [s_P] = Some (walk_pfx ++ s_Node)
  /\ linear_to [ (s_P, [s_Q]); (s_Q, [s_Node]); (s_Node, [s_BaseNode]) ] [s_P; s_Q; s_Node; s_BaseNode]
  /\ nearest snake_none ex_has [s_P; s_Q; s_Node; s_BaseNode] = Some (walk_pfx ++ s_Node).
Proof. repeat split. Qed.
