(* Model of tatsu/packetz/compact.py: rle_encode / rle_decode.  No proofs here. *)
From Coq Require Import List NArith Arith Bool Lia.
From TatsuV Require Import Base.PyStr.
Import ListNotations.
Local Open Scope N_scope.

Definition tilde : N := 126.

(* ---- rle_encode -------------------------------------------------------------------------
   escaped = text.replace("~", "~~");  re.sub(r"([^~])\1{3,}", "~{c}{len}~", escaped)
   A maximal run of n >= 4 equal non-tilde characters becomes ~cN~ (greedy \1{3,} takes the whole
   run); shorter runs stay; every tilde is doubled (tildes never take part in a run).        *)

Definition flush_run (c : N) (n : nat) : str :=
  if N.eqb c tilde then repeat_c tilde (2 * n)
  else if Nat.leb 4 n then tilde :: c :: str_of_nat n ++ [tilde]
  else repeat_c c n.

(* enc_go c n l: a run of n (>= 1) copies of c has been read and not yet emitted *)
Fixpoint enc_go (c : N) (n : nat) (l : str) : str :=
  match l with
  | [] => flush_run c n
  | d :: tl => if N.eqb d c then enc_go c (S n) tl else flush_run c n ++ enc_go d 1 tl
  end.

Definition rle_encode (s : str) : str :=
  match s with [] => [] | c :: tl => enc_go c 1 tl end.

(* ---- rle_decode, single pass (the code after the "fix:" commit) ---------------------------
   re.sub(r"~~|~([^~])(\d+)~", expand, text): at a tilde, "~~" -> "~"; "~cN~" -> c * N; any other
   tilde is copied.  \d is restricted to ASCII digits in the model (see DESIGN C19).          *)
Fixpoint dec_f (fuel : nat) (l : str) : str :=
  match fuel with
  | O => l
  | S fuel' =>
    match l with
    | [] => []
    | c :: tl =>
      if N.eqb c tilde then
        match tl with
        | [] => [c]
        | c2 :: tl2 =>
          if N.eqb c2 tilde then tilde :: dec_f fuel' tl2
          else
            match span_digits tl2 with
            | (d :: ds, t :: rest) =>
              if N.eqb t tilde then repeat_c c2 (nat_of_digits (d :: ds)) ++ dec_f fuel' rest
              else c :: dec_f fuel' tl
            | _ => c :: dec_f fuel' tl
            end
        end
      else c :: dec_f fuel' tl
    end
  end.

Definition rle_decode (s : str) : str := dec_f (length s) s.

(* ---- rle_decode as shipped at the pinned commit (two passes) ------------------------------
   expanded = re.sub(r"~([^~])(\d+)~", expand, text);  expanded.replace("~~", "~")             *)
Fixpoint expand_f (fuel : nat) (l : str) : str :=
  match fuel with
  | O => l
  | S fuel' =>
    match l with
    | [] => []
    | c :: tl =>
      if N.eqb c tilde then
        match tl with
        | [] => [c]
        | c2 :: tl2 =>
          if N.eqb c2 tilde then c :: expand_f fuel' tl
          else
            match span_digits tl2 with
            | (d :: ds, t :: rest) =>
              if N.eqb t tilde then repeat_c c2 (nat_of_digits (d :: ds)) ++ expand_f fuel' rest
              else c :: expand_f fuel' tl
            | _ => c :: expand_f fuel' tl
            end
        end
      else c :: expand_f fuel' tl
    end
  end.

Definition rle_decode_twopass (s : str) : str :=
  replace [tilde; tilde] [tilde] (expand_f (length s) s).
