(* Model of the left-recursion analysis of TatSu:
     tatsu/peg/leftrec/pegen.py   (_callable_rule_ids, _is_nullable_safe, _make_first_graph, mark_left_recursion)
     tatsu/peg/leftrec/sccutils.py (strongly_connected_components - SPECIFIED by mutual reachability,
                                    find_cycles_in_scc - modelled literally)
     tatsu/peg/*.py                (the `_nullable` cached properties, Call.is_nullable)
     tatsu/peg/base.py             (Rule.memoizable, Grammar._mark_left_recursion)
   No proofs in this file (see LeftRecProof.v).

   Expressions keep only what the analysis looks at:
     Call i        rule reference, resolved to the index of the rule (rule_index.get(name));
                   an index >= number of rules stands for an undefined name (no edge)
     Leaf b        any Leaf other than Call/Cut with `_nullable` = b
                   (Token, Dot, Fail, EOF, RuleInclude, metas: false;
                    Void, NIL, Constant, Alert, EOL, EmptyClosure: true; Pattern: regex.match('') is not None)
     CutE          Cut (`_nullable` = True, skipped by the sequence prefix rule)
     Seq l         Sequence
     Choice l      Choice; the options are arbitrary expressions (Option boxes before optimisation)
     Box k e       every Box:  BPlain  `_nullable` = exp._nullable  (Group, SkipGroup, SkipTo, Option, Named,
                                        NamedList, Override, OverrideList, PositiveJoin)
                               BTrue   `_nullable` = True           (Optional, Closure, Join, Gather,
                                        Lookahead, NegativeLookahead)
                               BPos    `_nullable` = exp.is_nullable() (PositiveClosure, PositiveGather):
                                        for a direct Call this is the *rule's* `_nullable` (oracle [rn]),
                                        for everything else exp._nullable *)
From Coq Require Import List NArith Arith Bool.
From TatsuV Require Import Base.PyStr.
Import ListNotations.
Local Open Scope nat_scope.

Inductive boxkind := BPlain | BTrue | BPos.

Inductive exp :=
| Call (i : nat)
| Leaf (nullable : bool)
| CutE
| Seq (l : list exp)
| Choice (l : list exp)
| Box (k : boxkind) (e : exp).

Record rule := { r_name : str; r_nomemo : bool; r_body : exp }.
Definition dummy_rule : rule := {| r_name := []; r_nomemo := false; r_body := Leaf false |}.
Definition body_of (rules : list rule) (i : nat) : exp := r_body (nth i rules dummy_rule).
Definition name_of (rules : list rule) (i : nat) : str := r_name (nth i rules dummy_rule).
Definition nomemo_of (rules : list rule) (i : nat) : bool := r_nomemo (nth i rules dummy_rule).

Definition memn (x : nat) (l : list nat) : bool := existsb (Nat.eqb x) l.

(* ------------------------------------------------------------------ nullable / left calls *)
Section Analysis.
  (* rn i = the `_nullable` of rule i, consulted only through Call.is_nullable() *)
  Variable rn : nat -> bool.

  (* the cached property `_nullable`;  all()/any() short-circuit like forallb/existsb *)
  Fixpoint nullable (e : exp) : bool :=
    match e with
    | Call _ => false                      (* Model._nullable default: Call does not override it *)
    | Leaf b => b
    | CutE => true
    | Seq l => forallb nullable l
    | Choice l => existsb nullable l
    | Box BPlain e' => nullable e'
    | Box BTrue _ => true
    | Box BPos e' => match e' with Call i => rn i | _ => nullable e' end
    end.

  (* the method is_nullable(): Call overrides it, everybody else returns self._nullable *)
  Definition is_nullable (e : exp) : bool :=
    match e with Call i => rn i | _ => nullable e end.

  (* pegen.py:_is_nullable_safe *)
  Fixpoint is_nullable_safe (e : exp) : bool :=
    match e with
    | Call _ => false
    | Seq l => forallb is_nullable_safe l
    | Choice l => existsb is_nullable_safe l
    | _ => is_nullable e
    end.

  (* the Sequence branch of _callable_rule_ids, parametrised by the recursive call *)
  Section SeqIds.
    Variable f : exp -> list nat.
    Fixpoint seq_ids (l : list exp) : list nat :=
      match l with
      | [] => []
      | x :: r =>
        match x with
        | CutE => seq_ids r                                   (* isinstance(item, Cut): continue *)
        | _ => f x ++ (if is_nullable_safe x then seq_ids r else [])
        end
      end.
  End SeqIds.

  (* pegen.py:_callable_rule_ids (targets as rule indices, possibly undefined ones) *)
  Fixpoint callable_rule_ids (e : exp) : list nat :=
    match e with
    | Call i => [i]
    | Choice l => flat_map callable_rule_ids l
    | Seq l => seq_ids callable_rule_ids l
    | Box _ e' => callable_rule_ids e'
    | _ => []
    end.
End Analysis.

(* ------------------------------------------------------------------ graphs over rule indices *)
Definition graph := list (list nat).
Definition succ (g : graph) (i : nat) : list nat := nth i g [].

(* _make_first_graph: rule i -> the defined rules it can call first *)
Definition graph_of (rn : nat -> bool) (rules : list rule) : graph :=
  map (fun r => filter (fun j => j <? length rules) (callable_rule_ids rn (r_body r))) rules.

(* reachability in >= 1 steps: bounded transitive closure (length g rounds are enough: LeftRecProof.reach_spec) *)
Definition grow (g : graph) (s : list nat) : list nat := nodup Nat.eq_dec (s ++ flat_map (succ g) s).
Fixpoint reach_set (g : graph) (k : nat) (i : nat) : list nat :=
  match k with 0 => succ g i | S k' => grow g (reach_set g k' i) end.
Definition reach (g : graph) (i j : nat) : bool := memn j (reach_set g (length g) i).

(* the strongly connected component of i, as the sorted list of its members *)
Definition scc_of (g : graph) (i : nat) : list nat :=
  filter (fun j => Nat.eqb j i || (reach g i j && reach g j i)) (seq 0 (length g)).

(* sccutils.find_cycles_in_scc: dfs(node, path) over the graph restricted to the SCC.  A result is
   path + [node] for a node already on the path - not necessarily the start.  The path holds distinct
   members of the SCC, so [S (S (length scc))] rounds of fuel are never exhausted. *)
Fixpoint cyc (g : graph) (scc : list nat) (fuel : nat) (node : nat) (path : list nat) : list (list nat) :=
  match fuel with
  | 0 => []
  | S f =>
    if memn node path then [path ++ [node]]
    else flat_map (fun c => cyc g scc f c (path ++ [node]))
                  (filter (fun c => memn c scc) (succ g node))
  end.
Definition cycles_from (g : graph) (scc : list nat) (start : nat) : list (list nat) :=
  cyc g scc (S (S (length scc))) start [].
Definition all_cycles (g : graph) (scc : list nat) : list (list nat) :=
  flat_map (cycles_from g scc) scc.

(* `leaders` after the loops of mark_left_recursion: members of the SCC lying on every cycle found *)
Definition common (g : graph) (scc : list nat) : list nat :=
  filter (fun v => forallb (memn v) (all_cycles g scc)) scc.

(* Python's str comparison (code points, lexicographic) and min() *)
Fixpoint str_ltb (a b : str) : bool :=
  match a, b with
  | [], [] => false
  | [], _ :: _ => true
  | _ :: _, [] => false
  | x :: a', y :: b' => if N.ltb x y then true else if N.eqb x y then str_ltb a' b' else false
  end.
Fixpoint argmin (rules : list rule) (cur : nat) (l : list nat) : nat :=
  match l with
  | [] => cur
  | x :: r => argmin rules (if str_ltb (name_of rules x) (name_of rules cur) then x else cur) r
  end.
Definition min_by_name (rules : list rule) (l : list nat) : nat :=
  match l with [] => 0 | x :: r => argmin rules x r end.

(* the rules of an SCC with more than one member that get is_lrec.
   fixd = false: the code as it is (`if not leaders: leaders = set(scc)` and then only min(leaders));
   fixd = true : the proposed repair (no common member: every member leads) *)
Definition leaders (fixd : bool) (rules : list rule) (g : graph) (scc : list nat) : list nat :=
  match common g scc with
  | [] => if fixd then scc else [min_by_name rules scc]
  | c => [min_by_name rules c]
  end.

Definition is_lrec (fixd : bool) (rules : list rule) (g : graph) (i : nat) : bool :=
  let s := scc_of g i in
  if 1 <? length s then memn i (leaders fixd rules g s) else memn i (succ g i).

Definition is_memo (rules : list rule) (g : graph) (i : nat) : bool :=
  let s := scc_of g i in
  if 1 <? length s then false
  else if memn i (succ g i) then false
  else negb (nomemo_of rules i).

Definition mark_with (fixd : bool) (rn : nat -> bool) (rules : list rule) : list (bool * bool) :=
  let g := graph_of rn rules in
  map (fun i => (is_lrec fixd rules g i, is_memo rules g i)) (seq 0 (length rules)).

(* Rule._nullable as Call.is_nullable() sees it.  The real recursion is unbounded when a rule demands
   its own `_nullable` again (RecursionError while compiling); a terminating evaluation nests distinct
   rules only, so length rules + 1 rounds are enough whenever the code terminates. *)
Fixpoint rule_nullable (fuel : nat) (rules : list rule) (i : nat) : bool :=
  match fuel with
  | 0 => false
  | S f => nullable (rule_nullable f rules) (body_of rules i)
  end.
Definition rn_of (rules : list rule) : nat -> bool := rule_nullable (S (length rules)) rules.

(* the same evaluation, telling whether it comes back at all: None = unbounded recursion *)
Section NullableOpt.
  Variable rno : nat -> option bool.
  Definition and_opt (f : exp -> option bool) : list exp -> option bool :=
    fix go l := match l with
                | [] => Some true
                | x :: r => match f x with None => None | Some false => Some false | Some true => go r end
                end.
  Definition or_opt (f : exp -> option bool) : list exp -> option bool :=
    fix go l := match l with
                | [] => Some false
                | x :: r => match f x with None => None | Some true => Some true | Some false => go r end
                end.
  Fixpoint nullable_opt (e : exp) : option bool :=
    match e with
    | Call _ => Some false
    | Leaf b => Some b
    | CutE => Some true
    | Seq l => and_opt nullable_opt l
    | Choice l => or_opt nullable_opt l
    | Box BPlain e' => nullable_opt e'
    | Box BTrue _ => Some true
    | Box BPos e' => match e' with Call i => rno i | _ => nullable_opt e' end
    end.
End NullableOpt.
Fixpoint rule_nullable_opt (fuel : nat) (rules : list rule) (i : nat) : option bool :=
  match fuel with
  | 0 => None
  | S f => nullable_opt (rule_nullable_opt f rules) (body_of rules i)
  end.

(* the interface for other models: (is_lrec, is_memo) per rule index *)
Definition mark (rules : list rule) : list (bool * bool) := mark_with false (rn_of rules) rules.
Definition mark_fixed (rules : list rule) : list (bool * bool) := mark_with true (rn_of rules) rules.

(* Rule.memoizable, the is_memo field of the RuleInfo the engine sees *)
Definition memoizable (rules : list rule) (m : list (bool * bool)) (i : nat) : bool :=
  let '(lrec, memo) := nth i m (false, true) in
  memo && negb (nomemo_of rules i) && negb lrec.

(* Grammar._mark_left_recursion: GrammarError iff some rule is marked and left_recursion is off *)
Definition lr_error_with (fixd : bool) (rn : nat -> bool) (left_recursion : bool) (rules : list rule) : bool :=
  negb left_recursion && existsb fst (mark_with fixd rn rules).
Definition lr_error (left_recursion : bool) (rules : list rule) : bool :=
  lr_error_with false (rn_of rules) left_recursion rules.
