(* Model of tatsu/util/asjson.py (asjson, AsJSONMixin.__json__/__pub__), objectmodel/basenode.py
   (BaseNode.__pub__), peg/base.py (Rule.__pub__) and tatsu/util/fromjson.py (fromjson,
   JSONBase.__from_json__).  No proofs here (JsonProof.v).

   Python values are either immediate scalars or references into a finite heap (an association
   list id -> node, first binding wins).  Strings are lists of code points (Base/PyStr.v); floats
   are opaque (their repr).  Sharing and cycles are expressed with [VRef]. *)
From Coq Require Import List NArith ZArith Arith Bool.
From TatsuV Require Import Base.PyStr.
Import ListNotations.
Local Open Scope N_scope.

Definition id := N.

(* ---- Python side ------------------------------------------------------------------------- *)
Inductive val :=
  | VNone
  | VBool (b : bool)
  | VInt (z : Z)
  | VFloat (r : str)          (* repr of the float, opaque *)
  | VStr (s : str)
  | VStyle (r : str)          (* a ztyle.Style (str subclass); r = repr(style) *)
  | VRef (i : id).

(* which __pub__ an object with __json__ uses *)
Inductive oflavour :=
  | FMixin                    (* AsJSONMixin.__pub__ *)
  | FNode                     (* BaseNode.__pub__ *)
  | FRule.                    (* Rule.__pub__: BaseNode.__pub__, then 'exp' moved to the end *)

Inductive nkind :=
  | KMap (items : list (str * val))      (* Mapping; keys already str()-ed, in iteration order *)
  | KNamed (items : list (str * val))    (* non-empty namedtuple: dfs(nt._asdict()); not a dict for __pub__ *)
  | KSeq (items : list val)              (* list | tuple | set | any other iterable *)
  | KObj (fl : oflavour) (dcfields : list str) (attrs : list (str * val))
                                         (* object whose __json__ is AsJSONMixin.__json__;
                                            dcfields = dataclass field names in order, attrs = vars(self) *)
  | KEnum (v : val)                      (* enum.Enum: dfs(en.value) *)
  | KWeak                                (* weakref.ref / proxy *)
  | KType                                (* a class object that has __json__: returned as is *)
  | KOpaque (r : str).                   (* anything else: repr(node) *)

Record node := mkNode { tyname : str; kind : nkind }.
Definition heap := list (id * node).

Fixpoint lookup (h : heap) (i : id) : option node :=
  match h with
  | [] => None
  | (k, nd) :: t => if N.eqb k i then Some nd else lookup t i
  end.

Fixpoint memN (i : id) (l : list id) : bool :=
  match l with [] => false | x :: t => N.eqb x i || memN i t end.

Fixpoint mem_str (s : str) (l : list str) : bool :=
  match l with [] => false | x :: t => str_eqb x s || mem_str s t end.

Fixpoint assoc {A} (k : str) (l : list (str * A)) : option A :=
  match l with
  | [] => None
  | (k', v) :: t => if str_eqb k' k then Some v else assoc k t
  end.

(* ---- JSON side --------------------------------------------------------------------------- *)
Inductive json :=
  | JNull
  | JBool (b : bool)
  | JInt (z : Z)
  | JFloat (r : str)
  | JStr (s : str)
  | JArr (l : list json)
  | JObj (items : list (str * json))
  | JPy (i : id).              (* a raw Python object left in the output: json.dumps rejects it *)

Fixpoint dumpable (j : json) : bool :=
  match j with
  | JPy _ => false
  | JArr l => forallb dumpable l
  | JObj items => forallb (fun kv => dumpable (snd kv)) items
  | _ => true
  end.

(* ---- constants --------------------------------------------------------------------------- *)
Definition cls_key : str := [95;95;99;108;97;115;115;95;95].      (* "__class__" *)
Definition esc_prefix : str := [92;101;91].                      (* backslash e [ *)
Definition fbrace_prefix : str := [102;123].                     (* f{ *)
Definition underscore : str := [95].
Definition dunder : str := [95;95].
Definition at0x : str := [64;48;120].                            (* "@0x" *)
Definition k_ast : str := [97;115;116].
Definition k_exp : str := [101;120;112].

(* hex(n).upper()[2:] *)
Definition hex_digit (d : N) : N := if d <? 10 then 48 + d else 55 + d.
Fixpoint hex_go (fuel : nat) (n : N) (acc : str) : str :=
  match fuel with
  | O => acc
  | S f => if n =? 0 then acc else hex_go f (n / 16) (hex_digit (n mod 16) :: acc)
  end.
Definition hexN (n : N) : str := if n =? 0 then [48] else hex_go (N.size_nat n) n [].

(* f'{type(node).__name__}@0x{hex(node_id).upper()[2:]}' *)
Definition refstr (ty : str) (i : id) : str := ty ++ at0x ++ hexN i.

(* ---- __pub__ ----------------------------------------------------------------------------- *)
Definition is_weak (h : heap) (v : val) : bool :=
  match v with
  | VRef i => match lookup h i with
              | Some nd => match kind nd with KWeak => true | _ => false end
              | None => false
              end
  | _ => false
  end.

(* AsJSONMixin.__pub__.is_public (methods and read-only properties never occur in vars(self) of the
   modelled objects) *)
Definition is_public (h : heap) (sunderok : bool) (kv : str * val) : bool :=
  negb (startswith dunder (fst kv))
  && (sunderok || negb (startswith underscore (fst kv)))
  && negb (is_weak h (snd kv)).

Definition pub_mixin (h : heap) (sunderok : bool) (attrs : list (str * val)) : list (str * val) :=
  filter (is_public h sunderok) attrs.

Definition is_dict (h : heap) (v : val) : bool :=
  match v with
  | VRef i => match lookup h i with
              | Some nd => match kind nd with KMap _ => true | _ => false end
              | None => false
              end
  | _ => false
  end.

Definition is_none (v : val) : bool := match v with VNone => true | _ => false end.

(* sorted(keys, key=fieldindex.get(n, len)) on unique keys: fields in declaration order, the rest after
   (in the iteration order of the selection) *)
Definition order_by (dcfields : list str) (sel : list (str * val)) : list (str * val) :=
  flat_map (fun f => filter (fun kv => str_eqb (fst kv) f) sel) dcfields
  ++ filter (fun kv => negb (mem_str (fst kv) dcfields)) sel.

Section Pub.
  (* vars(BaseNode).keys(), supplied by the harness from the real class *)
  Variable bkeys : list str.

  (* BaseNode.__pub__(sunderok=False) *)
  Definition pub_node (h : heap) (dcfields : list str) (attrs : list (str * val)) : list (str * val) :=
    let pub := pub_mixin h false attrs in
    let wanted := filter (fun kv => negb (mem_str (fst kv) bkeys)) pub in
    let ast := match assoc k_ast attrs with Some v => v | None => VNone end in
    let sel :=
      match wanted with
      | _ :: _ => wanted
      | [] => if is_none ast then []
              else if is_dict h ast then []
              else filter (fun kv => str_eqb (fst kv) k_ast) pub
      end in
    order_by dcfields sel.

  (* Rule.__pub__: del pub['exp']; pub['exp'] = self.exp *)
  Definition pub_rule (h : heap) (dcfields : list str) (attrs : list (str * val)) : list (str * val) :=
    let pub := pub_node h dcfields attrs in
    filter (fun kv => negb (str_eqb (fst kv) k_exp)) pub
    ++ [(k_exp, match assoc k_exp attrs with Some v => v | None => VNone end)].

  Definition pub (h : heap) (fl : oflavour) (dcfields : list str) (attrs : list (str * val)) :=
    match fl with
    | FMixin => pub_mixin h false attrs
    | FNode => pub_node h dcfields attrs
    | FRule => pub_rule h dcfields attrs
    end.

  (* BaseNode.__getstate__ = __pub__(sunderok=True); Rule.__pub__ ignores sunderok *)
  Definition getstate (h : heap) (fl : oflavour) (dcfields : list str) (attrs : list (str * val)) :=
    match fl with
    | FRule => pub_rule h dcfields attrs
    | _ => pub_mixin h true attrs
    end.

  (* ---- asjson ---------------------------------------------------------------------------- *)
  Fixpoint map_opt {A B} (f : A -> option B) (l : list A) : option (list B) :=
    match l with
    | [] => Some []
    | x :: t => match f x with
                | None => None
                | Some y => match map_opt f t with None => None | Some ys => Some (y :: ys) end
                end
    end.

  (* d[k] = v on an insertion-ordered dict *)
  Fixpoint dict_set {A} (k : str) (v : A) (d : list (str * A)) : list (str * A) :=
    match d with
    | [] => [(k, v)]
    | (k', v') :: t => if str_eqb k' k then (k', v) :: t else (k', v') :: dict_set k v t
    end.

  Definition build_dict {A} (kvs : list (str * A)) : list (str * A) :=
    fold_left (fun d kv => dict_set (fst kv) (snd kv) d) kvs [].

  (* {str(k): dfs(v) for k, v in mapping.items()} *)
  Definition map_items (ev : val -> option json) (items : list (str * val)) : option (list (str * json)) :=
    match map_opt (fun kv => match ev (snd kv) with Some j => Some (fst kv, j) | None => None end) items with
    | Some kvs => Some (build_dict kvs)
    | None => None
    end.

  (* the dfs of asjson(); [seen] is the set of ids on the current path (added on entry, discarded in
     `finally`), None = out of fuel.  The fresh dicts made by __pub__ are never looked up again and
     are not tracked. *)
  Fixpoint dfs (n : nat) (h : heap) (seen : list id) (v : val) : option json :=
    match n with
    | O => None
    | S n' =>
      match v with
      | VNone => Some JNull
      | VBool b => Some (JBool b)
      | VInt z => Some (JInt z)
      | VFloat r => Some (JFloat r)
      | VStr s => Some (JStr s)
      | VStyle r => Some (JStr r)
      | VRef i =>
        match lookup h i with
        | None => Some JNull                       (* dangling id: not a Python value *)
        | Some nd =>
          if memN i seen then Some (JStr (refstr (tyname nd) i))
          else
            let ev := dfs n' h (i :: seen) in
            match kind nd with
            | KMap items =>
                match map_items ev items with Some its => Some (JObj its) | None => None end
            | KNamed items =>
                match map_items ev items with Some its => Some (JObj its) | None => None end
            | KSeq items =>
                match map_opt ev items with Some l => Some (JArr l) | None => None end
            | KObj fl dc attrs =>
                match map_items ev (pub h fl dc attrs) with
                | Some its => Some (JObj ((cls_key, JStr (tyname nd)) :: its))   (* {'__class__': type name, **asjson(pub)}: pub has no dunder key *)
                | None => None
                end
            | KEnum v' => ev v'
            | KWeak => Some (JStr (refstr (tyname nd) i))
            | KType => Some (JPy i)
            | KOpaque r => Some (JStr r)
            end
        end
      end
    end.

  (* asjson(obj): the fuel |heap| + 1 always suffices (JsonProof.dfs_total) *)
  Definition asjson (h : heap) (v : val) : option json := dfs (S (length h)) h [] v.
End Pub.

(* no class object (a type that has __json__) anywhere in the heap *)
Definition no_types (h : heap) : bool :=
  forallb (fun p => match kind (snd p) with KType => false | _ => true end) h.

(* ---- fromjson ---------------------------------------------------------------------------- *)
(* result of fromjson: Python values as trees *)
Inductive pyv :=
  | PNone
  | PBool (b : bool)
  | PInt (z : Z)
  | PFloat (r : str)
  | PStr (s : str)
  | PStyle (raw : str)                         (* Style.from_raw(raw) *)
  | PList (l : list pyv)
  | PDict (items : list (str * pyv))
  | PNamespace (items : list (str * pyv))      (* types.SimpleNamespace of mapped *)
  | PObj (cls : str) (fields : list (str * pyv))   (* cls( initdata ) or setattr *)
  | PError.                                    (* an exception *)

Definition style_like (s : str) : bool := startswith esc_prefix s || startswith fbrace_prefix s.

Definition nonempty {A} (l : list A) : bool := match l with [] => false | _ => true end.

Definition f_zero : str := [48;46;48].
Definition f_mzero : str := [45;48;46;48].

(* Python truth of a value produced by json.loads *)
Definition truthy (j : json) : bool :=
  match j with
  | JNull => false
  | JBool b => b
  | JInt z => negb (Z.eqb z 0)
  | JFloat r => negb (str_eqb r f_zero || str_eqb r f_mzero)
  | JStr s => nonempty s
  | JArr l => nonempty l
  | JObj l => nonempty l
  | JPy _ => true
  end.

Section From.
  (* __from_json__class__: None = not registered; Some None = registered, not a dataclass (setattr of
     every item); Some (Some fs) = dataclass whose init-able fields are fs *)
  Variable reg : str -> option (option (list str)).

  Definition conv_items (f : json -> pyv) (items : list (str * json)) : list (str * pyv) :=
    map (fun kv => (fst kv, f (snd kv))) items.

  Definition not_cls {A} (kv : str * A) : bool := negb (str_eqb (fst kv) cls_key).

  (* an exception raised while converting a child propagates *)
  Definition is_error (p : pyv) : bool := match p with PError => true | _ => false end.

  Fixpoint fromjson (j : json) : pyv :=
    match j with
    | JNull => PNone
    | JBool b => PBool b
    | JInt z => PInt z
    | JFloat r => PFloat r
    | JStr s => if style_like s then PStyle s else PStr s
    | JArr l => let l' := map fromjson l in if existsb is_error l' then PError else PList l'
    | JObj items =>
        let mapped := filter not_cls (map (fun kv => (fst kv, fromjson (snd kv))) items) in
        if existsb (fun kv => is_error (snd kv)) mapped then PError else
        match assoc cls_key items with
        | None => PDict mapped
        | Some t =>
            if negb (truthy t) then PDict mapped
            else match t with
                 | JStr c =>
                     match reg c with
                     | Some (Some initf) => PObj c (filter (fun kv => mem_str (fst kv) initf) mapped)
                     | Some None => PObj c mapped
                     | None => PNamespace mapped
                     end
                 | JArr _ | JObj _ | JPy _ => PError      (* unhashable registry key *)
                 | _ => PNamespace mapped
                 end
        end
    | JPy _ => PError
    end.
End From.

(* ---- the tree instance of asjson --------------------------------------------------------- *)
(* asjson on a tree of grammar-like nodes (no sharing, dict keys are str): [PObj c fields] stands for
   an object of class c whose __pub__() is [fields]. *)
Fixpoint asjson_tree (g : pyv) : json :=
  match g with
  | PNone => JNull
  | PBool b => JBool b
  | PInt z => JInt z
  | PFloat r => JFloat r
  | PStr s => JStr s
  | PStyle raw => JStr raw
  | PList l => JArr (map asjson_tree l)
  | PDict items => JObj (map (fun kv => (fst kv, asjson_tree (snd kv))) items)
  | PNamespace items => JStr []
  | PObj c fields => JObj ((cls_key, JStr c) :: map (fun kv => (fst kv, asjson_tree (snd kv))) fields)
  | PError => JNull
  end.

Section Guards.
  Variable reg : str -> option (option (list str)).

  (* what the reloaded object keeps: the init-able dataclass fields *)
  Fixpoint strip (g : pyv) : pyv :=
    match g with
    | PList l => PList (map strip l)
    | PDict items => PDict (map (fun kv => (fst kv, strip (snd kv))) items)
    | PObj c fields =>
        let fs := map (fun kv => (fst kv, strip (snd kv))) fields in
        match reg c with
        | Some (Some initf) => PObj c (filter (fun kv => mem_str (fst kv) initf) fs)
        | _ => PObj c fs
        end
    | x => x
    end.

  Definition registered (c : str) : bool := match reg c with Some _ => true | None => false end.

  Definition keys_ok {A} (items : list (str * A)) : bool := forallb not_cls items.

  (* trees of grammar-like nodes: scalars, lists, str-keyed dicts without a "__class__" key, objects of
     registered classes with a non-empty name *)
  Fixpoint grammar_like (g : pyv) : bool :=
    match g with
    | PNone | PBool _ | PInt _ | PFloat _ | PStr _ => true
    | PStyle _ | PNamespace _ | PError => false
    | PList l => forallb grammar_like l
    | PDict items => keys_ok items && forallb (fun kv => grammar_like (snd kv)) items
    | PObj c fields =>
        nonempty c && registered c && keys_ok fields && forallb (fun kv => grammar_like (snd kv)) fields
    end.

  Fixpoint no_style_like_strings (g : pyv) : bool :=
    match g with
    | PStr s => negb (style_like s)
    | PList l => forallb no_style_like_strings l
    | PDict items | PNamespace items => forallb (fun kv => no_style_like_strings (snd kv)) items
    | PObj c fields => forallb (fun kv => no_style_like_strings (snd kv)) fields
    | _ => true
    end.
End Guards.

(* ---- a sample registry and grammars for the witnesses (Properties/C14.v) ------------------- *)
Definition s_Token : str := [84;111;107;101;110].
Definition s_token : str := [116;111;107;101;110].
Definition s_Sequence : str := [83;101;113;117;101;110;99;101].
Definition s_sequence : str := [115;101;113;117;101;110;99;101].
Definition s_Rule : str := [82;117;108;101].
Definition s_name : str := [110;97;109;101].
Definition s_params : str := [112;97;114;97;109;115].
Definition s_Group : str := [71;114;111;117;112].
Definition s_ctx : str := [99;116;120].
Definition s_parseinfo : str := [112;97;114;115;101;105;110;102;111].

Definition base_init : list str := [k_ast; s_ctx; s_parseinfo].

(* init-able dataclass fields of a few grammar classes (Box.name is init=False) *)
Definition sample_reg (c : str) : option (option (list str)) :=
  if str_eqb c s_Token then Some (Some (base_init ++ [s_token]))
  else if str_eqb c s_Sequence then Some (Some (base_init ++ [s_sequence]))
  else if str_eqb c s_Group then Some (Some (base_init ++ [k_exp]))
  else if str_eqb c s_Rule then Some (Some (base_init ++ [k_exp; s_name; s_params]))
  else None.

(* Token('f{a') *)
Definition witness_token : pyv := PObj s_Token [(s_token, PStr [102;123;97])].
(* Token('\e[') written with a backslash *)
Definition witness_token_esc : pyv := PObj s_Token [(s_token, PStr [92;101;91])].

(* Rule(name='start', params=[], exp=Sequence([Group(name=None, exp=Token('a')), Token('xf{')])) *)
Definition sample_rule : pyv :=
  PObj s_Rule
    [(s_name, PStr [115;116;97;114;116]); (s_params, PList []);
     (k_exp, PObj s_Sequence
        [(s_sequence, PList [PObj s_Group [(s_name, PNone); (k_exp, PObj s_Token [(s_token, PStr [97])])];
                             PObj s_Token [(s_token, PStr [120;102;123])]])])].
