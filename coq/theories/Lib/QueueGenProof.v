(* Several live receive() generators on one reader: exactly once, in order, whatever the order in which they
   are advanced. *)
From Coq Require Import List NArith Arith Bool Lia.
From TatsuV Require Import Lib.Queue Lib.QueueProof Lib.QueueGen.
Import ListNotations.

Lemma firstn_S_nth {A} (l : list A) n x : nth_error l n = Some x -> firstn (S n) l = firstn n l ++ [x].
Proof.
  revert l. induction n as [|n IH]; intros [|h t] H; cbn in H; try discriminate.
  - inversion H; subst. reflexivity.
  - rewrite (firstn_cons (S n)), (firstn_cons n). rewrite (IH _ H). reflexivity.
Qed.

Lemma skipn_cons_nth {A} (l : list A) p x rest : skipn p l = x :: rest -> nth_error l p = Some x /\ skipn (S p) l = rest.
Proof.
  revert l. induction p as [|p IH]; intros l H.
  - cbn in H. subst l. split; reflexivity.
  - destruct l as [|h t]; [discriminate|]. cbn [skipn] in H. destruct (IH _ H) as [HA HB]. split; [exact HA|exact HB].
Qed.

Lemma skipn_nil_len {A} (l : list A) p : skipn p l = [] -> length l <= p.
Proof.
  revert l. induction p as [|p IH]; intros l H; [cbn in H; subst; cbn; lia|].
  destruct l as [|h t]; [cbn; lia|]. cbn [skipn] in H. cbn [length]. specialize (IH _ H). lia.
Qed.

Lemma nth_error_firstn_lt {A} (l : list A) : forall n p, p < n -> nth_error (firstn n l) p = nth_error l p.
Proof.
  induction l as [|h t IH]; intros n p H; [destruct n; destruct p; reflexivity|].
  destruct n; [lia|]. rewrite firstn_cons. destruct p; [reflexivity|]. cbn [nth_error]. apply IH. lia.
Qed.

Lemma goods_In_firstn file n i : In i (goods (firstn n file)) -> In (Good i) (firstn n file).
Proof.
  unfold goods. intros H. apply in_flat_map in H. destruct H as [[j|] [Hin Hx]]; cbn in Hx; [|destruct Hx].
  destruct Hx as [->|[]]. exact Hin.
Qed.

(* reading the line at _told is read_line *)
Lemma FInv_read_next file r l :
  NoDup (goods file) -> FInv file r -> nth_error file (told r) = Some l -> FInv file (read_line r l).
Proof.
  intros ND [Hle HI] Hn.
  assert (Hlt : told r < length file) by (apply nth_error_Some; congruence).
  assert (Ht : told (read_line r l) = S (told r)) by (destruct l as [i|]; cbn; [destruct (mem i (seen r))|]; reflexivity).
  split; [rewrite Ht; lia|]. rewrite Ht. rewrite (firstn_S_nth _ _ _ Hn).
  apply read_line_inv; [|exact HI].
  rewrite <- (firstn_S_nth _ _ _ Hn). rewrite <- (firstn_skipn (S (told r)) file) in ND.
  eapply NoDup_goods_prefix. exact ND.
Qed.

(* a line before _told has been processed: a good one is in _seen *)
Lemma seen_before file r p i : FInv file r -> p < told r -> nth_error file p = Some (Good i) -> mem i (seen r) = true.
Proof.
  intros [Hle (Ht & Hd & Hs)] Hp Hn. apply mem_In. apply Hs. rewrite Hd.
  unfold goods. apply in_flat_map. exists (Good i). split; [|left; reflexivity].
  assert (E : nth_error (firstn (told r) file) p = Some (Good i)).
  { rewrite nth_error_firstn_lt by exact Hp. exact Hn. }
  eapply nth_error_In. exact E.
Qed.

Definition same_reader (a b : reader) : Prop := told a = told b /\ seen a = seen b /\ delivered a = delivered b.

Lemma FInv_same file a b : same_reader a b -> FInv file a -> FInv file b.
Proof.
  intros (Ht & Hs & Hd) [Hle (H1 & H2 & H3)]. unfold FInv, Inv. rewrite <- Ht, <- Hs, <- Hd.
  split; [exact Hle|]. split; [exact H1|]. split; [exact H2|exact H3].
Qed.

Lemma gstep_inv file : NoDup (goods file) -> forall rest p r y p' r',
  skipn p file = rest -> FInv file r -> p <= told r ->
  gstep rest p r = (y, p', r') ->
  FInv file r' /\ p' <= told r' /\ told r <= told r' /\ p <= p'
  /\ (y = true -> exists i, delivered r' = delivered r ++ [i])
  /\ (y = false -> told r' = length file /\ delivered r' = goods file).
Proof.
  intros ND rest. induction rest as [|l rest IH]; intros p r y p' r' Hs HI Hp E; cbn [gstep] in E.
  - injection E as <- <- <-. pose proof (skipn_nil_len _ _ Hs) as Hlen. destruct HI as [Hle (Ht0 & Hd & Hs0)].
    assert (Ht : told r = length file) by lia.
    split; [split; [exact Hle|split; [exact Ht0|split; [exact Hd|exact Hs0]]]|].
    split; [lia|]. split; [lia|]. split; [lia|]. split; [discriminate|].
    intros _. split; [exact Ht|]. rewrite Hd, Ht, firstn_all. reflexivity.
  - destruct (skipn_cons_nth _ _ _ _ Hs) as [Hn Hs'].
    destruct (Nat.eq_dec p (told r)) as [Heq|Hne].
    + (* the line at _told: this generator is the first to read it *)
      subst p. pose proof (FInv_read_next _ _ _ ND HI Hn) as HI1.
      replace (Nat.max (S (told r)) (told r)) with (S (told r)) in E by lia.
      destruct l as [i|].
      * destruct (mem i (seen r)) eqn:M.
        -- assert (SR : same_reader (read_line r (Good i)) {| told := S (told r); seen := seen r; delivered := delivered r |})
             by (cbn; rewrite M; repeat split).
           pose proof (FInv_same _ _ _ SR HI1) as HI2.
           destruct (IH _ _ _ _ _ Hs' HI2 ltac:(cbn; lia) E) as (A & B & C & D & F & G). cbn in C, F.
           refine (conj A (conj B (conj _ (conj _ (conj F G))))); lia.
        -- inversion E; subst. assert (SR : same_reader (read_line r (Good i))
                 {| told := S (told r); seen := i :: seen r; delivered := delivered r ++ [i] |}) by (cbn; rewrite M; repeat split).
           pose proof (FInv_same _ _ _ SR HI1) as HI2. cbn.
           refine (conj HI2 (conj _ (conj _ (conj _ (conj _ _))))); try lia; try discriminate. intros _; exists i; reflexivity.
      * assert (SR : same_reader (read_line r Corrupt) {| told := S (told r); seen := seen r; delivered := delivered r |})
          by (cbn; repeat split).
        pose proof (FInv_same _ _ _ SR HI1) as HI2.
        destruct (IH _ _ _ _ _ Hs' HI2 ltac:(cbn; lia) E) as (A & B & C & D & F & G). cbn in C, F.
        refine (conj A (conj B (conj _ (conj _ (conj F G))))); lia.
    + (* a line another generator has already read: skipped, nothing changes *)
      assert (Hlt : p < told r) by lia.
      replace (Nat.max (S p) (told r)) with (told r) in E by lia.
      assert (SR : same_reader r {| told := told r; seen := seen r; delivered := delivered r |}) by (repeat split).
      pose proof (FInv_same _ _ _ SR HI) as HI2.
      destruct l as [i|].
      * rewrite (seen_before _ _ _ _ HI Hlt Hn) in E.
        destruct (IH _ _ _ _ _ Hs' HI2 ltac:(cbn; lia) E) as (A & B & C & D & F & G). cbn in C, F.
        refine (conj A (conj B (conj _ (conj _ (conj F G))))); lia.
      * destruct (IH _ _ _ _ _ Hs' HI2 ltac:(cbn; lia) E) as (A & B & C & D & F & G). cbn in C, F.
        refine (conj A (conj B (conj _ (conj _ (conj F G))))); lia.
Qed.

Definition GInv (st : gst) : Prop :=
  FInv (gfile st) (grd st) /\ Forall (fun g => match g with Some p => p <= told (grd st) | None => True end) (gens st).

Lemma Forall_set_nth {A} (P : A -> Prop) l j x : Forall P l -> P x -> Forall P (set_nth l j x).
Proof.
  intros H. revert j. induction H as [|h t Hh Ht IH]; intros j Hx; [destruct j; constructor|].
  destruct j; cbn; constructor; auto.
Qed.

Lemma gfile_grows ops : forall st, exists ext, gfile (fold_left gop_step ops st) = gfile st ++ ext.
Proof.
  induction ops as [|o ops IH]; intros st; cbn [fold_left].
  - exists []. rewrite app_nil_r. reflexivity.
  - destruct (IH (gop_step st o)) as [ext He]. rewrite He. destruct o; cbn [gop_step gfile].
    + exists (l :: ext). rewrite <- app_assoc. reflexivity.
    + exists ext. reflexivity.
    + destruct (nth_error (gens st) j) as [[p|]|]; try (exists ext; reflexivity).
      destruct (gstep (skipn p (gfile st)) p (grd st)) as [[y p'] r']. exists ext. reflexivity.
Qed.

Lemma gop_step_inv st o : NoDup (goods (gfile (gop_step st o))) -> GInv st -> GInv (gop_step st o).
Proof.
  intros ND [HF HG]. destruct o; cbn [gop_step] in *.
  - split; cbn; [apply FInv_send; exact HF|exact HG].
  - split; cbn; [exact HF|]. apply Forall_app. split; [exact HG|]. constructor; [lia|constructor].
  - destruct (nth_error (gens st) j) as [[p|]|] eqn:Hn; try (split; assumption).
    destruct (gstep (skipn p (gfile st)) p (grd st)) as [[y p'] r'] eqn:E. cbn in ND.
    assert (Hp : p <= told (grd st)).
    { rewrite Forall_forall in HG. apply (HG (Some p)). eapply nth_error_In. exact Hn. }
    destruct (gstep_inv _ ND _ _ _ _ _ _ eq_refl HF Hp E) as (A & B & C & D & F & G).
    split; cbn; [exact A|]. apply Forall_set_nth.
    + eapply Forall_impl; [|exact HG]. intros [q|] Hq; [lia|exact I].
    + destruct y; [exact B|exact I].
Qed.

Lemma gsteps_inv ops : forall st, NoDup (goods (gfile (fold_left gop_step ops st))) -> GInv st ->
  GInv (fold_left gop_step ops st).
Proof.
  induction ops as [|o ops IH]; intros st ND HI; cbn [fold_left] in *; [exact HI|].
  apply IH; [exact ND|]. apply gop_step_inv; [|exact HI].
  destruct (gfile_grows ops (gop_step st o)) as [ext He]. rewrite He in ND.
  eapply NoDup_goods_prefix. exact ND.
Qed.

Lemma GInv0 : GInv gst0.
Proof. split; [split; [cbn; lia|repeat split; cbn; auto; intros i; split; intros []]|constructor]. Qed.

(* any number of live generators on one reader, advanced in any order between sends: what has been delivered
   is exactly the good packets among the first _told lines, in file order, none twice *)
Theorem generators_exactly_once_in_order ops :
  NoDup (goods (gfile (grun ops))) ->
  delivered (grd (grun ops)) = goods (firstn (told (grd (grun ops))) (gfile (grun ops)))
  /\ told (grd (grun ops)) <= length (gfile (grun ops))
  /\ NoDup (delivered (grd (grun ops))).
Proof.
  intros ND. destruct (gsteps_inv ops gst0 ND GInv0) as [[Hle (Ht & Hd & Hs)] _]. fold (grun ops) in Hle, Ht, Hd, Hs.
  split; [exact Hd|]. split; [exact Hle|]. rewrite Hd.
  rewrite <- (firstn_skipn (told (grd (grun ops))) (gfile (grun ops))) in ND. eapply NoDup_goods_prefix. exact ND.
Qed.

(* a generator that runs to its end leaves nothing undelivered, and each yield delivers exactly one new packet *)
Theorem generator_next_delivers ops j p :
  NoDup (goods (gfile (grun ops))) -> nth_error (gens (grun ops)) j = Some (Some p) ->
  forall y p' r', gstep (skipn p (gfile (grun ops))) p (grd (grun ops)) = (y, p', r') ->
  (y = true -> exists i, delivered r' = delivered (grd (grun ops)) ++ [i])
  /\ (y = false -> delivered r' = goods (gfile (grun ops))).
Proof.
  intros ND Hn y p' r' E. destruct (gsteps_inv ops gst0 ND GInv0) as [HF HG]. fold (grun ops) in HF, HG.
  assert (Hp : p <= told (grd (grun ops))).
  { rewrite Forall_forall in HG. apply (HG (Some p)). eapply nth_error_In. exact Hn. }
  destruct (gstep_inv _ ND _ _ _ _ _ _ eq_refl HF Hp E) as (A & B & C & D & F & G).
  split; [exact F|]. intros Hy. exact (proj2 (G Hy)).
Qed.
