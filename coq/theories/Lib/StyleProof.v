(* C20 - proofs about the model Lib/Style.v. *)
From Coq Require Import List NArith Arith Bool Lia ZifyBool Decimal DecimalN.
From TatsuV Require Import Base.PyStr Lib.Style.
From TatsuGen Require Import StyleGen.
Import ListNotations.
Local Open Scope N_scope.

(* ------------------------------------------------------------------ facts about the generated literals
   (each is a closed computation: a changed literal in the source makes it fail) *)
Lemma apply_open_eq : apply_open = [ansi_esc; ansi_csi].
Proof. reflexivity. Qed.

Lemma csi_not_fe : is_fe ansi_csi = false.
Proof. reflexivity. Qed.

Lemma apply_close_shape :
  exists f, apply_close = [f] /\ is_final f = true /\ is_param f = false /\ is_inter f = false.
Proof. eexists; repeat split; reflexivity. Qed.

Lemma sep_is_param : is_param apply_sep = true.
Proof. reflexivity. Qed.

Lemma digit_is_param c : is_digit c = true -> is_param c = true.
Proof. unfold is_digit, is_param, in_ranges, ansi_param; cbn. lia. Qed.

(* the three classes of the CSI alternative are pairwise disjoint, and ESC itself is in none of the
   classes: greedy scanning = the regex's backtracking semantics; ESC never is part of a match tail *)
Lemma ansi_classes_disjoint c :
  (is_param c && is_inter c = false) /\ (is_param c && is_final c = false) /\
  (is_inter c && is_final c = false).
Proof. unfold is_param, is_inter, is_final, in_ranges, ansi_param, ansi_inter, ansi_final; cbn. lia. Qed.

(* ------------------------------------------------------------------ descape: equations *)
Lemma descape_f_S f s :
  descape_f (S f) s =
  match s with
  | [] => []
  | c :: tl =>
    if c =? ansi_esc then
      match ansi_tail tl with
      | Some rest => descape_f f rest
      | None => c :: descape_f f tl
      end
    else c :: descape_f f tl
  end.
Proof. reflexivity. Qed.

Lemma skip_while_len p s : (length (skip_while p s) <= length s)%nat.
Proof. induction s as [|c tl IH]; cbn; [lia|]. destruct (p c); cbn; lia. Qed.

Lemma ansi_tail_len s r : ansi_tail s = Some r -> (length r < length s)%nat.
Proof.
  destruct s as [|c tl]; unfold ansi_tail; cbn [length]; [discriminate|].
  destruct (is_fe c).
  - intros H; inversion H; subst; lia.
  - destruct (c =? ansi_csi); [|discriminate].
    pose proof (skip_while_len is_inter (skip_while is_param tl)) as H1.
    pose proof (skip_while_len is_param tl) as H2.
    destruct (skip_while is_inter (skip_while is_param tl)) as [|f rest]; [discriminate|].
    destruct (is_final f); [|discriminate]. intros H; inversion H; subst. cbn in H1. lia.
Qed.

Lemma descape_f_fuel f1 : forall f2 s,
  (length s <= f1)%nat -> (length s <= f2)%nat -> descape_f f1 s = descape_f f2 s.
Proof.
  induction f1 as [|f1 IH]; intros f2 s H1 H2.
  - destruct s; [|cbn in H1; lia]. destruct f2; reflexivity.
  - destruct f2 as [|f2]; [destruct s; [reflexivity | cbn in H2; lia]|].
    rewrite !descape_f_S. destruct s as [|c tl]; [reflexivity|]. cbn in H1, H2.
    destruct (c =? ansi_esc).
    + destruct (ansi_tail tl) as [rest|] eqn:E.
      * apply ansi_tail_len in E. apply IH; lia.
      * f_equal. apply IH; lia.
    + f_equal. apply IH; lia.
Qed.

Lemma descape_nil : descape [] = [].
Proof. reflexivity. Qed.

Lemma descape_plain c tl : (c =? ansi_esc) = false -> descape (c :: tl) = c :: descape tl.
Proof. intros H. unfold descape. cbn [length]. rewrite descape_f_S, H. reflexivity. Qed.

Lemma descape_match tl rest :
  ansi_tail tl = Some rest -> descape (ansi_esc :: tl) = descape rest.
Proof.
  intros H. unfold descape. cbn [length]. rewrite descape_f_S, N.eqb_refl, H.
  apply ansi_tail_len in H. apply descape_f_fuel; lia.
Qed.

Lemma descape_nomatch tl :
  ansi_tail tl = None -> descape (ansi_esc :: tl) = ansi_esc :: descape tl.
Proof. intros H. unfold descape. cbn [length]. rewrite descape_f_S, N.eqb_refl, H. reflexivity. Qed.

Lemma no_esc_cons c s : no_esc (c :: s) <-> (c =? ansi_esc) = false /\ no_esc s.
Proof.
  unfold no_esc. split.
  - intros H; inversion H; subst. split; [apply N.eqb_neq; assumption | assumption].
  - intros [H1 H2]. constructor; [apply N.eqb_neq; assumption | assumption].
Qed.

Lemma no_escb_spec s : no_escb s = true <-> no_esc s.
Proof.
  induction s as [|c s IH]; cbn.
  - split; [constructor | reflexivity].
  - rewrite no_esc_cons, andb_true_iff, negb_true_iff, IH. reflexivity.
Qed.

Lemma no_esc_app a b : no_esc (a ++ b) <-> no_esc a /\ no_esc b.
Proof. unfold no_esc. apply Forall_app. Qed.

Lemma descape_app_noesc t r : no_esc t -> descape (t ++ r) = t ++ descape r.
Proof.
  induction t as [|c t IH]; intros H; [reflexivity|].
  apply no_esc_cons in H. destruct H as [Hc Ht]. cbn [List.app].
  rewrite descape_plain by assumption. rewrite IH by assumption. reflexivity.
Qed.

Lemma descape_noesc t : no_esc t -> descape t = t.
Proof. intros H. rewrite <- (app_nil_r t) at 1. rewrite descape_app_noesc by assumption. apply app_nil_r. Qed.

Lemma descape_is_noesc_fix t : no_esc t -> visual_len t = length t.
Proof. intros H. unfold visual_len. rewrite descape_noesc by assumption. reflexivity. Qed.

Lemma skip_while_all p ps f r :
  forallb p ps = true -> p f = false -> skip_while p (ps ++ f :: r) = f :: r.
Proof.
  induction ps as [|c ps IH]; cbn; intros H Hf.
  - rewrite Hf. reflexivity.
  - apply andb_true_iff in H. destruct H as [Hc H]. rewrite Hc. apply IH; assumption.
Qed.

(* a whole CSI sequence: parameters then a final byte *)
Lemma ansi_tail_csi ps f r :
  forallb is_param ps = true -> is_param f = false -> is_inter f = false -> is_final f = true ->
  ansi_tail (ansi_csi :: ps ++ f :: r) = Some r.
Proof.
  intros Hp Hf1 Hf2 Hf3. unfold ansi_tail. rewrite csi_not_fe, N.eqb_refl.
  rewrite skip_while_all by assumption. cbn [skip_while]. rewrite Hf2, Hf3. reflexivity.
Qed.

(* ------------------------------------------------------------------ decimal numerals *)
Lemma chars_uint_chars' u : chars_uint (uint_chars u) = u.
Proof. induction u; cbn; congruence. Qed.

Lemma uint_chars_digits u : forallb is_digit (uint_chars u) = true.
Proof. induction u; cbn; auto. Qed.

Lemma str_of_N_digits n : forallb is_digit (str_of_N n) = true.
Proof. apply uint_chars_digits. Qed.

Lemma str_of_N_nonempty n : str_of_N n <> [].
Proof.
  unfold str_of_N. destruct n as [|p]; cbn; [discriminate|].
  intros H. assert (E : Pos.to_uint p = Nil) by (destruct (Pos.to_uint p); cbn in H; try discriminate; reflexivity).
  exact (DecimalPos.Unsigned.to_uint_nonnil p E).
Qed.

Lemma N_of_str_of_N n : N_of_digits (str_of_N n) = n.
Proof. unfold N_of_digits, str_of_N. rewrite chars_uint_chars'. apply DecimalN.Unsigned.of_to. Qed.

Lemma forallb_app' {A} (p : A -> bool) a b : forallb p (a ++ b) = forallb p a && forallb p b.
Proof. induction a; cbn; [reflexivity|]. rewrite IHa, andb_assoc. reflexivity. Qed.

Lemma forallb_impl {A} (p q : A -> bool) l :
  (forall x, p x = true -> q x = true) -> forallb p l = true -> forallb q l = true.
Proof.
  intros H. induction l as [|x l IH]; cbn; [reflexivity|].
  intros E. apply andb_true_iff in E. destruct E as [E1 E2]. rewrite (H _ E1), (IH E2). reflexivity.
Qed.

Lemma join_params_param ns : forallb is_param (join_params ns) = true.
Proof.
  induction ns as [|n tl IH]; [reflexivity|].
  assert (Hn : forallb is_param (str_of_N n) = true)
    by (apply (forallb_impl is_digit); [exact digit_is_param | apply str_of_N_digits]).
  destruct tl as [|m tl]; [exact Hn|].
  change (join_params (n :: m :: tl)) with (str_of_N n ++ apply_sep :: join_params (m :: tl)).
  rewrite forallb_app', Hn. cbn [forallb]. rewrite sep_is_param, IH. reflexivity.
Qed.

(* ------------------------------------------------------------------ priority 1: descape o apply_style *)
Lemma descape_sgr_seq ns r : descape (sgr_seq ns ++ r) = descape r.
Proof.
  unfold sgr_seq. destruct apply_close_shape as (f & Ef & F1 & F2 & F3).
  rewrite apply_open_eq, Ef. cbn [List.app]. rewrite <- !app_assoc. cbn [List.app].
  apply descape_match. apply ansi_tail_csi; auto using join_params_param.
Qed.

Theorem descape_apply_style en force st text :
  no_esc text -> descape (apply_style en force st text) = text.
Proof.
  intros H. unfold apply_style. destruct text as [|c t]; [reflexivity|].
  destruct (negb (en || force)); [apply descape_noesc; assumption|].
  destruct (code_params st) as [|p ps]; [apply descape_noesc; assumption|].
  rewrite descape_sgr_seq. rewrite descape_app_noesc by assumption.
  rewrite <- (app_nil_r (sgr_seq reset_params)). rewrite descape_sgr_seq. rewrite descape_nil, app_nil_r.
  reflexivity.
Qed.

(* colour disabled and not forced: the text itself, so no escape sequence at all *)
Theorem apply_style_disabled st text : apply_style false false st text = text.
Proof. destruct text; reflexivity. Qed.

(* the visible length of styled text is the length of the text *)
Theorem visual_len_apply_style en force st text :
  no_esc text -> visual_len (apply_style en force st text) = length text.
Proof. intros H. unfold visual_len. rewrite descape_apply_style by assumption. reflexivity. Qed.

(* ------------------------------------------------------------------ priority 2: SGR parameters round trip *)
Lemma parse_go_simple p tl a :
  (forall b, classify p <> AExt b) -> parse_go (p :: tl) a = parse_go tl (act (classify p) a).
Proof.
  intros H. cbn [parse_go]. destruct (classify p) eqn:E; try reflexivity. exfalso. exact (H isfg eq_refl).
Qed.

Lemma parse_go_opt (b : bool) c x rest a :
  classify c = x -> (forall i, x <> AExt i) ->
  parse_go (opt_code b c ++ rest) a = parse_go rest (if b then act x a else a).
Proof.
  intros E H. destruct b; cbn [opt_code List.app]; [|reflexivity].
  rewrite parse_go_simple by (rewrite E; exact H). rewrite E. reflexivity.
Qed.

Ltac kill_eqb :=
  repeat match goal with
         | |- context [N.eqb ?a ?b] => destruct (N.eqb_spec a b); [lia|]
         end.

Lemma classify_fg_std n : n < fg_std_lim -> classify (fg_std_base + n) = AFg n.
Proof.
  unfold fg_std_lim, fg_std_base. intros H. unfold classify.
  unfold p_reset, p_bold, p_dim, p_italic, p_underline, p_blink, p_inverse, p_hidden, p_strike,
    p_fg_lo, p_fg_hi, p_fg_sub. kill_eqb.
  destruct ((30 <=? 30 + n) && (30 + n <=? 37)) eqn:E; [f_equal; lia | lia].
Qed.

Lemma classify_fg_bright n :
  fg_std_lim <= n -> n < fg_bright_lim -> classify (fg_bright_base + n - fg_bright_sub) = AFg n.
Proof.
  unfold fg_std_lim, fg_bright_lim, fg_bright_base, fg_bright_sub. intros H1 H2. unfold classify.
  unfold p_reset, p_bold, p_dim, p_italic, p_underline, p_blink, p_inverse, p_hidden, p_strike,
    p_fg_lo, p_fg_hi, p_fg_sub, p_bg_lo, p_bg_hi, p_bg_sub, p_fg_ext, p_bg_ext, p_fgb_lo, p_fgb_hi, p_fgb_sub.
  kill_eqb.
  destruct ((30 <=? 90 + n - 8) && (90 + n - 8 <=? 37)) eqn:E1; [lia|].
  destruct ((40 <=? 90 + n - 8) && (90 + n - 8 <=? 47)) eqn:E2; [lia|].
  destruct ((90 <=? 90 + n - 8) && (90 + n - 8 <=? 97)) eqn:E3; [f_equal; lia | lia].
Qed.

Lemma classify_bg_std n : n < bg_std_lim -> classify (bg_std_base + n) = ABg n.
Proof.
  unfold bg_std_lim, bg_std_base. intros H. unfold classify.
  unfold p_reset, p_bold, p_dim, p_italic, p_underline, p_blink, p_inverse, p_hidden, p_strike,
    p_fg_lo, p_fg_hi, p_fg_sub, p_bg_lo, p_bg_hi, p_bg_sub. kill_eqb.
  destruct ((30 <=? 40 + n) && (40 + n <=? 37)) eqn:E1; [lia|].
  destruct ((40 <=? 40 + n) && (40 + n <=? 47)) eqn:E; [f_equal; lia | lia].
Qed.

Lemma classify_bg_bright n :
  bg_std_lim <= n -> n < bg_bright_lim -> classify (bg_bright_base + n - bg_bright_sub) = ABg n.
Proof.
  unfold bg_std_lim, bg_bright_lim, bg_bright_base, bg_bright_sub. intros H1 H2. unfold classify.
  unfold p_reset, p_bold, p_dim, p_italic, p_underline, p_blink, p_inverse, p_hidden, p_strike,
    p_fg_lo, p_fg_hi, p_fg_sub, p_bg_lo, p_bg_hi, p_bg_sub, p_fg_ext, p_bg_ext, p_fgb_lo, p_fgb_hi, p_fgb_sub,
    p_bgb_lo, p_bgb_hi, p_bgb_sub.
  kill_eqb.
  destruct ((30 <=? 100 + n - 8) && (100 + n - 8 <=? 37)) eqn:E1; [lia|].
  destruct ((40 <=? 100 + n - 8) && (100 + n - 8 <=? 47)) eqn:E2; [lia|].
  destruct ((90 <=? 100 + n - 8) && (100 + n - 8 <=? 97)) eqn:E3; [lia|].
  destruct ((100 <=? 100 + n - 8) && (100 + n - 8 <=? 107)) eqn:E4; [f_equal; lia | lia].
Qed.

Lemma clampb_id n : n <= byte_max -> clampb n = n.
Proof. intros H. unfold clampb. apply N.min_l. assumption. Qed.

Lemma set_fg_none a : s_fg a = CNone -> set_fg CNone a = a.
Proof. destruct a; cbn; intros ->; reflexivity. Qed.
Lemma set_bg_none a : s_bg a = CNone -> set_bg CNone a = a.
Proof. destruct a; cbn; intros ->; reflexivity. Qed.

Lemma parse_go_fg c rest a :
  wf_color c -> s_fg a = CNone -> parse_go (fg_params c ++ rest) a = parse_go rest (set_fg c a).
Proof.
  intros W E. destruct c as [|n|r g b]; cbn [fg_params].
  - cbn [List.app]. rewrite set_fg_none by assumption. reflexivity.
  - destruct (n <? fg_std_lim) eqn:L1.
    + apply N.ltb_lt in L1. cbn [List.app]. rewrite parse_go_simple; rewrite classify_fg_std by assumption;
        [reflexivity | discriminate].
    + apply N.ltb_ge in L1. destruct (n <? fg_bright_lim) eqn:L2.
      * apply N.ltb_lt in L2. cbn [List.app].
        rewrite parse_go_simple; rewrite classify_fg_bright by assumption; [reflexivity | discriminate].
      * reflexivity.
  - cbn in W. destruct W as (Wr & Wg & Wb).
    transitivity (parse_go rest (set_fg (CRgb (clampb r) (clampb g) (clampb b)) a)); [reflexivity|].
    rewrite !clampb_id by assumption. reflexivity.
Qed.

Lemma parse_go_bg c rest a :
  wf_color c -> s_bg a = CNone -> parse_go (bg_params c ++ rest) a = parse_go rest (set_bg c a).
Proof.
  intros W E. destruct c as [|n|r g b]; cbn [bg_params].
  - cbn [List.app]. rewrite set_bg_none by assumption. reflexivity.
  - destruct (n <? bg_std_lim) eqn:L1.
    + apply N.ltb_lt in L1. cbn [List.app]. rewrite parse_go_simple; rewrite classify_bg_std by assumption;
        [reflexivity | discriminate].
    + apply N.ltb_ge in L1. destruct (n <? bg_bright_lim) eqn:L2.
      * apply N.ltb_lt in L2. cbn [List.app].
        rewrite parse_go_simple; rewrite classify_bg_bright by assumption; [reflexivity | discriminate].
      * reflexivity.
  - cbn in W. destruct W as (Wr & Wg & Wb).
    transitivity (parse_go rest (set_bg (CRgb (clampb r) (clampb g) (clampb b)) a)); [reflexivity|].
    rewrite !clampb_id by assumption. reflexivity.
Qed.

Lemma norm_color_id c : wf_color c -> norm_color c = c.
Proof. destruct c; cbn; intros H; try reflexivity. rewrite clampb_id by assumption. reflexivity. Qed.

(* every attribute combination: all 256 modifier subsets x {none, 0-7, 8-15, 16-255, RGB}^2 *)
Theorem sgr_params_roundtrip st : wf_style st -> parse_params (code_params st) = st.
Proof.
  destruct st as [b1 b2 b3 b4 b5 b6 b7 b8 fg bg]. intros [Wf Wb]. cbn in Wf, Wb.
  unfold parse_params, code_params, mod_params. cbn [s_bold s_dim s_italic s_underline s_blink s_inverse s_hidden s_strike s_fg s_bg].
  rewrite <- !app_assoc.
  rewrite (parse_go_opt b1 code_bold ABold) by (reflexivity || discriminate).
  rewrite (parse_go_opt b2 code_dim ADim) by (reflexivity || discriminate).
  rewrite (parse_go_opt b3 code_italic AItalic) by (reflexivity || discriminate).
  rewrite (parse_go_opt b4 code_underline AUnderline) by (reflexivity || discriminate).
  rewrite (parse_go_opt b5 code_blink ABlink) by (reflexivity || discriminate).
  rewrite (parse_go_opt b6 code_inverse AInverse) by (reflexivity || discriminate).
  rewrite (parse_go_opt b7 code_hidden AHidden) by (reflexivity || discriminate).
  rewrite (parse_go_opt b8 code_strike AStrike) by (reflexivity || discriminate).
  rewrite parse_go_fg; [|assumption | destruct b1, b2, b3, b4, b5, b6, b7, b8; reflexivity].
  rewrite <- (app_nil_r (bg_params bg)).
  rewrite parse_go_bg; [|assumption | destruct b1, b2, b3, b4, b5, b6, b7, b8; reflexivity].
  cbn [parse_go]. unfold norm_style.
  destruct b1, b2, b3, b4, b5, b6, b7, b8; cbn; rewrite !norm_color_id by assumption; reflexivity.
Qed.

(* string level: ';'.join of decimal numerals, split and int() again *)
Lemma digit_not_split c : is_digit c = true -> (c =? p_split) = false.
Proof. unfold is_digit, p_split. lia. Qed.

Lemma split_on_digits_end d : forallb is_digit d = true -> split_on p_split d = [d].
Proof.
  induction d as [|c d IH]; cbn [forallb split_on]; [reflexivity|].
  intros H. apply andb_true_iff in H. destruct H as [Hc Hd].
  rewrite (digit_not_split _ Hc), (IH Hd). reflexivity.
Qed.

Lemma split_on_digits d rest :
  forallb is_digit d = true -> split_on p_split (d ++ p_split :: rest) = d :: split_on p_split rest.
Proof.
  induction d as [|c d IH]; cbn [forallb split_on List.app].
  - intros _. rewrite N.eqb_refl. reflexivity.
  - intros H. apply andb_true_iff in H. destruct H as [Hc Hd].
    rewrite (digit_not_split _ Hc), (IH Hd). reflexivity.
Qed.

Lemma sep_eq_split : apply_sep = p_split.
Proof. reflexivity. Qed.

Lemma split_join ns : ns <> [] -> split_on p_split (join_params ns) = map str_of_N ns.
Proof.
  induction ns as [|n tl IH]; [congruence|]. intros _.
  destruct tl as [|m tl].
  - cbn [join_params map]. apply split_on_digits_end, str_of_N_digits.
  - change (join_params (n :: m :: tl)) with (str_of_N n ++ apply_sep :: join_params (m :: tl)).
    rewrite sep_eq_split, split_on_digits by apply str_of_N_digits.
    rewrite IH by discriminate. reflexivity.
Qed.

Lemma int_of_str_of_N n : int_of (str_of_N n) = Some n.
Proof.
  unfold int_of. pose proof (str_of_N_nonempty n) as Hn.
  destruct (str_of_N n) as [|c s] eqn:E; [congruence|].
  rewrite <- E, str_of_N_digits, N_of_str_of_N. reflexivity.
Qed.

Theorem params_of_join ns : ns <> [] -> params_of_str (join_params ns) = Some ns.
Proof.
  intros H. unfold params_of_str. rewrite split_join by assumption. clear H.
  induction ns as [|n tl IH]; [reflexivity|].
  cbn [map all_some]. rewrite int_of_str_of_N, IH. reflexivity.
Qed.

(* ------------------------------------------------------------------ priority 3: format(text, spec) then style *)
Lemma spec_head_fill s fill al fg s1 :
  spec_head s = (fill, al, fg, s1) -> fill = 32 \/ exists rest, s = fill :: rest.
Proof.
  unfold spec_head. destruct s as [|f [|a tl]].
  - intros H; inversion H; auto.
  - destruct (is_align f); intros H; inversion H; auto.
  - destruct (is_align a); [intros H; inversion H; subst; right; eexists; reflexivity|].
    destruct (is_align f); intros H; inversion H; auto.
Qed.

Lemma esc_not_space_zero : ansi_esc <> 32 /\ ansi_esc <> 48.
Proof. split; discriminate. Qed.

Lemma parse_spec_fill s f : no_esc s -> parse_spec s = Some f -> f_fill f <> ansi_esc.
Proof.
  intros Hs. unfold parse_spec. destruct (spec_head s) as [[[fill al] fg] s1] eqn:E.
  destruct (al =? c_eq); [discriminate|].
  destruct (spec_tail fg s1) as [[w p]|]; [|discriminate].
  intros H; inversion H; subst; clear H. cbn [f_fill].
  destruct esc_not_space_zero as [H32 H48].
  destruct (zero_flag fg s1); [congruence|].
  apply spec_head_fill in E. destruct E as [-> | [rest ->]]; [congruence|].
  apply no_esc_cons in Hs. destruct Hs as [Hc _]. apply N.eqb_neq. assumption.
Qed.

Lemma no_esc_repeat c n : c <> ansi_esc -> no_esc (repeat_c c n).
Proof. intros H. induction n; cbn; constructor; assumption. Qed.

Lemma no_esc_firstn n s : no_esc s -> no_esc (firstn n s).
Proof.
  revert s. induction n as [|n IH]; intros s H; cbn; [constructor|].
  destruct s as [|c s]; [constructor|]. inversion H; subst. constructor; [assumption | apply IH; assumption].
Qed.

Lemma no_esc_render f text : f_fill f <> ansi_esc -> no_esc text -> no_esc (render f text).
Proof.
  intros Hf Ht. unfold render.
  destruct (le_opt (f_width f) (N.of_nat (length text)) && ge_opt (f_prec f) (N.of_nat (length text))); [assumption|].
  apply no_esc_app; split; [apply no_esc_repeat; assumption|].
  apply no_esc_app; split; [|apply no_esc_repeat; assumption].
  destruct (f_prec f); [apply no_esc_firstn|]; assumption.
Qed.

(* format of an escape-free text by an escape-free spec is escape-free *)
Theorem format_str_no_esc spec text t :
  no_esc spec -> no_esc text -> format_str spec text = Some t -> no_esc t.
Proof.
  intros Hs Ht. unfold format_str. destruct spec as [|c spec]; [intros H; inversion H; subst; assumption|].
  destruct (parse_spec (c :: spec)) as [f|] eqn:E; [|discriminate].
  intros H; inversion H; subst. apply no_esc_render; [apply (parse_spec_fill (c :: spec)); assumption | assumption].
Qed.

(* the format spec apply() uses: the argument when non-empty, else self._fmt when non-empty *)
Definition eff_fmt (sfmt fmt : option str) : option str :=
  match nonempty_opt fmt with Some f => Some f | None => nonempty_opt sfmt end.

(* the text apply() styles: None = format raises ValueError *)
Definition formatted (sfmt fmt : option str) (text : str) : option str :=
  match eff_fmt sfmt fmt with Some f => format_str f text | None => Some text end.

Lemma nonempty_opt_idem o : nonempty_opt (nonempty_opt o) = nonempty_opt o.
Proof. destruct o as [[|c s]|]; reflexivity. Qed.

Lemma apply_eq en st sfmt text fmt :
  text <> [] ->
  apply en st sfmt text fmt =
  match formatted sfmt fmt text with Some t => Some (apply_style en false st t) | None => None end.
Proof.
  intros H. destruct text as [|c text]; [congruence|]. unfold apply, formatted, eff_fmt.
  destruct (nonempty_opt fmt) as [f|] eqn:E.
  - assert (E2 : nonempty_opt (Some f) = Some f)
      by (destruct fmt as [[|x y]|]; cbn in E; inversion E; reflexivity).
    rewrite E2. destruct (format_str f (c :: text)); reflexivity.
  - destruct (nonempty_opt sfmt) as [f|] eqn:E1.
    + assert (E2 : nonempty_opt (nonempty_opt sfmt) = Some f) by (rewrite E1; destruct sfmt as [[|x y]|]; cbn in E1; inversion E1; reflexivity).
      rewrite nonempty_opt_idem in E2.
      destruct sfmt as [[|x y]|]; cbn in E1; inversion E1; subst. cbn [nonempty_opt].
      destruct (format_str (x :: y) (c :: text)); reflexivity.
    + destruct sfmt as [[|x y]|]; cbn in E1; try discriminate; reflexivity.
Qed.

Definition no_esc_opt (o : option str) : Prop := match o with Some f => no_esc f | None => True end.

(* apply(text, fmt): the escape sequences removed leave exactly the formatted text; with colour
   disabled the output IS the formatted text (and is escape-free); a format error propagates *)
Theorem apply_transparent en st sfmt text fmt :
  text <> [] -> no_esc text -> no_esc_opt (eff_fmt sfmt fmt) ->
  match formatted sfmt fmt text with
  | Some t => exists out, apply en st sfmt text fmt = Some out /\ descape out = t /\ no_esc t /\
                          visual_len out = length t /\ (en = false -> out = t)
  | None => apply en st sfmt text fmt = None
  end.
Proof.
  intros Hne Ht Hf. rewrite apply_eq by assumption.
  destruct (formatted sfmt fmt text) as [t|] eqn:E; [|reflexivity].
  assert (Hn : no_esc t).
  { unfold formatted in E. destruct (eff_fmt sfmt fmt) as [f|]; [|inversion E; subst; assumption].
    apply (format_str_no_esc f text); [exact Hf | assumption | assumption]. }
  eexists; split; [reflexivity|]. repeat split.
  - apply descape_apply_style; assumption.
  - assumption.
  - apply visual_len_apply_style; assumption.
  - intros ->. apply apply_style_disabled.
Qed.

(* len(style) = the length of the formatted value *)
Theorem style_len_formatted en st sfmt value t :
  value <> [] -> no_esc value -> no_esc_opt (nonempty_opt sfmt) ->
  formatted sfmt None value = Some t -> style_len en st sfmt value = Some (length t).
Proof.
  intros Hne Hv Hf E. unfold style_len, to_str.
  pose proof (apply_transparent en st sfmt value None Hne Hv Hf) as H. rewrite E in H.
  destruct H as (out & -> & _ & _ & L & _). rewrite L. reflexivity.
Qed.

(* format(style, spec), repaired code (value passed to apply): transparent *)
Theorem dunder_format_fixed_transparent en st sfmt value spec :
  value <> [] -> no_esc value -> no_esc_opt (eff_fmt sfmt (Some spec)) ->
  match formatted sfmt (Some spec) value with
  | Some t => exists out, dunder_format_with false en st sfmt value spec = Some out /\ descape out = t
                          /\ (en = false -> out = t)
  | None => dunder_format_with false en st sfmt value spec = None
  end.
Proof.
  intros Hne Hv Hf. unfold dunder_format_with.
  pose proof (apply_transparent en st sfmt value (Some spec) Hne Hv Hf) as H.
  destruct (formatted sfmt (Some spec) value) as [t|]; [|assumption].
  destruct H as (out & E & D & _ & _ & O). exists out. auto.
Qed.

(* format(style, spec) at the pinned commit styles twice and formats the styled string: the width
   counts escape bytes.  Witness: bold "a" with spec ">3" (expected "  a"). *)
Definition bold_only : style := mkStyle true false false false false false false false CNone CNone.

Theorem dunder_format_shipped_refuted :
  exists st value spec t out,
    no_esc value /\ no_esc spec /\ value <> [] /\
    format_str spec value = Some t /\
    dunder_format_with true true st None value spec = Some out /\ descape out <> t.
Proof.
  exists bold_only, [97], [62; 51], [32; 32; 97].
  eexists. repeat split.
  - repeat constructor; discriminate.
  - repeat constructor; discriminate.
  - discriminate.
  - vm_compute. discriminate.
Qed.

(* and with colour disabled the stored format is applied twice: value "abc", fmt ">5.2": str() gives
   "   ab" but format(style, "") gives five spaces *)
Theorem dunder_format_shipped_twice_refuted :
  exists st sfmt value t out,
    no_esc value /\ to_str false st (Some sfmt) value = Some t /\
    dunder_format_with true false st (Some sfmt) value [] = Some out /\ out <> t.
Proof.
  exists plain, [62; 53; 46; 50], [97; 98; 99]. do 2 eexists. repeat split.
  - repeat constructor; discriminate.
  - vm_compute. discriminate.
Qed.

(* ------------------------------------------------------------------ priority 5: Color.enabled *)
Theorem color_enabled_table e :
  (forall b, e_force e = Some b -> color_enabled e = b) /\
  (e_force e = None -> e_no_color e = true -> color_enabled e = false) /\
  (e_force e = None -> e_no_color e = false -> e_force_color e = true -> color_enabled e = true) /\
  (e_force e = None -> e_no_color e = false -> e_force_color e = false ->
   color_enabled e = if e_check_stderr e then e_stderr_tty e else e_stdout_tty e).
Proof.
  unfold color_enabled. repeat split.
  - intros b ->. reflexivity.
  - intros -> ->. reflexivity.
  - intros -> -> ->. reflexivity.
  - intros -> -> ->. reflexivity.
Qed.

(* whenever the policy says "disabled", the styled output is the formatted text, free of escapes *)
Theorem disabled_no_escape e st sfmt text fmt t :
  color_enabled e = false -> text <> [] -> no_esc text -> no_esc_opt (eff_fmt sfmt fmt) ->
  formatted sfmt fmt text = Some t ->
  apply (color_enabled e) st sfmt text fmt = Some t /\ no_esc t.
Proof.
  intros He Hne Ht Hf E. pose proof (apply_transparent (color_enabled e) st sfmt text fmt Hne Ht Hf) as H.
  rewrite E in H. destruct H as (out & -> & _ & N & _ & O). rewrite (O He). auto.
Qed.

(* ------------------------------------------------------------------ priority 4 (partial): from_raw after tty_unescape *)
Lemma sgr_esc_eq : sgr_esc = ansi_esc.
Proof. reflexivity. Qed.

Lemma sgr_search_noesc s : no_esc s -> sgr_search s = None.
Proof.
  induction s as [|c s IH]; intros H; [reflexivity|].
  apply no_esc_cons in H. destruct H as [Hc Hs]. cbn [sgr_search].
  assert (E : sgr_here (c :: s) = None).
  { unfold sgr_here. destruct s as [|o tl]; [reflexivity|]. rewrite sgr_esc_eq, Hc. reflexivity. }
  rewrite E. apply IH. assumption.
Qed.

Lemma final_not_class : is_sgr_class sgr_final = false.
Proof. reflexivity. Qed.

Lemma sgr_body_all g r : forallb is_sgr_class g = true -> sgr_body (g ++ sgr_final :: r) = Some g.
Proof.
  induction g as [|c g IH]; cbn [forallb List.app sgr_body]; intros H.
  - rewrite final_not_class, N.eqb_refl. reflexivity.
  - apply andb_true_iff in H. destruct H as [Hc Hg]. rewrite Hc, (IH Hg). reflexivity.
Qed.

Lemma digit_is_class c : is_digit c = true -> is_sgr_class c = true.
Proof. intros H. unfold is_sgr_class. rewrite H. reflexivity. Qed.

Lemma sep_is_class : is_sgr_class apply_sep = true.
Proof. reflexivity. Qed.

Lemma join_params_class ns : forallb is_sgr_class (join_params ns) = true.
Proof.
  induction ns as [|n tl IH]; [reflexivity|].
  assert (Hn : forallb is_sgr_class (str_of_N n) = true)
    by (apply (forallb_impl is_digit); [exact digit_is_class | apply str_of_N_digits]).
  destruct tl as [|m tl]; [exact Hn|].
  change (join_params (n :: m :: tl)) with (str_of_N n ++ apply_sep :: join_params (m :: tl)).
  rewrite forallb_app', Hn. cbn [forallb]. rewrite sep_is_class, IH. reflexivity.
Qed.

Lemma sgr_seq_shape ns : sgr_seq ns = sgr_esc :: sgr_csi :: join_params ns ++ [sgr_final].
Proof. reflexivity. Qed.

Lemma sgr_search_seq ns r : sgr_search (sgr_seq ns ++ r) = Some (join_params ns).
Proof.
  rewrite sgr_seq_shape. cbn [List.app]. rewrite <- app_assoc. cbn [List.app].
  cbn [sgr_search]. unfold sgr_here. rewrite !N.eqb_refl. cbn [andb].
  rewrite sgr_body_all by apply join_params_class. reflexivity.
Qed.

Lemma join_params_nonempty ns : ns <> [] -> join_params ns <> [].
Proof.
  destruct ns as [|n tl]; [congruence|]. intros _ H.
  pose proof (str_of_N_nonempty n) as Hn.
  destruct tl as [|m tl]; [exact (Hn H)|].
  change (join_params (n :: m :: tl)) with (str_of_N n ++ apply_sep :: join_params (m :: tl)) in H.
  destruct (str_of_N n); [congruence | discriminate].
Qed.

Lemma parse_fmt_plain a v : ~ In 123 v -> parse_fmt a v = mkParsed a v None.
Proof.
  intros H. unfold parse_fmt, fmt_open.
  destruct v as [|c1 [|c2 tl]]; cbn [strip_prefix]; try reflexivity.
  - destruct (102 =? c1); reflexivity.
  - destruct (102 =? c1); [|reflexivity]. destruct (N.eqb_spec 123 c2) as [E|E]; [|reflexivity].
    exfalso. apply H. right. left. symmetry. exact E.
Qed.

Lemma span_until_app c v r :
  ~ In c v -> ~ In 10 v -> span_until c (v ++ c :: r) = Some (v, r).
Proof.
  induction v as [|x v IH]; intros H1 H2; cbn [List.app span_until].
  - rewrite N.eqb_refl. reflexivity.
  - destruct (N.eqb_spec x c) as [E|E]; [exfalso; apply H1; left; assumption|].
    destruct (N.eqb_spec x 10) as [E2|E2]; [exfalso; apply H2; left; assumption|].
    rewrite IH; [reflexivity | intros K; apply H1; right; assumption | intros K; apply H2; right; assumption].
Qed.

Lemma first_line_noeol f c : ~ In 10 f -> c <> 10 -> first_line (f ++ [c]) = f ++ [c].
Proof.
  induction f as [|x f IH]; intros H Hc; cbn [List.app first_line].
  - destruct (N.eqb_spec c 10); [contradiction | reflexivity].
  - destruct (N.eqb_spec x 10) as [E|E]; [exfalso; apply H; left; assumption|].
    rewrite IH; [reflexivity | intros K; apply H; right; assumption | assumption].
Qed.

Lemma upto_last_snoc c f : upto_last c (f ++ [c]) = Some f.
Proof.
  induction f as [|x f IH]; cbn [List.app upto_last].
  - rewrite N.eqb_refl. reflexivity.
  - rewrite IH. reflexivity.
Qed.

Lemma parse_fmt_wrapped a v f :
  ~ In 58 v -> ~ In 10 v -> ~ In 10 f ->
  parse_fmt a (fmt_open ++ v ++ 58 :: f ++ [125]) = mkParsed a v (Some f).
Proof.
  intros H1 H2 H3. unfold parse_fmt. rewrite strip_prefix_app.
  rewrite span_until_app by assumption.
  rewrite first_line_noeol by (assumption || discriminate).
  rewrite upto_last_snoc. reflexivity.
Qed.

Definition fmt_ok (sfmt : option str) : Prop :=
  match sfmt with Some f => no_esc f /\ ~ In 10 f | None => True end.

Lemma parse_fmt_repr_text a sfmt v :
  ~ In 123 v -> ~ In 58 v -> ~ In 10 v -> fmt_ok sfmt ->
  parse_fmt a (repr_text sfmt v) = mkParsed a v sfmt.
Proof.
  intros H1 H2 H3 Hf. destruct sfmt as [f|]; cbn [repr_text].
  - destruct Hf as [_ Hf]. apply parse_fmt_wrapped; assumption.
  - apply parse_fmt_plain; assumption.
Qed.

Lemma no_esc_repr_text sfmt v : no_esc v -> fmt_ok sfmt -> no_esc (repr_text sfmt v).
Proof.
  intros Hv Hf. destruct sfmt as [f|]; cbn [repr_text]; [|assumption]. destruct Hf as [Hf _].
  unfold fmt_open. repeat (apply no_esc_app; split); try assumption.
  - repeat constructor; discriminate.
  - change (58 :: f ++ [125]) with ([58] ++ f ++ [125]).
    repeat (apply no_esc_app; split); try assumption; repeat constructor; discriminate.
Qed.

Lemma repr_text_nonempty sfmt v : v <> [] -> repr_text sfmt v <> [].
Proof. destruct sfmt; cbn; [discriminate | auto]. Qed.

(* what __repr__ styles (forced colour) is read back by from_raw's body: same attributes, text and fmt.
   Text: non-empty, no ESC, no left brace, colon or newline; fmt: no ESC or newline. *)
Theorem from_raw_core_roundtrip st sfmt value :
  wf_style st -> value <> [] -> no_esc value -> ~ In 123 value -> ~ In 58 value -> ~ In 10 value ->
  fmt_ok sfmt ->
  from_raw_core (apply_style false true st (repr_text sfmt value)) = Some (mkParsed st value sfmt).
Proof.
  intros W Hne Hv H1 H2 H3 Hf.
  pose proof (no_esc_repr_text sfmt value Hv Hf) as Hb.
  pose proof (repr_text_nonempty sfmt value Hne) as Hbn.
  pose proof (sgr_params_roundtrip st W) as R.
  unfold from_raw_core.
  pose proof (descape_apply_style false true st _ Hb) as D.
  unfold apply_style in *. destruct (repr_text sfmt value) as [|c body] eqn:EB; [congruence|].
  cbn [orb negb] in *.
  destruct (code_params st) as [|p ps] eqn:EC.
  - rewrite sgr_search_noesc by assumption.
    rewrite <- EB, parse_fmt_repr_text by assumption.
    assert (Ep : st = plain) by (rewrite <- R; reflexivity). rewrite <- Ep. reflexivity.
  - rewrite sgr_search_seq.
    pose proof (join_params_nonempty (p :: ps)) as Hj.
    destruct (join_params (p :: ps)) as [|j js] eqn:EJ; [exfalso; apply Hj; [discriminate | reflexivity]|].
    rewrite <- EJ, params_of_join by discriminate. rewrite D, R.
    rewrite <- EB, parse_fmt_repr_text by assumption. reflexivity.
Qed.

(* the attributes alone: any non-empty escape-free text *)
Theorem from_raw_core_attributes st value :
  wf_style st -> value <> [] -> no_esc value -> code_params st <> [] ->
  exists p, from_raw_core (apply_style false true st value) = Some p /\ pr_style p = st.
Proof.
  intros W Hne Hv Hc.
  pose proof (sgr_params_roundtrip st W) as R.
  unfold from_raw_core, apply_style. destruct value as [|c body]; [congruence|]. cbn [orb negb].
  destruct (code_params st) as [|p ps] eqn:EC; [congruence|].
  rewrite sgr_search_seq.
  pose proof (join_params_nonempty (p :: ps)) as Hj.
  destruct (join_params (p :: ps)) as [|j js] eqn:EJ; [exfalso; apply Hj; [discriminate | reflexivity]|].
  rewrite <- EJ, params_of_join by discriminate. rewrite R.
  eexists; split; [reflexivity|]. unfold parse_fmt.
  repeat match goal with |- context [match ?x with _ => _ end] => destruct x end; reflexivity.
Qed.

(* the defects of the repr round trip, on the model: an unstyled style whose text holds backslash-e[1m
   reads back bold; a styled style with empty text reads back plain *)
Theorem repr_roundtrip_refuted :
  (exists value p, from_raw (style_repr (fun _ => true) plain None value) = Some p /\ pr_style p <> plain) /\
  (exists st p, code_params st <> [] /\ from_raw (style_repr (fun _ => true) st None []) = Some p /\ pr_style p <> st).
Proof.
  split.
  - exists [92; 101; 91; 49; 109]. eexists. split; [vm_compute; reflexivity | discriminate].
  - exists bold_only. eexists. split; [discriminate | split; [vm_compute; reflexivity | discriminate]].
Qed.

(* the sequence that closes styled text is SGR 0, the parameter from_raw ignores (reset) *)
Lemma reset_is_sgr0 : reset_params = [p_reset] /\ classify p_reset = ANop.
Proof. split; reflexivity. Qed.
