(* Character-level matchers of input/cursor.py (@name @int @uint @float @bool), on the suffix of the text that
   starts at the cursor.  Unicode predicates are oracles.  Each function returns the number of characters matched
   (None = the -1 / no-match result).  Model only. *)
From Coq Require Import List NArith Arith Bool.
From TatsuV Require Import Base.PyStr.
Import ListNotations.
Local Open Scope N_scope.

Section Matchers.
Variable isdecimal isalpha isalnum : N -> bool.
Variable namechars : list N.

Definition c_us : N := 95.      (* _ *)
Definition c_plus : N := 43.
Definition c_minus : N := 45.
Definition c_dot : N := 46.

Definition in_namechars (ch : N) : bool := existsb (N.eqb ch) namechars.
Definition name_start (ch : N) : bool := N.eqb ch c_us || isalpha ch || in_namechars ch.
Definition name_char (ch : N) : bool := N.eqb ch c_us || isalnum ch || in_namechars ch.

Fixpoint span_while (p : N -> bool) (l : str) : nat :=
  match l with ch :: tl => if p ch then S (span_while p tl) else O | [] => O end.

(* match_name *)
Definition match_name (l : str) : option nat :=
  match l with
  | ch :: tl => if name_start ch then Some (S (span_while name_char tl)) else None
  | [] => None
  end.

(* the loop of match_uint after the first (decimal) character *)
Fixpoint uint_go (l : str) : option nat :=
  match l with
  | [] => Some O
  | ch :: tl =>
    if isdecimal ch then option_map S (uint_go tl)
    else if N.eqb ch c_us then
      match tl with
      | d :: _ => if isdecimal d then option_map S (uint_go tl) else None
      | [] => None
      end
    else if isalpha ch then None
    else Some O
  end.

Definition match_uint (l : str) : option nat :=
  match l with
  | ch :: tl => if isdecimal ch then option_map S (uint_go tl) else None
  | [] => None
  end.

Definition is_sign (ch : N) : bool := N.eqb ch c_plus || N.eqb ch c_minus.

Definition match_int (l : str) : option nat :=
  match l with
  | ch :: tl => if is_sign ch then option_map S (match_uint tl) else match_uint l
  | [] => None
  end.

Definition is_e (ch : N) : bool := N.eqb ch 101 || N.eqb ch 69.

(* match_float: int part, optional '.' with an optional unsigned fraction, optional exponent *)
Definition match_float (l : str) : option nat :=
  match match_int l with
  | None => None
  | Some n =>
    let r := skipn n l in
    let '(n1, r1) :=
      match r with
      | ch :: tl =>
        if N.eqb ch c_dot then
          match tl with
          | d :: _ => if isdecimal d then
                        match match_uint tl with
                        | Some k => (S n + k, skipn k tl)%nat
                        | None => (S n, tl)
                        end
                      else (S n, tl)
          | [] => (S n, tl)
          end
        else (n, r)
      | [] => (n, r)
      end in
    match r1 with
    | ch :: tl => if is_e ch then option_map (fun k => (S n1 + k)%nat) (match_int tl) else Some n1
    | [] => Some n1
    end
  end.

Definition s_true : str := [116; 114; 117; 101].     Definition s_True : str := [84; 114; 117; 101].
Definition s_false : str := [102; 97; 108; 115; 101]. Definition s_False : str := [70; 97; 108; 115; 101].

Definition match_bool (l : str) : option (nat * bool) :=
  if startswith s_true l || startswith s_True l then Some (4%nat, true)
  else if startswith s_false l || startswith s_False l then Some (5%nat, false)
  else None.

(* what int() accepts (for a slice without surrounding blanks): [+-]? D (_? D)* *)
Fixpoint digits_tail (l : str) : bool :=
  match l with
  | [] => true
  | ch :: tl =>
    if isdecimal ch then digits_tail tl
    else if N.eqb ch c_us then
      match tl with d :: tl' => isdecimal d && digits_tail tl' | [] => false end
    else false
  end.

Definition valid_uint (l : str) : bool :=
  match l with ch :: tl => isdecimal ch && digits_tail tl | [] => false end.

Definition valid_int (l : str) : bool :=
  match l with ch :: tl => if is_sign ch then valid_uint tl else valid_uint l | [] => false end.

End Matchers.
