(* C15 - proofs about Lib/Boot.v: the boolean equality of serialised trees decides equality (nested induction),
   the difference finder returns None only on equal trees and a real difference otherwise, and the fragment
   classification of bindings is sound (it feeds C02's single_append theorem). *)
From Coq Require Import List NArith Arith Bool Lia.
From TatsuV Require Import Base.PyStr Engine.Value Engine.Syntax Engine.Input Engine.Engine Engine.Gen Engine.GenProof Lib.Boot.
Import ListNotations.

(* ---- induction principle for the nested type ---- *)
Section BtreeInd.
Variable P : btree -> Prop.
Hypothesis HNode : forall c a ks, Forall P ks -> P (Node c a ks).

Fixpoint btree_ind' (t : btree) : P t :=
  match t with
  | Node c a ks =>
    HNode c a ks ((fix go (l : list btree) : Forall P l :=
                     match l with
                     | [] => Forall_nil P
                     | x :: l' => Forall_cons x (btree_ind' x) (go l')
                     end) ks)
  end.
End BtreeInd.

Lemma attrs_eqb_eq a b : attrs_eqb a b = true <-> a = b.
Proof.
  revert b; induction a as [|[k v] a IH]; intros [|[k' v'] b]; cbn; try (split; congruence).
  unfold attr_eqb; cbn. rewrite !andb_true_iff, !str_eqb_eq, IH.
  split; [intros [[-> ->] ->]; reflexivity | intros H; inversion H; auto].
Qed.

(* the children loop of btree_eqb, named *)
Fixpoint kids_eqb (l1 l2 : list btree) : bool :=
  match l1, l2 with
  | [], [] => true
  | x :: l1', y :: l2' => btree_eqb x y && kids_eqb l1' l2'
  | _, _ => false
  end.

Lemma btree_eqb_unfold c1 a1 k1 c2 a2 k2 :
  btree_eqb (Node c1 a1 k1) (Node c2 a2 k2) = str_eqb c1 c2 && attrs_eqb a1 a2 && kids_eqb k1 k2.
Proof.
  reflexivity.
Qed.

Theorem btree_eqb_eq : forall a b, btree_eqb a b = true <-> a = b.
Proof.
  induction a as [c a ks IH] using btree_ind'; intros [c2 a2 k2].
  rewrite btree_eqb_unfold, !andb_true_iff, str_eqb_eq, attrs_eqb_eq.
  assert (HK : forall l2, kids_eqb ks l2 = true <-> ks = l2).
  { induction IH as [|x l Hx Hl IHl]; intros [|y l2]; cbn [kids_eqb]; try (split; congruence).
    rewrite andb_true_iff, Hx, IHl. split; [intros [-> ->]; reflexivity | intros H; inversion H; auto]. }
  rewrite HK. split; [intros [[-> ->] ->]; reflexivity | intros H; inversion H; auto].
Qed.

Corollary btree_eqb_true a b : btree_eqb a b = true -> a = b.
Proof. apply btree_eqb_eq. Qed.

Corollary btree_eqb_false a b : btree_eqb a b = false -> a <> b.
Proof. intros H E. apply btree_eqb_eq in E. congruence. Qed.

(* ---- the difference finder ---- *)
Fixpoint kids_diff (i : nat) (l1 l2 : list btree) : option (list nat * bdiff) :=
  match l1, l2 with
  | x :: l1', y :: l2' =>
    match btree_diff x y with
    | Some (p, d) => Some (i :: p, d)
    | None => kids_diff (S i) l1' l2'
    end
  | _, _ => None
  end.

Lemma btree_diff_unfold c1 a1 k1 c2 a2 k2 :
  btree_diff (Node c1 a1 k1) (Node c2 a2 k2) =
    if negb (str_eqb c1 c2) then Some ([], DClass c1 c2)
    else if negb (attrs_eqb a1 a2) then Some ([], DAttrs c1 a1 a2)
    else if negb (Nat.eqb (length k1) (length k2)) then Some ([], DArity c1 (length k1) (length k2))
    else kids_diff 0 k1 k2.
Proof.
  reflexivity.
Qed.

(* no difference found -> the trees are equal *)
Theorem btree_diff_none : forall a b, btree_diff a b = None -> a = b.
Proof.
  induction a as [c a ks IH] using btree_ind'; intros [c2 a2 k2] H.
  rewrite btree_diff_unfold in H.
  destruct (str_eqb c c2) eqn:Ec; [|discriminate]. apply str_eqb_eq in Ec. subst c2.
  destruct (attrs_eqb a a2) eqn:Ea; [|discriminate]. apply attrs_eqb_eq in Ea. subst a2.
  destruct (Nat.eqb (length ks) (length k2)) eqn:El; [|discriminate]. apply Nat.eqb_eq in El. cbn [negb] in H.
  f_equal. revert H El. generalize 0%nat. revert k2.
  induction IH as [|x l Hx Hl IHl]; intros [|y l2] i H El; cbn in El; try discriminate; [reflexivity|].
  cbn [kids_diff] in H. destruct (btree_diff x y) as [[p d]|] eqn:Ex; [discriminate|].
  rewrite (Hx _ Ex). f_equal. eapply IHl; [exact H|lia].
Qed.

(* a difference found is a real one: the sub-trees at the returned path exist in both and differ in class, in their
   fields or in their number of children *)
Definition differs_here (x y : btree) (d : bdiff) : Prop :=
  match d with
  | DClass c1 c2 => btree_cls x = c1 /\ btree_cls y = c2 /\ c1 <> c2
  | DAttrs c a1 a2 => btree_cls x = c /\ btree_attrs x = a1 /\ btree_attrs y = a2 /\ a1 <> a2
  | DArity c n1 n2 => btree_cls x = c /\ length (btree_children x) = n1 /\ length (btree_children y) = n2 /\ n1 <> n2
  end.

Theorem btree_diff_some : forall a b p d, btree_diff a b = Some (p, d) ->
  exists x y, btree_at p a = Some x /\ btree_at p b = Some y /\ differs_here x y d.
Proof.
  induction a as [c a ks IH] using btree_ind'; intros [c2 a2 k2] p d H.
  rewrite btree_diff_unfold in H.
  destruct (str_eqb c c2) eqn:Ec; cbn [negb] in H.
  2:{ inversion H; subst. exists (Node c a ks), (Node c2 a2 k2). cbn. repeat split; try reflexivity.
      intros E. apply str_eqb_eq in E. congruence. }
  destruct (attrs_eqb a a2) eqn:Ea; cbn [negb] in H.
  2:{ inversion H; subst. exists (Node c a ks), (Node c2 a2 k2). cbn. repeat split; try reflexivity.
      intros E. apply attrs_eqb_eq in E. congruence. }
  destruct (Nat.eqb (length ks) (length k2)) eqn:El; cbn [negb] in H.
  2:{ inversion H; subst. exists (Node c a ks), (Node c2 a2 k2). cbn. repeat split; try reflexivity.
      intros E. apply Nat.eqb_eq in E. congruence. }
  (* in the children: generalise over the prefix already walked *)
  assert (G : forall (pre1 pre2 : list btree) l1 l2, length pre1 = length pre2 -> Forall
             (fun t => forall b p d, btree_diff t b = Some (p, d) ->
                exists x y, btree_at p t = Some x /\ btree_at p b = Some y /\ differs_here x y d) l1 ->
             kids_diff (length pre1) l1 l2 = Some (p, d) ->
             exists x y, btree_at p (Node c a (pre1 ++ l1)) = Some x /\ btree_at p (Node c2 a2 (pre2 ++ l2)) = Some y
                         /\ differs_here x y d).
  { intros pre1 pre2 l1. revert pre1 pre2. induction l1 as [|t l1 IHl]; intros pre1 pre2 [|t2 l2] Hlen HF HK; cbn [kids_diff] in HK;
      try discriminate.
    inversion HF as [|? ? Ht HF']; subst.
    destruct (btree_diff t t2) as [[p' d']|] eqn:Et.
    - inversion HK; subst. destruct (Ht _ _ _ Et) as (x & y & Hx & Hy & Hd). exists x, y.
      cbn [btree_at]. split; [|split; [|exact Hd]].
      + rewrite nth_error_app2 by lia. rewrite Nat.sub_diag. cbn [nth_error]. exact Hx.
      + rewrite Hlen. rewrite nth_error_app2 by lia. rewrite Nat.sub_diag. cbn [nth_error]. exact Hy.
    - specialize (IHl (pre1 ++ [t]) (pre2 ++ [t2]) l2). rewrite !app_length in IHl. cbn [length] in IHl.
      rewrite Nat.add_1_r in IHl. rewrite <- !app_assoc in IHl. cbn [List.app] in IHl. apply IHl; [lia | exact HF' | exact HK]. }
  apply (G [] [] ks k2 eq_refl IH H).
Qed.

(* ---- the fragment classification ---- *)
Lemma mem_str_false s l : mem_str s l = false -> ~ In s l.
Proof.
  unfold mem_str. intros H Hin. assert (E : existsb (str_eqb s) l = true).
  { apply existsb_exists. exists s. split; [exact Hin | apply str_eqb_refl]. }
  congruence.
Qed.

Theorem fragment_except_sound outside rs : fragment_except outside rs = true ->
  forall rn e, In (rn, e) rs -> mem_str rn outside = false ->
  forall b, In b (bindings e) -> single_append (bd_body b) = true.
Proof.
  unfold fragment_except. intros H rn e Hin Hout b Hb.
  rewrite forallb_forall in H. specialize (H _ Hin). cbn [fst snd] in H. rewrite Hout in H. cbn [orb] in H.
  unfold rule_in_fragment in H. cbn [snd] in H. rewrite forallb_forall in H. exact (H _ Hb).
Qed.

(* with C02's theorem: in the model of generated code, every such binding sees, as last_node, exactly the value
   its body returned - which is the value the model interpreter binds *)
Theorem fragment_bindings_bind_returned_value outside rs : fragment_except outside rs = true ->
  forall text re_at isalnum isalpha lower ic unsafe (St : Type) (on_cut : frame -> St -> St)
         (on_call : nat -> @ev_t St -> nat -> frame -> St -> res * St),
  (forall k ev r f st v f1 st1, on_call k ev r f st = (Ok v f1, st1) -> last f1 = v /\ cst f1 = cstadd (cst f) v) ->
  forall rn e, In (rn, e) rs -> mem_str rn outside = false ->
  forall b, In b (bindings e) ->
  forall n f st r f1 st1,
    geval_gen text re_at isalnum isalpha lower ic unsafe on_cut on_call n (bd_body b) f st = (Ok r f1, st1) ->
    last f1 = r.
Proof.
  intros H text re_at isalnum isalpha lower ic unsafe St on_cut on_call Hc rn e Hin Hout b Hb n f st r f1 st1 E.
  pose proof (fragment_except_sound _ _ H _ _ Hin Hout _ Hb) as Hs.
  exact (proj1 (single_append_last text re_at isalnum isalpha lower ic unsafe on_cut on_call Hc n _ _ _ _ _ _ Hs E)).
Qed.
