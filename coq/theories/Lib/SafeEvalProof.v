(* C17 - lemmas and main theorems about Lib/SafeEval.v *)
From Coq Require Import List NArith Bool Lia.
From TatsuV Require Import Base.PyStr Lib.SafeEval.
Import ListNotations.
Local Open Scope N_scope.

(* ------------------------------------------------------------------ membership *)
Lemma mem_In x l : mem x l = true <-> In x l.
Proof.
  unfold mem. rewrite existsb_exists. split.
  - intros [y [Hy E]]. apply str_eqb_eq in E. subst y. exact Hy.
  - intros H. exists x. split; [exact H | apply str_eqb_refl].
Qed.

Lemma mem_false x l : mem x l = false <-> ~ In x l.
Proof.
  split.
  - intros E H. apply mem_In in H. congruence.
  - intros H. destruct (mem x l) eqn:E; [|reflexivity]. apply mem_In in E. contradiction.
Qed.

(* ------------------------------------------------------------------ (i) the filter *)
Lemma safe_names_In c table n :
  In n (safe_names c table) <-> exists e, In e table /\ e_name e = n /\ unsafe c e = false.
Proof.
  unfold safe_names, safe_builtins. rewrite in_map_iff. split.
  - intros [e [En He]]. apply filter_In in He. destruct He as [He Hu].
    exists e. repeat split; auto. now apply negb_true_iff in Hu.
  - intros [e [He [En Hu]]]. exists e. split; auto. apply filter_In. split; auto. now rewrite Hu.
Qed.

(* a denied name never passes the filter, whatever the table *)
Lemma denied_not_safe c table n : In n (f_deny c) -> ~ In n (safe_names c table).
Proof.
  intros Hd Hs. apply safe_names_In in Hs. destruct Hs as [e [_ [En Hu]]].
  unfold unsafe in Hu. subst n. apply mem_In in Hd. rewrite Hd in Hu. discriminate.
Qed.

(* generic unbounded statement: if the deny list covers the dangerous names the filter keeps none of them *)
Lemma deny_covers_dangerous c table :
  (forall n, In n dangerous -> In n (f_deny c)) ->
  forall n, In n (safe_names c table) -> ~ In n dangerous.
Proof. intros Hc n Hs Hd. exact (denied_not_safe c table n (Hc n Hd) Hs). Qed.

Lemma no_dangerous_except_sound excused c table :
  no_dangerous_except excused c table = true ->
  forall n, In n (safe_names c table) -> In n dangerous -> In n excused.
Proof.
  unfold no_dangerous_except. intros H n Hs Hd.
  rewrite forallb_forall in H. specialize (H n Hs).
  apply mem_In in Hd. rewrite Hd in H. cbn in H. now apply mem_In.
Qed.

Lemma leaks_spec c table n :
  In n (leaks c table) <-> In n (safe_names c table) /\ In n dangerous.
Proof. unfold leaks. rewrite filter_In, mem_In. tauto. Qed.

Lemma leaks_nil_no_dangerous c table :
  leaks c table = [] -> forall n, In n (safe_names c table) -> ~ In n dangerous.
Proof. intros E n Hs Hd. assert (H : In n (leaks c table)) by (apply leaks_spec; auto). rewrite E in H. exact H. Qed.

(* the deny list of the pinned commit keeps dangerous names *)
Lemma pinned_denylist_refuted :
  exists n, In n (safe_names pinned_cfg pinned_table_fragment) /\ In n dangerous.
Proof. exists [111;112;101;110]. split; vm_compute; tauto. Qed.

Lemma pinned_leaks_exact :
  leaks pinned_cfg pinned_table_fragment =
  [ [111;112;101;110]; [101;118;97;108]; [101;120;101;99]; [99;111;109;112;105;108;101]; [105;110;112;117;116];
    [101;120;105;116]; [113;117;105;116]; [104;101;108;112]; [100;101;108;97;116;116;114] ].
Proof. vm_compute. reflexivity. Qed.

(* ------------------------------------------------------------------ (ii) the checker *)
Scheme expr_mut := Induction for expr Sort Prop
  with exprs_mut := Induction for exprs Sort Prop.
Combined Scheme expr_exprs_ind from expr_mut, exprs_mut.

(* what the checker is supposed to guarantee, as lists over the tree *)
Fixpoint loaded (e : expr) : list str :=
  match e with
  | EName id load => if load then [id] else []
  | EAttr _ v => loaded v
  | ECall f args kws => loaded f ++ loadeds args ++ loadeds kws
  | EForbid kids | EOther kids => loadeds kids
  end
with loadeds (l : exprs) : list str :=
  match l with ENil => [] | ECons x tl => loaded x ++ loadeds tl end.

Fixpoint attrs (e : expr) : list str :=
  match e with
  | EName _ _ => []
  | EAttr a v => a :: attrs v
  | ECall f args kws => attrs f ++ attrss args ++ attrss kws
  | EForbid kids | EOther kids => attrss kids
  end
with attrss (l : exprs) : list str :=
  match l with ENil => [] | ECons x tl => attrs x ++ attrss tl end.

Fixpoint targets (e : expr) : list expr :=
  match e with
  | EName _ _ => []
  | EAttr _ v => targets v
  | ECall f args kws => f :: targets f ++ targetss args ++ targetss kws
  | EForbid kids | EOther kids => targetss kids
  end
with targetss (l : exprs) : list expr :=
  match l with ENil => [] | ECons x tl => targets x ++ targetss tl end.

Fixpoint forbids (e : expr) : nat :=
  match e with
  | EName _ _ => O
  | EAttr _ v => forbids v
  | ECall f args kws => (forbids f + forbidss args + forbidss kws)%nat
  | EForbid kids => S (forbidss kids)
  | EOther kids => forbidss kids
  end
with forbidss (l : exprs) : nat :=
  match l with ENil => O | ECons x tl => (forbids x + forbidss tl)%nat end.

Definition target_ok (blocked ks : list str) (f : expr) : Prop :=
  (exists id l, f = EName id l /\ In id ks)
  \/ (exists a v, f = EAttr a v /\ attr_blocked blocked a = false).

Definition sound_for (blocked ks : list str) (ld at_ : list str) (tg : list expr) (nf : nat) : Prop :=
  (forall n, In n ld -> In n ks)
  /\ (forall a, In a at_ -> attr_blocked blocked a = false)
  /\ (forall f, In f tg -> target_ok blocked ks f)
  /\ nf = O.

Lemma sound_for_app blocked ks l1 a1 t1 n1 l2 a2 t2 n2 :
  sound_for blocked ks l1 a1 t1 n1 -> sound_for blocked ks l2 a2 t2 n2 ->
  sound_for blocked ks (l1 ++ l2) (a1 ++ a2) (t1 ++ t2) (n1 + n2).
Proof.
  intros [A1 [B1 [C1 D1]]] [A2 [B2 [C2 D2]]]. repeat split.
  - intros n H. apply in_app_or in H. destruct H; auto.
  - intros a H. apply in_app_or in H. destruct H; auto.
  - intros f H. apply in_app_or in H. destruct H; auto.
  - subst. reflexivity.
Qed.

Lemma check_sound_mut blocked ac ks :
  (forall e, check_expr blocked ac ks e = true ->
             sound_for blocked ks (loaded e) (attrs e) (targets e) (forbids e))
  /\ (forall l, check_exprs blocked ac ks l = true ->
                sound_for blocked ks (loadeds l) (attrss l) (targetss l) (forbidss l)).
Proof.
  apply expr_exprs_ind.
  - (* EName *)
    intros id load H. cbn in H. cbn. repeat split; try (intros ? []).
    destruct load; cbn in *.
    + intros n [<-|[]]. now apply mem_In.
    + intros n [].
  - (* EAttr *)
    intros a v IH H. cbn in H. apply andb_true_iff in H. destruct H as [Ha Hv].
    apply negb_true_iff in Ha. destruct (IH Hv) as [A [B [C D]]]. cbn. repeat split; auto.
    intros x [<-|Hx]; auto.
  - (* ECall *)
    intros f IHf args IHa kws IHk H. cbn [check_expr] in H.
    apply andb_true_iff in H. destruct H as [H Hk].
    apply andb_true_iff in H. destruct H as [H Ha].
    apply andb_true_iff in H. destruct H as [Ht Hf].
    specialize (IHf Hf). specialize (IHa Ha). specialize (IHk Hk).
    pose proof (sound_for_app _ _ _ _ _ _ _ _ _ _ IHf (sound_for_app _ _ _ _ _ _ _ _ _ _ IHa IHk)) as S.
    destruct S as [A [B [C D]]]. cbn [loaded attrs targets forbids].
    repeat split; auto.
    + intros g [<-|Hg]; [|auto].
      destruct f as [id l|a v|? ? ?|?|?]; try discriminate.
      * left. exists id, l. split; [reflexivity|].
        apply andb_true_iff in Ht. destruct Ht as [Ht _]. now apply mem_In.
      * right. exists a, v. split; [reflexivity|].
        cbn in Hf. apply andb_true_iff in Hf. destruct Hf as [Hf _]. now apply negb_true_iff in Hf.
    + rewrite <- D. lia.
  - (* EForbid *) intros kids _ H. cbn in H. discriminate.
  - (* EOther *) intros kids IH H. cbn in H. exact (IH H).
  - (* ENil *) intros _. cbn. repeat split; intros ? [].
  - (* ECons *)
    intros e IHe tl IHt H. cbn in H. apply andb_true_iff in H. destruct H as [He Ht].
    cbn. apply sound_for_app; auto.
Qed.

(* C17_check_sound *)
Theorem check_sound blocked ac sb ctx e :
  check blocked ac sb ctx (Some e) = true ->
  (forall n, In n (loaded e) -> In n (keys ctx))
  /\ (forall a, In a (attrs e) -> startswith dunder a = false /\ ~ In a blocked)
  /\ (forall f, In f (targets e) ->
        (exists id l, f = EName id l /\ In id (keys ctx))
        \/ (exists a v, f = EAttr a v /\ startswith dunder a = false))
  /\ forbids e = O
  /\ (forall c, In c ctx -> startswith dunder (c_key c) = false /\ c_hasexc c = false).
Proof.
  unfold check. intros H. apply andb_true_iff in H. destruct H as [Hc He].
  destruct (proj1 (check_sound_mut blocked ac (keys ctx)) e He) as [A [B [C D]]].
  repeat split; auto.
  - specialize (B a H). unfold attr_blocked in B. apply orb_false_iff in B. tauto.
  - specialize (B a H). unfold attr_blocked in B. apply orb_false_iff in B. destruct B as [_ B].
    now apply mem_false.
  - intros f Hf. destruct (C f Hf) as [L|[a [v [E Hb]]]]; [left; exact L|].
    right. exists a, v. split; auto. unfold attr_blocked in Hb. apply orb_false_iff in Hb. tauto.
  - unfold check_context in Hc. rewrite forallb_forall in Hc. specialize (Hc c H).
    unfold check_centry in Hc. apply andb_true_iff in Hc. destruct Hc as [Hc _].
    apply andb_true_iff in Hc. destruct Hc as [_ Hc]. now apply negb_true_iff in Hc.
  - unfold check_context in Hc. rewrite forallb_forall in Hc. specialize (Hc c H).
    unfold check_centry in Hc. apply andb_true_iff in Hc. destruct Hc as [Hc _].
    apply andb_true_iff in Hc. destruct Hc as [Hc _]. now apply negb_true_iff in Hc.
Qed.

(* an expression that does not parse, or any expression in a bad context, is rejected *)
Lemma check_none blocked ac sb ctx : check blocked ac sb ctx None = false.
Proof. unfold check. apply andb_false_r. Qed.

(* ------------------------------------------------------------------ (iii) the sandbox *)
Definition caps_within (ctx : list centry) (names : list str) : Prop :=
  forall c n, In c ctx -> c_cap c = Some n -> In n names.

Lemma lookup_In id ctx c : lookup id ctx = Some c -> In c ctx.
Proof.
  induction ctx as [|x tl IH]; cbn; [discriminate|].
  destruct (str_eqb (c_key x) id); [intros E; inversion E; auto | intros H; right; auto].
Qed.

Lemma cap_of_name_within ctx names id n :
  caps_within ctx names -> In n (cap_of_name ctx id) -> In n names.
Proof.
  intros Hc. unfold cap_of_name. destruct (lookup id ctx) as [c|] eqn:L; [|intros []].
  destruct (c_cap c) as [m|] eqn:E; [|intros []].
  intros [<-|[]]. exact (Hc c m (lookup_In _ _ _ L) E).
Qed.

Lemma pool_within_mut ctx names :
  caps_within ctx names ->
  (forall e n, In n (pool ctx e) -> In n names) /\ (forall l n, In n (pools ctx l) -> In n names).
Proof.
  intros Hc. apply expr_exprs_ind; cbn [pool pools].
  - intros id [|] n H; [exact (cap_of_name_within _ _ _ _ Hc H) | destruct H].
  - intros a v IH n H. auto.
  - intros f IHf args IHa kws IHk n H.
    apply in_app_or in H. destruct H as [H|H]; [auto|].
    apply in_app_or in H. destruct H; auto.
  - intros kids IH n H. auto.
  - intros kids IH n H. auto.
  - intros n [].
  - intros e IHe tl IHt n H. apply in_app_or in H. destruct H; auto.
Qed.

(* the attributes recorded by [reaches] are the reflective ones among [attrs] *)
Lemma reaches_attrs_mut :
  (forall e a, In a (reaches e) -> In a (attrs e) /\ reflective a = true)
  /\ (forall l a, In a (reachess l) -> In a (attrss l) /\ reflective a = true).
Proof.
  apply expr_exprs_ind; cbn [reaches reachess attrs attrss].
  - intros id load a [].
  - intros a v IH x H. apply in_app_or in H. destruct H as [H|H].
    + destruct (reflective a) eqn:R; [|destruct H]. destruct H as [<-|[]]. split; [left; reflexivity | exact R].
    + destruct (IH x H). split; [right|]; auto.
  - intros f IHf args IHa kws IHk x H.
    apply in_app_or in H. destruct H as [H|H].
    { destruct (IHf x H). split; auto. apply in_or_app. auto. }
    apply in_app_or in H. destruct H as [H|H].
    { destruct (IHa x H). split; auto. apply in_or_app. right. apply in_or_app. auto. }
    { destruct (IHk x H). split; auto. apply in_or_app. right. apply in_or_app. auto. }
  - intros kids IH x H. auto.
  - intros kids IH x H. auto.
  - intros x [].
  - intros e IHe tl IHt x H. apply in_app_or in H. destruct H as [H|H].
    + destruct (IHe x H). split; auto. apply in_or_app. auto.
    + destruct (IHt x H). split; auto. apply in_or_app. auto.
Qed.

(* C17_sandbox: in a context whose capabilities are safe builtins, none of them dangerous, an accepted
   expression whose reflective attributes are all rejected by the checker fires no dangerous event *)
Theorem sandbox blocked ac sb ctx names e :
  caps_within ctx names ->
  (forall n, In n names -> ~ In n dangerous) ->
  check blocked ac sb ctx (Some e) = true ->
  (forall a, In a (attrs e) -> mem a reflective_attrs = true -> In a blocked) ->
  forall ev, In ev (events ctx e) -> dangerous_event ev = false.
Proof.
  intros Hc Hd Hk Hr ev Hev.
  destruct (check_sound _ _ _ _ _ Hk) as [_ [B _]].
  unfold events in Hev. apply in_app_or in Hev. destruct Hev as [H|H].
  - destruct (has_call e); [|destruct H].
    apply in_map_iff in H. destruct H as [n [<- Hn]]. cbn [dangerous_event].
    apply mem_false. apply Hd. exact (proj1 (pool_within_mut ctx names Hc) e n Hn).
  - exfalso. apply in_map_iff in H. destruct H as [a [_ Ha]].
    destruct (proj1 reaches_attrs_mut e a Ha) as [Hin Hrf].
    destruct (B a Hin) as [Hdu Hnb].
    unfold reflective in Hrf. rewrite Hdu in Hrf. cbn in Hrf. exact (Hnb (Hr a Hin Hrf)).
Qed.

(* when the checker rejects every reflective attribute name no hypothesis on the expression is left *)
Corollary sandbox_blocked blocked ac sb ctx names e :
  caps_within ctx names ->
  (forall n, In n names -> ~ In n dangerous) ->
  (forall a, In a reflective_attrs -> In a blocked) ->
  check blocked ac sb ctx (Some e) = true ->
  forall ev, In ev (events ctx e) -> dangerous_event ev = false.
Proof.
  intros Hc Hd Hb Hk. apply (sandbox blocked ac sb ctx names e Hc Hd Hk).
  intros a _ Hm. apply Hb. now apply mem_In.
Qed.

(* the context built by ParseContext.constant: its capabilities are names of safe_builtins() provided the
   semantics' safe_context and the AST hold data *)
Lemma override_In base over c : In c (override base over) -> In c base \/ In c over.
Proof.
  unfold override. intros H. apply in_app_or in H. destruct H as [H|H]; [left|right; exact H].
  apply filter_In in H. tauto.
Qed.

Lemma constant_context_caps c table extra astvals :
  (forall x, In x extra -> c_cap x = None) ->
  (forall x, In x astvals -> c_cap x = None) ->
  caps_within (constant_context c table extra astvals) (safe_names c table).
Proof.
  intros He Ha x n Hin Hcap. unfold constant_context in Hin.
  apply override_In in Hin. destruct Hin as [Hin|Hin]; [|rewrite (Ha x Hin) in Hcap; discriminate].
  apply override_In in Hin. destruct Hin as [Hin|Hin]; [|rewrite (He x Hin) in Hcap; discriminate].
  apply in_map_iff in Hin. destruct Hin as [e [<- Hin]]. cbn in Hcap. inversion Hcap; subst n.
  unfold safe_names. apply in_map. exact Hin.
Qed.

(* the checker of the pinned commit (no extra blocked attribute) accepts an expression that reads the frame
   of a generator: (x for x in a).gi_frame.f_back.f_builtins - the replayed escape *)
Definition escape_witness : expr :=
  EAttr [102;95;98;117;105;108;116;105;110;115]
    (EAttr [102;95;98;97;99;107]
      (EAttr [103;105;95;102;114;97;109;101]
        (EOther (ECons (EName [120] true) (ECons (EOther (ECons (EName [120] false) (ECons (EName [97] true) ENil))) ENil))))).

Definition escape_ctx : list centry :=
  [ mkCentry [97] false false None false None; mkCentry [120] false false None false None ].

Lemma introspection_refuted :
  check [] [] [] escape_ctx (Some escape_witness) = true
  /\ exists ev, In ev (events escape_ctx escape_witness) /\ dangerous_event ev = true.
Proof.
  split; [vm_compute; reflexivity|].
  exists (Reach [103;105;95;102;114;97;109;101]). split; [vm_compute; tauto | reflexivity].
Qed.

(* ------------------------------------------------------------------ (iv) the interpolation loop *)
Section LoopFacts.
  Variable reset : bool.
  Variable trim strip : str -> str.
  Variable lit_eval : str -> option value.
  Variable fsafe : str -> bool.
  Variable feval : str -> option value.
  Variable esafe : str -> bool.
  Variable eeval : str -> option value.

  Notation loop := (loop reset trim strip lit_eval fsafe feval esafe eeval).
  Notation constant := (constant reset trim strip lit_eval fsafe feval esafe eeval).
  Notation call_allowed := (call_allowed fsafe esafe).

  Lemma value_eqb_refl v : value_eqb v v = true.
  Proof. destruct v; cbn; [apply str_eqb_refl | apply N.eqb_refl]. Qed.

  Lemma value_eqb_eq a b : value_eqb a b = true <-> a = b.
  Proof.
    destruct a, b; cbn; try (split; congruence).
    - rewrite str_eqb_eq. split; congruence.
    - rewrite N.eqb_eq. split; congruence.
  Qed.

  (* a rejected expression is never evaluated: every call of safe_eval made by the loop was allowed by
     is_eval_safe on the same string *)
  Lemma loop_calls_allowed fuel : forall result expression tr,
    Forall (fun c => call_allowed c = true) tr ->
    Forall (fun c => call_allowed c = true) (snd (loop fuel result expression tr)).
  Proof.
    induction fuel as [|fuel IH]; intros result expression tr Htr; cbn [SafeEval.loop].
    - destruct (match expression with Some x => value_eqb result x | None => false end); exact Htr.
    - destruct (match expression with Some x => value_eqb result x | None => false end); [exact Htr|].
      destruct result as [s|o]; [|exact Htr].
      destruct (lit_eval (strip (trim s))) as [v|]; [apply IH; exact Htr|].
      destruct (fsafe (trim s)) eqn:Fs; cbn [fst snd].
      + assert (Htr' : Forall (fun c => call_allowed c = true) (CallF (trim s) :: tr))
          by (constructor; [exact Fs | exact Htr]).
        destruct (feval (trim s)) as [r1|]; [|exact Htr'].
        destruct (value_eqb r1 (VStr (trim s)) && esafe (trim s)) eqn:Es.
        * apply andb_true_iff in Es. destruct Es as [_ Es].
          assert (Htr'' : Forall (fun c => call_allowed c = true) (CallE (trim s) :: CallF (trim s) :: tr))
            by (constructor; [exact Es | exact Htr']).
          destruct (eeval (trim s)); [apply IH|]; exact Htr''.
        * apply IH. exact Htr'.
      + destruct (value_eqb (if reset then VStr (trim s) else VStr s) (VStr (trim s)) && esafe (trim s)) eqn:Es.
        * apply andb_true_iff in Es. destruct Es as [_ Es].
          assert (Htr'' : Forall (fun c => call_allowed c = true) (CallE (trim s) :: tr))
            by (constructor; [exact Es | exact Htr]).
          destruct (eeval (trim s)); [apply IH|]; exact Htr''.
        * apply IH. exact Htr.
  Qed.

  Theorem constant_calls_allowed fuel literal :
    Forall (fun c => call_allowed c = true) (snd (constant fuel literal)).
  Proof. apply loop_calls_allowed. constructor. Qed.

  (* a rejected expression (not a literal, neither form accepted) is the result, as (trimmed) text, and nothing
     was evaluated - provided the loop resets the result after the trim, or trim leaves the text alone *)
  Theorem constant_rejected_text fuel s :
    reset = true \/ trim s = s ->
    lit_eval (strip (trim s)) = None -> fsafe (trim s) = false -> esafe (trim s) = false ->
    constant (S (S fuel)) s = (Done (VStr (trim s)), []).
  Proof.
    intros Hr Hl Hf He. unfold SafeEval.constant. cbn [SafeEval.loop].
    rewrite Hl, Hf. cbn [fst snd]. rewrite He, andb_false_r.
    destruct Hr as [-> | Ht].
    - rewrite value_eqb_refl. reflexivity.
    - rewrite Ht. destruct reset; rewrite value_eqb_refl; reflexivity.
  Qed.

  (* an exception raised by an allowed evaluation is a semantic failure *)
  Theorem constant_exception_failed fuel s :
    lit_eval (strip (trim s)) = None ->
    fsafe (trim s) = true -> feval (trim s) = None ->
    fst (constant (S fuel) s) = Failed.
  Proof.
    intros Hl Hf Hfe. unfold SafeEval.constant. cbn [SafeEval.loop].
    rewrite Hl, Hf. cbn [fst snd]. rewrite Hfe. reflexivity.
  Qed.

  (* the value of a safe expression is returned unchanged (non-str value: the loop stops) *)
  Theorem constant_safe_value fuel s o :
    lit_eval (strip (trim s)) = None ->
    fsafe (trim s) = true -> feval (trim s) = Some (VStr (trim s)) ->
    esafe (trim s) = true -> eeval (trim s) = Some (VObj o) ->
    fst (constant (S (S fuel)) s) = Done (VObj o).
  Proof.
    intros Hl Hf Hfe He Hee. unfold SafeEval.constant. cbn [SafeEval.loop].
    rewrite Hl, Hf. cbn [fst snd]. rewrite Hfe.
    rewrite value_eqb_refl, He. cbn [andb]. rewrite Hee. cbn [value_eqb]. reflexivity.
  Qed.

  (* a literal is returned as its literal_eval value *)
  Theorem constant_literal fuel s o :
    lit_eval (strip (trim s)) = Some (VObj o) -> fst (constant (S (S fuel)) s) = Done (VObj o).
  Proof. intros Hl. unfold SafeEval.constant. cbn [SafeEval.loop]. rewrite Hl. reflexivity. Qed.
End LoopFacts.

(* the loop of the pinned commit (no reset): when trim changes a rejected text the untrimmed result is compared
   with the trimmed expression for ever - ParseContext.constant does not terminate (replayed by the harness) *)
Section LoopPinned.
  Variable trim strip : str -> str.
  Variable lit_eval : str -> option value.
  Variable fsafe : str -> bool.
  Variable feval : str -> option value.
  Variable esafe : str -> bool.
  Variable eeval : str -> option value.

  Notation loop := (loop false trim strip lit_eval fsafe feval esafe eeval).
  Notation constant := (constant false trim strip lit_eval fsafe feval esafe eeval).

  Lemma loop_untrimmed_diverges s :
    trim s <> s -> lit_eval (strip (trim s)) = None -> fsafe (trim s) = false ->
    forall fuel expression, (expression = None \/ expression = Some (VStr (trim s))) ->
    loop fuel (VStr s) expression [] = (Diverges, []).
  Proof.
    intros Ht Hl Hf. induction fuel as [|fuel IH]; intros expression Hx.
    - cbn [SafeEval.loop]. destruct Hx as [->| ->]; [reflexivity|].
      cbn. destruct (str_eqb s (trim s)) eqn:E; [|reflexivity]. apply str_eqb_eq in E. congruence.
    - cbn [SafeEval.loop].
      assert (Hne : match expression with Some x => value_eqb (VStr s) x | None => false end = false).
      { destruct Hx as [->| ->]; [reflexivity|]. cbn.
        destruct (str_eqb s (trim s)) eqn:E; [|reflexivity]. apply str_eqb_eq in E. congruence. }
      rewrite Hne, Hl, Hf. cbn [fst snd].
      assert (E : value_eqb (VStr s) (VStr (trim s)) = false).
      { cbn. destruct (str_eqb s (trim s)) eqn:E; [|reflexivity]. apply str_eqb_eq in E. congruence. }
      rewrite E. cbn [andb]. apply IH. right. reflexivity.
  Qed.

  Theorem constant_untrimmed_diverges s :
    trim s <> s -> lit_eval (strip (trim s)) = None -> fsafe (trim s) = false ->
    forall fuel, constant fuel s = (Diverges, []).
  Proof. intros Ht Hl Hf fuel. apply loop_untrimmed_diverges; auto. Qed.
End LoopPinned.
