From Coq Require Import List NArith Arith Bool Lia.
From TatsuV Require Import Lib.Queue.
Import ListNotations.

Lemma mem_In i l : mem i l = true <-> In i l.
Proof.
  unfold mem. rewrite existsb_exists. split.
  - intros [x [Hx E]]. apply N.eqb_eq in E. subst; exact Hx.
  - intros H. exists i. split; [exact H | apply N.eqb_refl].
Qed.

Lemma NoDup_app_l {A} (a b : list A) : NoDup (a ++ b) -> NoDup a.
Proof.
  induction a as [|x a IH]; cbn; intros H; [constructor|].
  inversion H as [|? ? Hn Hd]; subst. constructor; [|apply IH; exact Hd].
  intros Hin. apply Hn. apply in_or_app. left. exact Hin.
Qed.

Lemma In_firstn {A} (x : A) n l : In x (firstn n l) -> In x l.
Proof.
  revert l; induction n as [|n IH]; intros l; [cbn; intros []|].
  destruct l as [|y l]; cbn; [intros []|].
  intros [->|H]; [left; reflexivity | right; apply IH; exact H].
Qed.

Lemma goods_app a b : goods (a ++ b) = goods a ++ goods b.
Proof. unfold goods. apply flat_map_app. Qed.

(* the reader invariant relative to a list of lines already consumed *)
Definition Inv (pre : list line) (r : reader) : Prop :=
  told r = length pre /\ delivered r = goods pre /\ (forall i, In i (seen r) <-> In i (delivered r)).

Lemma read_line_inv pre l r :
  NoDup (goods (pre ++ [l])) -> Inv pre r -> Inv (pre ++ [l]) (read_line r l).
Proof.
  intros ND (Ht & Hd & Hs). unfold Inv. rewrite app_length, goods_app. cbn [length].
  destruct l as [i|]; cbn [read_line goods flat_map].
  - destruct (mem i (seen r)) eqn:E.
    + exfalso. apply mem_In in E. apply Hs in E. rewrite Hd in E.
      rewrite goods_app in ND. cbn in ND.
      apply NoDup_remove_2 in ND. rewrite app_nil_r in ND. exact (ND E).
    + cbn. repeat split; [lia | rewrite Hd; reflexivity | |].
      * intros [->|H]; [apply in_or_app; right; left; reflexivity | apply in_or_app; left; apply Hs; exact H].
      * intros H. apply in_app_or in H. destruct H as [H|[->|[]]]; [right; apply Hs; exact H | left; reflexivity].
  - cbn. rewrite app_nil_r. repeat split; [lia | exact Hd | apply Hs | apply Hs].
Qed.

Lemma NoDup_goods_prefix a b : NoDup (goods (a ++ b)) -> NoDup (goods a).
Proof. rewrite goods_app. apply NoDup_app_l. Qed.

Lemma fold_read_inv new : forall pre r,
  NoDup (goods (pre ++ new)) -> Inv pre r -> Inv (pre ++ new) (fold_left read_line new r).
Proof.
  induction new as [|l new IH]; intros pre r ND HI; cbn [fold_left].
  - rewrite app_nil_r. exact HI.
  - replace (pre ++ l :: new) with ((pre ++ [l]) ++ new) in * by (rewrite <- app_assoc; reflexivity).
    apply IH; [exact ND|]. apply read_line_inv; [|exact HI].
    eapply NoDup_goods_prefix; exact ND.
Qed.

(* invariant relative to the file: what was delivered is exactly the good packets among the first
   `told` lines of the file, in file order *)
Definition FInv (file : list line) (r : reader) : Prop :=
  told r <= length file /\ Inv (firstn (told r) file) r.

Lemma firstn_firstn_min {A} (l : list A) a b : firstn a (firstn b l) = firstn (min a b) l.
Proof. apply firstn_firstn. Qed.

Lemma recv_inv file k r :
  NoDup (goods file) -> FInv file r ->
  FInv file (recv file k r) /\ told (recv file k r) = max (told r) (min k (length file)).
Proof.
  intros ND [Hle HI]. unfold recv.
  destruct (Nat.le_gt_cases k (told r)) as [Hk|Hk].
  - (* the view ends before _told: nothing is read *)
    rewrite skipn_all2 by (rewrite firstn_length; lia). cbn [fold_left].
    split; [split; [exact Hle|exact HI] | lia].
  - set (F := firstn k file).
    assert (HF : F = firstn (told r) file ++ skipn (told r) F).
    { unfold F. rewrite <- (firstn_skipn (told r) (firstn k file)) at 1.
      rewrite firstn_firstn. replace (min (told r) k) with (told r) by lia. reflexivity. }
    assert (NDF : NoDup (goods F)).
    { unfold F. rewrite <- (firstn_skipn k file) in ND. eapply NoDup_goods_prefix; exact ND. }
    rewrite HF in NDF.
    pose proof (fold_read_inv _ _ _ NDF HI) as H. rewrite <- HF in H.
    destruct H as (Ht & Hd & Hs).
    assert (HlenF : length F = min k (length file)) by (unfold F; apply firstn_length).
    assert (HFf : F = firstn (length F) file).
    { unfold F. rewrite firstn_length, <- firstn_firstn, firstn_firstn.
      replace (min (min k (length file)) k) with (min k (length file)) by lia.
      rewrite <- (firstn_firstn file). rewrite (firstn_all file). reflexivity. }
    split.
    + split; [rewrite Ht, HlenF; lia|]. rewrite Ht. rewrite <- HFf. split; [exact Ht|split; [exact Hd|exact Hs]].
    + rewrite Ht, HlenF. lia.
Qed.

Lemma FInv_send file l r : FInv file r -> FInv (file ++ [l]) r.
Proof.
  intros [Hle HI]. split; [rewrite app_length; lia|].
  rewrite firstn_app. replace (told r - length file) with 0 by lia. cbn [firstn]. rewrite app_nil_r. exact HI.
Qed.

Lemma run_file_grows ops : forall st, exists ext, fst (fold_left step ops st) = fst st ++ ext.
Proof.
  induction ops as [|o ops IH]; intros st; cbn [fold_left].
  - exists []. rewrite app_nil_r. reflexivity.
  - destruct (IH (step st o)) as [ext He]. rewrite He. destruct o; cbn [step fst].
    + exists (l :: ext). rewrite <- app_assoc. reflexivity.
    + exists ext. reflexivity.
Qed.

Lemma steps_inv ops : forall st,
  NoDup (goods (fst (fold_left step ops st))) -> FInv (fst st) (snd st) ->
  FInv (fst (fold_left step ops st)) (snd (fold_left step ops st)).
Proof.
  induction ops as [|o ops IH]; intros st ND HI; cbn [fold_left] in *; [exact HI|].
  apply IH; [exact ND|].
  destruct (run_file_grows ops (step st o)) as [ext He]. rewrite He in ND.
  apply NoDup_goods_prefix in ND.
  destruct o; cbn [step fst snd] in *.
  - apply FInv_send. exact HI.
  - apply recv_inv; assumption.
Qed.

(* Exactly once, in order: after any interleaving of sends and (possibly cut short) receives,
   the packets delivered so far are the good packets of a prefix of the file, in file order and
   without repetition; a receive that sees the whole file completes the sequence. *)
Theorem queue_exactly_once_in_order ops :
  let st := run ops in
  NoDup (goods (fst st)) ->
  delivered (snd st) = goods (firstn (told (snd st)) (fst st))
  /\ told (snd st) <= length (fst st)
  /\ NoDup (delivered (snd st))
  /\ delivered (recv (fst st) (length (fst st)) (snd st)) = goods (fst st).
Proof.
  intros st ND. unfold st, run in *.
  assert (H0 : FInv (fst ([] : list line, reader0)) (snd ([] : list line, reader0))).
  { split; [cbn; lia|]. cbn. split; [reflexivity|split; [reflexivity|intros i; split; auto]]. }
  pose proof (steps_inv ops _ ND H0) as HI.
  set (f := fst (fold_left step ops ([], reader0))) in *.
  set (r := snd (fold_left step ops ([], reader0))) in *.
  destruct HI as [Hle (Ht & Hd & Hs)].
  repeat split.
  - exact Hd.
  - exact Hle.
  - rewrite Hd. rewrite <- (firstn_skipn (told r) f) in ND. eapply NoDup_goods_prefix; exact ND.
  - destruct (recv_inv f (length f) r ND) as [[_ (_ & Hd' & _)] Ht'].
    { split; [exact Hle|split; [exact Ht|split; [exact Hd|exact Hs]]]. }
    rewrite Hd', Ht'. replace (max (told r) (min (length f) (length f))) with (length f) by lia.
    rewrite firstn_all. reflexivity.
Qed.

(* A view cut short inside the record that follows the first k lines delivers exactly the earlier
   packets not yet delivered and leaves _told at the start of the partial record. *)
Theorem queue_truncation_safe file k r :
  NoDup (goods file) -> FInv file r -> told r <= k <= length file ->
  let r' := recv file k r in
  told r' = k /\ delivered r' = goods (firstn k file)
  /\ exists new, delivered r' = delivered r ++ new /\ new = goods (skipn (told r) (firstn k file)).
Proof.
  intros ND HI Hk r'. destruct (recv_inv file k r ND HI) as [[_ (Ht & Hd & _)] Ht'].
  fold r' in Ht, Hd, Ht'.
  assert (Hk' : told r' = k) by lia.
  split; [exact Hk'|]. split; [rewrite Hd, Hk'; reflexivity|].
  exists (goods (skipn (told r) (firstn k file))). split; [|reflexivity].
  destruct HI as [_ (_ & Hd0 & _)]. rewrite Hd, Hk', Hd0, <- goods_app.
  rewrite <- (firstn_skipn (told r) (firstn k file)) at 1. rewrite firstn_firstn.
  replace (min (told r) k) with (told r) by lia. reflexivity.
Qed.

(* a corrupt line is never delivered *)
Theorem queue_corrupt_never_delivered ops :
  let st := run ops in NoDup (goods (fst st)) ->
  forall i, In i (delivered (snd st)) -> In (Good i) (fst st).
Proof.
  intros st ND i Hi. destruct (queue_exactly_once_in_order ops ND) as (Hd & _).
  fold st in Hd. rewrite Hd in Hi. unfold goods in Hi. apply in_flat_map in Hi.
  destruct Hi as [l [Hl Hin]]. destruct l as [j|]; [|destruct Hin].
  destruct Hin as [->|[]]. eapply In_firstn; exact Hl.
Qed.
