From Coq Require Import List NArith Arith Bool Lia Decimal DecimalN.
From TatsuV Require Import Base.PyStr Lib.Rle.
Import ListNotations.
Local Open Scope N_scope.

(* ---- decimal numerals ---- *)
Lemma chars_uint_chars u : chars_uint (uint_chars u) = u.
Proof. induction u; cbn [uint_chars chars_uint]; rewrite ?IHu; reflexivity. Qed.

Lemma nat_of_str_of_nat n : nat_of_digits (str_of_nat n) = n.
Proof.
  unfold nat_of_digits, str_of_nat. rewrite chars_uint_chars, DecimalN.Unsigned.of_to.
  apply Nat2N.id.
Qed.

Lemma is_digit_tilde : is_digit tilde = false.
Proof. reflexivity. Qed.

Lemma span_digits_cons_digit c s :
  is_digit c = true -> span_digits (c :: s) = let '(d, r) := span_digits s in (c :: d, r).
Proof. intros H. cbn [span_digits]. rewrite H. reflexivity. Qed.

Lemma span_digits_uint u rest :
  span_digits (uint_chars u ++ tilde :: rest) = (uint_chars u, tilde :: rest).
Proof.
  induction u; cbn [uint_chars]; rewrite <- ?app_comm_cons;
    try (rewrite span_digits_cons_digit by reflexivity; rewrite IHu; reflexivity).
  reflexivity.
Qed.

Lemma span_digits_length s d r : span_digits s = (d, r) -> length s = (length d + length r)%nat.
Proof.
  revert d r; induction s as [|c s IH]; intros d r; cbn [span_digits].
  - intros H; inversion H; reflexivity.
  - destruct (is_digit c).
    + destruct (span_digits s) as [d' r'] eqn:E. intros H; inversion H; subst.
      cbn. rewrite (IH d' r eq_refl). reflexivity.
    + intros H; inversion H; subst. reflexivity.
Qed.

Lemma repeat_c_snoc c n : repeat_c c (S n) = repeat_c c n ++ [c].
Proof.
  induction n as [|n IH]; [reflexivity|].
  change (c :: repeat_c c (S n) = c :: (repeat_c c n ++ [c])). f_equal. exact IH.
Qed.

Lemma dec_f_S fuel l :
  dec_f (S fuel) l =
    match l with
    | [] => []
    | c :: tl =>
      if N.eqb c tilde then
        match tl with
        | [] => [c]
        | c2 :: tl2 =>
          if N.eqb c2 tilde then tilde :: dec_f fuel tl2
          else
            match span_digits tl2 with
            | (d :: ds, t :: rest) =>
              if N.eqb t tilde then repeat_c c2 (nat_of_digits (d :: ds)) ++ dec_f fuel rest
              else c :: dec_f fuel tl
            | _ => c :: dec_f fuel tl
            end
        end
      else c :: dec_f fuel tl
    end.
Proof. reflexivity. Qed.

(* ---- fuel irrelevance of the decoder ---- *)
Lemma dec_f_fuel f1 : forall f2 l, (length l <= f1)%nat -> (length l <= f2)%nat -> dec_f f1 l = dec_f f2 l.
Proof.
  induction f1 as [|f1 IH]; intros f2 l H1 H2.
  - destruct l; [|cbn in H1; lia]. destruct f2; reflexivity.
  - destruct f2 as [|f2]; [destruct l; [reflexivity|cbn in H2; lia]|].
    rewrite !dec_f_S. destruct l as [|c tl]; [reflexivity|]. cbn [length] in H1, H2.
    destruct (N.eqb c tilde).
    + destruct tl as [|c2 tl2]; [reflexivity|]. cbn [length] in H1, H2.
      destruct (N.eqb c2 tilde).
      * f_equal. apply IH; lia.
      * destruct (span_digits tl2) as [ds r] eqn:E. pose proof (span_digits_length _ _ _ E) as HL.
        destruct ds as [|d ds]; [f_equal; apply IH; cbn [length]; lia|].
        destruct r as [|t rest]; [f_equal; apply IH; cbn [length]; lia|].
        cbn [length] in HL.
        destruct (N.eqb t tilde); [f_equal; apply IH; lia | f_equal; apply IH; cbn [length]; lia].
    + f_equal. apply IH; lia.
Qed.

(* ---- unfolding equations of rle_decode ---- *)
Lemma D_nil : rle_decode [] = [].
Proof. reflexivity. Qed.

Lemma D_plain c tl : N.eqb c tilde = false -> rle_decode (c :: tl) = c :: rle_decode tl.
Proof.
  intros H. unfold rle_decode. cbn [length]. rewrite dec_f_S, H. reflexivity.
Qed.

Lemma D_tilde2 tl : rle_decode (tilde :: tilde :: tl) = tilde :: rle_decode tl.
Proof.
  unfold rle_decode. cbn [length]. rewrite dec_f_S, !N.eqb_refl. f_equal.
  apply dec_f_fuel; lia.
Qed.

Lemma D_token c d ds rest :
  N.eqb c tilde = false ->
  span_digits (d :: ds ++ tilde :: rest) = (d :: ds, tilde :: rest) ->
  rle_decode (tilde :: c :: (d :: ds) ++ tilde :: rest)
  = repeat_c c (nat_of_digits (d :: ds)) ++ rle_decode rest.
Proof.
  intros Hc Hs. unfold rle_decode. cbn [length]. rewrite dec_f_S, N.eqb_refl, Hc.
  change ((d :: ds) ++ tilde :: rest) with (d :: ds ++ tilde :: rest). rewrite Hs, N.eqb_refl.
  f_equal. apply dec_f_fuel; [|lia]. cbn [length]. rewrite app_length. cbn [length]. lia.
Qed.

(* ---- each emitted piece decodes on its own ---- *)
Lemma D_repeat_plain c n rest :
  N.eqb c tilde = false -> rle_decode (repeat_c c n ++ rest) = repeat_c c n ++ rle_decode rest.
Proof.
  intros H. induction n as [|n IH]; [reflexivity|]. cbn [repeat_c List.app].
  rewrite D_plain by exact H. rewrite IH. reflexivity.
Qed.

Lemma D_repeat_tilde n rest :
  rle_decode (repeat_c tilde (2 * n) ++ rest) = repeat_c tilde n ++ rle_decode rest.
Proof.
  induction n as [|n IH]; [reflexivity|].
  replace (2 * S n)%nat with (S (S (2 * n))) by lia. cbn [repeat_c List.app].
  rewrite D_tilde2, IH. reflexivity.
Qed.

Lemma str_of_nat_nonempty n : (4 <= n)%nat -> str_of_nat n <> [].
Proof.
  intros Hn E. pose proof (nat_of_str_of_nat n) as H. rewrite E in H. cbn in H. lia.
Qed.

Lemma D_flush c n rest : rle_decode (flush_run c n ++ rest) = repeat_c c n ++ rle_decode rest.
Proof.
  unfold flush_run. destruct (N.eqb c tilde) eqn:Ec.
  - apply N.eqb_eq in Ec; subst c. apply D_repeat_tilde.
  - destruct (Nat.leb 4 n) eqn:E4.
    + apply Nat.leb_le in E4.
      pose proof (str_of_nat_nonempty n E4) as Hne.
      destruct (str_of_nat n) as [|d ds] eqn:Es; [congruence|].
      cbn [List.app]. rewrite <- app_assoc. cbn [List.app].
      change (tilde :: c :: d :: ds ++ tilde :: rest) with (tilde :: c :: (d :: ds) ++ tilde :: rest).
      pose proof (span_digits_uint (N.to_uint (N.of_nat n)) rest) as Hsp.
      fold (str_of_nat n) in Hsp. rewrite Es in Hsp.
      rewrite (D_token c d ds rest Ec Hsp). rewrite <- Es, nat_of_str_of_nat. reflexivity.
    + apply D_repeat_plain; exact Ec.
Qed.

Lemma D_enc_go l : forall c n, rle_decode (enc_go c n l) = repeat_c c n ++ l.
Proof.
  induction l as [|d tl IH]; intros c n; cbn [enc_go].
  - rewrite <- (app_nil_r (flush_run c n)), D_flush, D_nil. reflexivity.
  - destruct (N.eqb d c) eqn:E.
    + apply N.eqb_eq in E; subst d. rewrite IH, repeat_c_snoc, <- app_assoc. reflexivity.
    + rewrite D_flush, IH. reflexivity.
Qed.

Theorem rle_roundtrip s : rle_decode (rle_encode s) = s.
Proof.
  destruct s as [|c tl]; [reflexivity|]. unfold rle_encode. rewrite D_enc_go. reflexivity.
Qed.

(* the decoder shipped at the pinned commit is not an inverse *)
Theorem rle_twopass_refuted : exists s, rle_decode_twopass (rle_encode s) <> s.
Proof. exists [tilde; 97; 49; tilde]. vm_compute. discriminate. Qed.

(* the encoded text never contains a line break unless the input does (queue framing) *)
