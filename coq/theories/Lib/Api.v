(* Model of the public API of tatsu/api/api.py as a state machine over a heap (property C10).

   Identities are abstract numbers supplied by the harness:
     grammar text (what `hasha(grammar)` hashes), name, user semantics object (`id(semantics)`),
     builder options (asmodel / basetype / synthok / builderconfig / typedefs / constructors packaged),
     settings dict given to compile, and `rest` = everything a parse call passes per call
     (route, start rule, parse-time settings, text) - per-call data that never touches shared state.

   Pure parts are Section variables (never axioms):
     settings_valid  - `ParserConfig.new( **settings )` accepts the settings (unknown key -> ValueError)
     boot_ok         - the bootstrap parse `TatSuParserGenerator(name, **settings).parse(grammar, **settings)`
                       succeeds (the settings configure the parse of the grammar TEXT, D5b)
     result_of       - the parse result as a function of (grammar model, effective semantics, rest)
     gen_of          - `pythongen(model)`

   State: compile cache `key -> handle`, heap `handle -> {grammar model, semantics}` (the only
   field of a cached Grammar that an API call writes is `model.config.semantics`), and the harness
   variables bound by earlier `compile` calls (with the arguments they were compiled with: ghost data
   used to state "the same call in a fresh process").

   Two compile functions over the same state:
     compile_f  - api.py at 693ce06..8712c5c: key = (name, hasha(grammar), id(semantics)), and after the
                  lookup, hit or miss, `model.semantics = semantics` / `= ModelBuilderSemantics(..)`
     compile_r  - the repaired api.py (fixes/C10-compile-cache-key.patch): the key holds every argument the
                  model depends on, arguments that cannot be keyed bypass the cache, and a cached model is
                  never written to.
   No proofs in this file. *)
From Coq Require Import List NArith Bool.
Import ListNotations.

Definition oN_eqb (a b : option N) : bool :=
  match a, b with
  | Some x, Some y => N.eqb x y
  | None, None => true
  | _, _ => false
  end.

Definition is_some {A} (o : option A) : bool := match o with Some _ => true | None => false end.

(* the grammar model produced by the bootstrap parse: a function of (name, text, compile settings) *)
Record gmodel := { gm_name : option N; gm_gram : N; gm_settings : N }.

(* effective semantics of a parse *)
Inductive sem :=
| SNone
| SUser (s : N)                 (* a user object *)
| SBuilder (b : option N).      (* ModelBuilderSemantics(config=BuilderConfig.new(<builder options b>)) *)

Definition sem_is_none (s : sem) : bool := match s with SNone => true | _ => false end.

Record cargs := {
  c_name : option N; c_gram : N; c_sem : option N;
  c_asmodel : bool; c_bopt : option N;       (* asmodel flag; builder options given (any of the five) *)
  c_settings : N;                             (* 0 = no settings *)
  c_opaque : bool                             (* arguments that cannot be part of a key (repaired code only) *)
}.

Record obj := { o_gm : gmodel; o_sem : sem }.

Definition key := (option N * N * option N * (bool * option N * N))%type.

Definition key_eqb (a b : key) : bool :=
  match a, b with
  | (n1, g1, s1, (m1, b1, t1)), (n2, g2, s2, (m2, b2, t2)) =>
      oN_eqb n1 n2 && N.eqb g1 g2 && oN_eqb s1 s2 && Bool.eqb m1 m2 && oN_eqb b1 b2 && N.eqb t1 t2
  end.

Record state := {
  cache : list (key * nat);
  heap : list obj;
  vars : list (nat * cargs)
}.

Definition init : state := {| cache := []; heap := []; vars := [] |}.

Fixpoint lookup (k : key) (c : list (key * nat)) : option nat :=
  match c with
  | [] => None
  | (k', h) :: c' => if key_eqb k k' then Some h else lookup k c'
  end.

Fixpoint set_nth {A} (i : nat) (x : A) (l : list A) : list A :=
  match l, i with
  | [], _ => []
  | _ :: t, O => x :: t
  | y :: t, S j => y :: set_nth j x t
  end.

(* api.py lines 72-78: asmodel = not semantics and (asmodel or builderconfig/basetype/typedefs/constructors given) *)
Definition asmodel' (a : cargs) : bool :=
  match c_sem a with
  | Some _ => false
  | None => c_asmodel a || is_some (c_bopt a)
  end.

(* api.py lines 79-90: what `model.semantics` is after the assignments, given what it was *)
Definition new_sem (a : cargs) (old : sem) : sem :=
  match c_sem a with
  | Some s => SUser s
  | None => if asmodel' a then SBuilder (c_bopt a) else old
  end.

Definition gm_of (a : cargs) : gmodel :=
  {| gm_name := c_name a; gm_gram := c_gram a; gm_settings := c_settings a |}.

(* a model straight out of the bootstrap parser has no semantics *)
Definition obj_of (a : cargs) : obj := {| o_gm := gm_of a; o_sem := new_sem a SNone |}.

Definition key_f (a : cargs) : key := (c_name a, c_gram a, c_sem a, (false, None, 0%N)).
Definition key_r (a : cargs) : key := (c_name a, c_gram a, c_sem a, (asmodel' a, c_bopt a, c_settings a)).

Inductive err := EConfig | EBoot | EUnbound.

Record pargs := { p_sem : option N; p_asmodel : bool; p_rest : N }.   (* model.parse(text, ...) *)
Record targs := {                                                    (* tatsu.parse(grammar, text, ...) *)
  t_gram : N; t_sem : option N; t_asmodel : bool; t_bopt : option N; t_settings : N; t_rest : N
}.

Inductive op :=
| OCompile (a : cargs)                        (* m_k = tatsu.compile(..): binds the next variable on success *)
| OParseVar (v : nat) (p : pargs)             (* m_v.parse(..) *)
| OCompileParse (a : cargs) (p : pargs)       (* tatsu.compile(..).parse(..) *)
| OTatsuParse (t : targs)                     (* tatsu.parse(grammar, text, ..) *)
| OGen (a : cargs).                           (* tatsu.to_python_sourcecode(grammar, name=..) *)

Section Api.
  Variable R : Type.
  Variable settings_valid : N -> bool.
  Variable boot_ok : option N -> N -> N -> bool.
  Variable result_of : gmodel -> sem -> N -> R.
  Variable gen_of : gmodel -> R.

  Inductive res :=
  | RErr (e : err)
  | RModel (g : gmodel) (s : sem)        (* what compile returned: the grammar and its `semantics` *)
  | RVal (r : R).

  Definition alloc (o : obj) (st : state) : state * nat :=
    ({| cache := cache st; heap := heap st ++ [o]; vars := vars st |}, length (heap st)).

  Definition add_cache (k : key) (h : nat) (st : state) : state :=
    {| cache := (k, h) :: cache st; heap := heap st; vars := vars st |}.

  (* `model.semantics = ...` on the cached object *)
  Definition mutate (a : cargs) (h : nat) (st : state) : state :=
    match nth_error (heap st) h with
    | Some o => {| cache := cache st;
                   heap := set_nth h {| o_gm := o_gm o; o_sem := new_sem a (o_sem o) |} (heap st);
                   vars := vars st |}
    | None => st
    end.

  (* tatsu.compile at the pinned commit *)
  Definition compile_f (a : cargs) (st : state) : state * (err + nat) :=
    if negb (settings_valid (c_settings a)) then (st, inl EConfig)
    else match lookup (key_f a) (cache st) with
         | Some h => (mutate a h st, inr h)
         | None =>
             if boot_ok (c_name a) (c_gram a) (c_settings a)
             then let (st1, h) := alloc {| o_gm := gm_of a; o_sem := SNone |} st in
                  (mutate a h (add_cache (key_f a) h st1), inr h)
             else (st, inl EBoot)
         end.

  (* tatsu.compile after the repair *)
  Definition compile_r (a : cargs) (st : state) : state * (err + nat) :=
    if negb (settings_valid (c_settings a)) then (st, inl EConfig)
    else if c_opaque a
    then if boot_ok (c_name a) (c_gram a) (c_settings a)
         then let (st1, h) := alloc (obj_of a) st in (st1, inr h)
         else (st, inl EBoot)
    else match lookup (key_r a) (cache st) with
         | Some h => (st, inr h)
         | None =>
             if boot_ok (c_name a) (c_gram a) (c_settings a)
             then let (st1, h) := alloc (obj_of a) st in (add_cache (key_r a) h st1, inr h)
             else (st, inl EBoot)
         end.

  (* Grammar.parse: parse-time semantics > model.semantics (CURRENT heap contents) > asmodel > none *)
  Definition eff_sem (o : obj) (p : pargs) : sem :=
    match p_sem p with
    | Some s => SUser s
    | None => if sem_is_none (o_sem o)
              then (if p_asmodel p then SBuilder None else SNone)
              else o_sem o
    end.

  Definition parse_at (st : state) (h : nat) (p : pargs) : res :=
    match nth_error (heap st) h with
    | Some o => RVal (result_of (o_gm o) (eff_sem o p) (p_rest p))
    | None => RErr EUnbound
    end.

  Definition bind_var (h : nat) (a : cargs) (st : state) : state :=
    {| cache := cache st; heap := heap st; vars := vars st ++ [(h, a)] |}.

  Definition tatsu_compile_args (t : targs) : cargs :=
    {| c_name := None; c_gram := t_gram t; c_sem := None; c_asmodel := t_asmodel t; c_bopt := None;
       c_settings := 0%N; c_opaque := false |}.

  Section Run.
    Variable compile : cargs -> state -> state * (err + nat).

    Definition run_op (st : state) (o : op) : state * res :=
      match o with
      | OCompile a =>
          match compile a st with
          | (st1, inl e) => (st1, RErr e)
          | (st1, inr h) =>
              (bind_var h a st1,
               match nth_error (heap st1) h with
               | Some ob => RModel (o_gm ob) (o_sem ob)
               | None => RErr EUnbound
               end)
          end
      | OParseVar v p =>
          match nth_error (vars st) v with
          | Some (h, _) => (st, parse_at st h p)
          | None => (st, RErr EUnbound)
          end
      | OCompileParse a p =>
          match compile a st with
          | (st1, inl e) => (st1, RErr e)
          | (st1, inr h) => (st1, parse_at st1 h p)
          end
      | OTatsuParse t =>
          (* api.parse: config = ParserConfig.new(.., **settings); model = compile(grammar, config=config,
             asmodel=asmodel); config.semantics = semantics or model.semantics; builder if still none *)
          if negb (settings_valid (t_settings t)) then (st, RErr EConfig)
          else match compile (tatsu_compile_args t) st with
               | (st1, inl e) => (st1, RErr e)
               | (st1, inr h) =>
                   match nth_error (heap st1) h with
                   | Some ob =>
                       let s0 := match t_sem t with Some s => SUser s | None => o_sem ob end in
                       let s1 := if sem_is_none s0 && (t_asmodel t || is_some (t_bopt t))
                                 then SBuilder (t_bopt t) else s0 in
                       (st1, RVal (result_of (o_gm ob) s1 (t_rest t)))
                   | None => (st1, RErr EUnbound)
                   end
               end
      | OGen a =>
          if negb (settings_valid (c_settings a)) then (st, RErr EConfig)
          else
          (* to_python_sourcecode: compile(grammar, config=config, name=name, source=filename): the settings
             stay in `config`, which compile only validates *)
          let a' := {| c_name := c_name a; c_gram := c_gram a; c_sem := None; c_asmodel := false;
                       c_bopt := None; c_settings := 0%N; c_opaque := false |} in
          match compile a' st with
          | (st1, inl e) => (st1, RErr e)
          | (st1, inr h) =>
              match nth_error (heap st1) h with
              | Some ob => (st1, RVal (gen_of (o_gm ob)))
              | None => (st1, RErr EUnbound)
              end
          end
      end.

    Definition runs (h : list op) (st : state) : state := fold_left (fun s o => fst (run_op s o)) h st.

    (* results of every call of a history, in order *)
    Fixpoint results (h : list op) (st : state) : list res :=
      match h with
      | [] => []
      | o :: t => let (st1, r) := run_op st o in r :: results t st1
      end.
  End Run.

  (* "the same call in a fresh process": a call on a variable becomes compile-with-the-same-arguments + call *)
  Definition fresh_form (st : state) (o : op) : op :=
    match o with
    | OParseVar v p =>
        match nth_error (vars st) v with
        | Some (_, a) => OCompileParse a p
        | None => o
        end
    | _ => o
    end.

  Definition result_after (compile : cargs -> state -> state * (err + nat)) (h : list op) (c : op) : res :=
    snd (run_op compile (runs compile h init) c).
  Definition result_fresh (compile : cargs -> state -> state * (err + nat)) (h : list op) (c : op) : res :=
    snd (run_op compile init (fresh_form (runs compile h init) c)).
End Api.

Arguments RErr {R}.
Arguments RModel {R}.
Arguments RVal {R}.

(* ---------------------------------------------------------------------------------------------
   The parse context (contexts/engine.py `bound`, contexts/core.py): which fields of a context object a
   parse reads, and when they are written.  `self._config` is set by __init__ and never written by a
   parse; everything else is volatile.  `body` is the whole parse between the `yield` and the `finally`:
   an arbitrary function of the context as it is after the entry code of `bound`; it returns an outcome and
   leaves arbitrary values in the volatile fields. *)
Section Ctx.
  Variable Cfg Txt Vol Out : Type.                 (* Vol: the value space of a volatile field *)
  Variable override : Cfg -> Cfg -> Cfg.           (* self.config.override_config(config).override(..): a NEW object *)
  Variable fresh_memos fresh_results fresh_states fresh_tracer : Cfg -> Txt -> Vol.
  Variable kw_of sem_of heart_of : Cfg -> Vol.
  Variable cleared : Vol.

  Record ctx := {
    x_config : Cfg;          (* self._config *)
    x_active : Cfg;          (* self._active_config *)
    x_memos : Vol; x_results : Vol; x_states : Vol; x_furthest : Vol;
    x_keywords : Vol; x_semantics : Vol; x_tracer : Vol; x_heart : Vol; x_lastbeat : Vol
  }.

  (* entry code of `bound` up to the yield *)
  Definition bound_enter (c : ctx) (cfg : Cfg) (t : Txt) : ctx :=
    let a := override (x_config c) cfg in
    {| x_config := x_config c; x_active := a;
       x_memos := fresh_memos a t; x_results := fresh_results a t; x_states := fresh_states a t;
       x_furthest := cleared;
       x_keywords := kw_of a; x_semantics := sem_of a; x_tracer := fresh_tracer a t;
       x_heart := heart_of a; x_lastbeat := cleared |}.

  Variable body : ctx -> Out * ctx.                (* success or failure, any garbage left behind *)

  (* the `finally:` block: _initialize_caches(); _active_config = _config; update_tracer() *)
  Definition bound_exit (c : ctx) : ctx :=
    {| x_config := x_config c; x_active := x_config c;
       x_memos := cleared; x_results := cleared; x_states := cleared; x_furthest := cleared;
       x_keywords := x_keywords c; x_semantics := x_semantics c;
       x_tracer := cleared; x_heart := x_heart c; x_lastbeat := x_lastbeat c |}.

  Definition ctx_parse (c : ctx) (cfg : Cfg) (t : Txt) : Out * ctx :=
    let (o, c1) := body (bound_enter c cfg t) in (o, bound_exit c1).
End Ctx.

(* ---------------------------------------------------------------------------------------------
   Threads sharing idempotent caches.  A thread is a program over a shared cache K -> option V;
   every shared-state access is one atomic step, the scheduler picks the thread for each step. *)
Section Sched.
  Variable K V A : Type.
  Variable K_eqb : K -> K -> bool.
  Variable f : K -> V.                      (* the pure function the cache memoises *)

  Inductive prog :=
  | Ret (a : A)
  | Read (k : K) (c : option V -> prog)     (* v = cache.get(k) *)
  | Write (k : K) (v : V) (c : prog).       (* cache[k] = v *)

  Definition scache := list (K * V).
  Fixpoint sget (k : K) (c : scache) : option V :=
    match c with
    | [] => None
    | (k', v) :: t => if K_eqb k k' then Some v else sget k t
    end.

  (* the result a thread computes when every read is answered with the memoised value *)
  Fixpoint eval (p : prog) : A :=
    match p with
    | Ret a => a
    | Read k c => eval (c (Some (f k)))
    | Write _ _ c => eval c
    end.

  (* one atomic step of one thread *)
  Definition pstep (p : prog) (c : scache) : prog * scache :=
    match p with
    | Ret a => (Ret a, c)
    | Read k cont => (cont (sget k c), c)
    | Write k v cont => (cont, (k, v) :: c)
    end.

  Fixpoint step_nth (i : nat) (ps : list prog) (c : scache) : list prog * scache :=
    match ps, i with
    | [], _ => ([], c)
    | p :: t, O => let (p', c') := pstep p c in (p' :: t, c')
    | p :: t, S j => let (t', c') := step_nth j t c in (p :: t', c')
    end.

  (* a schedule = the thread chosen at each step: every merge of the threads' step lists *)
  Fixpoint run_sched (s : list nat) (ps : list prog) (c : scache) : list prog * scache :=
    match s with
    | [] => (ps, c)
    | i :: s' => let (ps', c') := step_nth i ps c in run_sched s' ps' c'
    end.

  (* the thread running alone, to completion *)
  Fixpoint run_alone (p : prog) (c : scache) : A :=
    match p with
    | Ret a => a
    | Read k cont => run_alone (cont (sget k c)) c
    | Write k v cont => run_alone cont ((k, v) :: c)
    end.

  (* the get-or-compute idiom of every cache in the code base *)
  Definition memo_get (k : K) (cont : V -> prog) : prog :=
    Read k (fun o => match o with
                     | Some v => cont v
                     | None => Write k (f k) (cont (f k))
                     end).
End Sched.

Arguments Ret {K V A}.
Arguments Read {K V A}.
Arguments Write {K V A}.
