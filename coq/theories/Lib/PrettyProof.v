(* C13, quoting level: proofs about Pretty.v *)
From Coq Require Import List NArith Arith Bool Lia.
From TatsuV Require Import Base.PyStr Lib.Pretty.
Import ListNotations.
Local Open Scope N_scope.

Local Arguments hex_escape : simpl never.
Local Arguments take_nonl : simpl never.
Local Arguments span_oct : simpl never.
Local Arguments named_escape : simpl never.

(* ---- small list facts ---------------------------------------------------------------------- *)
Lemma firstn_len_app {A} (h t : list A) : firstn (length h) (h ++ t) = h.
Proof. induction h as [|x h IH]; cbn; [destruct t; reflexivity | now rewrite IH]. Qed.

Lemma skipn_len_app {A} (h t : list A) : skipn (length h) (h ++ t) = t.
Proof. induction h as [|x h IH]; cbn; [reflexivity | exact IH]. Qed.

Lemma has_false_forall c s : has c s = false -> Forall (fun x => x <> c) s.
Proof.
  unfold has. induction s as [|x s IH]; cbn; [constructor|].
  intros H. apply orb_false_iff in H as [H1 H2]. constructor; [|auto].
  apply N.eqb_neq in H1. congruence.
Qed.

(* ---- hexadecimal --------------------------------------------------------------------------- *)
Definition hexchar (d : N) : Prop := (48 <= d <= 57) \/ (97 <= d <= 102).

Lemma hexd_char n : n < 16 -> hexchar (hexd n).
Proof. unfold hexd, hexchar. intros H. destruct (N.ltb_spec n 10); lia. Qed.

Lemma hexd_val n : n < 16 -> hexv (hexd n) = Some n.
Proof.
  unfold hexd, hexv. intros H. destruct (N.ltb_spec n 10).
  - replace (48 <=? 48 + n) with true by (symmetry; apply N.leb_le; lia).
    replace (48 + n <=? 57) with true by (symmetry; apply N.leb_le; lia).
    cbn [andb]. f_equal. lia.
  - replace (48 <=? 87 + n) with true by (symmetry; apply N.leb_le; lia).
    replace (87 + n <=? 57) with false by (symmetry; apply N.leb_gt; lia).
    replace (97 <=? 87 + n) with true by (symmetry; apply N.leb_le; lia).
    replace (87 + n <=? 102) with true by (symmetry; apply N.leb_le; lia).
    cbn [andb]. f_equal. lia.
Qed.

Lemma hexn_length k n : length (hexn k n) = k.
Proof. revert n; induction k as [|k IH]; intros n; cbn; [reflexivity|]. rewrite app_length, IH. cbn. lia. Qed.

Lemma hexn_chars k n : Forall hexchar (hexn k n).
Proof.
  revert n; induction k as [|k IH]; intros n; cbn; [constructor|].
  apply Forall_app. split; [apply IH|]. constructor; [|constructor].
  apply hexd_char. apply N.mod_lt. discriminate.
Qed.

Lemma unhex_acc_app acc a b :
  unhex_acc acc (a ++ b) = match unhex_acc acc a with Some v => unhex_acc v b | None => None end.
Proof.
  revert acc; induction a as [|c a IH]; intros acc; cbn; [reflexivity|].
  destruct (hexv c); [apply IH | reflexivity].
Qed.

Lemma unhex_hexn k : forall n acc, n < 16 ^ N.of_nat k ->
  unhex_acc acc (hexn k n) = Some (acc * 16 ^ N.of_nat k + n).
Proof.
  induction k as [|k IH]; intros n acc H.
  - cbn in *. f_equal. lia.
  - rewrite Nat2N.inj_succ, N.pow_succ_r' in *.
    cbn [hexn]. rewrite unhex_acc_app, IH.
    2:{ apply N.div_lt_upper_bound; [discriminate | exact H]. }
    cbn [unhex_acc]. rewrite hexd_val by (apply N.mod_lt; discriminate).
    f_equal. pose proof (N.div_mod n 16 ltac:(discriminate)) as D.
    set (P := 16 ^ N.of_nat k) in *. set (d := n / 16) in *. set (m := n mod 16) in *.
    replace ((acc * P + d) * 16 + m) with (acc * (16 * P) + (16 * d + m)) by ring.
    rewrite <- D. reflexivity.
Qed.

Lemma hexn_nonl k n : forallb (fun c => negb (c =? c_nl)) (hexn k n) = true.
Proof.
  apply forallb_forall. intros x Hx. pose proof (hexn_chars k n) as F.
  rewrite Forall_forall in F. specialize (F x Hx). unfold hexchar, c_nl in *.
  apply negb_true_iff, N.eqb_neq. lia.
Qed.

Lemma take_nonl_app h t : forallb (fun c => negb (c =? c_nl)) h = true ->
  take_nonl (length h) (h ++ t) = Some (h, t).
Proof.
  intros H. unfold take_nonl. rewrite firstn_len_app, skipn_len_app, H, andb_true_r.
  replace (Nat.leb _ _) with true; [reflexivity|].
  symmetry. apply Nat.leb_le. rewrite app_length. lia.
Qed.

Lemma take_nonl_hexn k n t : take_nonl k (hexn k n ++ t) = Some (hexn k n, t).
Proof.
  pose proof (take_nonl_app (hexn k n) t (hexn_nonl k n)) as H.
  rewrite hexn_length in H. exact H.
Qed.

Lemma hex_escape_hexn k n t : n < 16 ^ N.of_nat k ->
  hex_escape k (hexn k n ++ t) = Some (Some n, t).
Proof.
  intros H. unfold hex_escape. rewrite take_nonl_hexn, unhex_hexn by exact H.
  do 2 f_equal.
Qed.

(* ---- eval_escapes undoes repr_body ------------------------------------------------------------ *)
Lemma eval_f_S f s : eval_f (S f) s =
  match s with
  | [] => EOk []
  | c :: tl =>
    if negb (c =? c_bs) then econs c (eval_f f tl)
    else
      match tl with
      | [] => EOk [c]
      | d :: tl2 =>
        let hx := if d =? 85 then hex_escape 8 tl2
                  else if d =? 117 then hex_escape 4 tl2
                  else if d =? 120 then hex_escape 2 tl2
                  else None in
        match hx with
        | Some (Some v, r) => if v <=? 1114111 then econs v (eval_f f r) else EErr
        | Some (None, _) => EErr
        | None =>
          if is_oct d then let '(ds, r) := span_oct 3 tl in econs (octval ds) (eval_f f r)
          else if (d =? 78) && named_escape tl2 then EUnk
          else match simple_escape d with
               | Some v => econs v (eval_f f tl2)
               | None => econs c (eval_f f tl)
               end
        end
      end
  end.
Proof. reflexivity. Qed.

Lemma eval_plain f c t : c <> c_bs -> eval_f (S f) (c :: t) = econs c (eval_f f t).
Proof.
  intros H. rewrite eval_f_S. apply N.eqb_neq in H. rewrite H. reflexivity.
Qed.

Lemma eval_hex2 f n t : n < 256 -> eval_f (S f) (c_bs :: 120 :: hexn 2 n ++ t) = econs n (eval_f f t).
Proof.
  intros H. rewrite eval_f_S. cbn [N.eqb negb c_bs Pos.eqb].
  change (120 =? 85) with false. change (120 =? 117) with false. change (120 =? 120) with true.
  cbv zeta. rewrite (hex_escape_hexn 2 n t) by exact H.
  replace (n <=? 1114111) with true by (symmetry; apply N.leb_le; lia). reflexivity.
Qed.

Lemma eval_hex4 f n t : n < 65536 -> eval_f (S f) (c_bs :: 117 :: hexn 4 n ++ t) = econs n (eval_f f t).
Proof.
  intros H. rewrite eval_f_S. cbn [N.eqb negb c_bs Pos.eqb].
  change (117 =? 85) with false. change (117 =? 117) with true.
  cbv zeta. rewrite (hex_escape_hexn 4 n t) by exact H.
  replace (n <=? 1114111) with true by (symmetry; apply N.leb_le; lia). reflexivity.
Qed.

Lemma eval_hex8 f n t : n <= 1114111 -> eval_f (S f) (c_bs :: 85 :: hexn 8 n ++ t) = econs n (eval_f f t).
Proof.
  intros H. rewrite eval_f_S. cbn [N.eqb negb c_bs Pos.eqb].
  change (85 =? 85) with true.
  cbv zeta. rewrite (hex_escape_hexn 8 n t).
  2:{ change (16 ^ N.of_nat 8) with 4294967296. lia. }
  replace (n <=? 1114111) with true by (symmetry; apply N.leb_le; lia). reflexivity.
Qed.

Section ReprFacts.
  Variable printable : N -> bool.

  Lemma eval_step q c t f : q = c_sq \/ q = c_dq -> c <= 1114111 ->
    eval_f (S f) (repr_char printable q c ++ t) = econs c (eval_f f t).
  Proof.
    intros Hq Hc. unfold repr_char.
    destruct ((c =? q) || (c =? c_bs)) eqn:E1.
    { apply orb_true_iff in E1 as [E|E]; apply N.eqb_eq in E; subst c.
      - destruct Hq; subst q; reflexivity.
      - reflexivity. }
    apply orb_false_iff in E1 as [Eq Ebs]. apply N.eqb_neq in Eq, Ebs.
    destruct (c =? 9) eqn:E9; [apply N.eqb_eq in E9; subst c; reflexivity|].
    destruct (c =? 10) eqn:E10; [apply N.eqb_eq in E10; subst c; reflexivity|].
    destruct (c =? 13) eqn:E13; [apply N.eqb_eq in E13; subst c; reflexivity|].
    destruct ((c <? 32) || (c =? 127)) eqn:Ectl.
    { apply eval_hex2. apply orb_true_iff in Ectl as [E|E];
        [apply N.ltb_lt in E | apply N.eqb_eq in E]; lia. }
    destruct (c <? 127) eqn:E127; [apply eval_plain; exact Ebs|].
    destruct (printable c); [apply eval_plain; exact Ebs|].
    destruct (c <? 256) eqn:E256; [apply eval_hex2; apply N.ltb_lt in E256; exact E256|].
    destruct (c <? 65536) eqn:E64k; [apply eval_hex4; apply N.ltb_lt in E64k; exact E64k|].
    apply eval_hex8. exact Hc.
  Qed.

  Lemma eval_repr_body q : q = c_sq \/ q = c_dq -> forall s f,
    Forall (fun c => c <= 1114111) s -> (length (repr_body printable q s) < f)%nat ->
    eval_f f (repr_body printable q s) = EOk s.
  Proof.
    intros Hq. induction s as [|c s IH]; intros f Hs Hf.
    - destruct f; reflexivity.
    - inversion Hs as [|? ? Hc Hs']; subst.
      unfold repr_body in *. cbn [flat_map] in *. rewrite app_length in Hf.
      destruct f as [|f]; [lia|].
      rewrite eval_step by assumption. rewrite IH; [reflexivity | assumption |].
      assert (1 <= length (repr_char printable q c))%nat; [|lia].
      unfold repr_char.
      repeat match goal with |- context [if ?b then _ else _] => destruct b end; cbn; lia.
  Qed.

  (* no character of the body is the quote or a newline, when the text does not contain the quote *)
  Lemma repr_char_safe q c : q = c_sq \/ q = c_dq -> c <> q ->
    Forall (fun x => x <> q /\ x <> c_nl) (repr_char printable q c).
  Proof.
    intros Hq Hc.
    assert (HX : forall k n, Forall (fun x => x <> q /\ x <> c_nl) (hexn k n)).
    { intros k n. pose proof (hexn_chars k n) as F. eapply Forall_impl; [|exact F].
      unfold hexchar, c_nl. intros a Ha. destruct Hq; subst q; unfold c_sq, c_dq; lia. }
    assert (HB : c_bs <> q /\ c_bs <> c_nl).
    { destruct Hq; subst q; unfold c_bs, c_sq, c_dq, c_nl; lia. }
    assert (HL : forall x, (x = 116 \/ x = 110 \/ x = 114 \/ x = 120 \/ x = 117 \/ x = 85) -> x <> q /\ x <> c_nl).
    { intros x Hx. destruct Hq; subst q; unfold c_sq, c_dq, c_nl; lia. }
    unfold repr_char.
    destruct ((c =? q) || (c =? c_bs)) eqn:E1.
    { apply orb_true_iff in E1 as [E|E]; apply N.eqb_eq in E; [congruence|]. subst c.
      repeat constructor; apply HB. }
    destruct (c =? 9); [repeat constructor; try apply HB; apply HL; lia|].
    destruct (c =? 10) eqn:E10; [repeat constructor; try apply HB; apply HL; lia|].
    destruct (c =? 13); [repeat constructor; try apply HB; apply HL; lia|].
    apply N.eqb_neq in E10.
    destruct ((c <? 32) || (c =? 127)).
    { constructor; [apply HB|]. constructor; [apply HL; lia | apply HX]. }
    destruct (c <? 127); [repeat constructor; assumption|].
    destruct (printable c); [repeat constructor; assumption|].
    destruct (c <? 256); [constructor; [apply HB|]; constructor; [apply HL; lia | apply HX]|].
    destruct (c <? 65536); constructor; try apply HB; constructor; try apply HX; apply HL; lia.
  Qed.

  Lemma repr_body_safe q s : q = c_sq \/ q = c_dq -> Forall (fun x => x <> q) s ->
    Forall (fun x => x <> q /\ x <> c_nl) (repr_body printable q s).
  Proof.
    intros Hq. induction 1 as [|c s Hc Hs IH]; cbn; [constructor|].
    apply Forall_app. split; [apply repr_char_safe; assumption | exact IH].
  Qed.
End ReprFacts.

(* ---- the lazy string lexeme stops at the first quote ------------------------------------------- *)
Lemma lazy_body_scan q b rest : Forall (fun x => x <> q /\ x <> c_nl) b ->
  forall acc, lazy_body q (b ++ q :: rest) acc = Some (rev acc ++ b, rest).
Proof.
  induction 1 as [|c b [Hq Hn] Hb IH]; intros acc.
  - cbn. rewrite N.eqb_refl, app_nil_r. reflexivity.
  - cbn [List.app lazy_body]. apply N.eqb_neq in Hq, Hn. rewrite Hq, Hn. cbn [negb].
    rewrite IH. cbn [rev]. rewrite <- app_assoc. reflexivity.
Qed.

(* the quote chosen by repr is not in the text unless the text has both kinds *)
Lemma repr_quote_spec s : has c_sq s && has c_dq s = false ->
  (repr_quote s = c_sq \/ repr_quote s = c_dq) /\ has (repr_quote s) s = false.
Proof.
  unfold repr_quote. destruct (has c_sq s) eqn:S1, (has c_dq s) eqn:S2; cbn; intros H;
    try discriminate; auto.
Qed.

Theorem token_quoting_roundtrip (printable : N -> bool) : forall s rest,
  s <> [] -> Forall (fun c => c <= 1114111) s -> has c_sq s && has c_dq s = false ->
  unquote (py_repr printable s ++ rest) = Some (EOk s, rest).
Proof.
  intros s rest Hne Hs Hg.
  destruct (repr_quote_spec s Hg) as [Hq Hnot].
  unfold py_repr. set (q := repr_quote s) in *.
  pose proof (repr_body_safe printable q s Hq (has_false_forall _ _ Hnot)) as Safe.
  set (b := repr_body printable q s) in *.
  assert (Hlex : lex_STRING (q :: b ++ q :: rest) = Some (b, rest)).
  { unfold lex_STRING. replace ((q =? c_sq) || (q =? c_dq)) with true.
    - rewrite lazy_body_scan by exact Safe. reflexivity.
    - destruct Hq as [-> | ->]; reflexivity. }
  assert (Hb : exists x b', b = x :: b' /\ x <> q).
  { destruct s as [|c s]; [congruence|]. subst b. unfold repr_body in *. cbn [flat_map] in *.
    destruct (repr_char printable q c) as [|x r] eqn:E.
    - exfalso. revert E. unfold repr_char.
      repeat match goal with |- context [if ?c then _ else _] => destruct c end; discriminate.
    - exists x, (r ++ flat_map (repr_char printable q) s). split; [reflexivity|].
      inversion Safe as [|? ? [Hx _] _]; exact Hx. }
  destruct Hb as (x & b' & Eb & Hx).
  unfold unquote.
  replace ((q :: b ++ [q]) ++ rest) with (q :: b ++ q :: rest)
    by (cbn; rewrite <- app_assoc; reflexivity).
  assert (Hls : lex_string (q :: b ++ q :: rest) = lex_STRING (q :: b ++ q :: rest)).
  { rewrite Eb. cbn [List.app]. unfold lex_string.
    destruct (b' ++ q :: rest) as [|y l] eqn:El.
    - destruct b'; discriminate.
    - apply N.eqb_neq in Hx. rewrite Hx, andb_false_r. reflexivity. }
  rewrite Hls, Hlex. unfold eval_escapes.
  rewrite (eval_repr_body printable q Hq s _ Hs) by (fold b; lia).
  reflexivity.
Qed.

(* at this commit: a text with both kinds of quote does not come back *)
Theorem token_quoting_refuted (printable : N -> bool) :
  exists s, s <> [] /\ unquote (py_repr printable s) <> Some (EOk s, []).
Proof. exists [c_sq; c_dq]. split; [discriminate | vm_compute; discriminate]. Qed.

(* stronger: for EVERY text with both kinds of quote the lexeme stops before the end of the repr *)
Lemma lazy_body_stops q s : forall acc b rest, lazy_body q s acc = Some (b, rest) ->
  exists pre, s = pre ++ q :: rest.
Proof.
  induction s as [s IH] using (well_founded_induction (Wf_nat.well_founded_ltof _ (@length N))).
  intros acc b rest H. destruct s as [|c tl]; [discriminate|].
  cbn [lazy_body] in H. destruct (c =? q) eqn:Ec.
  - apply N.eqb_eq in Ec; subst c. inversion H; subst. exists []. reflexivity.
  - destruct (if negb (c =? c_nl) then lazy_body q tl (c :: acc) else None) as [r|] eqn:E1.
    + inversion H; subst r. destruct (negb (c =? c_nl)); [|discriminate].
      apply IH in E1 as [pre ->]; [|unfold ltof; cbn; lia]. exists (c :: pre). reflexivity.
    + destruct tl as [|d tl2]; [discriminate|].
      destruct ((c =? c_bs) && ((d =? q) || (d =? c_bs))); [|discriminate].
      apply IH in H as [pre ->]; [|unfold ltof; cbn; lia]. exists (c :: d :: pre). reflexivity.
Qed.

(* ---- patterns ---------------------------------------------------------------------------------- *)
Lemma regex_scan_body : forall p esc acc rest,
  has c_slash p = false -> bs_ok esc p = true ->
  regex_scan esc (p ++ c_slash :: rest) acc = Some (rev acc ++ p, rest).
Proof.
  induction p as [|c p IH]; intros esc acc rest Hs Hp.
  - destruct esc; [discriminate|]. cbn [List.app regex_scan]. rewrite N.eqb_refl, app_nil_r. reflexivity.
  - unfold has in Hs. cbn [existsb] in Hs. apply orb_false_iff in Hs as [Hc Hs].
    rewrite N.eqb_sym in Hc. cbn [List.app regex_scan bs_ok] in *.
    destruct esc.
    + rewrite IH by assumption. cbn [rev]. rewrite <- app_assoc. reflexivity.
    + rewrite Hc. rewrite IH by assumption. cbn [rev]. rewrite <- app_assoc. reflexivity.
Qed.

(* replacing a character that does not occur changes nothing *)
Lemma replace1_absent c new : forall fuel s, has c s = false -> replace_f fuel [c] new s = s.
Proof.
  induction fuel as [|f IH]; intros s H; [reflexivity|].
  destruct s as [|x s]; [reflexivity|]. cbn [replace_f].
  unfold has in H. cbn [existsb] in H. apply orb_false_iff in H as [Hx Hs].
  cbn [strip_prefix]. rewrite Hx. f_equal. apply IH. exact Hs.
Qed.

Theorem pattern_quoting_roundtrip : forall p rest,
  p <> [] ->
  (has c_slash p = false -> bs_paired p = true) ->
  (has c_slash p = true -> has c_dq p = false /\ has c_nl p = false) ->
  lex_regex (pattern_pretty p ++ rest) = Some (p, rest).
Proof.
  intros p rest Hne H1 H2. unfold pattern_pretty.
  destruct (str_eqb p [c_dot]) eqn:Hd; [apply str_eqb_eq in Hd; subst p; vm_compute; reflexivity|].
  destruct (has c_slash p) eqn:Hs.
  - destruct (H2 eq_refl) as [Hdq Hnl].
    unfold replace. cbn [List.app]. rewrite replace1_absent by exact Hdq.
    cbn [List.app lex_regex]. change (c_qm =? c_slash) with false. change (c_qm =? c_qm) with true.
    cbn iota. change (c_dq =? c_slash) with false. cbn iota.
    unfold lex_STRING. change ((c_dq =? c_sq) || (c_dq =? c_dq)) with true. cbn iota.
    rewrite <- app_assoc. cbn [List.app].
    rewrite lazy_body_scan; [reflexivity|].
    apply has_false_forall in Hdq. apply has_false_forall in Hnl.
    rewrite Forall_forall in *. intros x Hx. split; [apply Hdq | apply Hnl]; exact Hx.
  - cbn [List.app lex_regex]. change (c_slash =? c_slash) with true. cbn iota.
    rewrite <- app_assoc. cbn [List.app].
    rewrite regex_scan_body; [reflexivity | exact Hs | exact (H1 eq_refl)].
Qed.

Theorem pattern_quoting_refuted :
  exists p, p <> [] /\ bs_paired p = true /\ lex_regex (pattern_pretty p) <> Some (p, []).
Proof. exists [c_dq; c_slash]. split; [discriminate|]. split; [reflexivity | vm_compute; discriminate]. Qed.
