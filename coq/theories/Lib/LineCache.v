(* Model of the text/line part of TatSu's input layer (property C12).  No proofs here.

     str.splitlines(keepends=True)                       CPython Objects/stringlib/split.h
     tatsu/input/infos.py      PosLine.build_line_cache
     tatsu/input/textlines.py  TextLines, TextLinesCursor.lineinfo / lineat / poscol
     tatsu/input/buffer.py     Buffer.lineinfo / posline / poscol, BufferCursor.lineinfo / lineat / poscol
     tatsu/util/strtools.py    linecount

   Strings are lists of code points (N); offsets, line numbers, lengths are nat.
   An IndexError of the Python code is [None]. *)
From Coq Require Import List NArith Arith Bool.
From TatsuV Require Import Base.PyStr.
Import ListNotations.
Local Open Scope nat_scope.

Definition LF : N := 10%N.
Definition CR : N := 13%N.

(* The characters str.splitlines splits on: LF VT FF CR FS GS RS NEL LS PS.  The harness compares this
   table with Python over every code point 0..0x10FFFF. *)
Definition linebreak_chars : list N := [10; 11; 12; 13; 28; 29; 30; 133; 8232; 8233]%N.
Definition is_linebreak (c : N) : bool := existsb (N.eqb c) linebreak_chars.
(* the characters tatsu itself calls a newline: {'\r', '\n'} in build_line_cache, r"\r?\n|\r" in linecount *)
Definition is_crlf (c : N) : bool := N.eqb c CR || N.eqb c LF.

(* ---- str.splitlines(True) -------------------------------------------------------------------
   while i < len: scan to the first line break character; take it (CR LF together); emit s[j:i].   *)
Fixpoint span_line (s : str) : str * str :=
  match s with
  | [] => ([], [])
  | c :: tl =>
    if is_linebreak c then
      match tl with
      | d :: tl' => if N.eqb c CR && N.eqb d LF then ([c; d], tl') else ([c], tl)
      | [] => ([c], [])
      end
    else let '(l, r) := span_line tl in (c :: l, r)
  end.

Fixpoint splitlines_f (fuel : nat) (s : str) : list str :=
  match fuel with
  | O => []
  | S fuel' =>
    match s with
    | [] => []
    | _ :: _ => let '(l, r) := span_line s in l :: splitlines_f fuel' r
    end
  end.

Definition splitlines (s : str) : list str := splitlines_f (length s) s.

(* ---- PosLine.build_line_cache(lines, size) ---------------------------------------------------- *)
Record posline := mkPL { startpos : nat; lineno : nat; pl_length : nat }.

(* the enumerate loop: one entry per character; i = offset of the line, n = its index *)
Fixpoint cache_body (lines : list str) (i n : nat) : list posline :=
  match lines with
  | [] => []
  | l :: rest => repeat (mkPL i n (length l)) (length l) ++ cache_body rest (i + length l) (S n)
  end.

Definition last_char (l : str) : option N :=
  match rev l with c :: _ => Some c | [] => None end.

(* lines[-1][-1] in {'\r', '\n'}   (an empty last line would raise IndexError in Python; splitlines never
   yields one: LineCacheProof.splitlines_nonempty) *)
Definition ends_crlf (l : str) : bool :=
  match last_char l with Some c => is_crlf c | None => false end.

(* Shipped: the sentinel appended at the pinned commit: PosLine(i, len(lines) [+1 after a final newline], 0).
   Fixed:   the sentinel after fixes/C12-sentinel.patch: after a final CR/LF a new empty line
            PosLine(i, len(lines), 0), otherwise the PosLine of the last line once more. *)
Inductive variant := Shipped | Fixed.

Definition sentinel (v : variant) (lines : list str) : posline :=
  let total := length (concat lines) in
  let nl := length lines in
  let lastl := last lines [] in
  match v with
  | Shipped => mkPL total (if ends_crlf lastl then S nl else nl) 0
  | Fixed => if ends_crlf lastl then mkPL total nl 0
             else mkPL (total - length lastl) (nl - 1) (length lastl)
  end.

Definition build_line_cache (v : variant) (lines : list str) : list posline * nat :=
  match lines with
  | [] => ([], 1)
  | _ :: _ => (cache_body lines 0 0 ++ [sentinel v lines],
               if ends_crlf (last lines []) then S (length lines) else length lines)
  end.

(* ---- TextLines / Buffer construction (whitespace etc. play no part) ---------------------------
   lines = text.splitlines(True); line_index = [(source, 0) .. (source, n-1)]; textstr = ''.join(lines);
   line_cache = build_line_cache(lines, len(textstr))[0] *)
Record textinput := mkInput {
  textstr : str;
  lines : list str;
  line_index : list nat;          (* the .line fields of LineIndexInfo.block_index(name, len(lines)) *)
  line_cache : list posline }.

Definition mk_input (v : variant) (s : str) : textinput :=
  let ls := splitlines s in
  mkInput (concat ls) ls (seq 0 (length ls)) (fst (build_line_cache v ls)).

Definition slice (s : str) (a b : nat) : str := firstn (b - a) (skipn a s).

(* ---- lineinfo: the same code in TextLinesCursor, BufferCursor and Buffer ------------------------ *)
Record lineinfo_t := mkLI { li_line : nat; li_col : nat; li_start : nat; li_end : nat; li_text : str }.

Definition lineinfo_of (inp : textinput) (pos : nat) : option lineinfo_t :=
  match line_cache inp, line_index inp with
  | [], _ | _, [] => Some (mkLI 0 0 0 (length (textstr inp)) (textstr inp))
  | _ :: _, _ :: _ =>
    let pos' := Nat.min pos (length (line_cache inp) - 2) in
    match nth_error (line_cache inp) pos' with
    | None => None
    | Some pl =>
      let e := startpos pl + pl_length pl in
      let n := Nat.min (length (line_index inp) - 1) (lineno pl) in
      match nth_error (line_index inp) n with
      | None => None
      | Some actual => Some (mkLI actual (pos' - startpos pl) (startpos pl) e (slice (textstr inp) (startpos pl) e))
      end
    end
  end.

(* lineinfo after fixes/C12-lineinfo-col.patch: only the cache index is clamped, the column is
   min(pos, end) - start *)
Definition lineinfo_cf_of (inp : textinput) (pos : nat) : option lineinfo_t :=
  match line_cache inp, line_index inp with
  | [], _ | _, [] => Some (mkLI 0 0 0 (length (textstr inp)) (textstr inp))
  | _ :: _, _ :: _ =>
    match nth_error (line_cache inp) (Nat.min pos (length (line_cache inp) - 2)) with
    | None => None
    | Some pl =>
      let e := startpos pl + pl_length pl in
      let n := Nat.min (length (line_index inp) - 1) (lineno pl) in
      match nth_error (line_index inp) n with
      | None => None
      | Some actual => Some (mkLI actual (Nat.min pos e - startpos pl) (startpos pl) e (slice (textstr inp) (startpos pl) e))
      end
    end
  end.

(* lineat / poscol: guard = true is TextLinesCursor ("if not line_cache: return 0"), guard = false is
   BufferCursor.lineat, BufferCursor.poscol and Buffer.poscol (no guard: IndexError on an empty cache) *)
Definition lineat_of (guard : bool) (inp : textinput) (pos : nat) : option nat :=
  match line_cache inp with
  | [] => if guard then Some 0 else None
  | _ :: _ => option_map lineno (nth_error (line_cache inp) pos)
  end.

Definition poscol_of (guard : bool) (inp : textinput) (pos : nat) : option nat :=
  match line_cache inp with
  | [] => if guard then Some 0 else None
  | _ :: _ => option_map (fun pl => pos - startpos pl) (nth_error (line_cache inp) pos)
  end.

(* Buffer.posline: guarded and clamped like lineinfo (BufferCursor.line uses it) *)
Definition posline_of (inp : textinput) (pos : nat) : option nat :=
  match line_cache inp with
  | [] => Some 0
  | _ :: _ => option_map lineno (nth_error (line_cache inp) (Nat.max 0 (Nat.min pos (length (line_cache inp) - 2))))
  end.

Definition lineinfo (v : variant) (s : str) (pos : nat) := lineinfo_of (mk_input v s) pos.
Definition lineinfo_cf (v : variant) (s : str) (pos : nat) := lineinfo_cf_of (mk_input v s) pos.
Definition lineat (guard : bool) (v : variant) (s : str) (pos : nat) := lineat_of guard (mk_input v s) pos.
Definition poscol (guard : bool) (v : variant) (s : str) (pos : nat) := poscol_of guard (mk_input v s) pos.
Definition posline_at (v : variant) (s : str) (pos : nat) := posline_of (mk_input v s) pos.

(* ---- linecount: 1 + number of matches of r"(?m)\r?\n|\r" (finditer: leftmost, non-overlapping) -- *)
Fixpoint count_newlines (s : str) : nat :=
  match s with
  | [] => 0
  | c :: tl =>
    if N.eqb c CR then
      match tl with
      | d :: tl' => if N.eqb d LF then S (count_newlines tl') else S (count_newlines tl)
      | [] => 1
      end
    else if N.eqb c LF then S (count_newlines tl)
    else count_newlines tl
  end.

Definition linecount (s : str) : nat := S (count_newlines s).

(* ================================================================================================
   Specification: independent of splitting and of the cache.  Direct recursion over the text.
   [isb] says which characters are line break characters; CR immediately followed by LF is one break. *)
Section Spec.
  Variable isb : N -> bool.

  (* a line break ends right after the first character of (c :: tl) *)
  Definition ends_line (c : N) (tl : str) : bool :=
    isb c && negb (N.eqb c CR && match tl with d :: _ => N.eqb d LF | [] => false end).

  (* line number of offset pos = number of line breaks that end at an offset <= pos,
     i.e. that lie wholly before the character at pos *)
  Fixpoint spec_line (s : str) (pos : nat) : nat :=
    match pos, s with
    | S p, c :: tl => (if ends_line c tl then 1 else 0) + spec_line tl p
    | _, _ => 0
    end.

  (* start of the line of pos = the largest offset <= pos that is 0 or the end of a line break *)
  Fixpoint spec_start (s : str) (pos : nat) : nat :=
    match pos, s with
    | S p, c :: tl =>
      match spec_start tl p with
      | O => if ends_line c tl then 1 else 0     (* pos lies on the first line of tl *)
      | S k => S (S k)
      end
    | _, _ => 0
    end.

  (* end of the line of pos = the smallest offset > pos at which a line break ends, else len(s) *)
  Fixpoint spec_end (s : str) (pos : nat) : nat :=
    match s with
    | [] => 0
    | c :: tl =>
      match pos with
      | O => if ends_line c tl then 1 else S (spec_end tl 0)
      | S p => S (spec_end tl p)
      end
    end.

  Definition spec_col (s : str) (pos : nat) : nat := pos - spec_start s pos.
  Definition spec_text (s : str) (pos : nat) : str := slice s (spec_start s pos) (spec_end s pos).
  Definition spec_info (s : str) (pos : nat) : lineinfo_t :=
    mkLI (spec_line s pos) (spec_col s pos) (spec_start s pos) (spec_end s pos) (spec_text s pos).
End Spec.

(* the text ends in a line break character that tatsu's sentinel does not know (VT FF FS GS RS NEL LS PS) *)
Definition ends_other_sep (s : str) : bool :=
  match last_char s with Some c => is_linebreak c && negb (is_crlf c) | None => false end.

(* ---- what the drivers print ------------------------------------------------------------------- *)
Definition query_all (guard : bool) (v : variant) (s : str) (upto : nat) :=
  let inp := mk_input v s in
  map (fun pos => (lineinfo_of inp pos, lineat_of guard inp pos, poscol_of guard inp pos, posline_of inp pos,
                   lineinfo_cf_of inp pos))
      (seq 0 (S upto)).

Definition spec_all (s : str) : list (lineinfo_t * nat) :=
  map (fun pos => (spec_info is_linebreak s pos, spec_line is_crlf s pos)) (seq 0 (S (length s))).
