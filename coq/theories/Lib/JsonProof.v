(* Proofs about Lib/Json.v: asjson terminates on every finite heap with the fuel |heap|+1 and its output
   is dumpable; back edges are rendered as reference strings; fromjson . asjson_tree is the identity
   (modulo non-init fields) on grammar-like trees without style-like strings; witnesses. *)
From Coq Require Import List NArith ZArith Arith Bool Lia.
From TatsuV Require Import Base.PyStr Lib.Json.
Import ListNotations.

(* ---- small facts ---------------------------------------------------------------------------- *)
Lemma memN_In i l : memN i l = true <-> In i l.
Proof.
  induction l as [|x l IH]; cbn; [split; [discriminate|tauto]|].
  rewrite orb_true_iff, N.eqb_eq, IH. tauto.
Qed.

Lemma lookup_In h i nd : lookup h i = Some nd -> In (i, nd) h.
Proof.
  induction h as [|[k n0] t IH]; cbn; [discriminate|].
  destruct (N.eqb k i) eqn:E.
  - apply N.eqb_eq in E; subst k. intros H; inversion H; subst; left; reflexivity.
  - intros H; right; exact (IH H).
Qed.

Lemma lookup_In_ids h i nd : lookup h i = Some nd -> In i (map fst h).
Proof. intros H. apply lookup_In in H. exact (in_map fst _ _ H). Qed.

Lemma map_opt_total {A B} (f : A -> option B) (Q : B -> Prop) (l : list A) :
  (forall x, In x l -> exists y, f x = Some y /\ Q y) ->
  exists ys, map_opt f l = Some ys /\ Forall Q ys.
Proof.
  induction l as [|x t IH]; intros H; cbn.
  - exists []. split; [reflexivity|constructor].
  - destruct (H x (or_introl eq_refl)) as [y [Hy Qy]]. rewrite Hy.
    destruct IH as [ys [Hys Qys]]; [intros z Hz; apply H; right; exact Hz|].
    rewrite Hys. exists (y :: ys). split; [reflexivity|constructor; assumption].
Qed.

Lemma dict_set_Forall {A} (Q : A -> Prop) k v (d : list (str * A)) :
  Forall (fun kv => Q (snd kv)) d -> Q v -> Forall (fun kv => Q (snd kv)) (dict_set k v d).
Proof.
  induction d as [|[k' v'] t IH]; intros Hd Hv; cbn.
  - constructor; [exact Hv|constructor].
  - inversion Hd as [|? ? H1 H2]; subst. destruct (str_eqb k' k).
    + constructor; [exact Hv|exact H2].
    + constructor; [exact H1|exact (IH H2 Hv)].
Qed.

Lemma build_dict_Forall {A} (Q : A -> Prop) (kvs : list (str * A)) :
  Forall (fun kv => Q (snd kv)) kvs -> Forall (fun kv => Q (snd kv)) (build_dict kvs).
Proof.
  unfold build_dict. generalize (@nil (str * A)) (Forall_nil (fun kv : str * A => Q (snd kv))).
  induction kvs as [|kv t IH]; intros acc Hacc H; cbn; [exact Hacc|].
  inversion H as [|? ? H1 H2]; subst. apply IH; [|exact H2].
  apply dict_set_Forall; assumption.
Qed.

Lemma map_items_total (ev : val -> option json) (Q : json -> Prop) items :
  (forall kv, In kv items -> exists j, ev (snd kv) = Some j /\ Q j) ->
  exists its, map_items ev items = Some its /\ Forall (fun kv => Q (snd kv)) its.
Proof.
  intros H. unfold map_items.
  destruct (map_opt_total (fun kv : str * val => match ev (snd kv) with Some j => Some (fst kv, j) | None => None end)
              (fun kv : str * json => Q (snd kv)) items) as [kvs [Hk Qk]].
  - intros kv Hin. destruct (H kv Hin) as [j [Hj Qj]]. rewrite Hj. exists (fst kv, j). split; [reflexivity|exact Qj].
  - rewrite Hk. exists (build_dict kvs). split; [reflexivity|]. apply build_dict_Forall; exact Qk.
Qed.

Lemma forallb_Forall_dump (its : list (str * json)) :
  Forall (fun kv => dumpable (snd kv) = true) its -> forallb (fun kv => dumpable (snd kv)) its = true.
Proof. intros H. apply forallb_forall. intros x Hx. rewrite Forall_forall in H. exact (H x Hx). Qed.

Lemma forallb_Forall_dump_l (l : list json) :
  Forall (fun j => dumpable j = true) l -> forallb dumpable l = true.
Proof. intros H. apply forallb_forall. intros x Hx. rewrite Forall_forall in H. exact (H x Hx). Qed.

(* ---- termination: the fuel |heap| + 1 suffices --------------------------------------------- *)
Lemma dfs_S bk n h seen v :
  dfs bk (S n) h seen v =
  match v with
  | VNone => Some JNull
  | VBool b => Some (JBool b)
  | VInt z => Some (JInt z)
  | VFloat r => Some (JFloat r)
  | VStr s => Some (JStr s)
  | VStyle r => Some (JStr r)
  | VRef i =>
    match lookup h i with
    | None => Some JNull
    | Some nd =>
      if memN i seen then Some (JStr (refstr (tyname nd) i))
      else
        let ev := dfs bk n h (i :: seen) in
        match kind nd with
        | KMap items => match map_items ev items with Some its => Some (JObj its) | None => None end
        | KNamed items => match map_items ev items with Some its => Some (JObj its) | None => None end
        | KSeq items => match map_opt ev items with Some l => Some (JArr l) | None => None end
        | KObj fl dc attrs =>
            match map_items ev (pub bk h fl dc attrs) with
            | Some its => Some (JObj ((cls_key, JStr (tyname nd)) :: its))
            | None => None
            end
        | KEnum v' => ev v'
        | KWeak => Some (JStr (refstr (tyname nd) i))
        | KType => Some (JPy i)
        | KOpaque r => Some (JStr r)
        end
    end
  end.
Proof. reflexivity. Qed.

Lemma no_types_lookup h i nd : no_types h = true -> lookup h i = Some nd -> kind nd <> KType.
Proof.
  intros Hn Hl Hk. apply lookup_In in Hl. unfold no_types in Hn. rewrite forallb_forall in Hn.
  specialize (Hn _ Hl). cbn in Hn. rewrite Hk in Hn. discriminate.
Qed.

Lemma dfs_total bk h : forall n seen v,
  NoDup seen -> incl seen (map fst h) -> length (map fst h) - length seen < n ->
  exists j, dfs bk n h seen v = Some j /\ (no_types h = true -> dumpable j = true).
Proof.
  induction n as [|n IH]; intros seen v Hnd Hincl Hlen; [lia|].
  rewrite dfs_S.
  destruct v as [|b|z|r|s|r|i]; try (eexists; split; [reflexivity|intros _; reflexivity]).
  destruct (lookup h i) as [nd|] eqn:L; [|eexists; split; [reflexivity|intros _; reflexivity]].
  destruct (memN i seen) eqn:M; [eexists; split; [reflexivity|intros _; reflexivity]|].
  assert (Hni : ~ In i seen) by (intros Hin; apply memN_In in Hin; congruence).
  assert (Hnd' : NoDup (i :: seen)) by (constructor; assumption).
  assert (Hincl' : incl (i :: seen) (map fst h)).
  { intros x [->|Hx]; [exact (lookup_In_ids _ _ _ L)|exact (Hincl x Hx)]. }
  assert (Hle : length (i :: seen) <= length (map fst h)) by (apply NoDup_incl_length; assumption).
  assert (Hlen' : length (map fst h) - length (i :: seen) < n) by (cbn [length] in *; lia).
  assert (EV : forall v', exists j, dfs bk n h (i :: seen) v' = Some j /\ (no_types h = true -> dumpable j = true))
    by (intros v'; exact (IH (i :: seen) v' Hnd' Hincl' Hlen')).
  cbv zeta.
  destruct (kind nd) as [items|items|items|fl dc attrs|v'| | |r] eqn:K.
  - destruct (map_items_total (dfs bk n h (i :: seen)) (fun j => no_types h = true -> dumpable j = true) items)
      as [its [Hi Qi]]; [intros kv _; apply EV|].
    rewrite Hi. eexists; split; [reflexivity|]. intros Hn. cbn [dumpable]. apply forallb_Forall_dump.
    rewrite Forall_forall in *. intros x Hx. exact (Qi x Hx Hn).
  - destruct (map_items_total (dfs bk n h (i :: seen)) (fun j => no_types h = true -> dumpable j = true) items)
      as [its [Hi Qi]]; [intros kv _; apply EV|].
    rewrite Hi. eexists; split; [reflexivity|]. intros Hn. cbn [dumpable]. apply forallb_Forall_dump.
    rewrite Forall_forall in *. intros x Hx. exact (Qi x Hx Hn).
  - destruct (map_opt_total (dfs bk n h (i :: seen)) (fun j => no_types h = true -> dumpable j = true) items)
      as [l [Hl Ql]]; [intros x _; apply EV|].
    rewrite Hl. eexists; split; [reflexivity|]. intros Hn. cbn [dumpable]. apply forallb_Forall_dump_l.
    rewrite Forall_forall in *. intros x Hx. exact (Ql x Hx Hn).
  - destruct (map_items_total (dfs bk n h (i :: seen)) (fun j => no_types h = true -> dumpable j = true)
                (pub bk h fl dc attrs)) as [its [Hi Qi]]; [intros kv _; apply EV|].
    rewrite Hi. eexists; split; [reflexivity|]. intros Hn. cbn [dumpable forallb snd]. apply forallb_Forall_dump.
    rewrite Forall_forall in *. intros x Hx. exact (Qi x Hx Hn).
  - apply EV.
  - eexists; split; [reflexivity|intros _; reflexivity].
  - eexists; split; [reflexivity|]. intros Hn. exfalso. exact (no_types_lookup _ _ _ Hn L K).
  - eexists; split; [reflexivity|intros _; reflexivity].
Qed.

(* asjson terminates on every finite heap (sharing and cycles allowed); without class objects in the
   heap the result is dumpable *)
Theorem asjson_terminates : forall bk (h : heap) (v : val),
  exists j, asjson bk h v = Some j /\ (no_types h = true -> dumpable j = true).
Proof.
  intros bk h v. unfold asjson. apply dfs_total.
  - constructor.
  - intros x [].
  - rewrite map_length. cbn. lia.
Qed.

(* a reference to an object that is on the current path is rendered as the reference string *)
Theorem dfs_back_edge : forall bk n h seen i nd,
  lookup h i = Some nd -> In i seen ->
  dfs bk (S n) h seen (VRef i) = Some (JStr (refstr (tyname nd) i)).
Proof.
  intros bk n h seen i nd L Hin. rewrite dfs_S, L. apply memN_In in Hin. rewrite Hin. reflexivity.
Qed.

(* more fuel never changes a result *)
Lemma map_opt_ext_some {A B} (f g : A -> option B) l ys :
  (forall x y, f x = Some y -> g x = Some y) -> map_opt f l = Some ys -> map_opt g l = Some ys.
Proof.
  intros H. revert ys. induction l as [|x t IH]; intros ys; cbn; [tauto|].
  destruct (f x) as [y|] eqn:E; [|discriminate]. rewrite (H _ _ E).
  destruct (map_opt f t) as [ys'|]; [|discriminate]. rewrite (IH _ eq_refl). tauto.
Qed.

Lemma map_items_ext_some (f g : val -> option json) items its :
  (forall x y, f x = Some y -> g x = Some y) -> map_items f items = Some its -> map_items g items = Some its.
Proof.
  intros H. unfold map_items.
  destruct (map_opt (fun kv : str * val => match f (snd kv) with Some j => Some (fst kv, j) | None => None end) items)
    as [kvs|] eqn:E; [|discriminate].
  assert (HH : forall (x : str * val) (y : str * json),
             (fun kv : str * val => match f (snd kv) with Some j => Some (fst kv, j) | None => None end) x = Some y ->
             (fun kv : str * val => match g (snd kv) with Some j => Some (fst kv, j) | None => None end) x = Some y).
  { intros x y. cbv beta. destruct (f (snd x)) eqn:F; [rewrite (H _ _ F); intros X; exact X|discriminate]. }
  rewrite (map_opt_ext_some _ _ _ _ HH E). intros X; exact X.
Qed.

Lemma dfs_fuel_mono bk h : forall n seen v j, dfs bk n h seen v = Some j -> dfs bk (S n) h seen v = Some j.
Proof.
  induction n as [|n IH]; intros seen v j; [discriminate|].
  rewrite (dfs_S bk (S n)), (dfs_S bk n).
  destruct v; try tauto.
  destruct (lookup h i) as [nd|]; [|tauto].
  destruct (memN i seen); [tauto|]. cbv zeta.
  destruct (kind nd); try tauto.
  - destruct (map_items (dfs bk n h (i :: seen)) items) as [its|] eqn:E; [|discriminate].
    rewrite (map_items_ext_some _ (dfs bk (S n) h (i :: seen)) _ _ (IH (i :: seen)) E). tauto.
  - destruct (map_items (dfs bk n h (i :: seen)) items) as [its|] eqn:E; [|discriminate].
    rewrite (map_items_ext_some _ (dfs bk (S n) h (i :: seen)) _ _ (IH (i :: seen)) E). tauto.
  - destruct (map_opt (dfs bk n h (i :: seen)) items) as [l|] eqn:E; [|discriminate].
    rewrite (map_opt_ext_some _ (dfs bk (S n) h (i :: seen)) _ _ (IH (i :: seen)) E). tauto.
  - destruct (map_items (dfs bk n h (i :: seen)) (pub bk h fl dcfields attrs)) as [its|] eqn:E; [|discriminate].
    rewrite (map_items_ext_some _ (dfs bk (S n) h (i :: seen)) _ _ (IH (i :: seen)) E). tauto.
  - apply IH.
Qed.

(* ---- round trip on trees -------------------------------------------------------------------- *)
Section PyvInd.
  Variable P : pyv -> Prop.
  Hypothesis HNone : P PNone.
  Hypothesis HBool : forall b, P (PBool b).
  Hypothesis HInt : forall z, P (PInt z).
  Hypothesis HFloat : forall r, P (PFloat r).
  Hypothesis HStr : forall s, P (PStr s).
  Hypothesis HStyle : forall s, P (PStyle s).
  Hypothesis HList : forall l, Forall P l -> P (PList l).
  Hypothesis HDict : forall items, Forall (fun kv => P (snd kv)) items -> P (PDict items).
  Hypothesis HNs : forall items, Forall (fun kv => P (snd kv)) items -> P (PNamespace items).
  Hypothesis HObj : forall c fields, Forall (fun kv => P (snd kv)) fields -> P (PObj c fields).
  Hypothesis HErr : P PError.

  Fixpoint pyv_ind' (g : pyv) : P g :=
    match g with
    | PNone => HNone
    | PBool b => HBool b
    | PInt z => HInt z
    | PFloat r => HFloat r
    | PStr s => HStr s
    | PStyle s => HStyle s
    | PList l => HList l ((fix go (l : list pyv) : Forall P l :=
                             match l with [] => Forall_nil _ | x :: t => Forall_cons x (pyv_ind' x) (go t) end) l)
    | PDict items => HDict items ((fix go (l : list (str * pyv)) : Forall (fun kv => P (snd kv)) l :=
                             match l with [] => Forall_nil _ | x :: t => Forall_cons x (pyv_ind' (snd x)) (go t) end) items)
    | PNamespace items => HNs items ((fix go (l : list (str * pyv)) : Forall (fun kv => P (snd kv)) l :=
                             match l with [] => Forall_nil _ | x :: t => Forall_cons x (pyv_ind' (snd x)) (go t) end) items)
    | PObj c fields => HObj c fields ((fix go (l : list (str * pyv)) : Forall (fun kv => P (snd kv)) l :=
                             match l with [] => Forall_nil _ | x :: t => Forall_cons x (pyv_ind' (snd x)) (go t) end) fields)
    | PError => HErr
    end.
End PyvInd.

Lemma assoc_none_keys_ok {A} (items : list (str * A)) : keys_ok items = true -> assoc cls_key items = None.
Proof.
  induction items as [|[k v] t IH]; cbn; [reflexivity|].
  unfold not_cls at 1. cbn [fst]. destruct (str_eqb k cls_key); cbn; [discriminate|exact IH].
Qed.

Lemma filter_not_cls_id {A} (items : list (str * A)) : keys_ok items = true -> filter not_cls items = items.
Proof.
  induction items as [|[k v] t IH]; cbn; [reflexivity|].
  destruct (not_cls (k, v)); cbn; [intros H; rewrite (IH H); reflexivity|discriminate].
Qed.

Lemma keys_ok_map {A B} (f : A -> B) (items : list (str * A)) :
  keys_ok (map (fun kv => (fst kv, f (snd kv))) items) = keys_ok items.
Proof.
  unfold keys_ok. induction items as [|[k v] t IH]; [reflexivity|].
  cbn [map forallb]. rewrite IH. reflexivity.
Qed.

(* the conversion of the items of a dict/object, given the induction hypothesis on the values *)
Lemma conv_roundtrip reg (items : list (str * pyv)) :
  Forall (fun kv => grammar_like reg (snd kv) = true -> no_style_like_strings (snd kv) = true ->
                    fromjson reg (asjson_tree (snd kv)) = strip reg (snd kv)) items ->
  forallb (fun kv => grammar_like reg (snd kv)) items = true ->
  forallb (fun kv => no_style_like_strings (snd kv)) items = true ->
  map (fun kv => (fst kv, fromjson reg (snd kv))) (map (fun kv => (fst kv, asjson_tree (snd kv))) items)
  = map (fun kv => (fst kv, strip reg (snd kv))) items.
Proof.
  induction items as [|[k v] t IH]; intros HF Hg Hs; cbn; [reflexivity|].
  inversion HF as [|? ? H1 H2]; subst. cbn in Hg, Hs, H1.
  apply andb_true_iff in Hg; destruct Hg as [Hg1 Hg2]. apply andb_true_iff in Hs; destruct Hs as [Hs1 Hs2].
  rewrite (H1 Hg1 Hs1). cbn in IH. rewrite (IH H2 Hg2 Hs2). reflexivity.
Qed.

Lemma strip_not_error reg g : grammar_like reg g = true -> is_error (strip reg g) = false.
Proof.
  destruct g; cbn; try reflexivity; try discriminate.
  intros _. destruct (reg cls) as [[initf|]|]; reflexivity.
Qed.

Lemma existsb_err_strip_list reg l :
  forallb (grammar_like reg) l = true -> existsb is_error (map (strip reg) l) = false.
Proof.
  induction l as [|x t IH]; cbn; [reflexivity|]. intros H. apply andb_true_iff in H; destruct H as [H1 H2].
  rewrite (strip_not_error reg x H1), (IH H2). reflexivity.
Qed.

Lemma existsb_err_strip_items reg (items : list (str * pyv)) :
  forallb (fun kv => grammar_like reg (snd kv)) items = true ->
  existsb (fun kv => is_error (snd kv)) (map (fun kv => (fst kv, strip reg (snd kv))) items) = false.
Proof.
  induction items as [|[k v] t IH]; cbn; [reflexivity|]. intros H. apply andb_true_iff in H; destruct H as [H1 H2].
  rewrite (strip_not_error reg v H1), (IH H2). reflexivity.
Qed.

Lemma list_roundtrip reg (l : list pyv) :
  Forall (fun x => grammar_like reg x = true -> no_style_like_strings x = true ->
                   fromjson reg (asjson_tree x) = strip reg x) l ->
  forallb (grammar_like reg) l = true -> forallb no_style_like_strings l = true ->
  map (fun x => fromjson reg (asjson_tree x)) l = map (strip reg) l.
Proof.
  induction l as [|x t IH]; intros HF Hg Hs; cbn; [reflexivity|].
  inversion HF as [|? ? H1 H2]; subst. cbn in Hg, Hs.
  apply andb_true_iff in Hg; destruct Hg as [Hg1 Hg2]. apply andb_true_iff in Hs; destruct Hs as [Hs1 Hs2].
  rewrite (H1 Hg1 Hs1), (IH H2 Hg2 Hs2). reflexivity.
Qed.

Theorem json_roundtrip : forall reg (g : pyv),
  grammar_like reg g = true -> no_style_like_strings g = true ->
  fromjson reg (asjson_tree g) = strip reg g.
Proof.
  intros reg g. induction g as [|b|z|r|s|s|l IH|items IH|items IH|c fields IH|] using pyv_ind';
    intros Hg Hs; try reflexivity; try discriminate.
  - (* PStr *) cbn in *. destruct (style_like s); [discriminate|reflexivity].
  - (* PList *) cbn [grammar_like no_style_like_strings] in *. cbn [asjson_tree fromjson strip].
    rewrite map_map. rewrite (list_roundtrip reg l IH Hg Hs).
    rewrite (existsb_err_strip_list reg l Hg). reflexivity.
  - (* PDict *) cbn [grammar_like no_style_like_strings] in *.
    apply andb_true_iff in Hg; destruct Hg as [Hk Hg].
    cbn [asjson_tree fromjson strip].
    rewrite assoc_none_keys_ok by (rewrite keys_ok_map; exact Hk).
    rewrite (conv_roundtrip reg items IH Hg Hs).
    rewrite filter_not_cls_id by (rewrite keys_ok_map; exact Hk).
    rewrite (existsb_err_strip_items reg items Hg). reflexivity.
  - (* PObj *) cbn [grammar_like no_style_like_strings] in *.
    apply andb_true_iff in Hg; destruct Hg as [Hg Hf]. apply andb_true_iff in Hg; destruct Hg as [Hg Hk].
    apply andb_true_iff in Hg; destruct Hg as [Hc Hr].
    cbn [asjson_tree fromjson strip assoc map fst snd].
    rewrite str_eqb_refl. cbn [truthy]. rewrite Hc. cbn [negb].
    cbn [filter]. unfold not_cls at 1. cbn [fst]. rewrite str_eqb_refl. cbn [negb].
    rewrite (conv_roundtrip reg fields IH Hf Hs).
    rewrite filter_not_cls_id by (rewrite keys_ok_map; exact Hk).
    rewrite (existsb_err_strip_items reg fields Hf).
    unfold registered in Hr. destruct (reg c) as [[initf|]|]; [reflexivity|reflexivity|discriminate].
Qed.

(* when every field of every object is init-able, nothing is stripped *)
Fixpoint all_initable (reg : str -> option (option (list str))) (g : pyv) : bool :=
  match g with
  | PList l => forallb (all_initable reg) l
  | PDict items | PNamespace items => forallb (fun kv => all_initable reg (snd kv)) items
  | PObj c fields =>
      match reg c with
      | Some (Some initf) => forallb (fun kv => mem_str (fst kv) initf) fields
      | _ => true
      end && forallb (fun kv => all_initable reg (snd kv)) fields
  | _ => true
  end.

Lemma filter_all {A} (f : A -> bool) l : forallb f l = true -> filter f l = l.
Proof.
  induction l as [|x t IH]; cbn; [reflexivity|]. destruct (f x); cbn; [intros H; rewrite (IH H); reflexivity|discriminate].
Qed.

Lemma strip_id reg : forall g, all_initable reg g = true -> strip reg g = g.
Proof.
  intros g. induction g as [|b|z|r|s|s|l IH|items IH|items IH|c fields IH|] using pyv_ind'; intros H; try reflexivity.
  - cbn in *. f_equal. induction l as [|x t IHt]; [reflexivity|]. cbn in *.
    inversion IH as [|? ? H1 H2]; subst. apply andb_true_iff in H; destruct H as [Ha Hb].
    rewrite (H1 Ha), (IHt H2 Hb). reflexivity.
  - cbn in *. f_equal. induction items as [|[k v] t IHt]; [reflexivity|]. cbn in *.
    inversion IH as [|? ? H1 H2]; subst. apply andb_true_iff in H; destruct H as [Ha Hb].
    cbn in H1. rewrite (H1 Ha), (IHt H2 Hb). reflexivity.
  - cbn [all_initable strip] in *. apply andb_true_iff in H; destruct H as [Hi Hf].
    assert (E : map (fun kv : str * pyv => (fst kv, strip reg (snd kv))) fields = fields).
    { clear Hi. induction fields as [|[k v] t IHt]; [reflexivity|]. cbn in *.
      inversion IH as [|? ? H1 H2]; subst. apply andb_true_iff in Hf; destruct Hf as [Ha Hb].
      cbn in H1. rewrite (H1 Ha), (IHt H2 Hb). reflexivity. }
    rewrite E. destruct (reg c) as [[initf|]|]; try reflexivity.
    rewrite (filter_all _ _ Hi). reflexivity.
Qed.

Corollary json_roundtrip_id : forall reg g,
  grammar_like reg g = true -> no_style_like_strings g = true -> all_initable reg g = true ->
  fromjson reg (asjson_tree g) = g.
Proof. intros reg g Hg Hs Ha. rewrite (json_roundtrip reg g Hg Hs). exact (strip_id reg g Ha). Qed.

(* without the guard the statement is false: Token('f{a') comes back as a Token holding a Style *)
Theorem json_roundtrip_refuted :
  exists g, grammar_like sample_reg g = true /\ all_initable sample_reg g = true
            /\ fromjson sample_reg (asjson_tree g) <> g.
Proof.
  exists witness_token. split; [reflexivity|]. split; [reflexivity|]. vm_compute. discriminate.
Qed.

Theorem json_roundtrip_refuted_esc :
  exists g, grammar_like sample_reg g = true /\ all_initable sample_reg g = true
            /\ fromjson sample_reg (asjson_tree g) <> g.
Proof.
  exists witness_token_esc. split; [reflexivity|]. split; [reflexivity|]. vm_compute. discriminate.
Qed.
