(* C13, quoting level.  Models of
     - Python's repr() of a str, which is what Token._pretty (tatsu/peg/basic.py), the keyword list and the
       namechars directive (Grammar._pretty) and Rule.param_repr emit;
     - Pattern._pretty (tatsu/peg/pattern.py) after its call of trim(): /../ or ?<dq>..<dq>;
     - the lexemes of tatsu/_tatsu.ebnf that must read those texts back:
         SINGLEQUOTED  = quote, LAZY star over the alternatives [^quote newline] | backslash quote |
                         backslash backslash, quote; group 1 is the body.  DOUBLEQUOTED likewise.
         REGEX         = slash, GREEDY star over [^slash backslash] | backslash slash | backslash anychar
                         (DOTALL), slash; group 1 is the body.  Also  ? STRING.
       followed, for strings, by tatsu/util/strtools.py eval_escapes (GrammarSemantics.string).
   Strings are lists of code points.  No proofs here. *)
From Coq Require Import List NArith Arith Bool.
From TatsuV Require Import Base.PyStr.
Import ListNotations.
Local Open Scope N_scope.

Definition c_sq : N := 39.   (* ' *)
Definition c_dq : N := 34.   (* <dq> *)
Definition c_bs : N := 92.   (* \ *)
Definition c_nl : N := 10.
Definition c_slash : N := 47.
Definition c_qm : N := 63.   (* ? *)

Definition has (c : N) (s : str) : bool := existsb (N.eqb c) s.

(* ---- hexadecimal ---------------------------------------------------------------------------- *)
Definition hexd (n : N) : N := if n <? 10 then 48 + n else 87 + n.      (* lower case, as repr *)

Fixpoint hexn (k : nat) (n : N) : str :=
  match k with O => [] | S k' => hexn k' (n / 16) ++ [hexd (n mod 16)] end.

Definition hexv (c : N) : option N :=
  if (48 <=? c) && (c <=? 57) then Some (c - 48)
  else if (97 <=? c) && (c <=? 102) then Some (c - 87)
  else if (65 <=? c) && (c <=? 70) then Some (c - 55)
  else None.

Fixpoint unhex_acc (acc : N) (s : str) : option N :=
  match s with
  | [] => Some acc
  | c :: tl => match hexv c with Some v => unhex_acc (acc * 16 + v) tl | None => None end
  end.

(* ---- repr(str) ------------------------------------------------------------------------------
   CPython unicode_repr: the quote is <dq> iff the text has a ' and no <dq>; the quote and the backslash are
   escaped with a backslash; \t \n \r; other C0 controls and DEL as \xhh; printable characters (ASCII
   0x20..0x7e, and non-ASCII per Py_UNICODE_ISPRINTABLE = the oracle [printable]) stay; the rest become
   \xhh, \uhhhh or \Uhhhhhhhh by magnitude. *)
Section Repr.
  Variable printable : N -> bool.

  Definition repr_quote (s : str) : N := if has c_sq s && negb (has c_dq s) then c_dq else c_sq.

  Definition repr_char (q c : N) : str :=
    if (c =? q) || (c =? c_bs) then [c_bs; c]
    else if c =? 9 then [c_bs; 116]
    else if c =? 10 then [c_bs; 110]
    else if c =? 13 then [c_bs; 114]
    else if (c <? 32) || (c =? 127) then c_bs :: 120 :: hexn 2 c
    else if c <? 127 then [c]
    else if printable c then [c]
    else if c <? 256 then c_bs :: 120 :: hexn 2 c
    else if c <? 65536 then c_bs :: 117 :: hexn 4 c
    else c_bs :: 85 :: hexn 8 c.

  Definition repr_body (q : N) (s : str) : str := flat_map (repr_char q) s.

  Definition py_repr (s : str) : str :=
    let q := repr_quote s in q :: repr_body q s ++ [q].
End Repr.

(* ---- the string lexemes ------------------------------------------------------------------------
   q, lazy star, q (see the header): a LAZY star, so at every position the closing quote is tried first; only
   then the alternatives in order, with backtracking.  [lazy_body q s acc] = (group 1, rest after the
   closing quote).  (The second and third alternatives can never be what makes a match succeed - see
   PrettyProof.lazy_body_scan - but the model keeps them as written.) *)
Fixpoint lazy_body (q : N) (s acc : str) : option (str * str) :=
  match s with
  | [] => None
  | c :: tl =>
    if c =? q then Some (rev acc, tl)
    else
      let alt1 := if negb (c =? c_nl) then lazy_body q tl (c :: acc) else None in
      match alt1 with
      | Some r => Some r
      | None =>
        match tl with
        | d :: tl2 =>
          if (c =? c_bs) && ((d =? q) || (d =? c_bs)) then lazy_body q tl2 (d :: c :: acc) else None
        | [] => None
        end
      end
  end.

(* STRING: SINGLEQUOTED | DOUBLEQUOTED at the head of t *)
Definition lex_STRING (t : str) : option (str * str) :=
  match t with
  | q :: tl => if (q =? c_sq) || (q =? c_dq) then lazy_body q tl [] else None
  | [] => None
  end.

(* string: &('<dq>'|<dq>'<dq>) (multiline_string | singlequoted | doublequoted).  A text starting with three equal
   quotes is tried as a multiline string first; that lexeme (with its trim/strip) is outside this model:
   the result is [None] and the harness never sends such texts. *)
Definition lex_string (t : str) : option (str * str) :=
  match t with
  | q :: q2 :: q3 :: _ =>
    if ((q =? c_sq) || (q =? c_dq)) && (q2 =? q) && (q3 =? q) then None else lex_STRING t
  | _ => lex_STRING t
  end.

(* ---- eval_escapes ---------------------------------------------------------------------------------
   re.sub over   \\U........ | \\u.... | \\x.. | \\[0-7]{1,3} | \\N\{[^}]+} | \\[\\'<dq>abfnrtv]
   ('.' excludes the newline), each match decoded with the unicode-escape codec, which raises on a match
   that is not a well-formed escape (EErr).  \N{name} needs the Unicode name table: EUnk. *)
Inductive eres := EOk (s : str) | EErr | EUnk.

Definition econs (c : N) (r : eres) : eres := match r with EOk s => EOk (c :: s) | e => e end.

Definition take_nonl (k : nat) (s : str) : option (str * str) :=
  if (Nat.leb k (length s)) && forallb (fun c => negb (c =? c_nl)) (firstn k s)
  then Some (firstn k s, skipn k s) else None.

Definition is_oct (c : N) : bool := (48 <=? c) && (c <=? 55).

(* up to k octal digits, greedy *)
Fixpoint span_oct (k : nat) (s : str) : str * str :=
  match k, s with
  | S k', c :: tl => if is_oct c then let '(d, r) := span_oct k' tl in (c :: d, r) else ([], s)
  | _, _ => ([], s)
  end.

Definition octval (s : str) : N := fold_left (fun a c => a * 8 + (c - 48)) s 0.

Definition simple_escape (c : N) : option N :=
  if c =? 92 then Some 92 else if c =? 39 then Some 39 else if c =? 34 then Some 34
  else if c =? 97 then Some 7 else if c =? 98 then Some 8 else if c =? 102 then Some 12
  else if c =? 110 then Some 10 else if c =? 114 then Some 13 else if c =? 116 then Some 9
  else if c =? 118 then Some 11 else None.

(* \N\{[^}]+} : at least one non-} character, then } *)
Fixpoint closes_brace (s : str) : bool :=
  match s with [] => false | c :: tl => if c =? 125 then true else closes_brace tl end.
Definition named_escape (tl2 : str) : bool :=
  match tl2 with
  | 123 :: c :: tl3 => negb (c =? 125) && closes_brace tl3
  | _ => false
  end.

Definition hex_escape (k : nat) (tl2 : str) : option (option N * str) :=
  match take_nonl k tl2 with
  | Some (h, r) => Some (unhex_acc 0 h, r)
  | None => None
  end.

Fixpoint eval_f (fuel : nat) (s : str) : eres :=
  match fuel with
  | O => EOk s
  | S f =>
    match s with
    | [] => EOk []
    | c :: tl =>
      if negb (c =? c_bs) then econs c (eval_f f tl)
      else
        match tl with
        | [] => EOk [c]
        | d :: tl2 =>
          let hx := if d =? 85 then hex_escape 8 tl2
                    else if d =? 117 then hex_escape 4 tl2
                    else if d =? 120 then hex_escape 2 tl2
                    else None in
          match hx with
          | Some (Some v, r) => if v <=? 1114111 then econs v (eval_f f r) else EErr
          | Some (None, _) => EErr
          | None =>
            if is_oct d then let '(ds, r) := span_oct 3 tl in econs (octval ds) (eval_f f r)
            else if (d =? 78) && named_escape tl2 then EUnk
            else match simple_escape d with
                 | Some v => econs v (eval_f f tl2)
                 | None => econs c (eval_f f tl)
                 end
          end
        end
    end
  end.

Definition eval_escapes (s : str) : eres := eval_f (S (length s)) s.

(* what tatsu.compile makes of the text of a token atom: the lexeme, then eval_escapes.  [rest] is
   whatever follows in the grammar text. *)
Definition unquote (t : str) : option (eres * str) :=
  match lex_string t with
  | Some (body, rest) => Some (eval_escapes body, rest)
  | None => None
  end.

(* ---- patterns ------------------------------------------------------------------------------------
   Pattern._pretty, after pat = trim(pattern): *)
Definition c_dot : N := 46.
Definition pattern_pretty (p : str) : str :=
  if str_eqb p [c_dot] then [c_qm; c_sq; c_dot; c_sq]       (* `/./` is the symbol of Dot: a lone dot prints as ?'.' *)
  else if has c_slash p then c_qm :: c_dq :: replace [c_dq] [c_bs; c_dq] p ++ [c_dq]
  else c_slash :: p ++ [c_slash].

(* REGEX (see the header): greedy; a slash can only be consumed behind a backslash, so the
   star stops exactly at the first unescaped slash (and fails without one). *)
Fixpoint regex_scan (esc : bool) (s acc : str) : option (str * str) :=
  match s with
  | [] => None
  | c :: tl =>
    if esc then regex_scan false tl (c :: acc)                 (* backslash anychar *)
    else if c =? c_slash then Some (rev acc, tl)
    else regex_scan (c =? c_bs) tl (c :: acc)
  end.

(* regex: deprecated_regex | !'?/' ( REGEX | '?' =STRING ).  The text of the pattern is the raw group:
   no escape is evaluated.  ?/../? (deprecated) is outside the model. *)
Definition lex_regex (t : str) : option (str * str) :=
  match t with
  | c :: tl =>
    if c =? c_slash then regex_scan false tl []
    else if c =? c_qm then
      match tl with
      | d :: _ => if d =? c_slash then None else lex_STRING tl
      | [] => None
      end
    else None
  | [] => None
  end.

(* every backslash of p is followed by a character (true of every valid regular expression) *)
Fixpoint bs_ok (pending : bool) (p : str) : bool :=
  match p with
  | [] => negb pending
  | c :: tl => if pending then bs_ok false tl else bs_ok (c =? c_bs) tl
  end.
Definition bs_paired (p : str) : bool := bs_ok false p.
