(* C20 - model of tatsu/ztyle/style.py (Style.apply_style / apply / __str__ / __format__ / __len__ /
   __repr__ / from_raw / parse_fmt, Color.enabled) and tatsu/util/tty.py (ANSI_RE, SGR_RE, descape,
   visual_len, tty_escape, tty_unescape).  Definitions only; proofs are in StyleProof.v.
   Every literal of the source (SGR codes, regex classes, thresholds) comes from the generated file
   gen/StyleGen.v, so a changed literal changes the model and the proofs have to go through again.

   Strings are lists of code points (Base/PyStr.v).  Python's str format mini-language is modelled by
   [format_str] (None = ValueError).  External tables: [printable] (str.isprintable per code point)
   is a parameter of [py_repr_body], supplied by the harness. *)
From Coq Require Import List NArith Arith Bool.
From TatsuV Require Import Base.PyStr.
From TatsuGen Require Import StyleGen.
Import ListNotations.
Local Open Scope N_scope.

(* ------------------------------------------------------------------ regex classes *)
Definition in_ranges (rs : list (N * N)) (c : N) : bool :=
  existsb (fun r => (fst r <=? c) && (c <=? snd r)) rs.

Definition is_fe (c : N) : bool := in_ranges ansi_fe c.
Definition is_param (c : N) : bool := in_ranges ansi_param c.
Definition is_inter (c : N) : bool := in_ranges ansi_inter c.
Definition is_final (c : N) : bool := in_ranges ansi_final c.

Fixpoint skip_while (p : N -> bool) (s : str) : str :=
  match s with
  | [] => []
  | c :: tl => if p c then skip_while p tl else s
  end.

(* ANSI_RE tried right after its first character \x1B: [s] is what follows the ESC.
   Some rest = the regex matches here and [rest] follows the match.  The three classes of the CSI
   alternative are pairwise disjoint (StyleProof.ansi_classes_disjoint), so the greedy scan below is
   what the backtracking engine finds. *)
Definition ansi_tail (s : str) : option str :=
  match s with
  | [] => None
  | c :: tl =>
    if is_fe c then Some tl
    else if c =? ansi_csi then
      match skip_while is_inter (skip_while is_param tl) with
      | f :: rest => if is_final f then Some rest else None
      | [] => None
      end
    else None
  end.

(* ANSI_RE.sub of the empty string: leftmost non-overlapping matches removed.  Fuel = length s. *)
Fixpoint descape_f (fuel : nat) (s : str) : str :=
  match fuel with
  | O => []
  | S f =>
    match s with
    | [] => []
    | c :: tl =>
      if c =? ansi_esc then
        match ansi_tail tl with
        | Some rest => descape_f f rest
        | None => c :: descape_f f tl
        end
      else c :: descape_f f tl
    end
  end.

Definition descape (s : str) : str := descape_f (length s) s.
Definition visual_len (s : str) : nat := length (descape s).

Definition no_esc (s : str) : Prop := Forall (fun c => c <> ansi_esc) s.
Definition no_escb (s : str) : bool := forallb (fun c => negb (c =? ansi_esc)) s.

(* ------------------------------------------------------------------ styles *)
Inductive color : Type :=
| CNone                      (* -1 *)
| CIdx (n : N)               (* 0..255 *)
| CRgb (r g b : N).          (* RGB(r, g, b), bytes *)

Record style : Type := mkStyle {
  s_bold : bool; s_dim : bool; s_italic : bool; s_underline : bool;
  s_blink : bool; s_inverse : bool; s_hidden : bool; s_strike : bool;
  s_fg : color; s_bg : color }.

Definition plain : style := mkStyle false false false false false false false false CNone CNone.

(* what the constructors can build: RGB.__new__ and _set_fg/_set_bg clamp to bytes *)
Definition wf_color (c : color) : Prop :=
  match c with
  | CNone => True
  | CIdx n => n <= byte_max
  | CRgb r g b => r <= byte_max /\ g <= byte_max /\ b <= byte_max
  end.
Definition wf_style (st : style) : Prop := wf_color (s_fg st) /\ wf_color (s_bg st).

Definition opt_code (b : bool) (c : N) : list N := if b then [c] else [].

(* the codes list of apply_style, flattened to numbers, in the order of the source *)
Definition mod_params (st : style) : list N :=
  opt_code (s_bold st) code_bold ++ opt_code (s_dim st) code_dim ++
  opt_code (s_italic st) code_italic ++ opt_code (s_underline st) code_underline ++
  opt_code (s_blink st) code_blink ++ opt_code (s_inverse st) code_inverse ++
  opt_code (s_hidden st) code_hidden ++ opt_code (s_strike st) code_strike.

Definition fg_params (c : color) : list N :=
  match c with
  | CRgb r g b => fg_rgb_head ++ [r; g; b]
  | CNone => []
  | CIdx n =>
    if n <? fg_std_lim then [fg_std_base + n]
    else if n <? fg_bright_lim then [fg_bright_base + n - fg_bright_sub]
    else fg_ext_head ++ [n]
  end.

Definition bg_params (c : color) : list N :=
  match c with
  | CRgb r g b => bg_rgb_head ++ [r; g; b]
  | CNone => []
  | CIdx n =>
    if n <? bg_std_lim then [bg_std_base + n]
    else if n <? bg_bright_lim then [bg_bright_base + n - bg_bright_sub]
    else bg_ext_head ++ [n]
  end.

Definition code_params (st : style) : list N :=
  mod_params st ++ fg_params (s_fg st) ++ bg_params (s_bg st).

(* ';'.join(str(n) for n in ns) *)
Fixpoint join_params (ns : list N) : str :=
  match ns with
  | [] => []
  | [n] => str_of_N n
  | n :: tl => str_of_N n ++ apply_sep :: join_params tl
  end.

Definition sgr_seq (ns : list N) : str := apply_open ++ join_params ns ++ apply_close.

(* Style.apply_style(text, force); [enabled] = self.enabled *)
Definition apply_style (enabled force : bool) (st : style) (text : str) : str :=
  match text with
  | [] => []
  | _ =>
    if negb (enabled || force) then text
    else match code_params st with
         | [] => text
         | ps => sgr_seq ps ++ text ++ sgr_seq reset_params
         end
  end.

(* ------------------------------------------------------------------ format(text, spec) for str *)
Record fspec : Type := mkSpec { f_fill : N; f_align : N; f_width : option N; f_prec : option N }.

Definition c_lt : N := 60.  (* '<' *)
Definition c_eq : N := 61.  (* '=' *)
Definition c_gt : N := 62.  (* '>' *)
Definition c_caret : N := 94.
Definition is_align (c : N) : bool := (c =? c_lt) || (c =? c_gt) || (c =? c_eq) || (c =? c_caret).
(* '+' '-' ' ' 'z' '#' ',' '_' : all rejected for str (ValueError) *)
Definition is_sign_like (c : N) : bool := (c =? 43) || (c =? 45) || (c =? 32) || (c =? 122) || (c =? 35).
Definition is_group (c : N) : bool := (c =? 44) || (c =? 95).

Definition num_opt (d : str) : option N := match d with [] => None | _ => Some (N_of_digits d) end.

(* parse_internal_render_format_spec + the checks of format_string_internal (CPython 3.12), for
   default type 's' and default alignment '<'.  ASCII digits only.
   spec_head: [[fill]align] -> (fill, align, fill given, rest) *)
Definition spec_head (s : str) : N * N * bool * str :=
  match s with
  | f :: a :: tl =>
    if is_align a then (f, a, true, tl)
    else if is_align f then (32, f, false, a :: tl)
    else (32, c_lt, false, s)
  | [a] => if is_align a then (32, a, false, []) else (32, c_lt, false, s)
  | [] => (32, c_lt, false, s)
  end.

(* the 0 flag: fill with '0' unless a fill character was given *)
Definition zero_flag (fill_given : bool) (s1 : str) : bool :=
  negb fill_given && match s1 with 48 :: _ => true | _ => false end.

(* after fill and align: sign, z, # (errors for str), 0 flag, width, grouping (error), .precision, type s.
   Some (width, precision) *)
Definition spec_tail (fill_given : bool) (s1 : str) : option (option N * option N) :=
  match s1 with
  | [] => Some (None, None)
  | c :: _ =>
    if is_sign_like c then None else
    let s2 := if zero_flag fill_given s1 then tl s1 else s1 in
    let '(wd, s3) := span_digits s2 in
    match s3 with
    | [] => Some (num_opt wd, None)
    | g :: after =>
      if is_group g then None
      else if g =? 46 then
        let '(pd, s4) := span_digits after in
        match pd with
        | [] => None
        | _ => match s4 with
               | [] => Some (num_opt wd, num_opt pd)
               | [115] => Some (num_opt wd, num_opt pd)
               | _ => None
               end
        end
      else match s3 with
           | [115] => Some (num_opt wd, None)
           | _ => None
           end
    end
  end.

Definition parse_spec (s : str) : option fspec :=
  let '(fill, align, fill_given, s1) := spec_head s in
  if align =? c_eq then None
  else match spec_tail fill_given s1 with
       | None => None
       | Some (w, p) => Some (mkSpec (if zero_flag fill_given s1 then 48 else fill) align w p)
       end.

Definition le_opt (o : option N) (n : N) : bool := match o with None => true | Some w => w <=? n end.
Definition ge_opt (o : option N) (n : N) : bool := match o with None => true | Some p => n <=? p end.

Definition render (f : fspec) (text : str) : str :=
  let len := N.of_nat (length text) in
  if le_opt (f_width f) len && ge_opt (f_prec f) len then text
  else
    let t := match f_prec f with Some p => firstn (N.to_nat p) text | None => text end in
    let len' := N.of_nat (length t) in
    let total := match f_width f with Some w => N.max w len' | None => len' end in
    let pad := total - len' in
    let lpad := if f_align f =? c_gt then pad else if f_align f =? c_caret then pad / 2 else 0 in
    let rpad := pad - lpad in
    repeat_c (f_fill f) (N.to_nat lpad) ++ t ++ repeat_c (f_fill f) (N.to_nat rpad).

(* format(text, spec): None = ValueError *)
Definition format_str (spec text : str) : option str :=
  match spec with
  | [] => Some text
  | _ => match parse_spec spec with
         | None => None
         | Some f => Some (render f text)
         end
  end.

(* ------------------------------------------------------------------ apply / __str__ / __len__ / __format__ *)
Definition nonempty_opt (o : option str) : option str :=
  match o with Some (c :: tl) => Some (c :: tl) | _ => None end.

(* Style.apply(text, fmt): [sfmt] = self._fmt *)
Definition apply (enabled : bool) (st : style) (sfmt : option str) (text : str) (fmt : option str)
  : option str :=
  match text with
  | [] => Some []
  | _ =>
    let f := match nonempty_opt fmt with Some f => Some f | None => sfmt end in
    match nonempty_opt f with
    | Some f => match format_str f text with
                | Some t => Some (apply_style enabled false st t)
                | None => None
                end
    | None => Some (apply_style enabled false st text)
    end
  end.

(* str(style) *)
Definition to_str (enabled : bool) (st : style) (sfmt : option str) (value : str) : option str :=
  apply enabled st sfmt value None.

(* len(style) *)
Definition style_len (enabled : bool) (st : style) (sfmt : option str) (value : str) : option nat :=
  match to_str enabled st sfmt value with Some s => Some (visual_len s) | None => None end.

(* format(style, spec): at the pinned commit apply() receives str(self), which is already styled
   and already formatted by self._fmt ([restyles] = true); the repaired code passes self.value *)
Definition dunder_format_with (restyles enabled : bool) (st : style) (sfmt : option str) (value spec : str)
  : option str :=
  if restyles then
    match to_str enabled st sfmt value with
    | Some s => apply enabled st sfmt s (Some spec)
    | None => None
    end
  else apply enabled st sfmt value (Some spec).

Definition dunder_format := dunder_format_with dunder_format_restyles.

(* ------------------------------------------------------------------ SGR_RE, parameters, from_raw *)
Definition is_sgr_class (c : N) : bool := is_digit c || existsb (N.eqb c) sgr_class_lits.

(* the rest of SGR_RE after ESC [ : the class repeated greedily, then the final byte (which is not in
   the class, so no backtracking is possible): Some (group 1) *)
Fixpoint sgr_body (s : str) : option str :=
  match s with
  | [] => None
  | c :: tl =>
    if is_sgr_class c then match sgr_body tl with Some g => Some (c :: g) | None => None end
    else if c =? sgr_final then Some [] else None
  end.

(* SGR_RE tried at the start of s: Some (group 1) *)
Definition sgr_here (s : str) : option str :=
  match s with
  | e :: o :: tl => if (e =? sgr_esc) && (o =? sgr_csi) then sgr_body tl else None
  | _ => None
  end.

(* SGR_RE.search(s).group(1) *)
Fixpoint sgr_search (s : str) : option str :=
  match sgr_here s with
  | Some g => Some g
  | None => match s with [] => None | _ :: tl => sgr_search tl end
  end.

(* s.split(sep) *)
Fixpoint split_on (sep : N) (s : str) : list str :=
  match s with
  | [] => [[]]
  | c :: tl =>
    if c =? sep then [] :: split_on sep tl
    else match split_on sep tl with
         | p :: ps => (c :: p) :: ps
         | [] => [[c]]
         end
  end.

(* int(p) for p over ASCII digits: None = ValueError (empty piece) *)
Definition int_of (p : str) : option N :=
  match p with
  | [] => None
  | _ => if forallb is_digit p then Some (N_of_digits p) else None
  end.

Fixpoint all_some {A} (l : list (option A)) : option (list A) :=
  match l with
  | [] => Some []
  | Some x :: tl => match all_some tl with Some r => Some (x :: r) | None => None end
  | None :: _ => None
  end.

Definition params_of_str (s : str) : option (list N) := all_some (map int_of (split_on p_split s)).

Definition clampb (n : N) : N := N.min n byte_max.
Definition set_fg (c : color) (a : style) : style :=
  mkStyle (s_bold a) (s_dim a) (s_italic a) (s_underline a) (s_blink a) (s_inverse a) (s_hidden a) (s_strike a) c (s_bg a).
Definition set_bg (c : color) (a : style) : style :=
  mkStyle (s_bold a) (s_dim a) (s_italic a) (s_underline a) (s_blink a) (s_inverse a) (s_hidden a) (s_strike a) (s_fg a) c.
Definition set_col (isfg : bool) (c : color) (a : style) : style := if isfg then set_fg c a else set_bg c a.

Inductive action : Type :=
| ANop | ABold | ADim | AItalic | AUnderline | ABlink | AInverse | AHidden | AStrike
| AFg (n : N) | ABg (n : N) | AExt (isfg : bool).

(* the if/elif chain of from_raw, in the order of the source *)
Definition classify (p : N) : action :=
  if p =? p_reset then ANop
  else if p =? p_bold then ABold
  else if p =? p_dim then ADim
  else if p =? p_italic then AItalic
  else if p =? p_underline then AUnderline
  else if p =? p_blink then ABlink
  else if p =? p_inverse then AInverse
  else if p =? p_hidden then AHidden
  else if p =? p_strike then AStrike
  else if (p_fg_lo <=? p) && (p <=? p_fg_hi) then AFg (p - p_fg_sub)
  else if (p_bg_lo <=? p) && (p <=? p_bg_hi) then ABg (p - p_bg_sub)
  else if p =? p_fg_ext then AExt true
  else if p =? p_bg_ext then AExt false
  else if (p_fgb_lo <=? p) && (p <=? p_fgb_hi) then AFg (p - p_fgb_sub)
  else if (p_bgb_lo <=? p) && (p <=? p_bgb_hi) then ABg (p - p_bgb_sub)
  else ANop.

Definition act (x : action) (a : style) : style :=
  match x with
  | ANop | AExt _ => a
  | ABold => mkStyle true (s_dim a) (s_italic a) (s_underline a) (s_blink a) (s_inverse a) (s_hidden a) (s_strike a) (s_fg a) (s_bg a)
  | ADim => mkStyle (s_bold a) true (s_italic a) (s_underline a) (s_blink a) (s_inverse a) (s_hidden a) (s_strike a) (s_fg a) (s_bg a)
  | AItalic => mkStyle (s_bold a) (s_dim a) true (s_underline a) (s_blink a) (s_inverse a) (s_hidden a) (s_strike a) (s_fg a) (s_bg a)
  | AUnderline => mkStyle (s_bold a) (s_dim a) (s_italic a) true (s_blink a) (s_inverse a) (s_hidden a) (s_strike a) (s_fg a) (s_bg a)
  | ABlink => mkStyle (s_bold a) (s_dim a) (s_italic a) (s_underline a) true (s_inverse a) (s_hidden a) (s_strike a) (s_fg a) (s_bg a)
  | AInverse => mkStyle (s_bold a) (s_dim a) (s_italic a) (s_underline a) (s_blink a) true (s_hidden a) (s_strike a) (s_fg a) (s_bg a)
  | AHidden => mkStyle (s_bold a) (s_dim a) (s_italic a) (s_underline a) (s_blink a) (s_inverse a) true (s_strike a) (s_fg a) (s_bg a)
  | AStrike => mkStyle (s_bold a) (s_dim a) (s_italic a) (s_underline a) (s_blink a) (s_inverse a) (s_hidden a) true (s_fg a) (s_bg a)
  | AFg n => set_fg (CIdx n) a
  | ABg n => set_bg (CIdx n) a
  end.

(* the while loop over params: [ps] = params[i:].  An extended-colour introducer without enough
   parameters after it is skipped alone (i += 1), so the selector is then read as a parameter. *)
Fixpoint parse_go (ps : list N) (a : style) {struct ps} : style :=
  match ps with
  | [] => a
  | p :: tl =>
    match classify p with
    | AExt isfg =>
      match tl with
      | [] => a
      | q :: tl2 =>
        if q =? (if isfg then p_fg_sel256 else p_bg_sel256) then
          match tl2 with
          | n :: tl3 => parse_go tl3 (set_col isfg (CIdx n) a)
          | [] => parse_go tl a
          end
        else if q =? (if isfg then p_fg_selrgb else p_bg_selrgb) then
          match tl2 with
          | r :: g :: b :: tl5 => parse_go tl5 (set_col isfg (CRgb (clampb r) (clampb g) (clampb b)) a)
          | _ => parse_go tl a
          end
        else parse_go tl a
      end
    | x => parse_go tl (act x a)
    end
  end.

(* what the Style constructor keeps: _set_fg and _set_bg clamp an int colour *)
Definition norm_color (c : color) : color :=
  match c with CIdx n => CIdx (clampb n) | c => c end.
Definition norm_style (a : style) : style := set_bg (norm_color (s_bg a)) (set_fg (norm_color (s_fg a)) a).

Definition parse_params (ps : list N) : style := norm_style (parse_go ps plain).

(* tty_escape / tty_unescape *)
Definition tty_escape (s : str) : str :=
  replace tty_esc_hex tty_esc_short (replace tty_esc_raw tty_esc_short s).
Definition tty_unescape (s : str) : str := replace tty_esc_short tty_esc_raw s.

(* parse_fmt: re.match of: f, brace, lazy group, colon, greedy group, brace; the dot excludes newline *)
Fixpoint span_until (c : N) (s : str) : option (str * str) :=   (* up to the first c on the first line *)
  match s with
  | [] => None
  | x :: tl => if x =? c then Some ([], tl)
               else if x =? 10 then None
               else match span_until c tl with Some (a, b) => Some (x :: a, b) | None => None end
  end.

Fixpoint first_line (s : str) : str :=
  match s with [] => [] | x :: tl => if x =? 10 then [] else x :: first_line tl end.

(* longest prefix of s that is followed by c: Some prefix (the last c in s) *)
Fixpoint upto_last (c : N) (s : str) : option str :=
  match s with
  | [] => None
  | x :: tl => match upto_last c tl with
               | Some p => Some (x :: p)
               | None => if x =? c then Some [] else None
               end
  end.

Record parsed : Type := mkParsed { pr_style : style; pr_value : str; pr_fmt : option str }.

Definition fmt_open : str := [102; 123].   (* the two characters f and left brace *)

Definition parse_fmt (a : style) (text : str) : parsed :=
  match strip_prefix fmt_open text with
  | Some body =>
    match span_until 58 body with
    | Some (v, after) =>
      match upto_last 125 (first_line after) with
      | Some f => mkParsed a v (Some f)
      | None => mkParsed a text None
      end
    | None => mkParsed a text None
    end
  | None => mkParsed a text None
  end.

(* Style.from_raw after its first line (text = tty_unescape(text)): None = ValueError (an empty parameter) *)
Definition from_raw_core (t : str) : option parsed :=
  match sgr_search t with
  | None => Some (parse_fmt plain t)
  | Some g =>
    let content := descape t in
    match g with
    | [] => Some (parse_fmt plain content)
    | _ => match params_of_str g with
           | Some ps => Some (parse_fmt (parse_params ps) content)
           | None => None
           end
    end
  end.

Definition from_raw (text : str) : option parsed := from_raw_core (tty_unescape text).

(* the text __repr__ styles: value, or f, brace, value, colon, fmt, brace *)
Definition repr_text (sfmt : option str) (value : str) : str :=
  match sfmt with
  | Some f => fmt_open ++ value ++ 58 :: f ++ [125]
  | None => value
  end.

(* repr(text)[1:-1] for a Python str; [printable] = str.isprintable of the code point *)
Section Repr.
  Variable printable : N -> bool.

  Definition hex_digit (n : N) : N := if n <? 10 then 48 + n else 87 + n.
  Definition hex2 (c : N) : str := [hex_digit (c / 16); hex_digit (c mod 16)].
  Definition hex4 (c : N) : str := hex2 (c / 256) ++ hex2 (c mod 256).
  Definition hex8 (c : N) : str := hex4 (c / 65536) ++ hex4 (c mod 65536).

  Definition repr_char (quote : N) (c : N) : str :=
    if (c =? quote) || (c =? 92) then [92; c]
    else if c =? 9 then [92; 116]
    else if c =? 10 then [92; 110]
    else if c =? 13 then [92; 114]
    else if (c <? 32) || (c =? 127) then 92 :: 120 :: hex2 c
    else if c <? 127 then [c]
    else if printable c then [c]
    else if c <? 256 then 92 :: 120 :: hex2 c
    else if c <? 65536 then 92 :: 117 :: hex4 c
    else 92 :: 85 :: hex8 c.

  Definition has (c : N) (s : str) : bool := existsb (N.eqb c) s.
  (* the quote character repr() chooses *)
  Definition repr_quote (s : str) : N := if has 39 s && negb (has 34 s) then 34 else 39.
  Definition py_repr_body (s : str) : str := flat_map (repr_char (repr_quote s)) s.

  (* Style.__repr__ *)
  Definition style_repr (st : style) (sfmt : option str) (value : str) : str :=
    tty_escape (py_repr_body (apply_style false true st (repr_text sfmt value))).
End Repr.

(* ------------------------------------------------------------------ Color.enabled *)
Record colorenv : Type := mkEnv {
  e_force : option bool;     (* Color(enable=...) / .enable(value) *)
  e_no_color : bool;         (* NO_COLOR is set (any value, also empty) *)
  e_force_color : bool;      (* FORCE_COLOR is set *)
  e_check_stderr : bool;     (* Color.stderr() *)
  e_stdout_tty : bool; e_stderr_tty : bool }.

Definition color_enabled (e : colorenv) : bool :=
  match e_force e with
  | Some b => b
  | None =>
    if e_no_color e then false
    else if e_force_color e then true
    else if e_check_stderr e then e_stderr_tty e else e_stdout_tty e
  end.
