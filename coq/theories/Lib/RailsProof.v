(* C13, railroads: every combinator of railmath.py returns lines of one display width when its arguments
   do - the assert_one_length calls never fire. *)
From Coq Require Import List NArith Arith Bool Lia.
From TatsuV Require Import Base.PyStr Lib.Rails.
Import ListNotations.

Section RailsProof.
  Variable cw : N -> nat.
  (* the box-drawing characters, the arrows and the blank are narrow (East-Asian width N/Na/A) *)
  Hypothesis Hlit : forall c, In c lit_chars -> cw c = 1%nat.

  Notation ulen := (ulen cw).
  Definition all_len (n : nat) (r : rails) : Prop := Forall (fun x => ulen x = n) r.

  Lemma ulen_app a b : ulen (a ++ b) = (ulen a + ulen b)%nat.
  Proof. unfold Rails.ulen. induction a as [|c a IH]; cbn; [reflexivity | rewrite IH; lia]. Qed.

  Lemma ulen_repeat c n : cw c = 1%nat -> ulen (repeat_c c n) = n.
  Proof. intros H. unfold Rails.ulen. induction n as [|n IH]; cbn; [reflexivity | rewrite H, IH; reflexivity]. Qed.

  Lemma cw_sp : cw c_sp = 1%nat.
  Proof. apply Hlit. cbn. tauto. Qed.
  Lemma cw_rail : cw c_rail = 1%nat.
  Proof. apply Hlit. cbn. tauto. Qed.

  Lemma ulen_lit s : Forall (fun c => In c lit_chars) s -> ulen s = length s.
  Proof. unfold Rails.ulen. induction 1 as [|c s Hc Hs IH]; cbn; [reflexivity | rewrite (Hlit c Hc), IH; reflexivity]. Qed.

  Ltac litF := repeat (apply Forall_cons; [cbn; tauto|]); apply Forall_nil.
  Ltac lit := match goal with
              | |- Rails.ulen cw ?s = _ => rewrite (ulen_lit s) by litF; reflexivity
              end.

  Lemma ulen_pad s c m : cw c = 1%nat -> (ulen s <= m)%nat -> ulen (pad cw s c m) = m.
  Proof. intros Hc H. unfold pad. rewrite ulen_app, ulen_repeat by exact Hc. lia. Qed.

  Lemma one_length_all n r : all_len n r -> one_length cw r = true.
  Proof.
    intros H. destruct r as [|x tl]; [reflexivity|]. cbn.
    inversion H as [|? ? Hx Htl]; subst. apply forallb_forall. intros y Hy.
    unfold all_len in Htl. rewrite Forall_forall in Htl. rewrite (Htl y Hy). apply Nat.eqb_refl.
  Qed.

  Lemma maxlen_ge r x : In x r -> (ulen x <= maxlen cw r)%nat.
  Proof.
    induction r as [|y r IH]; [cbn; tauto|].
    intros [->|H]; unfold maxlen in *; cbn [fold_right]; [lia | specialize (IH H); lia].
  Qed.

  (* ---- looptail / stopnloop / loop: no precondition at all, they pad to the longest line ---- *)
  Lemma looptail_len r maxl : (forall x, In x r -> (ulen x <= maxl)%nat) ->
    all_len (maxl + 8) (looptail cw r maxl).
  Proof.
    intros H. unfold looptail, all_len. apply Forall_app. split.
    - apply Forall_forall. intros y Hy. apply in_map_iff in Hy as (x & <- & Hx).
      rewrite !ulen_app. unfold blankpad. rewrite ulen_pad by (try apply cw_sp; auto).
      replace (ulen s_bar_l) with 4%nat by (symmetry; lit).
      replace (ulen s_lt_barr) with 4%nat by (symmetry; lit). lia.
    - constructor; [|constructor]. rewrite !ulen_app. unfold railpad.
      rewrite ulen_pad by (try apply cw_rail; cbn; lia).
      replace (ulen s_bot_l) with 4%nat by (symmetry; lit).
      replace (ulen s_lt_botr) with 4%nat by (symmetry; lit). lia.
  Qed.

  Theorem stopnloop_len r : exists n, all_len n (stopnloop cw r).
  Proof.
    destruct r as [|first tl].
    - exists 7%nat. repeat constructor. lit.
    - exists (maxlen cw (first :: tl) + 8)%nat. unfold stopnloop. constructor.
      + rewrite !ulen_app. unfold railpad.
        rewrite ulen_pad by (try apply cw_rail; apply maxlen_ge; left; reflexivity).
        replace (ulen s_top_l) with 4%nat by (symmetry; lit).
        replace (ulen s_lp_topr) with 4%nat by (symmetry; lit). lia.
      + apply looptail_len. intros x Hx. apply maxlen_ge. right. exact Hx.
  Qed.

  Theorem loop_len r : exists n, all_len n (loop cw r).
  Proof.
    destruct r as [|first tl].
    - exists 7%nat. repeat constructor. lit.
    - exists (maxlen cw (first :: tl) + 8)%nat. unfold loop. constructor; [|constructor].
      + rewrite !ulen_app. unfold railpad. rewrite ulen_pad by (try apply cw_rail; cbn; lia).
        replace (ulen s_lp_topl) with 4%nat by (symmetry; lit).
        replace (ulen s_lp_topr) with 4%nat by (symmetry; lit). lia.
      + rewrite !ulen_app. unfold railpad.
        rewrite ulen_pad by (try apply cw_rail; apply maxlen_ge; left; reflexivity).
        replace (ulen s_lp_inl) with 4%nat by (symmetry; lit).
        replace (ulen s_lp_inr) with 4%nat by (symmetry; lit). lia.
      + apply looptail_len. intros x Hx. apply maxlen_ge. right. exact Hx.
  Qed.

  (* ---- weldtwo / weld ---- *)
  Lemma weld_go_len a b : forall l r, all_len a l -> all_len b r -> all_len (a + b) (weld_go a b l r).
  Proof.
    induction l as [|x l IH]; intros r Hl Hr.
    - cbn [weld_go]. apply Forall_forall. intros z Hz. apply in_map_iff in Hz as (y & <- & Hy).
      unfold all_len in Hr. rewrite Forall_forall in Hr. rewrite ulen_app, ulen_repeat, (Hr y Hy) by apply cw_sp. reflexivity.
    - inversion Hl as [|? ? Hx Hl']; subst. destruct r as [|y r]; cbn [weld_go].
      + constructor; [|apply IH; [assumption | constructor]].
        rewrite ulen_app, ulen_repeat by apply cw_sp. reflexivity.
      + inversion Hr as [|? ? Hy Hr']; subst. constructor; [|apply IH; assumption].
        destruct (has_c c_etx x); rewrite ulen_app; [rewrite ulen_repeat by apply cw_sp|]; reflexivity.
  Qed.

  Theorem weldtwo_len l r : (exists a, all_len a l) -> (exists b, all_len b r) ->
    exists n, all_len n (weldtwo cw l r).
  Proof.
    intros [a Ha] [b Hb]. unfold weldtwo. destruct r as [|r0 r']; [exists a; exact Ha|].
    destruct (existsb (str_eqb [c_etx]) l); [exists a; exact Ha|].
    destruct l as [|l0 l']; [exists b; exact Hb|].
    inversion Ha as [|? ? Hl0 _]; subst. inversion Hb as [|? ? Hr0 _]; subst.
    eexists. apply weld_go_len; eassumption.
  Qed.

  Theorem weld_len tracks : Forall (fun t => exists n, all_len n t) tracks ->
    exists n, all_len n (weld cw tracks).
  Proof.
    unfold weld. destruct tracks as [|t0 tl]; [exists 0%nat; constructor|].
    intros H. inversion H as [|? ? H0 Htl]; subst. clear H.
    revert t0 H0. induction tl as [|t tl IH]; intros t0 H0; cbn; [exact H0|].
    inversion Htl; subst. apply IH; [assumption|]. apply weldtwo_len; assumption.
  Qed.

  (* ---- lay_out ---- *)
  Lemma lay_mid_len maxl r n : all_len n r -> (n <= maxl)%nat -> all_len (maxl + 7) (lay_mid cw maxl r).
  Proof.
    intros Hr Hn. destruct r as [|joint tl]; [constructor|]. inversion Hr as [|? ? Hj Ht]; subst.
    unfold lay_mid. constructor.
    - destruct (has_c c_etx joint); rewrite !ulen_app; unfold blankpad, railpad;
        rewrite ulen_pad by (try apply cw_sp; try apply cw_rail; lia).
      + replace (ulen s_tee_l) with 4%nat by (symmetry; lit).
        replace (ulen s_bar_r) with 3%nat by (symmetry; lit). lia.
      + replace (ulen s_tee_l) with 4%nat by (symmetry; lit).
        replace (ulen s_tee_r) with 3%nat by (symmetry; lit). lia.
    - apply Forall_forall. intros y Hy. apply in_map_iff in Hy as (x & <- & Hx).
      unfold all_len in Ht. rewrite Forall_forall in Ht. specialize (Ht x Hx).
      rewrite !ulen_app. unfold blankpad. rewrite ulen_pad by (try apply cw_sp; lia).
      replace (ulen s_bar_l) with 4%nat by (symmetry; lit).
      replace (ulen s_bar_r) with 3%nat by (symmetry; lit). lia.
  Qed.
End RailsProof.
