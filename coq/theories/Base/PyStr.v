(* Python strings as lists of code points, with the str methods the models need. No proofs of
   properties here beyond small structural facts used everywhere. *)
From Coq Require Import List NArith Arith Bool Lia Decimal DecimalN.
Import ListNotations.
Local Open Scope N_scope.

Definition str := list N.

Fixpoint str_eqb (a b : str) : bool :=
  match a, b with
  | [], [] => true
  | x :: a', y :: b' => N.eqb x y && str_eqb a' b'
  | _, _ => false
  end.

Lemma str_eqb_eq a b : str_eqb a b = true <-> a = b.
Proof.
  revert b; induction a as [|x a IH]; intros [|y b]; cbn; try (split; congruence).
  rewrite andb_true_iff, N.eqb_eq, IH. split; [intros [-> ->]; reflexivity | intros H; inversion H; auto].
Qed.

Lemma str_eqb_refl a : str_eqb a a = true.
Proof. apply str_eqb_eq; reflexivity. Qed.

(* s.startswith(p): on success returns the rest *)
Fixpoint strip_prefix (p s : str) : option str :=
  match p, s with
  | [], _ => Some s
  | x :: p', y :: s' => if N.eqb x y then strip_prefix p' s' else None
  | _ :: _, [] => None
  end.

Definition startswith (p s : str) : bool :=
  match strip_prefix p s with Some _ => true | None => false end.

Lemma strip_prefix_app p s : strip_prefix p (p ++ s) = Some s.
Proof. induction p as [|x p IH]; cbn; [reflexivity|]. rewrite N.eqb_refl. exact IH. Qed.

Lemma strip_prefix_some p s r : strip_prefix p s = Some r -> s = p ++ r.
Proof.
  revert s; induction p as [|x p IH]; intros s; cbn.
  - intros H; inversion H; reflexivity.
  - destruct s as [|y s]; [discriminate|]. destruct (N.eqb x y) eqn:E; [|discriminate].
    apply N.eqb_eq in E; subst y. intros H. rewrite (IH _ H). reflexivity.
Qed.

(* s.replace(old, new) for non-empty old: leftmost, non-overlapping.  Fuel = length s (each step
   consumes at least one character). *)
Fixpoint replace_f (fuel : nat) (old new s : str) : str :=
  match fuel with
  | O => s
  | S fuel' =>
    match s with
    | [] => []
    | c :: tl =>
      match strip_prefix old s with
      | Some rest => new ++ replace_f fuel' old new rest
      | None => c :: replace_f fuel' old new tl
      end
    end
  end.

Definition replace (old new s : str) : str :=
  match old with
  | [] => s   (* not used by the modelled code; Python would interleave *)
  | _ => replace_f (length s) old new s
  end.

(* substring test *)
Fixpoint contains (p s : str) : bool :=
  startswith p s || match s with [] => false | _ :: tl => contains p tl end.

Fixpoint repeat_c (c : N) (n : nat) : str :=
  match n with O => [] | S n' => c :: repeat_c c n' end.

(* decimal numerals *)
Fixpoint uint_chars (u : Decimal.uint) : str :=
  match u with
  | Nil => []
  | D0 u => 48 :: uint_chars u | D1 u => 49 :: uint_chars u | D2 u => 50 :: uint_chars u
  | D3 u => 51 :: uint_chars u | D4 u => 52 :: uint_chars u | D5 u => 53 :: uint_chars u
  | D6 u => 54 :: uint_chars u | D7 u => 55 :: uint_chars u | D8 u => 56 :: uint_chars u
  | D9 u => 57 :: uint_chars u
  end.

Definition is_digit (c : N) : bool := (48 <=? c) && (c <=? 57).

Definition digit_cons (c : N) (u : Decimal.uint) : Decimal.uint :=
  match c with
  | 48 => D0 u | 49 => D1 u | 50 => D2 u | 51 => D3 u | 52 => D4 u
  | 53 => D5 u | 54 => D6 u | 55 => D7 u | 56 => D8 u | _ => D9 u
  end.

(* chars (all digits) -> uint *)
Fixpoint chars_uint (s : str) : Decimal.uint :=
  match s with [] => Nil | c :: tl => digit_cons c (chars_uint tl) end.

(* maximal prefix of ASCII digits *)
Fixpoint span_digits (s : str) : str * str :=
  match s with
  | [] => ([], [])
  | c :: tl => if is_digit c then let '(d, r) := span_digits tl in (c :: d, r) else ([], s)
  end.

Definition str_of_nat (n : nat) : str := uint_chars (N.to_uint (N.of_nat n)).
Definition nat_of_digits (s : str) : nat := N.to_nat (N.of_uint (chars_uint s)).

Definition str_of_N (n : N) : str := uint_chars (N.to_uint n).
Definition N_of_digits (s : str) : N := N.of_uint (chars_uint s).

(* extracted by every driver so that nat, positive, N and Z all exist in the extracted module *)
Definition nums_witness (k : nat) (n : N) (z : BinNums.Z) : BinNums.Z :=
  BinInt.Z.add z (BinInt.Z.of_N (N.add n (N.of_nat k))).
