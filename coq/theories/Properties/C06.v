(* C06 - property theorems only.  Semantic actions are an oracle [act : rule -> ast -> aret]
   (ANone = no method and no _default; ARet v; AFailed = FailedSemantics; ARaise x = any other exception). *)
From Coq Require Import List NArith Bool.
From TatsuV Require Import Base.PyStr Engine.Value Engine.Syntax Engine.Input Engine.Engine Engine.Calls
     Engine.SemProof Engine.RaiseProof.
Import ListNotations.

Section C06.
Variable text : str.
Variable re_at : nat -> nat -> option (nat * str).
Variable isalnum isalpha : N -> bool.
Variable lower upper : N -> N.
Variable ic : icfg.
Variable unsafe : list str.
Variable rules : list rule.
Variable ec : ecfg.
Variable lineat : nat -> nat.
Notation pevalA act := (peval text re_at isalnum isalpha lower upper ic unsafe rules ec act lineat).
Notation pevA act := (geval text re_at isalnum isalpha lower ic unsafe (fun _ u => u) (pcall text re_at upper ic rules ec act lineat)).

(* the action gets the folded AST of the rule's right-hand side and its result becomes the rule's value for
   the caller; FailedSemantics makes the invocation fail like a mismatch (caller's cut flag: alternatives are
   tried); any other exception is the result of the whole invocation *)
Theorem C06_action_gets_rhs_ast_and_replaces_it : forall act n r rl f p v fb,
  get_rule rules r = Some rl ->
  (if r_tokn rl then Some (pos f) else next_token text re_at ic (pos f)) = Some p ->
  pevA act n (r_exp rl) (push (newf p)) tt = (Ok v fb, tt) ->
  pevalA act (S n) (Call r) f =
    if r_isname rl && is_keyword upper ic ec (fold fb) then Fail (cutseen f)
    else match act r (fold fb) with
         | ANone => let node := with_parseinfo ec lineat (fold fb) r p (pos fb) in Ok node (append (goto f (pos fb)) node)
         | ARet w => let node := with_parseinfo ec lineat w r p (pos fb) in Ok node (append (goto f (pos fb)) node)
         | AFailed => Fail (cutseen f)
         | ARaise x => Fatal (Foreign x)
         end.
Proof. exact (call_outcome text re_at isalnum isalpha lower upper ic unsafe rules ec lineat). Qed.

(* actions that return their argument are indistinguishable from no semantics (every grammar, text, frame) *)
Theorem C06_identity_is_no_semantics : forall n e f,
  pevalA (fun _ v => ARet v) n e f <> Fatal OOF ->
  pevalA (fun _ _ => ANone) n e f = pevalA (fun _ v => ARet v) n e f.
Proof. exact (identity_is_no_semantics text re_at isalnum isalpha lower upper ic unsafe rules ec lineat). Qed.

Theorem C06_actions_equal_up_to_identity : forall act1 act2 n e f,
  act_equiv act1 act2 -> pevalA act1 n e f <> Fatal OOF -> pevalA act2 n e f = pevalA act1 n e f.
Proof. exact (peval_action_equiv text re_at isalnum isalpha lower upper ic unsafe rules ec lineat). Qed.

(* the engine remembers a semantic failure like a mismatch for that (position, rule) *)
Theorem C06_failed_semantics_memoised_as_failure : forall act (ev : @ev_t gstate) rl r k st v fb st2,
  lookup (memos st) k = None ->
  ev (r_exp rl) (push (newf (fst k))) (if left_recursion ec then memoize ec rl st k OGuard else st) = (Ok v fb, st2) ->
  r_isname rl && is_keyword upper ic ec (fold fb) = false ->
  act r (fold fb) = AFailed ->
  rule_call upper ic ec act lineat ev rl r k st = (RFail, memoize ec rl (log_body st2 r) k OFail).
Proof. exact (rule_call_failed_semantics upper ic ec lineat). Qed.

(* a rule marked @nomemo is never remembered: its body and action run on every invocation *)
Theorem C06_nomemo_never_stored : forall rl st k o, r_nomemo rl = true -> memoize ec rl st k o = st.
Proof. exact (nomemo_never_stored ec). Qed.

(* any other exception reaches the caller of parse() unchanged - through sequences, choices, optionals, closures and
   joins, lookaheads, skip-to, the memo, the seeds and the seed-growing loop of left recursion: for every grammar,
   text, configuration, action oracle and fuel.  [raised] is the ghost log of what actions raised (first theorem
   below: it is written exactly when an action raises); whatever is in it IS the result, and nothing else was raised *)
Theorem C06_raised_log_is_exact : forall act (ev : @ev_t gstate) rl r k st v fb st2 e,
  lookup (memos st) k = None ->
  ev (r_exp rl) (push (newf (fst k))) (if left_recursion ec then memoize ec rl st k OGuard else st) = (Ok v fb, st2) ->
  r_isname rl && is_keyword upper ic ec (fold fb) = false ->
  act r (fold fb) = ARaise e ->
  rule_call upper ic ec act lineat ev rl r k st = (RFatal (Foreign e), log_raise (log_body st2 r) (Foreign e)).
Proof. intros act. exact (rule_call_raises upper ic ec act lineat). Qed.

Theorem C06_foreign_exception_reaches_caller : forall act n start r st,
  parse_with text re_at isalnum isalpha lower upper ic unsafe rules ec act lineat n start = (r, st) ->
  raised st = [] \/ exists x, raised st = [x] /\ r = Fatal x.
Proof. intros act. exact (raise_reaches_caller text re_at isalnum isalpha lower upper ic unsafe rules ec act lineat). Qed.

End C06.

(* a concrete instance: the action of a rule called inside a lookahead inside a closure inside an optional raises *)
Example C06_foreign_exception_witness : fst x_run = Fatal (Foreign 7) /\ raised (snd x_run) = [Foreign 7].
Proof. exact raise_witness. Qed.
Print Assumptions C06_action_gets_rhs_ast_and_replaces_it.
Print Assumptions C06_identity_is_no_semantics.
Print Assumptions C06_actions_equal_up_to_identity.
Print Assumptions C06_failed_semantics_memoised_as_failure.
Print Assumptions C06_nomemo_never_stored.
Print Assumptions C06_raised_log_is_exact.
Print Assumptions C06_foreign_exception_reaches_caller.
Print Assumptions C06_foreign_exception_witness.
