(* C20 - property theorems only: each closed by [exact], Print Assumptions beneath. *)
From Coq Require Import List NArith Bool.
From TatsuV Require Import Base.PyStr Lib.Style Lib.StyleProof.
From TatsuGen Require Import StyleGen.
Import ListNotations.
Local Open Scope N_scope.

(* removing the escape sequences from styled text gives the text back: every escape-free text, every
   style (any modifier subset, any fg/bg: none, 16-colour, 256-colour, RGB), enabled or forced or not *)
Theorem C20_descape_apply : forall (en force : bool) (st : style) (text : str),
  no_esc text -> descape (apply_style en force st text) = text.
Proof. exact descape_apply_style. Qed.
Print Assumptions C20_descape_apply.

(* the premise that makes the scanner model of ANSI_RE exact: the three classes of the CSI alternative
   are pairwise disjoint (no backtracking can find a match the greedy scan misses) *)
Theorem C20_ansi_classes_disjoint : forall c : N,
  (is_param c && is_inter c = false) /\ (is_param c && is_final c = false) /\ (is_inter c && is_final c = false).
Proof. exact ansi_classes_disjoint. Qed.
Print Assumptions C20_ansi_classes_disjoint.

(* Style.apply(text, fmt) with self._fmt = sfmt: format first, then style.  For a non-empty escape-free
   text and an escape-free spec: the escapes removed leave exactly format(text, spec), that text is
   escape-free, the visible length is its length, with colour disabled the output is that text; a
   ValueError of format() propagates. *)
Theorem C20_format_transparent : forall (en : bool) (st : style) (sfmt : option str) (text : str) (fmt : option str),
  text <> [] -> no_esc text -> no_esc_opt (eff_fmt sfmt fmt) ->
  match formatted sfmt fmt text with
  | Some t => exists out, apply en st sfmt text fmt = Some out /\ descape out = t /\ no_esc t /\
                          visual_len out = length t /\ (en = false -> out = t)
  | None => apply en st sfmt text fmt = None
  end.
Proof. exact apply_transparent. Qed.
Print Assumptions C20_format_transparent.

(* len(style) is the length of the formatted value *)
Theorem C20_visible_length : forall (en : bool) (st : style) (sfmt : option str) (value t : str),
  value <> [] -> no_esc value -> no_esc_opt (nonempty_opt sfmt) ->
  formatted sfmt None value = Some t -> style_len en st sfmt value = Some (length t).
Proof. exact style_len_formatted. Qed.
Print Assumptions C20_visible_length.

(* format(style, spec): the repaired __format__ (passes self.value) is transparent ... *)
Theorem C20_dunder_format_fixed : forall (en : bool) (st : style) (sfmt : option str) (value spec : str),
  value <> [] -> no_esc value -> no_esc_opt (eff_fmt sfmt (Some spec)) ->
  match formatted sfmt (Some spec) value with
  | Some t => exists out, dunder_format_with false en st sfmt value spec = Some out /\ descape out = t
                          /\ (en = false -> out = t)
  | None => dunder_format_with false en st sfmt value spec = None
  end.
Proof. exact dunder_format_fixed_transparent. Qed.
Print Assumptions C20_dunder_format_fixed.

(* ... the __format__ of the pinned commit (passes str(self), already styled and formatted) is not:
   bold "a" with spec ">3" de-escapes to "a", not "  a" *)
Theorem C20_dunder_format_shipped_refuted :
  exists st value spec t out,
    no_esc value /\ no_esc spec /\ value <> [] /\
    format_str spec value = Some t /\
    dunder_format_with true true st None value spec = Some out /\ descape out <> t.
Proof. exact dunder_format_shipped_refuted. Qed.
Print Assumptions C20_dunder_format_shipped_refuted.

(* ... and with colour disabled it applies the stored format twice *)
Theorem C20_dunder_format_shipped_twice_refuted :
  exists st sfmt value t out,
    no_esc value /\ to_str false st (Some sfmt) value = Some t /\
    dunder_format_with true false st (Some sfmt) value [] = Some out /\ out <> t.
Proof. exact dunder_format_shipped_twice_refuted. Qed.
Print Assumptions C20_dunder_format_shipped_twice_refuted.

(* SGR parameters: what from_raw's parameter loop reads back from the code list of apply_style is the
   style, for every attribute combination; and the text form (';'.join / split / int) is lossless *)
Theorem C20_sgr_roundtrip : forall st : style, wf_style st -> parse_params (code_params st) = st.
Proof. exact sgr_params_roundtrip. Qed.
Print Assumptions C20_sgr_roundtrip.

Theorem C20_sgr_text_roundtrip : forall ns : list N, ns <> [] -> params_of_str (join_params ns) = Some ns.
Proof. exact params_of_join. Qed.
Print Assumptions C20_sgr_text_roundtrip.

(* repr round trip, PARTIAL.  Full statement wanted:
     forall st sfmt value, wf_style st -> value <> [] -> (value, fmt without ESC, braces, colons, backslashes,
       quotes, control characters, all characters printable) ->
       from_raw (style_repr printable st sfmt value) = Some (mkParsed st value sfmt).
   Proved: the part of from_raw after its first line (text = tty_unescape(text)), applied to the string that
   __repr__ styles before it takes repr() and tty_escape().  Missing: tty_unescape (tty_escape (repr-body s)) = s
   for such s (three str.replace calls and Python's repr escapes) - covered by the correspondence and the
   implementation oracle only. *)
Theorem C20_repr_roundtrip_partial : forall (st : style) (sfmt : option str) (value : str),
  wf_style st -> value <> [] -> no_esc value -> ~ In 123 value -> ~ In 58 value -> ~ In 10 value ->
  fmt_ok sfmt ->
  from_raw_core (apply_style false true st (repr_text sfmt value)) = Some (mkParsed st value sfmt).
Proof. exact from_raw_core_roundtrip. Qed.
Print Assumptions C20_repr_roundtrip_partial.

(* the attributes of a style with at least one attribute survive for every non-empty escape-free text *)
Theorem C20_repr_attributes_partial : forall (st : style) (value : str),
  wf_style st -> value <> [] -> no_esc value -> code_params st <> [] ->
  exists p, from_raw_core (apply_style false true st value) = Some p /\ pr_style p = st.
Proof. exact from_raw_core_attributes. Qed.
Print Assumptions C20_repr_attributes_partial.

(* the full repr/from_raw pipeline does NOT keep the attributes for every text: an unstyled style with the
   text backslash-e[1m reads back bold; a styled style with empty text reads back plain *)
Theorem C20_repr_roundtrip_refuted :
  (exists value p, from_raw (style_repr (fun _ => true) plain None value) = Some p /\ pr_style p <> plain) /\
  (exists st p, code_params st <> [] /\ from_raw (style_repr (fun _ => true) st None []) = Some p /\ pr_style p <> st).
Proof. exact repr_roundtrip_refuted. Qed.
Print Assumptions C20_repr_roundtrip_refuted.

(* the closing sequence of styled text is SGR 0 (reset), which the reader ignores *)
Theorem C20_reset_is_sgr0 : reset_params = [p_reset] /\ classify p_reset = ANop.
Proof. exact reset_is_sgr0. Qed.
Print Assumptions C20_reset_is_sgr0.

(* Color.enabled: explicit override, then NO_COLOR, then FORCE_COLOR, then the tty test *)
Theorem C20_enabled_table : forall e : colorenv,
  (forall b, e_force e = Some b -> color_enabled e = b) /\
  (e_force e = None -> e_no_color e = true -> color_enabled e = false) /\
  (e_force e = None -> e_no_color e = false -> e_force_color e = true -> color_enabled e = true) /\
  (e_force e = None -> e_no_color e = false -> e_force_color e = false ->
   color_enabled e = if e_check_stderr e then e_stderr_tty e else e_stdout_tty e).
Proof. exact color_enabled_table. Qed.
Print Assumptions C20_enabled_table.

Theorem C20_disabled_no_escape : forall e st sfmt text fmt t,
  color_enabled e = false -> text <> [] -> no_esc text -> no_esc_opt (eff_fmt sfmt fmt) ->
  formatted sfmt fmt text = Some t ->
  apply (color_enabled e) st sfmt text fmt = Some t /\ no_esc t.
Proof. exact disabled_no_escape. Qed.
Print Assumptions C20_disabled_no_escape.

(* non-vacuity: the hypotheses hold for concrete inputs and the functions do something *)
Example C20_example_apply :
  let st := mkStyle true false false false false false false false (CIdx 9) (CRgb 1 2 3) in
  wf_style st /\ no_esc [97; 98] /\
  apply true st None [97; 98] (Some [62; 52]) =
    Some ([27; 91] ++ [49; 59; 57; 49; 59; 52; 56; 59; 50; 59; 49; 59; 50; 59; 51] ++ [109] ++ [32; 32; 97; 98] ++ [27; 91; 48; 109]).
Proof.
  repeat split; try (vm_compute; intuition discriminate); repeat constructor; discriminate.
Qed.
