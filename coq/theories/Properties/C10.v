(* C10 - API results depend only on the arguments, not on earlier or concurrent calls.
   Property theorems only: each closed by [exact], Print Assumptions beneath. *)
From Coq Require Import List NArith Bool.
From TatsuV Require Import Lib.Api Lib.ApiProof.
Import ListNotations.

(* The shipped compile (cache key = (name, hasha(grammar), id(semantics)); `model.semantics = ..` executed on the
   cached object after the lookup) is history dependent.  Witness computed in Coq and replayed on the real code by
   harness/props/c10.py: h = [compile(g, asmodel=True)], c = compile(g).parse(t). *)
Theorem C10_history_independent_refuted :
  exists (h : list op) (c : op),
    result_after RT all_valid free_result free_gen (compile_f all_valid boot_plain) h c
    <> result_fresh RT all_valid free_result free_gen (compile_f all_valid boot_plain) h c.
Proof. exact history_independent_refuted. Qed.
Print Assumptions C10_history_independent_refuted.

(* second witness: h = [compile(g)], c = compile(g, whitespace=''): fresh process -> the bootstrap parse fails;
   after h the cached model is returned (the settings are not part of the key) *)
Theorem C10_history_independent_refuted_settings :
  exists (h : list op) (c : op),
    result_after RT all_valid free_result free_gen (compile_f all_valid boot_plain) h c
    <> result_fresh RT all_valid free_result free_gen (compile_f all_valid boot_plain) h c
    /\ result_fresh RT all_valid free_result free_gen (compile_f all_valid boot_plain) h c = RErr EBoot.
Proof. exact history_independent_refuted_settings. Qed.
Print Assumptions C10_history_independent_refuted_settings.

(* third witness (aliasing): m = compile(g); compile(g, asmodel=True); m.parse(t) *)
Theorem C10_history_independent_refuted_alias :
  exists (h : list op) (v : nat) (p : pargs),
    result_after RT all_valid free_result free_gen (compile_f all_valid boot_plain) h (OParseVar v p)
    <> result_fresh RT all_valid free_result free_gen (compile_f all_valid boot_plain) h (OParseVar v p).
Proof. exact history_independent_refuted_alias. Qed.
Print Assumptions C10_history_independent_refuted_alias.

(* The repaired compile (fixes/C10-compile-cache-key.patch: the key holds every argument the model depends on,
   unkeyable arguments bypass the cache, a cached model is never written to): for EVERY history h of API calls
   (compile / model.parse on an earlier model / compile+parse / tatsu.parse / to_python_sourcecode) and every
   call c, for every interpretation of the pure parts, the result of c after h is the result of the same call
   in a fresh process (a call on a model variable being replayed as compile-with-the-same-arguments + call). *)
Theorem C10_history_independent :
  forall (R : Type) (settings_valid : N -> bool) (boot_ok : option N -> N -> N -> bool)
         (result_of : gmodel -> sem -> N -> R) (gen_of : gmodel -> R)
         (h : list op) (c : op),
    result_after R settings_valid result_of gen_of (compile_r settings_valid boot_ok) h c
    = result_fresh R settings_valid result_of gen_of (compile_r settings_valid boot_ok) h c.
Proof. exact history_independent_repaired. Qed.
Print Assumptions C10_history_independent.

(* no API call of the repaired model writes to an object that is already on the heap *)
Theorem C10_cached_models_never_mutated :
  forall (R : Type) (settings_valid : N -> bool) (boot_ok : option N -> N -> N -> bool)
         (result_of : gmodel -> sem -> N -> R) (gen_of : gmodel -> R)
         (o : op) (st : state) (i : nat) (ob : obj),
    nth_error (heap st) i = Some ob ->
    nth_error (heap (fst (run_op R settings_valid result_of gen_of (compile_r settings_valid boot_ok) st o))) i = Some ob.
Proof. exact repaired_never_mutates. Qed.
Print Assumptions C10_cached_models_never_mutated.

(* a parse on an existing model leaves the shared state (cache, heap: grammar models and their configuration)
   untouched, for the shipped and for the repaired compile alike *)
Theorem C10_parse_does_not_mutate :
  forall (R : Type) (settings_valid : N -> bool) (result_of : gmodel -> sem -> N -> R) (gen_of : gmodel -> R)
         (compile : cargs -> state -> state * (err + nat)) (st : state) (v : nat) (p : pargs),
    fst (run_op R settings_valid result_of gen_of compile st (OParseVar v p)) = st.
Proof. exact parse_does_not_mutate. Qed.
Print Assumptions C10_parse_does_not_mutate.

(* `bound`: every field of the context a parse reads is assigned by the entry code from `self._config`, the
   call's arguments and the text before the body runs; so whatever an earlier parse on the same context / parser
   object did - succeed, fail, leave anything in any volatile field - the next parse is unaffected.
   Premise: the body never assigns `self._config`. *)
Theorem C10_failed_parse_leaves_no_state :
  forall (Cfg Txt Vol Out : Type) (override : Cfg -> Cfg -> Cfg)
         (fresh_memos fresh_results fresh_states fresh_tracer : Cfg -> Txt -> Vol)
         (kw_of sem_of heart_of : Cfg -> Vol) (cleared : Vol)
         (body : ctx Cfg Vol -> Out * ctx Cfg Vol),
    (forall c, x_config _ _ (snd (body c)) = x_config _ _ c) ->
    forall c cfg1 t1 cfg2 t2,
      ctx_parse Cfg Txt Vol Out override fresh_memos fresh_results fresh_states fresh_tracer kw_of sem_of heart_of
                cleared body
                (snd (ctx_parse Cfg Txt Vol Out override fresh_memos fresh_results fresh_states fresh_tracer kw_of
                                sem_of heart_of cleared body c cfg1 t1)) cfg2 t2
      = ctx_parse Cfg Txt Vol Out override fresh_memos fresh_results fresh_states fresh_tracer kw_of sem_of heart_of
                  cleared body c cfg2 t2.
Proof. exact failed_parse_leaves_no_state. Qed.
Print Assumptions C10_failed_parse_leaves_no_state.

(* If every write to the shared state is cache[k] := f k for a pure f (wf), and a thread's result does not
   depend on whether a read misses or returns f k (wf), then from every cache that is a subset of the graph of f,
   for EVERY interleaving (schedule = the thread chosen at each atomic step) of N threads, every thread that has
   finished returns what it returns when running alone. *)
Theorem C10_idempotent_caches_schedule_independent :
  forall (K V A : Type) (K_eqb : K -> K -> bool) (f : K -> V),
    (forall a b, K_eqb a b = true -> a = b) ->
    forall (s : list nat) (ps : list (prog K V A)) (c : scache K V),
      good K V f c -> Forall (wf K V A f) ps ->
      forall i p a, nth_error ps i = Some p ->
        nth_error (fst (run_sched K V A K_eqb s ps c)) i = Some (Ret a) ->
        a = run_alone K V A K_eqb p c.
Proof. exact idempotent_caches_schedule_independent. Qed.
Print Assumptions C10_idempotent_caches_schedule_independent.

Theorem C10_schedule_keeps_cache_good :
  forall (K V A : Type) (K_eqb : K -> K -> bool) (f : K -> V),
    (forall a b, K_eqb a b = true -> a = b) ->
    forall s (ps : list (prog K V A)) c, good K V f c -> Forall (wf K V A f) ps ->
      good K V f (snd (run_sched K V A K_eqb s ps c)).
Proof. exact schedule_keeps_cache_good. Qed.
Print Assumptions C10_schedule_keeps_cache_good.

(* non-vacuity *)
Example C10_witness_values :
  result_after RT all_valid free_result free_gen (compile_f all_valid boot_plain) witness1_h witness1_c
  = RVal ({| gm_name := None; gm_gram := 1; gm_settings := 0 |}, SBuilder None, 7%N)
  /\ result_fresh RT all_valid free_result free_gen (compile_f all_valid boot_plain) witness1_h witness1_c
  = RVal ({| gm_name := None; gm_gram := 1; gm_settings := 0 |}, SNone, 7%N).
Proof. exact witness1_values. Qed.

Example C10_repaired_on_witnesses :
  result_after RT all_valid free_result free_gen (compile_r all_valid boot_plain) witness1_h witness1_c
  = RVal ({| gm_name := None; gm_gram := 1; gm_settings := 0 |}, SNone, 7%N)
  /\ result_after RT all_valid free_result free_gen (compile_r all_valid boot_plain) witness2_h witness2_c = RErr EBoot.
Proof. exact repaired_on_witnesses. Qed.

Example C10_sched_example :
  let ps := [ex_thread 3; ex_thread 3] in
  let r := run_sched N N N N.eqb [0; 1; 0; 1] ps [] in
  fst r = [Ret 10%N; Ret 10%N] /\ snd r = [(3, 9); (3, 9)]%N
  /\ Forall (wf N N N ex_f) ps.
Proof. exact sched_example. Qed.
