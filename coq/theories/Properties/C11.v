(* C11 - property theorems only.  The keyword check of semantics_call (validate_is_not_keyword). *)
From Coq Require Import List NArith Bool.
From TatsuV Require Import Base.PyStr Engine.Value Engine.Syntax Engine.Input Engine.Engine Engine.Calls
     Engine.SemProof.
Import ListNotations.

Section C11.
Variable text : str.
Variable re_at : nat -> nat -> option (nat * str).
Variable isalnum isalpha : N -> bool.
Variable lower upper : N -> N.
Variable ic : icfg.
Variable unsafe : list str.
Variable rules : list rule.
Variable ec : ecfg.
Variable act : nat -> value -> aret.
Variable lineat : nat -> nat.
Notation peval' := (peval text re_at isalnum isalpha lower upper ic unsafe rules ec act lineat).
Notation pev := (geval text re_at isalnum isalpha lower ic unsafe (fun _ u => u) (pcall text re_at upper ic rules ec act lineat)).

(* a @name rule never succeeds with a value that is a keyword; under the ignorecase in effect for the parse
   both the value and the declared keywords are upper-cased before the comparison *)
Theorem C11_never_a_keyword : forall n r rl f p v fb node f',
  get_rule rules r = Some rl ->
  (if r_tokn rl then Some (pos f) else next_token text re_at ic (pos f)) = Some p ->
  pev n (r_exp rl) (push (newf p)) tt = (Ok v fb, tt) ->
  r_isname rl = true ->
  peval' (S n) (Call r) f = Ok node f' ->
  forall s, fold fb = VStr s ->
    if ignorecase ic then mem_str (map upper s) (map (map upper) (keywords ec)) = false
    else mem_str s (keywords ec) = false.
Proof.
  intros n r rl f p v fb node f' Hrl Hp Hb Hn E s Hs.
  rewrite (call_outcome text re_at isalnum isalpha lower upper ic unsafe rules ec lineat act n r rl f p v fb Hrl Hp Hb) in E.
  rewrite Hn in E. cbn [andb] in E. unfold is_keyword in E. rewrite Hs in E.
  destruct (ignorecase ic).
  - destruct (mem_str (map upper s) (map (map upper) (keywords ec))); [discriminate|reflexivity].
  - destruct (mem_str s (keywords ec)); [discriminate|reflexivity].
Qed.

(* the rejection is an ordinary failure carrying the caller's cut flag, so other alternatives are tried *)
Theorem C11_rejection_is_failure : forall n r rl f p v fb,
  get_rule rules r = Some rl ->
  (if r_tokn rl then Some (pos f) else next_token text re_at ic (pos f)) = Some p ->
  pev n (r_exp rl) (push (newf p)) tt = (Ok v fb, tt) ->
  r_isname rl && is_keyword upper ic ec (fold fb) = true ->
  peval' (S n) (Call r) f = Fail (cutseen f).
Proof.
  intros n r rl f p v fb Hrl Hp Hb Hk.
  rewrite (call_outcome text re_at isalnum isalpha lower upper ic unsafe rules ec lineat act n r rl f p v fb Hrl Hp Hb).
  rewrite Hk. reflexivity.
Qed.

(* a value that is not a keyword is accepted exactly as the undecorated rule accepts it *)
Theorem C11_non_keywords_unaffected : forall n r rl f p v fb,
  get_rule rules r = Some rl ->
  (if r_tokn rl then Some (pos f) else next_token text re_at ic (pos f)) = Some p ->
  pev n (r_exp rl) (push (newf p)) tt = (Ok v fb, tt) ->
  is_keyword upper ic ec (fold fb) = false ->
  peval' (S n) (Call r) f =
    match act r (fold fb) with
    | ANone => let node := with_parseinfo ec lineat (fold fb) r p (pos fb) in Ok node (append (goto f (pos fb)) node)
    | ARet w => let node := with_parseinfo ec lineat w r p (pos fb) in Ok node (append (goto f (pos fb)) node)
    | AFailed => Fail (cutseen f)
    | ARaise x => Fatal (Foreign x)
    end.
Proof.
  intros n r rl f p v fb Hrl Hp Hb Hk.
  rewrite (call_outcome text re_at isalnum isalpha lower upper ic unsafe rules ec lineat act n r rl f p v fb Hrl Hp Hb).
  rewrite Hk, andb_false_r. reflexivity.
Qed.

End C11.
Print Assumptions C11_never_a_keyword.
Print Assumptions C11_rejection_is_failure.
Print Assumptions C11_non_keywords_unaffected.
