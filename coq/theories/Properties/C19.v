(* C19 - property theorems only: each closed by [exact], Print Assumptions beneath. *)
From Coq Require Import List NArith.
From TatsuV Require Import Base.PyStr Lib.Rle Lib.RleProof Lib.Queue Lib.QueueProof Lib.QueueGen Lib.QueueGenProof.
Import ListNotations.
Local Open Scope nat_scope.

(* run-length layer: lossless for every string (single-pass decoder, after the fix: commit) *)
Theorem C19_rle_roundtrip : forall s : str, rle_decode (rle_encode s) = s.
Proof. exact rle_roundtrip. Qed.
Print Assumptions C19_rle_roundtrip.

(* the decoder shipped at the pinned commit (two passes) is not an inverse: witness "~a1~" *)
Theorem C19_rle_twopass_refuted : exists s : str, rle_decode_twopass (rle_encode s) <> s.
Proof. exact rle_twopass_refuted. Qed.
Print Assumptions C19_rle_twopass_refuted.

(* every interleaving of sends and receives, each receive seeing the file cut after any number of
   complete lines: delivered = the good packets of a prefix of the file, in order, none twice;
   a receive that sees the whole file completes it.  Hypothesis: packet ids are pairwise distinct. *)
Theorem C19_queue_exactly_once_in_order : forall ops : list op,
  let st := run ops in
  NoDup (goods (fst st)) ->
  delivered (snd st) = goods (firstn (told (snd st)) (fst st))
  /\ told (snd st) <= length (fst st)
  /\ NoDup (delivered (snd st))
  /\ delivered (recv (fst st) (length (fst st)) (snd st)) = goods (fst st).
Proof. exact queue_exactly_once_in_order. Qed.
Print Assumptions C19_queue_exactly_once_in_order.

Theorem C19_queue_truncation_safe : forall file k r,
  NoDup (goods file) -> FInv file r -> told r <= k <= length file ->
  let r' := recv file k r in
  told r' = k /\ delivered r' = goods (firstn k file)
  /\ exists new, delivered r' = delivered r ++ new /\ new = goods (skipn (told r) (firstn k file)).
Proof. exact queue_truncation_safe. Qed.
Print Assumptions C19_queue_truncation_safe.

Theorem C19_queue_corrupt_never_delivered : forall ops : list op,
  let st := run ops in NoDup (goods (fst st)) ->
  forall i, In i (delivered (snd st)) -> In (Good i) (fst st).
Proof. exact queue_corrupt_never_delivered. Qed.
Print Assumptions C19_queue_corrupt_never_delivered.

(* non-vacuity: a concrete history with a corrupt line and a cut-short read *)
Example C19_queue_example :
  let ops := [Send (Good 1); Send Corrupt; Recv 1; Send (Good 2); Recv 2; Send (Good 3); Recv 4] in
  NoDup (goods (fst (run ops))) /\ delivered (snd (run ops)) = [1; 2; 3]%N.
Proof. split; [repeat constructor; cbn; intuition discriminate | reflexivity]. Qed.

(* receive() is a generator: any number of live generators on ONE reader object, advanced in any order with sends in
   between (each keeps its own position in the file, _told and _seen are shared): what has been delivered is exactly
   the good packets among the first _told lines, in file order, none twice; every yield delivers exactly one new
   packet and a generator that runs to its end leaves nothing undelivered. *)
Theorem C19_queue_generators_exactly_once_in_order : forall ops : list gop,
  NoDup (goods (gfile (grun ops))) ->
  delivered (grd (grun ops)) = goods (firstn (told (grd (grun ops))) (gfile (grun ops)))
  /\ told (grd (grun ops)) <= length (gfile (grun ops))
  /\ NoDup (delivered (grd (grun ops))).
Proof. exact generators_exactly_once_in_order. Qed.
Print Assumptions C19_queue_generators_exactly_once_in_order.

Theorem C19_queue_generator_next_delivers : forall (ops : list gop) j p,
  NoDup (goods (gfile (grun ops))) -> nth_error (gens (grun ops)) j = Some (Some p) ->
  forall y p' r', gstep (skipn p (gfile (grun ops))) p (grd (grun ops)) = (y, p', r') ->
  (y = true -> exists i, delivered r' = delivered (grd (grun ops)) ++ [i])
  /\ (y = false -> delivered r' = goods (gfile (grun ops))).
Proof. exact generator_next_delivers. Qed.
Print Assumptions C19_queue_generator_next_delivers.

(* non-vacuity: one generator is suspended after its first packet, a second one drains the queue, the first resumes *)
Example C19_queue_generators_example :
  let ops := [GSend (Good 1); GSend (Good 2); GSend Corrupt; GSend (Good 3); GOpen; GNext 0; GOpen; GNext 1; GNext 1; GNext 1;
              GSend (Good 4); GNext 0; GNext 0] in
  NoDup (goods (gfile (grun ops))) /\ delivered (grd (grun ops)) = [1; 2; 3; 4]%N /\ gens (grun ops) = [None; None].
Proof. split; [repeat constructor; cbn; intuition discriminate | split; reflexivity]. Qed.
