(* C02 - property theorems only.  Generated parsers run the same runtime as the model interpreter except that
   names are bound to last_node and that `define` is only emitted for sequences (Engine/Gen.v).  The equivalence
   of the two for whole grammars is decided by the correspondences G1/G2 and the implementation oracle of
   harness/props/c02.py; the theorems below characterise where name binding agrees.                          *)
From Coq Require Import List NArith Bool.
From TatsuV Require Import Base.PyStr Engine.Value Engine.Syntax Engine.Input Engine.Engine Engine.Gen Engine.Calls
     Engine.GenProof Engine.GenEquiv.
Import ListNotations.

(* in the fragment "the named expression appends exactly one value" (token, pattern, constant, any-char, {},
   rule call, any repetition, groups and choices of those) last_node IS the value the expression returned *)
Theorem C02_single_append_last_node_partial :
  forall text re_at isalnum isalpha lower ic unsafe (St : Type) (on_cut : frame -> St -> St)
         (on_call : nat -> @ev_t St -> nat -> frame -> St -> res * St),
  (forall k ev r f st v f1 st1, on_call k ev r f st = (Ok v f1, st1) -> last f1 = v /\ cst f1 = cstadd (cst f) v) ->
  forall n e f st r f1 st1, single_append e = true ->
    geval_gen text re_at isalnum isalpha lower ic unsafe on_cut on_call n e f st = (Ok r f1, st1) ->
    last f1 = r /\ (cst f = VNone -> cst f1 = r).
Proof. exact single_append_last. Qed.
Print Assumptions C02_single_append_last_node_partial.

(* so a generated parser binds such a name to the value the model interpreter binds *)
Theorem C02_named_binds_returned_value_partial :
  forall text re_at isalnum isalpha lower ic unsafe (St : Type) (on_cut : frame -> St -> St)
         (on_call : nat -> @ev_t St -> nat -> frame -> St -> res * St),
  (forall k ev r f st v f1 st1, on_call k ev r f st = (Ok v f1, st1) -> last f1 = v /\ cst f1 = cstadd (cst f) v) ->
  forall n nm e f st r f1 st1, single_append e = true ->
    geval_gen text re_at isalnum isalpha lower ic unsafe on_cut on_call n e f st = (Ok r f1, st1) ->
    geval_gen text re_at isalnum isalpha lower ic unsafe on_cut on_call (S n) (Named false nm e) f st
    = (Ok r (set_ast f1 (ast_set unsafe (fast f1) nm r)), st1).
Proof. exact named_binds_returned_value. Qed.
Print Assumptions C02_named_binds_returned_value_partial.

(* the hypothesis about rule calls holds of the engine's call handler *)
Theorem C02_rule_call_appends : forall text re_at upper ic rules ec act lineat k (ev : @ev_t gstate) r f st v f1 st1,
  fcall text re_at upper ic rules ec act lineat k ev r f st = (Ok v f1, st1) ->
  last f1 = v /\ cst f1 = cstadd (cst f) v.
Proof. exact fcall_appends. Qed.
Print Assumptions C02_rule_call_appends.

(* outside the fragment the generated parser differs from the model: n:('a' 'b') on "ab" binds ['a','b'] in the
   model and 'b' in the generated parser (replayed on the real code by the check) *)
Theorem C02_gen_equiv_refuted :
  single_append (Group (Seq [Leaf (LTok [97%N]); Leaf (LTok [98%N])])) = false /\
  (exists f1 f2,
     w_model = Ok (VDict [([110%N], VList false [VStr [97%N]; VStr [98%N]])]) f1 /\
     w_generated = Ok (VDict [([110%N], VStr [98%N])]) f2).
Proof. exact generated_differs_outside_fragment. Qed.
Print Assumptions C02_gen_equiv_refuted.

(* WHOLE-GRAMMAR EQUIVALENCE on the fragment [genok]: every name / override is bound over an expression that appends exactly
   one value (token, pattern, constant, any-char, {}, rule call, any repetition or join, groups and choices of those), options
   of choices and optionals define no names, and there is no list override.  For EVERY text, regex oracle, configuration
   (memoization, cache capacity, pruning, left recursion, parseinfo, keywords), semantic-action oracle and fuel, the generated
   parser and the model interpreter return the same result - value, final frame, outcome class, exception - and leave the same
   engine state (memo cache, seeds, body log).  Outside the fragment they differ (C02_generated_differs_outside_fragment): that
   is finding D2a/D2b, not a gap of the proof. *)
Theorem C02_generated_parser_equals_model :
  forall text re_at isalnum isalpha lower upper ic unsafe rules ec act lineat,
  (forall r rl, get_rule rules r = Some rl -> genok (r_exp rl) = true) ->
  forall n start,
  genparse_with text re_at isalnum isalpha lower upper ic unsafe rules ec act lineat n start
  = parse_with text re_at isalnum isalpha lower upper ic unsafe rules ec act lineat n start.
Proof. exact genparse_equals_parse. Qed.
Print Assumptions C02_generated_parser_equals_model.

(* the fragment holds real grammars: names over choices and joins, optionals, closures, rule calls *)
Example C02_fragment_example :
  genok (Seq [Named false [110%N] (Choice [Leaf (LTok [97%N]); Leaf (LTok [98%N])]);
              Opt (Leaf (LTok [99%N]));
              Named true [109%N] (Rep true (Some (Leaf (LTok [44%N]))) false (Call 1));
              Choice [Call 1; Leaf (LPat 0)]]) = true.
Proof. exact genok_example. Qed.
