(* C03 - property theorems only.  Seed growing for left-recursive rules (recursive_call / grow of
   Engine/Calls.v).  The left-fold of operator chains and termination for the template grammars are decided
   by the correspondence and the independent reference parser of harness/props/c03.py; the theorems below are
   the general facts about the loop ("growing the recursion seed until it stops advancing").                 *)
From Coq Require Import List NArith.
From TatsuV Require Import Base.PyStr Engine.Value Engine.Syntax Engine.Input Engine.Engine Engine.Calls
     Engine.LrecProof Engine.MemoProof.
Import ListNotations.

(* the loop returns the last seed of a strictly advancing chain of seeds *)
Theorem C03_seed_grows_until_it_stops_advancing_partial :
  forall upper ic ec act lineat n (ev : @ev_t gstate) rl r k lastpos best st rr st',
  grow upper ic ec act lineat n ev rl r k lastpos best st = (rr, st') -> (forall x, rr <> RFatal x) ->
  rr = best \/ exists node np, rr = ROk node np /\ match lastpos with Some lp => lp < np | None => True end.
Proof. exact grow_last. Qed.
Print Assumptions C03_seed_grows_until_it_stops_advancing_partial.

(* a grown seed is reused by later invocations at the same position without running the body again *)
Theorem C03_seed_reused :
  forall upper ic ec act lineat n (ev : @ev_t gstate) rl r k st node np,
  left_recursion ec = true -> lookup (results st) k = Some (OOk node np) ->
  recursive_call upper ic ec act lineat n ev rl r k st = (ROk node np, st).
Proof. exact recursive_call_reuses_seed. Qed.
Print Assumptions C03_seed_reused.

(* the re-entrant invocation that starts the recursion fails, so the non-recursive alternatives seed it *)
Theorem C03_reentry_fails_while_seeding :
  forall upper ic ec act lineat n (ev : @ev_t gstate) rl r k st,
  left_recursion ec = true -> lookup (results st) k = Some OGuard ->
  recursive_call upper ic ec act lineat n ev rl r k st = (RFail, st).
Proof. exact recursive_call_initial_seed_fails. Qed.
Print Assumptions C03_reentry_fails_while_seeding.

Theorem C03_left_recursion_off_fails :
  forall upper ic ec act lineat n (ev : @ev_t gstate) rl r k st,
  left_recursion ec = false -> recursive_call upper ic ec act lineat n ev rl r k st = (RFail, st).
Proof. exact recursive_call_off. Qed.
Print Assumptions C03_left_recursion_off_fails.

(* rules that are not on a left cycle keep ordinary PEG behaviour: in a grammar without marked rules the
   engine is the clean semantics (this is C04's theorem; grammars that also contain left-recursive rules are
   covered by the correspondence) *)
Theorem C03_right_recursion_is_peg_partial :
  forall text re_at isalnum isalpha lower upper ic unsafe rules ec act lineat,
  (forall r rl, get_rule rules r = Some rl -> r_lrec rl = false) ->
  forall n e f,
    peval text re_at isalnum isalpha lower upper ic unsafe rules ec act lineat n e f <> Fatal OOF ->
    fst (feval text re_at isalnum isalpha lower upper ic unsafe rules ec act lineat n e f gstate0)
    = peval text re_at isalnum isalpha lower upper ic unsafe rules ec act lineat n e f.
Proof. exact memo_transparent. Qed.
Print Assumptions C03_right_recursion_is_peg_partial.
