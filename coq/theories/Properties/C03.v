(* C03 - property theorems only.  Seed growing for left-recursive rules (recursive_call / grow of
   Engine/Calls.v).  The left-fold of operator chains and termination for the template grammars are decided
   by the correspondence and the independent reference parser of harness/props/c03.py; the theorems below are
   the general facts about the loop ("growing the recursion seed until it stops advancing").                 *)
From Coq Require Import List NArith.
From TatsuV Require Import Base.PyStr Engine.Value Engine.Syntax Engine.Input Engine.Engine Engine.Calls
     Engine.LrecProof Engine.MemoProof Engine.FaithfulBounds Engine.PrefixProof.
Import ListNotations.

(* the loop returns the last seed of a strictly advancing chain of seeds *)
Theorem C03_seed_grows_until_it_stops_advancing_partial :
  forall upper ic ec act lineat n (ev : @ev_t gstate) rl r k lastpos best st rr st',
  grow upper ic ec act lineat n ev rl r k lastpos best st = (rr, st') -> (forall x, rr <> RFatal x) ->
  rr = best \/ exists node np, rr = ROk node np /\ match lastpos with Some lp => lp < np | None => True end.
Proof. exact grow_last. Qed.
Print Assumptions C03_seed_grows_until_it_stops_advancing_partial.

(* a grown seed is reused by later invocations at the same position without running the body again *)
Theorem C03_seed_reused :
  forall upper ic ec act lineat n (ev : @ev_t gstate) rl r k st node np,
  left_recursion ec = true -> lookup (results st) k = Some (OOk node np) ->
  recursive_call upper ic ec act lineat n ev rl r k st = (ROk node np, st).
Proof. exact recursive_call_reuses_seed. Qed.
Print Assumptions C03_seed_reused.

(* the re-entrant invocation that starts the recursion fails, so the non-recursive alternatives seed it *)
Theorem C03_reentry_fails_while_seeding :
  forall upper ic ec act lineat n (ev : @ev_t gstate) rl r k st,
  left_recursion ec = true -> lookup (results st) k = Some OGuard ->
  recursive_call upper ic ec act lineat n ev rl r k st = (RFail, st).
Proof. exact recursive_call_initial_seed_fails. Qed.
Print Assumptions C03_reentry_fails_while_seeding.

Theorem C03_left_recursion_off_fails :
  forall upper ic ec act lineat n (ev : @ev_t gstate) rl r k st,
  left_recursion ec = false -> recursive_call upper ic ec act lineat n ev rl r k st = (RFail, st).
Proof. exact recursive_call_off. Qed.
Print Assumptions C03_left_recursion_off_fails.

(* rules that are not on a left cycle keep ordinary PEG behaviour: in a grammar without marked rules the
   engine is the clean semantics (this is C04's theorem; grammars that also contain left-recursive rules are
   covered by the correspondence) *)
Theorem C03_right_recursion_is_peg_partial :
  forall text re_at isalnum isalpha lower upper ic unsafe rules ec act lineat,
  (forall r rl, get_rule rules r = Some rl -> r_lrec rl = false) ->
  forall n e f,
    peval text re_at isalnum isalpha lower upper ic unsafe rules ec act lineat n e f <> Fatal OOF ->
    fst (feval text re_at isalnum isalpha lower upper ic unsafe rules ec act lineat n e f gstate0)
    = peval text re_at isalnum isalpha lower upper ic unsafe rules ec act lineat n e f.
Proof. exact memo_transparent. Qed.
Print Assumptions C03_right_recursion_is_peg_partial.

(* termination of the seed-growing loop: every seed ends inside the text (memo entries and seeds only ever hold end
   positions between their key and the end of the text - invariant StateOK, carried through every construct), each round
   must end strictly further than the last, so with more rounds available than positions remain the loop never stops for
   lack of rounds: it runs at most len(text) + 2 times, whatever the grammar.  (The body evaluations themselves are
   assumed not to run out of fuel: unbounded recursion inside the body is C16's subject.) *)
Theorem C03_seed_loop_is_bounded_by_the_text :
  forall text re_at isalnum isalpha lower upper ic unsafe rules ec act lineat,
  (forall id pos n v, re_at id pos = Some (n, v) -> pos + n <= len text) ->
  forall m n rl r k st rr st',
  let ev := feval text re_at isalnum isalpha lower upper ic unsafe rules ec act lineat m in
  StateOK text st -> fst k <= len text ->
  (forall st0 st1, rule_call upper ic ec act lineat ev rl r k st0 <> (RFatal OOF, st1)) ->
  S (S (len text)) <= n ->
  grow upper ic ec act lineat n ev rl r k None RFail st = (rr, st') -> rr <> RFatal OOF.
Proof.
  intros text re_at isalnum isalpha lower upper ic unsafe rules ec act lineat RB m n rl r k st rr st' ev S H NOOF Hn E.
  refine (grow_rounds text upper ic ec act lineat ev _ n rl r k None RFail st rr st' S H I NOOF Hn E).
  exact (feval_b text re_at isalnum isalpha lower upper ic unsafe rules ec act lineat RB m).
Qed.
Print Assumptions C03_seed_loop_is_bounded_by_the_text.

(* the invariant is not vacuous: it holds initially and every parse keeps it; a successful left-recursive parse ends in the text *)
Theorem C03_parse_ends_inside_the_text :
  forall text re_at isalnum isalpha lower upper ic unsafe rules ec act lineat,
  (forall id pos n v, re_at id pos = Some (n, v) -> pos + n <= len text) ->
  forall n start v f' st,
  parse_with text re_at isalnum isalpha lower upper ic unsafe rules ec act lineat n start = (Ok v f', st) ->
  pos f' <= len text.
Proof. exact parse_consumed_bounds. Qed.
Print Assumptions C03_parse_ends_inside_the_text.

(* a concrete instance: e = e '+' 'a' | 'a' on "a+a+a" - the seed grows three times and the result is the left fold *)
Example C03_left_fold_witness :
  exists f, fst l_run = Ok (VList true [VList true [l_a; l_plus; l_a]; l_plus; l_a]) f /\ pos f = 5.
Proof. exact lrec_witness. Qed.
Print Assumptions C03_left_fold_witness.

(* ASSOCIATION TO THE LEFT, for any number of rounds and whatever follows the recursive call.
   (1) What a frame has collected is never taken back: its elements stay, in order, a prefix of what it holds later - through
       every construct, the memo cache, the seeds and the seed-growing loop. *)
Theorem C03_collected_elements_are_kept :
  forall text re_at isalnum isalpha lower upper ic unsafe rules ec act lineat n e f st r f' st',
  feval text re_at isalnum isalpha lower upper ic unsafe rules ec act lineat n e f st = (Ok r f', st') ->
  exists rest, items (cst f') = items (cst f) ++ rest.
Proof. exact feval_prefix. Qed.
Print Assumptions C03_collected_elements_are_kept.

(* (2) While the seed for (p, r) is [seed], the alternative `r X...` of the left-recursive rule r collects [seed] as its FIRST
       element: the recursive call is answered from the seed (no body runs, the state is untouched) and everything after it only
       appends.  So the tree of round i is the left operand of the tree of round i+1. *)
Theorem C03_recursive_alternative_starts_with_the_seed :
  forall text re_at isalnum isalpha lower upper ic unsafe rules ec act lineat n r rl xs f st seed q p v f' st',
  get_rule rules r = Some rl -> r_lrec rl = true -> left_recursion ec = true ->
  (if r_tokn rl then Some (pos f) else next_token text re_at ic (pos f)) = Some p ->
  lookup (results st) (p, r) = Some (OOk seed q) ->
  seed <> VNone -> islist seed = false -> cst f = VNone ->
  feval text re_at isalnum isalpha lower upper ic unsafe rules ec act lineat (S (S n)) (Seq (Call r :: xs)) f st = (Ok v f', st') ->
  exists rest, items (cst f') = seed :: rest.
Proof. exact recursive_alternative_starts_with_the_seed. Qed.
Print Assumptions C03_recursive_alternative_starts_with_the_seed.

Theorem C03_new_tree_has_previous_tree_on_the_left :
  forall text re_at isalnum isalpha lower upper ic unsafe rules ec act lineat n r rl xs f st seed q p v f' st',
  get_rule rules r = Some rl -> r_lrec rl = true -> left_recursion ec = true ->
  (if r_tokn rl then Some (pos f) else next_token text re_at ic (pos f)) = Some p ->
  lookup (results st) (p, r) = Some (OOk seed q) ->
  seed <> VNone -> islist seed = false -> cst f = VNone ->
  feval text re_at isalnum isalpha lower upper ic unsafe rules ec act lineat (S (S n)) (Seq (Call r :: xs)) f st = (Ok v f', st') ->
  fast f' = [] ->
  fold f' = seed \/ exists rest, fold f' = VList true (seed :: rest).
Proof. exact new_tree_has_previous_tree_on_the_left. Qed.
Print Assumptions C03_new_tree_has_previous_tree_on_the_left.

(* (3) the whole body `r X... | alternatives` in the frame a rule invocation starts with: either the recursive alternative
       succeeded and the body's frame starts with the seed, or that alternative failed (and a non-recursive one answered) *)
Theorem C03_body_round :
  forall text re_at isalnum isalpha lower upper ic unsafe rules ec act lineat n r rl xs alts f0 st seed q p v fb st',
  get_rule rules r = Some rl -> r_lrec rl = true -> left_recursion ec = true ->
  (if r_tokn rl then Some (pos f0) else next_token text re_at ic (pos f0)) = Some p ->
  lookup (results st) (p, r) = Some (OOk seed q) ->
  seed <> VNone -> islist seed = false -> cst f0 = VNone ->
  feval text re_at isalnum isalpha lower upper ic unsafe rules ec act lineat (S (S (S n)))
        (Choice (Seq (Call r :: xs) :: alts)) f0 st = (Ok v fb, st') ->
  (exists rest, items (cst fb) = seed :: rest) \/
  (exists st1, feval text re_at isalnum isalpha lower upper ic unsafe rules ec act lineat (S (S n)) (Seq (Call r :: xs))
                 (add_defined unsafe (Seq (Call r :: xs)) (push f0)) st = (Fail false, st1)).
Proof. exact body_round. Qed.
Print Assumptions C03_body_round.

(* the hypotheses of the three theorems above are met in a real parse (e = e '+' 'a' | 'a' on "a+a+a", the state in which the seed
   for (0, e) is 'a' ending at 1): the recursive alternative collects ['a'; '+'; 'a'], the seed first *)
Example C03_left_operand_witness :
  lookup (results w_seed_state) (0, 0) = Some (OOk l_a 1) /\
  exists f' st',
    feval l_text (fun _ _ => None) (fun _ => false) (fun _ => false) (fun c => c) (fun c => c) l_ic [] l_rules l_ec
          (fun _ _ => ANone) (fun _ => 0) 10 (Seq [Call 0; Leaf (LTok [43%N]); Leaf (LTok [97%N])]) (newf 0) w_seed_state
      = (Ok (VList false [l_a; l_plus; l_a]) f', st')
    /\ items (cst f') = [l_a; l_plus; l_a].
Proof. exact (proj2 left_operand_witness). Qed.
