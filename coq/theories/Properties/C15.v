(* C15 - the shipped bootstrap parser agrees with the shipped TatSu grammar.

   The terms of TatsuGen.BootGen are REGENERATED from /repo by harness/translate/t_boot.py on every run of the check
   (fail closed), so every equality below is re-decided by the kernel against the current sources:
     t_boot_model        boot/bootparser.py: GRAMMAR_MODEL                    t_boot_model_opt  its .optimized()
     t_compiled          tatsu.compile(_tatsu.ebnf, name='TatSuBootstrap')    t_compiled_opt    its .optimized()
     t_generated         the model the shipped GENERATED parser (boot/bootstrap.py via TatSuParserGenerator) builds
                         for _tatsu.ebnf
     t_interp            the model the compiled grammar, used as a model-interpreting parser with GrammarSemantics,
                         builds for _tatsu.ebnf
     t_bootparser        the model boot/bootparser.py's TatSuBootstrapParser (GRAMMAR_MODEL interpreted) builds for it
     t_regen             the model the parser REGENERATED from _tatsu.ebnf (pythongen, exec'd) builds for it
     py_bootstrap(_regen)   Python syntax tree of boot/bootstrap.py  / of the regenerated source
     py_bootparser(_regen)  Python syntax tree of boot/bootparser.py / of the regenerated source
     boot_rules(_opt)    the rules of t_compiled(_opt) as Engine.Syntax.exp
   The statement "for EVERY grammar text both parsers decide alike and build equal models" is not provable from these
   artefacts alone (GrammarSemantics and the generated-code runtime are Python): the theorems below give the fixpoint
   on the grammar file itself, syntactic identity of the shipped and regenerated parsers, and the binding fragment;
   the quantification over grammar texts is the differential B2 of harness/props/c15.py.                              *)
From Coq Require Import List NArith Bool String.
From TatsuV Require Import Base.PyStr Engine.Value Engine.Syntax Engine.Input Engine.Engine Engine.Gen
     Lib.Boot Lib.BootProof.
From TatsuGen Require Import BootGen.
Import ListNotations.
Local Open Scope string_scope.

(* the decision procedure used below is correct: nested induction over the tree type, no axioms *)
Theorem C15_btree_eqb_decides : forall a b : btree, btree_eqb a b = true <-> a = b.
Proof. exact btree_eqb_eq. Qed.
Print Assumptions C15_btree_eqb_decides.

(* and the difference finder reports real differences only, and every difference *)
Theorem C15_btree_diff_sound : forall a b,
  (btree_diff a b = None -> a = b) /\
  (forall p d, btree_diff a b = Some (p, d) ->
     exists x y, btree_at p a = Some x /\ btree_at p b = Some y /\ differs_here x y d).
Proof. intros a b. split; [exact (btree_diff_none a b) | exact (btree_diff_some a b)]. Qed.
Print Assumptions C15_btree_diff_sound.

(* GRAMMAR_MODEL is the (optimized, as `python -m tatsu -z -x` writes it) model of the grammar file, and optimizing
   it again changes nothing *)
Theorem C15_boot_model_is_grammar_file : t_boot_model = t_compiled_opt /\ t_boot_model_opt = t_boot_model.
Proof. split; apply btree_eqb_true; vm_compute; reflexivity. Qed.
Print Assumptions C15_boot_model_is_grammar_file.

(* the shipped generated parser, the compiled grammar interpreted, the shipped GRAMMAR_MODEL interpreted and the
   regenerated parser all build the same model from the grammar file - the model tatsu.compile returns *)
Theorem C15_generated_parser_builds_same_model :
  t_generated = t_compiled /\ t_interp = t_generated /\ t_bootparser = t_generated /\ t_regen = t_generated.
Proof. repeat split; apply btree_eqb_true; vm_compute; reflexivity. Qed.
Print Assumptions C15_generated_parser_builds_same_model.

(* the checked-in boot/bootstrap.py and boot/bootparser.py ARE what the code generators produce from the grammar
   file today: identical Python syntax trees (comments, i.e. the version header, and layout are not syntax) *)
Theorem C15_bootstrap_py_is_codegen_of_grammar_file :
  py_bootstrap = py_bootstrap_regen /\ py_bootparser = py_bootparser_regen.
Proof. split; apply btree_eqb_true; vm_compute; reflexivity. Qed.
Print Assumptions C15_bootstrap_py_is_codegen_of_grammar_file.

(* FULL statement wanted: every Named/NamedList/Override/OverrideList of the TatSu grammar has a body in the
   single_append fragment of Engine/Gen.v, so that (C02) the generated parser binds every name like the interpreter.
   That is false for four rules; proved: it holds for all the others, and these are exactly the exceptions:
     rule, named_list, named_single :  name=@name   (a Meta leaf; Engine/Gen.v does not model @name. On the real
                                       code ctx.matchname() appends the matched name like a token does - examined
                                       by the check, every generated grammar text exercises it)
     empty_closure                  :  =()          (Void appends nothing: the generated parser binds '@' to the
                                       token '{}' before it, the interpreter to (); EmptyClosure ignores its ast,
                                       so the MODELS agree - the raw ASTs do not; examined by the check)          *)
Definition boot_outside : list str := map s2l ["rule"; "named_list"; "named_single"; "empty_closure"].

Theorem C15_tatsu_grammar_in_gen_safe_fragment_partial :
  (forall rn e, In (rn, e) boot_rules -> ~ In rn boot_outside ->
     forall b, In b (bindings e) -> single_append (bd_body b) = true) /\
  (forall rn e, In (rn, e) boot_rules_opt -> ~ In rn boot_outside ->
     forall b, In b (bindings e) -> single_append (bd_body b) = true) /\
  rules_outside_fragment boot_rules = boot_outside /\
  rules_outside_fragment boot_rules_opt = boot_outside /\
  bad_bindings boot_rules =
    [(s2l "rule", (Some (s2l "name"), Leaf (LMeta MName)));
     (s2l "named_list", (Some (s2l "name"), Leaf (LMeta MName)));
     (s2l "named_single", (Some (s2l "name"), Leaf (LMeta MName)));
     (s2l "empty_closure", (None, Leaf LVoid))].
Proof.
  assert (H1 : fragment_except boot_outside boot_rules = true) by (vm_compute; reflexivity).
  assert (H2 : fragment_except boot_outside boot_rules_opt = true) by (vm_compute; reflexivity).
  assert (M : forall s l, ~ In s l -> mem_str s l = false).
  { intros s l Hn. unfold mem_str. destruct (existsb (str_eqb s) l) eqn:E; [|reflexivity].
    apply existsb_exists in E. destruct E as (x & Hx & Ex). apply str_eqb_eq in Ex. subst x. contradiction. }
  split; [|split; [|split; [|split]]].
  - intros rn e Hin Hout. exact (fragment_except_sound _ _ H1 rn e Hin (M _ _ Hout)).
  - intros rn e Hin Hout. exact (fragment_except_sound _ _ H2 rn e Hin (M _ _ Hout)).
  - vm_compute; reflexivity.
  - vm_compute; reflexivity.
  - vm_compute; reflexivity.
Qed.
Print Assumptions C15_tatsu_grammar_in_gen_safe_fragment_partial.

(* consequence, with C02's theorem: in the model of generated code (Engine/Gen.v), whatever the input text and the
   regex oracle, each of the other bindings of the TatSu grammar binds exactly the value its body returned *)
Theorem C15_boot_bindings_bind_returned_value_partial :
  forall text re_at isalnum isalpha lower ic unsafe (St : Type) (on_cut : frame -> St -> St)
         (on_call : nat -> @ev_t St -> nat -> frame -> St -> res * St),
  (forall k ev r f st v f1 st1, on_call k ev r f st = (Ok v f1, st1) -> last f1 = v /\ cst f1 = cstadd (cst f) v) ->
  forall rn e, In (rn, e) boot_rules -> mem_str rn boot_outside = false ->
  forall b, In b (bindings e) ->
  forall n f st r f1 st1,
    geval_gen text re_at isalnum isalpha lower ic unsafe on_cut on_call n (bd_body b) f st = (Ok r f1, st1) ->
    last f1 = r.
Proof.
  apply fragment_bindings_bind_returned_value. vm_compute; reflexivity.
Qed.
Print Assumptions C15_boot_bindings_bind_returned_value_partial.

(* ---- non-vacuity ---- *)
(* the comparison discriminates: the UNoptimized compiled model is not GRAMMAR_MODEL, and the finder says where *)
Example C15_eqb_discriminates :
  t_boot_model <> t_compiled /\ btree_diff t_boot_model t_compiled <> None.
Proof. split; [apply btree_eqb_false; vm_compute; reflexivity | vm_compute; discriminate]. Qed.

(* the grammar has rules and bindings, every call resolves, and the trees are not trivial *)
Example C15_terms_not_trivial :
  Nat.ltb 50 (List.length boot_rules) = true /\ Nat.ltb 50 (count_bindings boot_rules) = true /\
  forallb (fun r => calls_ok (List.length boot_rules) (snd r)) boot_rules = true /\
  forallb (fun r => calls_ok (List.length boot_rules_opt) (snd r)) boot_rules_opt = true /\
  Nat.ltb 500 (btree_size t_boot_model) = true /\ Nat.ltb 5000 (btree_size py_bootstrap) = true /\
  Nat.ltb 3000 (btree_size py_bootparser) = true.
Proof. repeat split; vm_compute; reflexivity. Qed.

(* a rule inside the fragment exists (the hypothesis of the _partial theorems is satisfiable) *)
Example C15_fragment_rule_exists :
  exists rn e, In (rn, e) boot_rules /\ mem_str rn boot_outside = false /\ bindings e <> [].
Proof.
  exists (fst boot_rules_1), (snd boot_rules_1). split; [right; left; reflexivity|].
  split; [vm_compute; reflexivity | vm_compute; discriminate].
Qed.
