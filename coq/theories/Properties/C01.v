(* C01 - property theorems only: each closed by [exact], Print Assumptions beneath (after the section).
   The documented PEG semantics is the clean evaluator [peval] of Engine/Calls.v (no memo, no seeds);
   the theorems below are its laws, for every grammar, text, oracle, configuration and frame.        *)
From Coq Require Import List NArith.
From TatsuV Require Import Engine.AssocProof Engine.KeysProof.
From TatsuV Require Engine.PrefixProof.
From TatsuV Require Import Base.PyStr Engine.Value Engine.Syntax Engine.Input Engine.Engine Engine.Calls
     Engine.EngineRel Engine.CleanLaws Engine.MemoProof Engine.BoundsProof Engine.FaithfulBounds.
Import ListNotations.

Section C01.
Variable text : str.
Variable re_at : nat -> nat -> option (nat * str).
Variable isalnum isalpha : N -> bool.
Variable lower upper : N -> N.
Variable ic : icfg.
Variable unsafe : list str.
Variable rules : list rule.
Variable ec : ecfg.
Variable act : nat -> value -> aret.
Variable lineat : nat -> nat.
Notation peval' := (peval text re_at isalnum isalpha lower upper ic unsafe rules ec act lineat).
Notation feval' := (feval text re_at isalnum isalpha lower upper ic unsafe rules ec act lineat).

(* the semantics is a function of (grammar, text, frame): fuel only decides termination *)
Theorem C01_semantics_deterministic : forall n1 n2 e f,
  peval' n1 e f <> Fatal OOF -> peval' n2 e f <> Fatal OOF -> peval' n1 e f = peval' n2 e f.
Proof. exact (peval_deterministic text re_at isalnum isalpha lower upper ic unsafe rules ec act lineat). Qed.

(* ordered choice: the first option that succeeds wins and the options after it are not consulted *)
Theorem C01_choice_ordered : forall n es1 e es2 f r f1,
  (forall x, In x es1 -> peval' n x (add_defined unsafe x (push f)) = Fail false) ->
  peval' n e (add_defined unsafe e (push f)) = Ok r f1 ->
  peval' (S n) (Choice (es1 ++ e :: es2)) f = Ok r (merge f f1).
Proof. exact (peval_choice_first_success text re_at isalnum isalpha lower upper ic unsafe rules ec act lineat). Qed.

Theorem C01_choice_all_fail : forall n es f,
  (forall x, In x es -> peval' n x (add_defined unsafe x (push f)) = Fail false) ->
  peval' (S n) (Choice es) f = Fail (cutseen f).
Proof. exact (peval_choice_all_fail text re_at isalnum isalpha lower upper ic unsafe rules ec act lineat). Qed.

(* optional: matches or is skipped leaving the frame untouched *)
Theorem C01_optional : forall n e f,
  peval' (S n) (Opt e) f =
    match peval' n e (add_defined unsafe (Opt e) (push f)) with
    | Ok r f1 => Ok r (merge f f1)
    | Fail true => Fail (cutseen f)
    | Fail false => Ok VNone f
    | Fatal x => Fatal x
    end.
Proof. exact (peval_optional text re_at isalnum isalpha lower upper ic unsafe rules ec act lineat). Qed.

(* lookaheads never consume input nor touch cst, ast or the cut flag, and contribute no value to their sequence *)
Theorem C01_lookahead_pure : forall n neg e f r f',
  peval' (S n) (Look neg e) f = Ok r f' -> f' = f /\ r = VNone.
Proof. exact (peval_lookahead_pure text re_at isalnum isalpha lower upper ic unsafe rules ec act lineat). Qed.

Theorem C01_lookahead_iff : forall n e f,
  (exists r f1, peval' n e (push f) = Ok r f1) <-> peval' (S n) (Look false e) f = Ok VNone f.
Proof. exact (peval_lookahead_iff text re_at isalnum isalpha lower upper ic unsafe rules ec act lineat). Qed.

Theorem C01_neg_lookahead_iff : forall n e f,
  (exists c, peval' n e (push f) = Fail c) <-> peval' (S n) (Look true e) f = Ok VNone f.
Proof. exact (peval_neg_lookahead_iff text re_at isalnum isalpha lower upper ic unsafe rules ec act lineat). Qed.

(* closures and joins always yield a closed list, spliced as ONE element into the caller's cst *)
Theorem C01_closure_shape : forall n sep omitsep e f r f',
  peval' (S n) (Rep false sep omitsep e) f = Ok r f' ->
  exists items, r = VList true items /\ cutseen f' = cutseen f /\ fast f' = fast f' /\
                cst f' = cstmerge (cst f) (VList true items).
Proof. exact (peval_closure_shape text re_at isalnum isalpha lower upper ic unsafe rules ec act lineat). Qed.

(* greedy, non-backtracking repetition: an iteration that is accepted has consumed input *)
Theorem C01_repetition_progress : forall (ev : @ev_t unit) e sep omitsep f f',
  repeat_iter (fun _ u => u) ev e sep omitsep f tt = (IOk f', tt) -> pos f' <> pos f.
Proof. exact repeat_iter_progress. Qed.

(* a rule's value is handed to its caller by ONE cstadd: one element of the caller, unless the value is an open list
   (see C01_rule_value_one_element_refuted below) *)
Theorem C01_call_one_element : forall n r f v f',
  peval' (S n) (Call r) f = Ok v f' ->
  exists np, f' = append (goto f np) v /\ cutseen f' = cutseen f /\ fast f' = fast f
             /\ cst f' = cstadd (cst f) v.
Proof. exact (peval_call_one_element text re_at isalnum isalpha lower upper ic unsafe rules ec act lineat). Qed.

(* the exact guard: the caller's elements grow by exactly the rule's value, unless that value is None (D1b) or an open list (D1a);
   a rule body without an override never yields an open list *)
Theorem C01_call_one_element_exact : forall n r f v f',
  peval' (S n) (Call r) f = Ok v f' -> v <> VNone -> islist v = false ->
  items (cst f') = items (cst f) ++ [v].
Proof. exact (peval_call_one_element_exact text re_at isalnum isalpha lower upper ic unsafe rules ec act lineat). Qed.

Theorem C01_rule_value_closed_without_override : forall f,
  ast_get (fast f) key_at = None -> islist (fold f) = false.
Proof. exact fold_closed. Qed.

(* the engine that actually runs (memo, guards, pruning) computes this semantics (C04's theorem) *)
Theorem C01_faithful_is_clean :
  (forall r rl, get_rule rules r = Some rl -> r_lrec rl = false) ->
  forall n e f, peval' n e f <> Fatal OOF -> fst (feval' n e f gstate0) = peval' n e f.
Proof. exact (memo_transparent text re_at isalnum isalpha lower upper ic unsafe rules ec act lineat). Qed.

(* a successful evaluation consumes a prefix: it never moves backwards and never leaves the text (for every regex
   oracle whose matches lie inside the text) *)
Theorem C01_consumed_bounds :
  (forall id pos n v, re_at id pos = Some (n, v) -> pos + n <= len text) ->
  forall n e f r f', peval' n e f = Ok r f' -> pos f <= len text -> pos f <= pos f' <= len text.
Proof. exact (peval_consumed_bounds text re_at isalnum isalpha lower upper ic unsafe rules ec act lineat). Qed.

(* the same for the engine as it runs (memo, seeds, left recursion): a successful parse ends inside the text *)
Theorem C01_consumed_bounds_faithful :
  (forall id pos n v, re_at id pos = Some (n, v) -> pos + n <= len text) ->
  forall n start v f' st,
  parse_with text re_at isalnum isalpha lower upper ic unsafe rules ec act lineat n start = (Ok v f', st) -> pos f' <= len text.
Proof. exact (parse_consumed_bounds text re_at isalnum isalpha lower upper ic unsafe rules ec act lineat). Qed.

(* THE DICT LAW "a dict of the named elements with None/[] for names that did not match":
   no construct ever removes a name from the AST of a frame (a unary invariant through every construct) ... *)
Theorem C01_names_are_never_removed : forall n e f r f',
  peval' n e f = Ok r f' -> forall k, ast_has (fast f) k = true -> ast_has (fast f') k = true.
Proof. exact (peval_keys_grow text re_at isalnum isalpha lower upper ic unsafe rules ec act lineat). Qed.

(* ... a sequence defines every name written in it - also those inside optionals, closures, lookaheads and options that
   will not match - before its first element runs, so after a successful sequence every such name is a key ... *)
Theorem C01_sequence_defines_all_names : forall n es f r f',
  peval' (S n) (Seq es) f = Ok r f' ->
  forall nm, In nm (def_single (Seq es)) \/ In nm (def_list (Seq es)) -> ast_has (fast f') (safekey unsafe nm) = true.
Proof. exact (peval_sequence_defines_all_names text re_at isalnum isalpha lower upper ic unsafe rules ec act lineat). Qed.

(* the same in the engine as it runs (memo cache, seeds, the seed-growing loop, every configuration) *)
Theorem C01_sequence_defines_all_names_faithful : forall n es f st r f' st',
  feval' (S n) (Seq es) f st = (Ok r f', st') ->
  forall nm, In nm (def_single (Seq es)) \/ In nm (def_list (Seq es)) -> ast_has (fast f') (safekey unsafe nm) = true.
Proof. exact (feval_sequence_defines_all_names text re_at isalnum isalpha lower upper ic unsafe rules ec act lineat). Qed.

(* ... and the value of a rule whose body is such a sequence (no override) is the dict that holds all of them *)
Theorem C01_sequence_rule_value_is_dict : forall n es p r fb,
  peval' (S n) (Seq es) (push (newf p)) = Ok r fb ->
  (exists nm, In nm (def_single (Seq es)) \/ In nm (def_list (Seq es))) ->
  ast_get (fast fb) key_at = None ->
  fold fb = VDict (fast fb) /\
  forall nm, In nm (def_single (Seq es)) \/ In nm (def_list (Seq es)) -> ast_has (fast fb) (safekey unsafe nm) = true.
Proof. exact (sequence_rule_value_is_dict text re_at isalnum isalpha lower upper ic unsafe rules ec act lineat). Qed.

(* "a list of the elements in order": what a frame has collected is never taken back or reordered - the elements of its cst
   stay, in order, a prefix of what it holds after any further evaluation (every construct) *)
Theorem C01_elements_stay_in_order : forall n e f r f',
  peval' n e f = Ok r f' -> exists rest, PrefixProof.items (cst f') = PrefixProof.items (cst f) ++ rest.
Proof. exact (PrefixProof.peval_prefix text re_at isalnum isalpha lower upper ic unsafe rules ec act lineat). Qed.

(* left / right joins: the flat result e0 op1 e1 op2 e2 ... of the positive join becomes ONE tree, merged into what the
   sequence had collected so far (nothing collected before the join is lost; the cut flag of the caller is untouched) *)
Theorem C01_assoc_join : forall n lft e f v f',
  peval' (S n) (Assoc lft e) f = Ok v f' ->
  exists r f1, peval' n e (push f) = Ok r f1 /\
    v = (if lft then left_assoc else right_assoc) (list_items r) /\
    cst f' = cstmerge (cst f) v /\ pos f' = pos f1 /\ fast f' = fast f1 /\ cutseen f' = cutseen f /\ last f' = v.
Proof. exact (peval_assoc_keeps_collected text re_at isalnum isalpha lower upper ic unsafe rules ec act lineat). Qed.

End C01.

(* the defaults a fresh frame gets: [] for every list name, None or [] for every other name *)
Theorem C01_defaults_are_none_or_empty_list : forall unsafe keys list_keys,
  AllDefault (ast_define unsafe [] keys list_keys) /\
  (forall k, In k list_keys -> ast_get (ast_define unsafe [] keys list_keys) (safekey unsafe k) = Some (VList false [])).
Proof. exact define_fresh_defaults. Qed.

(* the trees: a left join nests to the left, ((e0 op1 e1) op2 e2) ..., a right join to the right, e0 op1 (e1 op2 (e2 ...)),
   for ANY number of operands; each node is the open list [op; left; right] *)
Theorem C01_left_join_tree : forall e0 ps,
  left_assoc (e0 :: flat ps) = fold_left (fun a p => node (fst p) a (snd p)) ps e0.
Proof. exact left_assoc_spec. Qed.

Theorem C01_right_join_tree : forall e0 ps, right_assoc (e0 :: flat ps) = right_nest e0 ps.
Proof. exact right_assoc_spec. Qed.

(* ... and nothing is lost, duplicated or reordered: the value is a left- (right-) leaning binary tree whose in-order walk
   is exactly the flat list e0 op1 e1 op2 e2 ... the positive join matched *)
Theorem C01_left_join_inorder : forall e0 ps,
  exists t, left_assoc (e0 :: flat ps) = tval t /\ tin t = e0 :: flat ps /\ left_leaning t.
Proof. exact left_join_inorder. Qed.

Theorem C01_right_join_inorder : forall ps e0,
  exists t, right_assoc (e0 :: flat ps) = tval t /\ tin t = e0 :: flat ps /\ right_leaning t.
Proof. exact right_join_inorder. Qed.

(* the full statement "a rule's value is always one element of its caller" is FALSE of the faithful model (and of the
   code: replayed by harness/props/c01.py): start = r 'c' ; r = @:('a' 'b') on "abc" yields ['a','b','c'], not [['a','b'],'c'] *)
Theorem C01_rule_value_one_element_refuted :
  exists f, o_run = Ok (VList true [VStr [97%N]; VStr [98%N]; VStr [99%N]]) f.
Proof. exact override_list_is_flattened. Qed.
Print Assumptions C01_consumed_bounds.
Print Assumptions C01_assoc_join.
Print Assumptions C01_elements_stay_in_order.
Print Assumptions C01_names_are_never_removed.
Print Assumptions C01_sequence_defines_all_names.
Print Assumptions C01_sequence_rule_value_is_dict.
Print Assumptions C01_sequence_defines_all_names_faithful.
Print Assumptions C01_defaults_are_none_or_empty_list.
Print Assumptions C01_left_join_tree.
Print Assumptions C01_right_join_tree.
Print Assumptions C01_left_join_inorder.
Print Assumptions C01_right_join_inorder.
Print Assumptions C01_consumed_bounds_faithful.
Print Assumptions C01_semantics_deterministic.
Print Assumptions C01_choice_ordered.
Print Assumptions C01_choice_all_fail.
Print Assumptions C01_optional.
Print Assumptions C01_lookahead_pure.
Print Assumptions C01_lookahead_iff.
Print Assumptions C01_neg_lookahead_iff.
Print Assumptions C01_closure_shape.
Print Assumptions C01_repetition_progress.
Print Assumptions C01_call_one_element.
Print Assumptions C01_call_one_element_exact.
Print Assumptions C01_rule_value_closed_without_override.
Print Assumptions C01_faithful_is_clean.
Print Assumptions C01_rule_value_one_element_refuted.
