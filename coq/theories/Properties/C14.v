(* C14 - property theorems only: each closed by [exact], Print Assumptions beneath. *)
From Coq Require Import List NArith ZArith.
From TatsuV Require Import Base.PyStr Lib.Json Lib.JsonProof.
Import ListNotations.
Local Open Scope N_scope.

(* asjson over any finite heap - shared and cyclic references allowed - returns a value with the
   fuel |heap|+1 (no fuel exhaustion), and unless the heap holds a class object the value consists of
   JSON-dumpable constructors only.  bk = vars(BaseNode).keys() (supplied by the harness). *)
Theorem C14_asjson_terminates : forall (bk : list str) (h : heap) (v : val),
  exists j, asjson bk h v = Some j /\ (no_types h = true -> dumpable j = true).
Proof. exact asjson_terminates. Qed.
Print Assumptions C14_asjson_terminates.

(* a reference to an object on the current path (a back edge) is rendered as "<type>@0x<ID>" *)
Theorem C14_asjson_back_edges_are_references : forall bk n h seen i nd,
  lookup h i = Some nd -> In i seen ->
  dfs bk (S n) h seen (VRef i) = Some (JStr (refstr (tyname nd) i)).
Proof. exact dfs_back_edge. Qed.
Print Assumptions C14_asjson_back_edges_are_references.

(* the result does not depend on the fuel once it suffices *)
Theorem C14_asjson_fuel_irrelevant : forall bk h n seen v j,
  dfs bk n h seen v = Some j -> dfs bk (S n) h seen v = Some j.
Proof. exact dfs_fuel_mono. Qed.
Print Assumptions C14_asjson_fuel_irrelevant.

(* fromjson (asjson g) is g with the non-init fields dropped, for every tree of grammar-like nodes
   that holds no string starting with backslash-e-[ or f{ *)
Theorem C14_json_roundtrip : forall reg (g : pyv),
  grammar_like reg g = true -> no_style_like_strings g = true ->
  fromjson reg (asjson_tree g) = strip reg g.
Proof. exact json_roundtrip. Qed.
Print Assumptions C14_json_roundtrip.

Theorem C14_json_roundtrip_id : forall reg (g : pyv),
  grammar_like reg g = true -> no_style_like_strings g = true -> all_initable reg g = true ->
  fromjson reg (asjson_tree g) = g.
Proof. exact json_roundtrip_id. Qed.
Print Assumptions C14_json_roundtrip_id.

(* the guard is needed: Token('f{a') and Token(backslash-e-[) do not come back (D9) *)
Theorem C14_json_roundtrip_refuted :
  exists g, grammar_like sample_reg g = true /\ all_initable sample_reg g = true
            /\ fromjson sample_reg (asjson_tree g) <> g.
Proof. exact json_roundtrip_refuted. Qed.
Print Assumptions C14_json_roundtrip_refuted.

Theorem C14_json_roundtrip_refuted_esc :
  exists g, grammar_like sample_reg g = true /\ all_initable sample_reg g = true
            /\ fromjson sample_reg (asjson_tree g) <> g.
Proof. exact json_roundtrip_refuted_esc. Qed.
Print Assumptions C14_json_roundtrip_refuted_esc.

(* ---- non-vacuity ---------------------------------------------------------------------------- *)
Definition s_list : str := [108;105;115;116].
Definition s_dict : str := [100;105;99;116].
Definition s_ref : str := [114;101;102].
Definition s_N : str := [78].
Definition s_parent : str := [95;112;97;114;101;110;116;95;114;101;102].   (* _parent_ref *)
Definition s_kid : str := [107;105;100].

(* a cycle through a list and a dict, plus a shared (not cyclic) reference to 3 *)
Definition cyc_heap : heap :=
  [ (1, mkNode s_list (KSeq [VRef 1; VRef 2; VRef 3; VRef 3]));
    (2, mkNode s_dict (KMap [([97], VRef 1); ([98], VStr [120])]));
    (3, mkNode s_list (KSeq [VInt 7])) ].

Example C14_cycle_example :
  asjson [] cyc_heap (VRef 1)
  = Some (JArr [JStr (s_list ++ [64;48;120;49]);
                JObj [([97], JStr (s_list ++ [64;48;120;49])); ([98], JStr [120])];
                JArr [JInt 7]; JArr [JInt 7]]).
Proof. reflexivity. Qed.

(* a node with a child that points back through a weak parent reference and through a strong attribute *)
Definition node_heap : heap :=
  [ (10, mkNode s_N (KObj FNode [k_ast; s_kid] [(k_ast, VNone); (s_kid, VRef 11); (s_parent, VNone)]));
    (11, mkNode s_N (KObj FNode [k_ast; s_kid] [(k_ast, VStr [97]); (s_kid, VRef 10); (s_parent, VRef 12)]));
    (12, mkNode s_ref KWeak) ].

Example C14_node_example :
  asjson [k_ast] node_heap (VRef 10)
  = Some (JObj [(cls_key, JStr s_N);
                (s_kid, JObj [(cls_key, JStr s_N); (s_kid, JStr (s_N ++ [64;48;120;65]))])]).
Proof. reflexivity. Qed.

(* the guards of the round trip hold for a rule with a group, tokens (one containing f{ inside) and
   a non-init field, and the reloaded tree differs from the original exactly by that field *)
Example C14_roundtrip_example :
  grammar_like sample_reg sample_rule = true /\ no_style_like_strings sample_rule = true
  /\ fromjson sample_reg (asjson_tree sample_rule) = strip sample_reg sample_rule
  /\ strip sample_reg sample_rule <> sample_rule.
Proof. repeat split; try reflexivity. vm_compute. discriminate. Qed.
