(* C13 - property theorems only: each closed by [exact], Print Assumptions beneath. *)
From Coq Require Import List NArith Bool.
From TatsuV Require Import Base.PyStr Lib.Pretty Lib.PrettyProof Lib.Rails Lib.RailsProof.
Import ListNotations.
Local Open Scope N_scope.

(* Token._pretty = repr(token) is read back by the string lexeme + eval_escapes as the same text, for every
   non-empty text of valid code points that does NOT contain both kinds of quote; [printable] is the
   Unicode oracle of repr (any function); [rest] is whatever follows the token in the grammar text. *)
Theorem C13_token_quoting_roundtrip : forall (printable : N -> bool) (s rest : str),
  s <> [] -> Forall (fun c => c <= 1114111) s -> has c_sq s && has c_dq s = false ->
  unquote (py_repr printable s ++ rest) = Some (EOk s, rest).
Proof. exact token_quoting_roundtrip. Qed.
Print Assumptions C13_token_quoting_roundtrip.

(* the unguarded statement is false at this commit: the text of the two characters ' and the double quote *)
Theorem C13_token_quoting_roundtrip_refuted : forall printable : N -> bool,
  exists s, s <> [] /\ unquote (py_repr printable s) <> Some (EOk s, []).
Proof. exact token_quoting_refuted. Qed.
Print Assumptions C13_token_quoting_roundtrip_refuted.

(* Pattern._pretty (after its trim) is read back by the regex lexemes as the same pattern text when
   - without a slash: every backslash is followed by a character (true of every valid regex);
   - with a slash: there is no double quote and no newline in the pattern. *)
Theorem C13_pattern_quoting_roundtrip : forall p rest : str,
  p <> [] ->
  (has c_slash p = false -> bs_paired p = true) ->
  (has c_slash p = true -> has c_dq p = false /\ has c_nl p = false) ->
  lex_regex (pattern_pretty p ++ rest) = Some (p, rest).
Proof. exact pattern_quoting_roundtrip. Qed.
Print Assumptions C13_pattern_quoting_roundtrip.

Theorem C13_pattern_quoting_roundtrip_refuted :
  exists p, p <> [] /\ bs_paired p = true /\ lex_regex (pattern_pretty p) <> Some (p, []).
Proof. exact pattern_quoting_refuted. Qed.
Print Assumptions C13_pattern_quoting_roundtrip_refuted.

(* railmath.py: loop / stopnloop return lines of one display width for ANY argument; weldtwo / weld do when
   each argument has one width.  [cw] is the display width of a character; the only hypothesis is that the
   blank, the arrows and the box-drawing characters used by railmath are narrow.
   FULL STATEMENT (not proved): for every model, every line of tracks(model) has the same width; missing:
   lay_out (only its inner rows: lay_mid_len) and the induction over the node types of walker.py. *)
Theorem C13_rails_equal_width_partial : forall cw : N -> nat,
  (forall c, In c lit_chars -> cw c = 1%nat) ->
  (forall r, exists n, all_len cw n (loop cw r)) /\
  (forall r, exists n, all_len cw n (stopnloop cw r)) /\
  (forall l r, (exists a, all_len cw a l) -> (exists b, all_len cw b r) -> exists n, all_len cw n (weldtwo cw l r)) /\
  (forall tracks, Forall (fun t => exists n, all_len cw n t) tracks -> exists n, all_len cw n (weld cw tracks)) /\
  (forall n r, all_len cw n r -> one_length cw r = true).
Proof.
  intros cw H. repeat split.
  - exact (loop_len cw H).
  - exact (stopnloop_len cw H).
  - exact (weldtwo_len cw H).
  - exact (weld_len cw H).
  - exact (one_length_all cw).
Qed.
Print Assumptions C13_rails_equal_width_partial.

(* non-vacuity *)
Example C13_token_example :
  unquote (py_repr (fun _ => true) [97; 39; 92; 10] ++ [32]) = Some (EOk [97; 39; 92; 10], [32]).
Proof. vm_compute. reflexivity. Qed.

Example C13_pattern_example :
  lex_regex (pattern_pretty [97; 47; 98] ++ [10]) = Some ([97; 47; 98], [10])
  /\ lex_regex (pattern_pretty [92; 100; 43]) = Some ([92; 100; 43], []).
Proof. split; vm_compute; reflexivity. Qed.

Example C13_rails_example :
  one_length (fun _ => 1%nat) (loop (fun _ => 1%nat) [[97]; [98; 99]]) = true.
Proof. vm_compute. reflexivity. Qed.
