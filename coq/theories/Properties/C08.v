(* C08 - property theorems only.  The parts of "no text makes the parser raise a foreign exception or hang"
   that live in modelled code: the character-level matchers behind @int/@uint/@name/@bool and the
   whitespace/comment skipping loop.  The statement for whole grammars and for compiling grammar texts is
   decided by the oracle of harness/props/c08.py on the implementation.                                      *)
From Coq Require Import List NArith Bool.
From TatsuV Require Import Base.PyStr Lib.Matchers Lib.MatchersProof Engine.Input Engine.InputProof.
Import ListNotations.

(* @uint / @int: a match is never empty, never leaves the text, and is a literal that int() converts:
   [+-]? D (_? D)*  with D a decimal digit (str.isdecimal) - so the conversion cannot raise *)
Theorem C08_uint_match_converts : forall isdecimal isalpha l n,
  match_uint isdecimal isalpha l = Some n ->
  (0 < n <= length l) /\ valid_uint isdecimal (firstn n l) = true.
Proof. exact match_uint_sound. Qed.
Print Assumptions C08_uint_match_converts.

Theorem C08_int_match_converts : forall isdecimal isalpha l n,
  match_int isdecimal isalpha l = Some n ->
  (0 < n <= length l) /\ valid_int isdecimal (firstn n l) = true.
Proof. exact match_int_sound. Qed.
Print Assumptions C08_int_match_converts.

Theorem C08_name_match_in_text : forall isalpha isalnum namechars l n,
  match_name isalpha isalnum namechars l = Some n -> 0 < n <= length l.
Proof. exact match_name_sound. Qed.
Print Assumptions C08_name_match_in_text.

Theorem C08_bool_match_exact : forall l n b, match_bool l = Some (n, b) ->
  (0 < n <= length l) /\
  (b = true -> firstn n l = s_true \/ firstn n l = s_True) /\
  (b = false -> firstn n l = s_false \/ firstn n l = s_False).
Proof. exact match_bool_sound. Qed.
Print Assumptions C08_bool_match_exact.

(* skipping whitespace and comments never hangs (even when a pattern can match the empty string), never moves
   backwards and never leaves the text - for every regex oracle whose matches lie inside the text *)
Theorem C08_next_token_terminates : forall text re_at c,
  (forall id pos n v, re_at id pos = Some (n, v) -> pos + n <= len text) ->
  forall pos, pos <= len text ->
  exists q, next_token text re_at c pos = Some q /\ pos <= q <= len text.
Proof. exact next_token_total. Qed.
Print Assumptions C08_next_token_terminates.

(* the engine itself raises nothing foreign: whenever parse() ends with anything but success or an ordinary failure and no
   semantic action raised (ghost log [raised] empty, see C06), the outcome is fuel exhaustion (RecursionError), the hang
   marker of an empty-matching whitespace pattern, a leaf outside the engine model (Foreign 0: the @-matchers of
   Lib/Matchers.v) or the call of an undefined rule (Foreign 1: FailedRef, a ParseException) - for every grammar, text,
   configuration and fuel, through every construct, the memo, seeds and the seed-growing loop *)
From TatsuV Require Engine.Value Engine.Syntax Engine.Engine Engine.Calls Engine.RaiseProof.
Theorem C08_engine_raises_nothing_foreign :
  forall text re_at isalnum isalpha lower upper ic unsafe rules ec act lineat n start k st,
  Calls.parse_with text re_at isalnum isalpha lower upper ic unsafe rules ec act lineat n start = (Engine.Fatal k, st) ->
  Calls.raised st = [] -> RaiseProof.engine_made k.
Proof. exact RaiseProof.engine_raises_nothing_foreign. Qed.
Print Assumptions C08_engine_raises_nothing_foreign.
