(* C09 - property theorems only. Input layer (whitespace / comments skipping, nameguard, ignorecase) and the
   layering of configuration. The metamorphic statement "replacing a whitespace run by another run leaves the AST
   unchanged" is decided by the oracle of harness/props/c09.py (implementation) and the correspondence; the
   theorems below are the facts it rests on.                                                              *)
From Coq Require Import List NArith Bool.
From TatsuV Require Import Base.PyStr Engine.Value Engine.Syntax Engine.Input Engine.Engine Engine.Calls Engine.CleanLaws
     Engine.InputProof Engine.Config Engine.ConfigProof Engine.LayoutRel.
Import ListNotations.

(* skipping whitespace and comments is idempotent: after next_token nothing more can be skipped *)
Theorem C09_next_token_idempotent : forall text re_at c pos q,
  next_token text re_at c pos = Some q -> next_token text re_at c q = Some q.
Proof. exact next_token_idempotent. Qed.
Print Assumptions C09_next_token_idempotent.

(* whitespace is skipped before tokens, constants, void, fail and the end-of-text check: the amount does not matter *)
Theorem C09_ws_skipped_before_tokens : forall text re_at isalnum isalpha lower ic (St : Type) (on_cut : frame -> St -> St) l f st q,
  skips_ws l = true -> next_token text re_at ic (pos f) = Some q ->
  leaf_eval text re_at isalnum isalpha lower ic on_cut l f st
  = leaf_eval text re_at isalnum isalpha lower ic on_cut l (goto f q) st.
Proof. exact ws_skipped_before. Qed.
Print Assumptions C09_ws_skipped_before_tokens.

(* ... never before patterns or the any-character expression *)
Theorem C09_patterns_never_skip : forall text re_at isalnum isalpha lower ic (St : Type) (on_cut : frame -> St -> St) id f st,
  leaf_eval text re_at isalnum isalpha lower ic on_cut (LPat id) f st =
    match re_at id (pos f) with
    | Some (n, v) => (Ok (VStr v) (append (goto f (Nat.min (len text) (pos f + n))) (VStr v)), st)
    | None => (Fail (cutseen f), st)
    end.
Proof. exact pattern_never_skips. Qed.
Print Assumptions C09_patterns_never_skip.

(* ... skipped at the entry of lower-case rules: a call from a position and from behind the whitespace/comments after it
   is the SAME call (same value, same end position, same frame otherwise) ... *)
Theorem C09_lower_case_rule_skips_ws : forall text re_at isalnum isalpha lower upper ic unsafe rules ec act lineat n r rl f q,
  get_rule rules r = Some rl -> r_tokn rl = false -> next_token text re_at ic (pos f) = Some q ->
  peval text re_at isalnum isalpha lower upper ic unsafe rules ec act lineat (S n) (Call r) f
  = peval text re_at isalnum isalpha lower upper ic unsafe rules ec act lineat (S n) (Call r) (goto f q).
Proof. exact peval_call_skips_ws. Qed.
Print Assumptions C09_lower_case_rule_skips_ws.

(* ... and never at the entry of upper-case rules: the body starts exactly where the caller stands *)
Theorem C09_upper_case_rule_never_skips : forall text re_at isalnum isalpha lower upper ic unsafe rules ec act lineat n r rl f,
  get_rule rules r = Some rl -> r_tokn rl = true ->
  peval text re_at isalnum isalpha lower upper ic unsafe rules ec act lineat (S n) (Call r) f =
    match geval text re_at isalnum isalpha lower ic unsafe (fun _ u => u)
                (pcall text re_at upper ic rules ec act lineat) n (r_exp rl) (push (newf (pos f))) tt with
    | (Ok _ fb, _) =>
      match fst (post_body upper ic ec act lineat rl r (pos f) fb) with
      | ROk node np => Ok node (append (goto f np) node)
      | RFail => Fail (cutseen f)
      | RFatal x => Fatal x
      end
    | (Fail _, _) => Fail (cutseen f)
    | (Fatal x, _) => Fatal x
    end.
Proof. exact peval_token_rule_never_skips. Qed.
Print Assumptions C09_upper_case_rule_never_skips.

(* WHITESPACE INVARIANCE OF WHOLE PARSES, reduced to the lexical primitives.  Two texts with their regex oracles and a
   one-to-one correspondence P between their positions; if skipping to the next token, matching a token, a pattern, any
   character and the end-of-text test agree on corresponding positions and lead to corresponding positions (what a re-layout
   of the whitespace between lexical elements preserves when no pattern matches whitespace), then for EVERY grammar, rule
   table, keyword set and semantic-action oracle the two parses (clean semantics, parse information off: a ParseInfo holds
   positions) return the same value, or fail alike, or raise the same exception.  Proved by a relational induction through
   every construct (Engine/LayoutRel.v).  That a concrete re-layout yields such a P is what the relayout oracle of
   harness/props/c09.py checks on the implementation; the identity correspondence shows the hypotheses are satisfiable. *)
Theorem C09_layout_invariance :
  forall (text1 text2 : str) (re1 re2 : nat -> nat -> option (nat * str)) isalnum isalpha lower upper ic unsafe (P : nat -> nat -> Prop),
  (forall a b a' b', P a b -> P a' b' -> (a = a' <-> b = b')) ->
  (forall p1 p2, P p1 p2 ->
     match next_token text1 re1 ic p1, next_token text2 re2 ic p2 with
     | Some q1, Some q2 => P q1 q2 | None, None => True | _, _ => False end) ->
  (forall t p1 p2, P p1 p2 ->
     match match_token text1 isalnum isalpha lower ic t p1, match_token text2 isalnum isalpha lower ic t p2 with
     | Some q1, Some q2 => P q1 q2 | None, None => True | _, _ => False end) ->
  (forall id p1 p2, P p1 p2 ->
     match match_re text1 re1 id p1, match_re text2 re2 id p2 with
     | Some (q1, v1), Some (q2, v2) => v1 = v2 /\ P q1 q2 | None, None => True | _, _ => False end) ->
  (forall p1 p2, P p1 p2 -> atend text1 p1 = atend text2 p2) ->
  (forall p1 p2, P p1 p2 ->
     match char_at text1 p1, char_at text2 p2 with
     | Some c1, Some c2 => c1 = c2 /\ P (S p1) (S p2) | None, None => True | _, _ => False end) ->
  (forall p1 p2, P p1 p2 -> atend text1 p1 = false -> P (S p1) (S p2)) ->
  forall rules ec act lineat1 lineat2, parseinfo ec = false ->
  forall n start, P 0 0 ->
  match pparse_with text1 re1 isalnum isalpha lower upper ic unsafe rules ec act lineat1 n start,
        pparse_with text2 re2 isalnum isalpha lower upper ic unsafe rules ec act lineat2 n start with
  | Ok v1 f1, Ok v2 f2 => v1 = v2 /\ P (pos f1) (pos f2)
  | Fail c1, Fail c2 => c1 = c2
  | Fatal x, Fatal y => x = y
  | _, _ => False
  end.
Proof. exact layout_invariance_parse. Qed.
Print Assumptions C09_layout_invariance.

(* the same for the engine as it runs (memo cache of any capacity, pruning, guards) on grammars without left recursion *)
Theorem C09_layout_invariance_engine :
  forall (text1 text2 : str) (re1 re2 : nat -> nat -> option (nat * str)) isalnum isalpha lower upper ic unsafe (P : nat -> nat -> Prop),
  (forall a b a' b', P a b -> P a' b' -> (a = a' <-> b = b')) ->
  (forall p1 p2, P p1 p2 ->
     match next_token text1 re1 ic p1, next_token text2 re2 ic p2 with
     | Some q1, Some q2 => P q1 q2 | None, None => True | _, _ => False end) ->
  (forall t p1 p2, P p1 p2 ->
     match match_token text1 isalnum isalpha lower ic t p1, match_token text2 isalnum isalpha lower ic t p2 with
     | Some q1, Some q2 => P q1 q2 | None, None => True | _, _ => False end) ->
  (forall id p1 p2, P p1 p2 ->
     match match_re text1 re1 id p1, match_re text2 re2 id p2 with
     | Some (q1, v1), Some (q2, v2) => v1 = v2 /\ P q1 q2 | None, None => True | _, _ => False end) ->
  (forall p1 p2, P p1 p2 -> atend text1 p1 = atend text2 p2) ->
  (forall p1 p2, P p1 p2 ->
     match char_at text1 p1, char_at text2 p2 with
     | Some c1, Some c2 => c1 = c2 /\ P (S p1) (S p2) | None, None => True | _, _ => False end) ->
  (forall p1 p2, P p1 p2 -> atend text1 p1 = false -> P (S p1) (S p2)) ->
  forall rules ec act lineat1 lineat2, parseinfo ec = false ->
  forall n start, P 0 0 ->
  (forall r rl, get_rule rules r = Some rl -> r_lrec rl = false) ->
  pparse_with text1 re1 isalnum isalpha lower upper ic unsafe rules ec act lineat1 n start <> Fatal OOF ->
  match fst (parse_with text1 re1 isalnum isalpha lower upper ic unsafe rules ec act lineat1 n start),
        fst (parse_with text2 re2 isalnum isalpha lower upper ic unsafe rules ec act lineat2 n start) with
  | Ok v1 f1, Ok v2 f2 => v1 = v2 /\ P (pos f1) (pos f2)
  | Fail c1, Fail c2 => c1 = c2
  | Fatal x, Fatal y => x = y
  | _, _ => False
  end.
Proof. exact layout_invariance_engine. Qed.
Print Assumptions C09_layout_invariance_engine.

(* nameguard *)
Theorem C09_nameguard_blocks : forall text isalnum isalpha lower c tok pos ch,
  tok <> [] -> nameguard c = true -> is_name isalnum isalpha c tok = true ->
  char_at text (Nat.min (len text) (pos + length tok)) = Some ch -> is_name_char isalnum c ch = true ->
  match_token text isalnum isalpha lower c tok pos = None.
Proof. exact nameguard_blocks. Qed.
Print Assumptions C09_nameguard_blocks.

Theorem C09_nameguard_off : forall text isalnum isalpha lower c tok pos,
  tok <> [] -> nameguard c = false -> ignorecase c = false ->
  (match_token text isalnum isalpha lower c tok pos <> None <-> slice text pos (length tok) = tok).
Proof. exact nameguard_off_matches. Qed.
Print Assumptions C09_nameguard_off.

Theorem C09_non_name_tokens_unaffected_by_nameguard : forall text isalnum isalpha lower c tok pos,
  is_name isalnum isalpha c tok = false ->
  match_token text isalnum isalpha lower c tok pos =
  match_token text isalnum isalpha lower
    {| ws_re := ws_re c; cm_re := cm_re c; eol_re := eol_re c; nameguard := false;
       ignorecase := ignorecase c; namechars := namechars c |} tok pos.
Proof. exact non_name_token_unaffected. Qed.
Print Assumptions C09_non_name_tokens_unaffected_by_nameguard.

(* configuration layers consistently: for every field, the effective value is the first defined among the
   parse-time setting, the directive, the setting given when the grammar was built, the built-in default *)
Theorem C09_layering : forall defaults compile_time directives parse_time k,
  cfg_get (effective defaults compile_time directives parse_time) k
  = spec_value defaults compile_time directives parse_time k.
Proof. exact layering. Qed.
Print Assumptions C09_layering.
