(* C12 (text/line part) - property theorems only: each closed by [exact], Print Assumptions beneath.
   Model: Lib/LineCache.v (splitlines, build_line_cache, lineinfo / lineat / poscol / posline, linecount).
   Specification: spec_line / spec_start / spec_end / spec_col / spec_text of Lib/LineCache.v, a direct
   recursion over the text (line = number of line breaks before pos, start = last break end <= pos,
   col = pos - start, text = text[start:end]); independent of splitting and of the cache.
   [variant]: Shipped = sentinel of the pinned commit, Fixed = sentinel after fixes/C12-sentinel.patch.
   [g]: true = guarded accessors (TextLinesCursor), false = BufferCursor.lineat/poscol, Buffer.poscol.
   The parseinfo-of-rules part of C12 is C12_parseinfo_delimits at the end of this file (engine model). *)
From Coq Require Import List NArith.
From TatsuV Require Import Base.PyStr Lib.LineCache Lib.LineCacheProof.
From TatsuV Require Engine.Value Engine.Syntax Engine.Input Engine.Engine Engine.Calls Engine.BoundsState Engine.FaithfulBounds.
Import ListNotations.
Local Open Scope nat_scope.

(* every text, every offset inside it, both sentinel variants, guarded or not: lineinfo, lineat, poscol
   and Buffer.posline report exactly the line number, column, start, end and line text (with its
   terminator) of the specification; LF, CR, CRLF and the other separators str.splitlines splits on *)
Theorem C12_lineinfo_exact : forall (v : variant) (g : bool) (s : str) (pos : nat),
  pos < length s ->
  lineinfo v s pos = Some (spec_info is_linebreak s pos)
  /\ lineat g v s pos = Some (spec_line is_linebreak s pos)
  /\ poscol g v s pos = Some (spec_col is_linebreak s pos)
  /\ posline_at v s pos = Some (spec_line is_linebreak s pos).
Proof. exact lineinfo_exact. Qed.
Print Assumptions C12_lineinfo_exact.

(* lineat / poscol / lineinfo / posline agree with each other inside the text, and the reported line
   delimits the offset: start <= pos < end <= len, col = pos - start, text = text[start:end] *)
Theorem C12_accessors_agree : forall v g s pos, pos < length s ->
  exists i, lineinfo v s pos = Some i
    /\ lineat g v s pos = Some (li_line i) /\ poscol g v s pos = Some (li_col i)
    /\ posline_at v s pos = Some (li_line i)
    /\ li_col i = pos - li_start i /\ li_start i <= pos < li_end i /\ li_end i <= length s
    /\ li_text i = slice s (li_start i) (li_end i).
Proof. exact accessors_agree. Qed.
Print Assumptions C12_accessors_agree.

(* pos = len and beyond, what the code does: lineinfo clamps to the last character (this is what
   tests/buffering_test.py::test_line_info_consistency pins), independently of the sentinel *)
Theorem C12_lineinfo_at_end : forall v s, s <> [] ->
  lineinfo v s (length s) = Some (spec_info is_linebreak s (length s - 1)).
Proof. exact lineinfo_at_end. Qed.
Print Assumptions C12_lineinfo_at_end.

Theorem C12_lineinfo_clamped : forall v s pos,
  length s - 1 <= pos -> lineinfo v s pos = lineinfo v s (length s - 1).
Proof. exact lineinfo_clamped. Qed.
Print Assumptions C12_lineinfo_clamped.

Theorem C12_lineinfo_sentinel_free : forall s pos, lineinfo Shipped s pos = lineinfo Fixed s pos.
Proof. exact lineinfo_sentinel_free. Qed.
Print Assumptions C12_lineinfo_sentinel_free.

(* pos = len with the sentinel as shipped: the line number is one more than the number of line breaks in
   the text (unless the text ends in VT FF FS GS RS NEL LS PS, which the sentinel code does not know),
   the column is 0 whatever the last line is; Buffer.posline clamps like lineinfo *)
Theorem C12_at_end_shipped : forall g s, s <> [] ->
  lineat g Shipped s (length s)
    = Some (spec_line is_linebreak s (length s) + (if ends_other_sep s then 0 else 1))
  /\ poscol g Shipped s (length s) = Some 0
  /\ posline_at Shipped s (length s) = Some (spec_line is_linebreak s (length s - 1)).
Proof. exact at_end_shipped. Qed.
Print Assumptions C12_at_end_shipped.

(* hence the property statement fails at pos = len: witness "a", offset 1 (line 1 instead of 0, column 0
   instead of 1, lineinfo column 0 instead of 1), and the legacy buffer raises on the empty text *)
Theorem C12_lineat_at_end_refuted :
  exists s, forall g, lineat g Shipped s (length s) <> Some (spec_line is_linebreak s (length s)).
Proof. exact lineat_at_end_refuted. Qed.
Print Assumptions C12_lineat_at_end_refuted.

Theorem C12_poscol_at_end_refuted :
  exists s, forall g, poscol g Shipped s (length s) <> Some (spec_col is_linebreak s (length s)).
Proof. exact poscol_at_end_refuted. Qed.
Print Assumptions C12_poscol_at_end_refuted.

Theorem C12_lineinfo_col_at_end_refuted :
  exists s, forall v i, lineinfo v s (length s) = Some i -> li_col i <> spec_col is_linebreak s (length s).
Proof. exact lineinfo_col_at_end_refuted. Qed.
Print Assumptions C12_lineinfo_col_at_end_refuted.

Theorem C12_buffer_empty_refuted :
  forall v, lineat false v [] 0 = None /\ poscol false v [] 0 = None.
Proof. exact buffer_empty_refuted. Qed.
Print Assumptions C12_buffer_empty_refuted.

(* the repaired sentinel is exact at pos = len: every text that does not end in one of the other
   separators (guarded accessors: the empty text too) *)
Theorem C12_at_end_fixed : forall g s, (g = true \/ s <> []) -> ends_other_sep s = false ->
  lineat g Fixed s (length s) = Some (spec_line is_linebreak s (length s))
  /\ poscol g Fixed s (length s) = Some (spec_col is_linebreak s (length s)).
Proof. exact at_end_fixed. Qed.
Print Assumptions C12_at_end_fixed.

(* lineinfo after fixes/C12-lineinfo-col.patch (index clamped, column not): exact inside the text; at
   and beyond the end still the last line of the split (what the shipped test pins) with the column of
   the end offset; for a text that does not end in a line break this is the specification at pos = len *)
Theorem C12_lineinfo_colfixed_exact : forall v s pos, pos < length s ->
  lineinfo_cf v s pos = Some (spec_info is_linebreak s pos).
Proof. exact lineinfo_cf_exact. Qed.
Print Assumptions C12_lineinfo_colfixed_exact.

Theorem C12_lineinfo_colfixed_at_end : forall v s pos, s <> [] -> length s <= pos ->
  lineinfo_cf v s pos =
    Some (mkLI (spec_line is_linebreak s (length s - 1))
               (length s - spec_start is_linebreak s (length s - 1))
               (spec_start is_linebreak s (length s - 1)) (length s)
               (slice s (spec_start is_linebreak s (length s - 1)) (length s))).
Proof. exact lineinfo_cf_at_end. Qed.
Print Assumptions C12_lineinfo_colfixed_at_end.

Theorem C12_lineinfo_colfixed_at_end_exact : forall v s, s <> [] -> terminated s = false ->
  lineinfo_cf v s (length s) = Some (spec_info is_linebreak s (length s)).
Proof. exact lineinfo_cf_at_end_exact. Qed.
Print Assumptions C12_lineinfo_colfixed_at_end_exact.

(* beyond the end and on the empty text *)
Theorem C12_beyond_end : forall g v s pos, s <> [] -> length s < pos ->
  lineat g v s pos = None /\ poscol g v s pos = None.
Proof. exact beyond_end. Qed.
Print Assumptions C12_beyond_end.

Theorem C12_empty_text : forall v pos,
  lineat true v [] pos = Some 0 /\ poscol true v [] pos = Some 0 /\ posline_at v [] pos = Some 0
  /\ lineat false v [] pos = None /\ poscol false v [] pos = None.
Proof. exact empty_text. Qed.
Print Assumptions C12_empty_text.

(* splitlines loses nothing and never yields an empty line *)
Theorem C12_splitlines_join : forall s, concat (splitlines s) = s.
Proof. exact concat_splitlines. Qed.
Print Assumptions C12_splitlines_join.

Theorem C12_splitlines_nonempty : forall s l, In l (splitlines s) -> l <> [].
Proof. exact splitlines_nonempty. Qed.
Print Assumptions C12_splitlines_nonempty.

(* linecount = 1 + number of LF / CR / CRLF breaks; for texts whose only line break characters are CR
   and LF this is the line index of the end offset + 1, the number of split lines (+1 after a final
   break or for the empty text), and the repaired sentinel is linecount - 1 *)
Theorem C12_linecount : forall s, linecount s = S (spec_line is_crlf s (length s)).
Proof. exact linecount_spec. Qed.
Print Assumptions C12_linecount.

Theorem C12_linecount_lines : forall s, only_crlf_breaks s ->
  linecount s = S (spec_line is_linebreak s (length s))
  /\ linecount s = length (splitlines s) + (if terminated s then 1 else match s with [] => 1 | _ => 0 end)
  /\ lineat true Fixed s (length s) = Some (linecount s - 1).
Proof. exact linecount_lines. Qed.
Print Assumptions C12_linecount_lines.

(* non-vacuity: "a\r\nb\rc\n" - CRLF is one break, CR alone is one; offsets 0..7 *)
Example C12_example :
  let s := [97; 13; 10; 98; 13; 99; 10]%N in
  map (fun p => (spec_line is_linebreak s p, spec_col is_linebreak s p)) (seq 0 8)
    = [(0,0); (0,1); (0,2); (1,0); (1,1); (2,0); (2,1); (3,0)]
  /\ spec_text is_linebreak s 1 = [97; 13; 10]%N
  /\ lineinfo Shipped s 4 = Some (mkLI 1 1 3 5 [98; 13]%N)
  /\ lineat true Shipped s 7 = Some 4 /\ lineat true Fixed s 7 = Some 3
  /\ only_crlf_breaks s /\ ends_other_sep s = false /\ linecount s = 4
  /\ terminated [97; 10; 98]%N = false /\ lineinfo_cf Fixed [97; 10; 98]%N 3 = Some (mkLI 1 1 2 3 [98]%N).
Proof.
  cbv zeta. repeat split; try reflexivity.
  intros c H. cbn in H. repeat (destruct H as [<- | H]; [reflexivity|]). destruct H.
Qed.

(* parse information of rules (engine model, faithful semantics with memo and seeds): a fresh invocation of a rule without
   action whose body yields an AST returns that AST with ParseInfo(rule, pos, endpos, line, endline) under both reserved
   keys, where pos is where the rule's body started (after the whitespace skipped at rule entry), endpos is exactly where
   the invocation ends, line/endline are the line numbers of those two offsets (Lib/LineCache.v's lineat), and
   pos <= endpos <= len(text) - for every grammar, text, configuration and evaluator state reachable by parsing (the
   evaluator hypothesis TrB holds of the engine for every fuel: FaithfulBounds.feval_b, used by C03_seed_loop_is_bounded_by_the_text) *)
Theorem C12_parseinfo_delimits :
  forall text upper ic ec act lineat (ev : @Engine.ev_t Calls.gstate) rl r k st v fb st2 a,
  BoundsState.TrB text (FaithfulBounds.StateOK text) ev -> FaithfulBounds.StateOK text st -> fst k <= Input.len text ->
  Calls.lookup (Calls.memos st) k = None ->
  ev (Syntax.r_exp rl) (Engine.push (Engine.newf (fst k)))
     (if Calls.left_recursion ec then Calls.memoize ec rl st k Calls.OGuard else st) = (Engine.Ok v fb, st2) ->
  (Syntax.r_isname rl && Calls.is_keyword upper ic ec (Engine.fold fb))%bool = false ->
  act r (Engine.fold fb) = Calls.ANone -> Engine.fold fb = Value.VDict a -> Value.ast_has a Value.key_at = false ->
  Calls.parseinfo ec = true ->
  let info := Value.VInfo r (fst k) (Engine.pos fb) (lineat (fst k)) (lineat (Engine.pos fb)) in
  let node := Value.VDict (Value.ast_put (Value.ast_put a Calls.key_parseinfo info) Calls.key_parseinfo2 info) in
  Calls.rule_call upper ic ec act lineat ev rl r k st
    = (Calls.ROk node (Engine.pos fb), Calls.memoize ec rl st2 k (Calls.OOk node (Engine.pos fb)))
  /\ fst k <= Engine.pos fb <= Input.len text.
Proof.
  exact FaithfulBounds.rule_call_parseinfo.
Qed.
Print Assumptions C12_parseinfo_delimits.
