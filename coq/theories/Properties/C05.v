(* C05 - property theorems only.  Cuts: the flag lives on the frame pushed for an option, an optional,
   a repetition iteration or a rule body; a failure after it makes that construct fail (commit); the flag
   never reaches the caller (containment).                                                               *)
From Coq Require Import List NArith.
From TatsuV Require Import Base.PyStr Engine.Value Engine.Syntax Engine.Input Engine.Engine Engine.Calls
     Engine.EngineRel Engine.CleanLaws.
Import ListNotations.

Section C05.
Variable text : str.
Variable re_at : nat -> nat -> option (nat * str).
Variable isalnum isalpha : N -> bool.
Variable lower upper : N -> N.
Variable ic : icfg.
Variable unsafe : list str.
Variable rules : list rule.
Variable ec : ecfg.
Variable act : nat -> value -> aret.
Variable lineat : nat -> nat.
Notation peval' := (peval text re_at isalnum isalpha lower upper ic unsafe rules ec act lineat).

(* commit in a choice: an option that fails after a cut makes the choice fail; later options are not tried *)
Theorem C05_choice_commit : forall n es1 e es2 f,
  (forall x, In x es1 -> peval' n x (add_defined unsafe x (push f)) = Fail false) ->
  peval' n e (add_defined unsafe e (push f)) = Fail true ->
  peval' (S n) (Choice (es1 ++ e :: es2)) f = Fail (cutseen f).
Proof. exact (peval_choice_commit text re_at isalnum isalpha lower upper ic unsafe rules ec act lineat). Qed.

(* commit in an optional: a cut inside makes the optional fail instead of being skipped *)
Theorem C05_optional_commit : forall n e f,
  peval' (S n) (Opt e) f =
    match peval' n e (add_defined unsafe (Opt e) (push f)) with
    | Ok r f1 => Ok r (merge f f1)
    | Fail true => Fail (cutseen f)
    | Fail false => Ok VNone f
    | Fatal x => Fatal x
    end.
Proof. exact (peval_optional text re_at isalnum isalpha lower upper ic unsafe rules ec act lineat). Qed.

(* commit in repetitions: an iteration that fails after a cut makes the repetition fail; without a cut it
   just ends the repetition *)
Theorem C05_iteration_commit : forall (ev : @ev_t unit) e omitsep f k,
  ev e (push (push f)) tt = (Fail true, tt) ->
  repeat_go (fun _ u => u) (S k) ev e None omitsep f tt = (Fail (cutseen f), tt).
Proof.
  intros ev e omitsep f k H. exact (repeat_go_commit k ev e None omitsep f (repeat_iter_commit_body ev e omitsep f H)).
Qed.

Theorem C05_iteration_no_cut_ends : forall (ev : @ev_t unit) e omitsep f,
  ev e (push (push f)) tt = (Fail false, tt) ->
  repeat_iter (fun _ u => u) ev e None omitsep f tt = (IStop, tt).
Proof. exact repeat_iter_stop_body. Qed.

(* a join commits after each separator *)
Theorem C05_join_commits_after_separator : forall (ev : @ev_t unit) e s omitsep f v f4 c k,
  ev s (push (push f)) tt = (Ok v f4, tt) ->
  (forall F, ev e (push F) tt = (Fail c, tt)) ->
  repeat_go (fun _ u => u) (S k) ev e (Some s) omitsep f tt = (Fail (cutseen f), tt).
Proof.
  intros ev e s omitsep f v f4 c k Hs He.
  exact (repeat_go_commit k ev e (Some s) omitsep f (repeat_iter_join_commits ev e s omitsep f v f4 c Hs He)).
Qed.

(* only a cut can make a closure fail *)
Theorem C05_closure_fails_only_after_cut : forall n sep omitsep e f c,
  peval' (S n) (Rep false sep omitsep e) f = Fail c ->
  fst (rep_body (fun _ u => u) n
         (geval text re_at isalnum isalpha lower ic unsafe (fun _ u => u)
                (pcall text re_at upper ic rules ec act lineat) n)
         e sep omitsep (push (set_cst (push f) (VList false []))) tt) = Fail true.
Proof. exact (peval_closure_never_plain_fail text re_at isalnum isalpha lower upper ic unsafe rules ec act lineat). Qed.

(* containment: rule calls, choices, optionals, repetitions, left / right joins, lookaheads and skip groups never change the
   caller's cut flag, and report failure with the caller's flag - so callers and outer choices backtrack
   exactly as if the inner construct contained no cut *)
Theorem C05_contained : forall n e f,
  (match e with Call _ | Choice _ | Opt _ | Rep _ _ _ _ | Look _ _ | SkipGroup _ | Assoc _ _ => True | _ => False end) ->
  match peval' (S n) e f with
  | Ok _ f' => cutseen f' = cutseen f
  | Fail c => c = cutseen f
  | Fatal _ => True
  end.
Proof. exact (peval_contained text re_at isalnum isalpha lower upper ic unsafe rules ec act lineat). Qed.

End C05.
Print Assumptions C05_choice_commit.
Print Assumptions C05_optional_commit.
Print Assumptions C05_iteration_commit.
Print Assumptions C05_iteration_no_cut_ends.
Print Assumptions C05_join_commits_after_separator.
Print Assumptions C05_closure_fails_only_after_cut.
Print Assumptions C05_contained.
