(* C18 - property theorems only: each closed by [exact], Print Assumptions beneath. *)
From Coq Require Import List NArith Arith Bool Permutation.
From TatsuV Require Import Lib.ParProc Lib.ParProcProof.
Import ListNotations.
Local Open Scope nat_scope.

(* The executor loop of pmap.py for ANY submitted function [process], task list, executor kind
   (procpool: window 1 + (max_workers or 8), else everything submitted at once), max_workers and
   schedule (which pending future of the current as_completed snapshot completes next): when no
   task's exception leaves [process], the generator ends normally and what it yielded is a
   permutation of the tasks' results - each exactly once. *)
Theorem C18_exactly_once :
  forall (T R E : Type) (process : T -> tres R E) (ki : E -> bool)
         (procpool : bool) (max_workers : nat) (tasks : list T) (sched : list nat) (rs : list R),
  map process tasks = map Res rs ->
  fst (executor_pmap T R E process ki procpool max_workers tasks sched) = Done
  /\ Permutation (out (snd (executor_pmap T R E process ki procpool max_workers tasks sched))) rs.
Proof. exact pmap_exactly_once. Qed.
Print Assumptions C18_exactly_once.

(* termination: the fuel executor_pmap passes to the loop (2 * len(tasks) + 2; measure
   2 * (pending + unsubmitted) + [a snapshot is due]) suffices for every input and schedule,
   also when tasks raise *)
Theorem C18_terminates :
  forall (T R E : Type) (process : T -> tres R E) (ki : E -> bool)
         (procpool : bool) (max_workers : nat) (tasks : list T) (sched : list nat),
  fst (executor_pmap T R E process ki procpool max_workers tasks sched) <> OutOfFuel.
Proof. exact pmap_terminates. Qed.
Print Assumptions C18_terminates.

(* when a future raises and ends the generator (re-raised, or swallowed after a KeyboardInterrupt), the
   results yielded before it are still results of pairwise different tasks (ys ++ t :: others is a
   permutation of the task list) and the exception is the one of a task *)
Theorem C18_abort_no_dup :
  forall (T R E : Type) (process : T -> tres R E) (ki : E -> bool)
         (procpool : bool) (max_workers : nat) (tasks : list T) (sched : list nat),
  fst (executor_pmap T R E process ki procpool max_workers tasks sched) <> Done ->
  exists e ys t others,
    Permutation (ys ++ t :: others) tasks
    /\ map process ys = map Res (out (snd (executor_pmap T R E process ki procpool max_workers tasks sched)))
    /\ process t = Fail e
    /\ fst (executor_pmap T R E process ki procpool max_workers tasks sched)
       = (if ki e then Interrupted else Raised e).
Proof. exact pmap_abort_no_dup. Qed.
Print Assumptions C18_abort_no_dup.

(* bounded submission window of the process-pool mode: every as_completed snapshot holds at most
   1 + (max_workers or 8) futures and every refill happens with at most that many minus one pending *)
Theorem C18_window_bound :
  forall (T R E : Type) (process : T -> tres R E) (ki : E -> bool)
         (max_workers : nat) (tasks : list T) (sched : list nat),
  Forall (fun e => match e with
                   | ESnap l => length l <= window max_workers
                   | ESubmit _ l => S (length l) <= window max_workers
                   | _ => True
                   end)
         (evs (snd (executor_pmap T R E process ki true max_workers tasks sched))).
Proof. exact pmap_window_bound. Qed.
Print Assumptions C18_window_bound.

(* parproc() with taskproc: every mode (single-task shortcut, sequential, process pool, thread pool),
   every max_workers / cpu_count and every schedule *)
Theorem C18_parproc_exactly_once :
  forall (parallel threads : bool) (max_workers cpu : nat) (tasks : list task) (sched : list nat)
         (rs : list result),
  map (taskproc false) tasks = map Res rs ->
  exists o, parproc parallel threads max_workers cpu tasks sched = (Done, o)
            /\ Permutation o rs
            /\ (parallel = false \/ length tasks = 1 -> o = rs).
Proof. exact parproc_exactly_once. Qed.
Print Assumptions C18_parproc_exactly_once.

Theorem C18_parproc_terminates :
  forall (parallel threads : bool) (max_workers cpu : nat) (tasks : list task) (sched : list nat),
  fst (parproc parallel threads max_workers cpu tasks sched) <> OutOfFuel.
Proof. exact parproc_terminates. Qed.
Print Assumptions C18_parproc_terminates.

(* the parallel modes yield the same multiset as the sequential mode (which yields rs in order) *)
Theorem C18_same_as_sequential :
  forall (threads threads' : bool) (mw mw' cpu cpu' : nat) (tasks : list task)
         (sched sched' : list nat) (rs : list result),
  map (taskproc false) tasks = map Res rs ->
  parproc false threads' mw' cpu' tasks sched' = (Done, rs)
  /\ fst (parproc true threads mw cpu tasks sched) = Done
  /\ Permutation (snd (parproc true threads mw cpu tasks sched))
                 (snd (parproc false threads' mw' cpu' tasks sched')).
Proof. exact parproc_same_as_sequential. Qed.
Print Assumptions C18_same_as_sequential.

(* a task whose exception is captured contributes exactly one result carrying it, and the other tasks'
   results are those of the run without that task *)
Theorem C18_captured_exception_is_a_result :
  forall (parallel threads : bool) (mw cpu : nat) (l1 l2 : list task) (t : task) (e : exc)
         (rs1 rs2 : list result) (sched sched' : list nat),
  call t = Exc e -> captured e (t_reraise t) (t_raises t) = true ->
  map (taskproc false) l1 = map Res rs1 -> map (taskproc false) l2 = map Res rs2 ->
  exists o o',
    parproc parallel threads mw cpu (l1 ++ t :: l2) sched = (Done, o)
    /\ parproc parallel threads mw cpu (l1 ++ l2) sched' = (Done, o')
    /\ Permutation o (rs1 ++ mkResult (t_payload t) None (Some e) :: rs2)
    /\ Permutation o' (rs1 ++ rs2)
    /\ Permutation o (mkResult (t_payload t) None (Some e) :: o').
Proof. exact captured_exception_is_a_result. Qed.
Print Assumptions C18_captured_exception_is_a_result.

(* the decision of taskproc in closed form *)
Theorem C18_capture_table : forall t : task,
  taskproc false t =
    match call t with
    | Ret v => Res (mkResult (t_payload t) (Some v) None)
    | Exc e => if negb (isa e C_KeyboardInterrupt)
                  && negb (isa e C_RuntimeError)
                  && (isa e C_Exception || isa e C_RecursionError)
                  && negb (t_reraise t)
                  && (is_nil (t_raises t) || existsb (isa e) (t_raises t))
               then Res (mkResult (t_payload t) None (Some e))
               else Fail e
    end.
Proof. exact capture_table. Qed.
Print Assumptions C18_capture_table.

(* its rows: KeyboardInterrupt, every RuntimeError (so RecursionError, which is one), every
   non-Exception, reraise=True and an exception outside a non-empty payload.raises() always leave
   taskproc; any other Exception is captured *)
Theorem C18_capture_rows : forall (e : exc) (reraise : bool) (raises : list N),
  (isa e C_KeyboardInterrupt = true -> captured e reraise raises = false)
  /\ (isa e C_RuntimeError = true -> captured e reraise raises = false)
  /\ (wf_exc e -> isa e C_RecursionError = true -> captured e reraise raises = false)
  /\ (isa e C_Exception = false -> wf_exc e -> captured e reraise raises = false)
  /\ (reraise = true -> captured e reraise raises = false)
  /\ (raises <> [] -> (forall c, In c raises -> isa e c = false) -> captured e reraise raises = false)
  /\ (isa e C_KeyboardInterrupt = false -> isa e C_RuntimeError = false -> isa e C_Exception = true ->
      reraise = false -> (raises = [] \/ exists c, In c raises /\ isa e c = true) ->
      captured e reraise raises = true).
Proof. exact capture_rows. Qed.
Print Assumptions C18_capture_rows.

Theorem C18_stop_set_result : forall t : task,
  taskproc true t = Res (mkResult (t_payload t) None (Some mro_InterruptedError)).
Proof. exact stop_set_result. Qed.
Print Assumptions C18_stop_set_result.

(* ---- non-vacuity *)
Definition ex_ValueError : exc := [100; C_Exception; C_BaseException; C_object]%N.
Definition ex_RecursionError : exc := [C_RecursionError; C_RuntimeError; C_Exception; C_BaseException; C_object]%N.
Definition ex_ok (p : N) : task := mkTask p false (Ret (p * 10)%N) (Ret 0%N) false [].
Definition ex_bad (p : N) : task := mkTask p false (Exc ex_ValueError) (Ret 0%N) false [].
Definition ex_tasks : list task := [ex_ok 1; ex_bad 2; ex_ok 3; ex_ok 4; ex_ok 5].

(* five tasks, one captured exception, process pool with max_workers=2 (window 3), schedule [1;1;0;1;0]:
   the hypothesis holds and the yield order is 2,3,1,5,4 *)
Example C18_example :
  (exists rs, map (taskproc false) ex_tasks = map Res rs)
  /\ map r_payload (snd (parproc true false 2 4 ex_tasks [1; 1; 0; 1; 0])) = [2; 3; 1; 5; 4]%N
  /\ map r_exception (snd (parproc true false 2 4 ex_tasks [1; 1; 0; 1; 0]))
     = [Some ex_ValueError; None; None; None; None].
Proof.
  split; [|split; reflexivity].
  exists [mkResult 1 (Some 10) None; mkResult 2 None (Some ex_ValueError); mkResult 3 (Some 30) None;
          mkResult 4 (Some 40) None; mkResult 5 (Some 50) None]%N.
  reflexivity.
Qed.

(* RecursionError leaves taskproc and ends the generator *)
Example C18_example_recursion :
  wf_exc ex_RecursionError
  /\ parproc true false 1 4 [ex_ok 1; mkTask 2 false (Exc ex_RecursionError) (Ret 0%N) false []; ex_ok 3] [1]
     = (Raised ex_RecursionError, []).
Proof. split; [intros _; reflexivity | reflexivity]. Qed.
