(* C04 - property theorems only: each closed by [exact], Print Assumptions beneath. *)
From Coq Require Import List NArith.
From TatsuV Require Import Base.PyStr Engine.Value Engine.Syntax Engine.Input Engine.Engine Engine.Calls
     Engine.MemoProof Engine.SemProof.

(* Memoization never changes what a parse returns.  For every grammar in which no rule is marked left
   recursive, every text, regex / unicode oracle, input configuration, semantic-action oracle, and EVERY engine
   configuration [ec] - memoization on or off, any memo capacity (down to 0 or 1 entries), pruning at cuts on
   or off, left-recursion guards on or off - every expression [e] and frame [f]: whenever the clean,
   memo-free semantics [peval] terminates (does not run out of fuel), the faithful engine [feval], started
   with empty caches, returns exactly the same result (success/failure class, value, position, cut flag).
   [peval] does not read the memo fields of [ec], so all those configurations return the same result. *)
Theorem C04_memo_transparent :
  forall text re_at isalnum isalpha lower upper ic unsafe rules ec act lineat,
  (forall r rl, get_rule rules r = Some rl -> r_lrec rl = false) ->
  forall n e f,
    peval text re_at isalnum isalpha lower upper ic unsafe rules ec act lineat n e f <> Fatal OOF ->
    fst (feval text re_at isalnum isalpha lower upper ic unsafe rules ec act lineat n e f gstate0)
    = peval text re_at isalnum isalpha lower upper ic unsafe rules ec act lineat n e f.
Proof. exact memo_transparent. Qed.
Print Assumptions C04_memo_transparent.

(* "enabling parse information only adds the parseinfo entries" - at the level of one rule invocation (partial: the lift to
   whole parses, where the decorated nodes travel through lists and dicts, is held by the settings-matrix oracle of
   harness/props/c04.py, which compares results with the entries erased AND the entries themselves across memo settings).
   After a successful body, with parseinfo on vs off: same keyword check, same argument handed to the action, same
   success / failure / exception, same end position; a dict node differs in nothing but the two reserved keys. *)
Theorem C04_parseinfo_only_adds_partial : forall upper ic lineat ec act rl r p fb,
  let on := post_body upper ic (with_pinfo ec true) act lineat rl r p fb in
  let off := post_body upper ic (with_pinfo ec false) act lineat rl r p fb in
  snd on = snd off /\
  match fst on, fst off with
  | ROk n1 p1, ROk n2 p2 =>
      p1 = p2 /\
      match n2 with
      | VDict a2 => exists a1, n1 = VDict a1 /\ forall k, reserved k = false -> ast_get a1 k = ast_get a2 k
      | _ => n1 = n2
      end
  | RFail, RFail => True
  | RFatal x, RFatal y => x = y
  | _, _ => False
  end.
Proof. exact post_body_parseinfo_only_adds. Qed.
Print Assumptions C04_parseinfo_only_adds_partial.
