(* C04 - property theorems only: each closed by [exact], Print Assumptions beneath. *)
From Coq Require Import List NArith.
From TatsuV Require Import Base.PyStr Engine.Value Engine.Syntax Engine.Input Engine.Engine Engine.Calls
     Engine.MemoProof.

(* Memoization never changes what a parse returns.  For every grammar in which no rule is marked left
   recursive, every text, regex / unicode oracle, input configuration, semantic-action oracle, and EVERY engine
   configuration [ec] - memoization on or off, any memo capacity (down to 0 or 1 entries), pruning at cuts on
   or off, left-recursion guards on or off - every expression [e] and frame [f]: whenever the clean,
   memo-free semantics [peval] terminates (does not run out of fuel), the faithful engine [feval], started
   with empty caches, returns exactly the same result (success/failure class, value, position, cut flag).
   [peval] does not read the memo fields of [ec], so all those configurations return the same result. *)
Theorem C04_memo_transparent :
  forall text re_at isalnum isalpha lower upper ic unsafe rules ec act lineat,
  (forall r rl, get_rule rules r = Some rl -> r_lrec rl = false) ->
  forall n e f,
    peval text re_at isalnum isalpha lower upper ic unsafe rules ec act lineat n e f <> Fatal OOF ->
    fst (feval text re_at isalnum isalpha lower upper ic unsafe rules ec act lineat n e f gstate0)
    = peval text re_at isalnum isalpha lower upper ic unsafe rules ec act lineat n e f.
Proof. exact memo_transparent. Qed.
Print Assumptions C04_memo_transparent.
