(* C04 - property theorems only: each closed by [exact], Print Assumptions beneath. *)
From Coq Require Import List NArith.
Import ListNotations.
From TatsuV Require Import Base.PyStr Engine.Value Engine.Syntax Engine.Input Engine.Engine Engine.Calls
     Engine.MemoProof Engine.SemProof Engine.PinfoRel.

(* Memoization never changes what a parse returns.  For every grammar in which no rule is marked left
   recursive, every text, regex / unicode oracle, input configuration, semantic-action oracle, and EVERY engine
   configuration [ec] - memoization on or off, any memo capacity (down to 0 or 1 entries), pruning at cuts on
   or off, left-recursion guards on or off - every expression [e] and frame [f]: whenever the clean,
   memo-free semantics [peval] terminates (does not run out of fuel), the faithful engine [feval], started
   with empty caches, returns exactly the same result (success/failure class, value, position, cut flag).
   [peval] does not read the memo fields of [ec], so all those configurations return the same result. *)
Theorem C04_memo_transparent :
  forall text re_at isalnum isalpha lower upper ic unsafe rules ec act lineat,
  (forall r rl, get_rule rules r = Some rl -> r_lrec rl = false) ->
  forall n e f,
    peval text re_at isalnum isalpha lower upper ic unsafe rules ec act lineat n e f <> Fatal OOF ->
    fst (feval text re_at isalnum isalpha lower upper ic unsafe rules ec act lineat n e f gstate0)
    = peval text re_at isalnum isalpha lower upper ic unsafe rules ec act lineat n e f.
Proof. exact memo_transparent. Qed.
Print Assumptions C04_memo_transparent.

(* "enabling parse information only adds the parseinfo entries" - at the level of one rule invocation (partial: the lift to
   whole parses, where the decorated nodes travel through lists and dicts, is held by the settings-matrix oracle of
   harness/props/c04.py, which compares results with the entries erased AND the entries themselves across memo settings).
   After a successful body, with parseinfo on vs off: same keyword check, same argument handed to the action, same
   success / failure / exception, same end position; a dict node differs in nothing but the two reserved keys. *)
Theorem C04_parseinfo_only_adds_partial : forall upper ic lineat ec act rl r p fb,
  let on := post_body upper ic (with_pinfo ec true) act lineat rl r p fb in
  let off := post_body upper ic (with_pinfo ec false) act lineat rl r p fb in
  snd on = snd off /\
  match fst on, fst off with
  | ROk n1 p1, ROk n2 p2 =>
      p1 = p2 /\
      match n2 with
      | VDict a2 => exists a1, n1 = VDict a1 /\ forall k, reserved k = false -> ast_get a1 k = ast_get a2 k
      | _ => n1 = n2
      end
  | RFail, RFail => True
  | RFatal x, RFatal y => x = y
  | _, _ => False
  end.
Proof. exact post_body_parseinfo_only_adds. Qed.
Print Assumptions C04_parseinfo_only_adds_partial.

(* "enabling parse information only adds the parseinfo entries" - for WHOLE evaluations (every grammar, text, frame, fuel,
   configuration and every semantic-action oracle that does not look at the reserved entries).  [RR] relates the two results:
   both succeed, both fail (with the same cut flag) or both end in the same exception / fuel exhaustion; on success the
   positions and cut flags are equal and the value, the cst and every named value of the final frame are equal once the
   entries "parseinfo" / "__parseinfo__" are erased from every dict inside them ([er], [RV v1 v2 := er v1 = er v2]).
   A relational induction through every construct (Engine/PinfoRel.v); the only place where the configurations differ is
   with_parseinfo at the end of a rule invocation. *)
Theorem C04_parseinfo_only_adds :
  forall text re_at isalnum isalpha lower upper ic unsafe rules ec act lineat,
  (forall r v1 v2, RV v1 v2 -> RAret (act r v1) (act r v2)) ->
  forall n e f,
  RR (peval text re_at isalnum isalpha lower upper ic unsafe rules (with_pinfo ec true) act lineat n e f)
     (peval text re_at isalnum isalpha lower upper ic unsafe rules (with_pinfo ec false) act lineat n e f).
Proof. exact parseinfo_only_adds. Qed.
Print Assumptions C04_parseinfo_only_adds.

(* the same for the engine as it runs - memo cache of any capacity, pruning at cuts, guards - on grammars without left
   recursion (through C04_memo_transparent) *)
Theorem C04_parseinfo_only_adds_engine :
  forall text re_at isalnum isalpha lower upper ic unsafe rules ec act lineat,
  (forall r v1 v2, RV v1 v2 -> RAret (act r v1) (act r v2)) ->
  (forall r rl, get_rule rules r = Some rl -> r_lrec rl = false) ->
  forall n e f,
  peval text re_at isalnum isalpha lower upper ic unsafe rules (with_pinfo ec true) act lineat n e f <> Fatal OOF ->
  RR (fst (feval text re_at isalnum isalpha lower upper ic unsafe rules (with_pinfo ec true) act lineat n e f gstate0))
     (fst (feval text re_at isalnum isalpha lower upper ic unsafe rules (with_pinfo ec false) act lineat n e f gstate0)).
Proof. exact parseinfo_only_adds_engine. Qed.
Print Assumptions C04_parseinfo_only_adds_engine.

(* the hypothesis on actions is satisfiable: no semantics at all, and a tagging action *)
Example C04_blind_actions_exist :
  (forall (r : nat) v1 v2, RV v1 v2 -> RAret ((fun (_ : nat) (_ : value) => ANone) r v1) ((fun (_ : nat) (_ : value) => ANone) r v2)) /\
  (forall (r : nat) v1 v2, RV v1 v2 ->
     RAret ((fun (r : nat) (v : value) => ARet (VTag (N.of_nat r) [v])) r v1) ((fun (r : nat) (v : value) => ARet (VTag (N.of_nat r) [v])) r v2)).
Proof. split; [exact no_semantics_is_blind|exact tagging_is_blind]. Qed.
