(* C16 - property theorems only: each closed by [exact], Print Assumptions beneath.
   Model: Lib/LeftRec.v (pegen.py mark_left_recursion and what it calls); proofs: Lib/LeftRecProof.v.
   [graph_of rn rules] is the graph built by _make_first_graph; [Path g i j] = j reachable from i in >= 1 edges;
   [chain g i l] = i -> l1 -> l2 -> ... walks through the nodes l;
   [mark_with fixd rn rules] = (is_lrec, is_memo) per rule; fixd = false is the leader choice of the code as it
   is, fixd = true the one of fixes/C16-scc-without-common-leader.patch.
   [rn] is the oracle "rule i can match empty" that the code consults in exactly one place
   (PositiveClosure/PositiveGather directly over a call); every statement holds for every oracle, in particular
   for [rn_of rules] (the code as it is: [mark rules = mark_with false (rn_of rules) rules]) and for
   [fun _ => false] (fixes/C16-positive-closure-nullable.patch). *)
From Coq Require Import List NArith Arith Bool.
From TatsuV Require Import Base.PyStr Lib.LeftRec Lib.LeftRecProof.
Import ListNotations.
Local Open Scope nat_scope.

(* _callable_rule_ids returns exactly the rules called with only empty-matchable elements in front
   (calls themselves never count as empty-matchable) *)
Theorem C16_left_calls_exact : forall (rn : nat -> bool) (e : exp) (r : nat),
  In r (callable_rule_ids rn e) <-> LeftCall rn e r.
Proof. exact left_calls_exact. Qed.
Print Assumptions C16_left_calls_exact.

(* _is_nullable_safe is the `_nullable` property, and both are the inductive "can match empty" *)
Theorem C16_nullable_exact : forall (rn : nat -> bool) (e : exp),
  is_nullable_safe rn e = nullable rn e /\ (nullable rn e = true <-> Empty rn e).
Proof. intros rn e. split; [exact (safe_eq_nullable rn e) | exact (nullable_Empty rn e)]. Qed.
Print Assumptions C16_nullable_exact.

(* the edges of the first graph are the left calls to defined rules *)
Theorem C16_first_graph_exact : forall (rn : nat -> bool) rules i j, i < length rules ->
  (edge (graph_of rn rules) i j <-> LeftCall rn (body_of rules i) j /\ j < length rules).
Proof. exact graph_of_edge. Qed.
Print Assumptions C16_first_graph_exact.

(* the bounded closure used to specify the SCCs is reachability, for every graph over the rule list *)
Theorem C16_reach_exact : forall g i j, wf g -> (reach g i j = true <-> Path g i j).
Proof. exact reach_spec. Qed.
Print Assumptions C16_reach_exact.

(* with left recursion off, compilation raises iff some rule reaches itself through left calls;
   with left recursion on it never raises *)
Theorem C16_detection_exact : forall rn rules,
  (lr_error_with false rn false rules = true <-> exists i, Path (graph_of rn rules) i i)
  /\ lr_error_with false rn true rules = false.
Proof. intros rn rules. split; [exact (detection_exact rn rules) | exact (detection_on_never_errors rn rules false)]. Qed.
Print Assumptions C16_detection_exact.

(* a rule on no cycle is not left recursive and stays memoized unless it asked not to be *)
Theorem C16_off_cycle_untouched : forall rn rules i, i < length rules -> ~ Path (graph_of rn rules) i i ->
  nth i (mark_with false rn rules) (false, true) = (false, negb (nomemo_of rules i)).
Proof. intros rn rules. exact (off_cycle_untouched rn rules false). Qed.
Print Assumptions C16_off_cycle_untouched.

(* FULL STATEMENT (refuted at this commit): forall rules i l, l <> [] -> chain (first_graph rules) i l ->
   last l i = i -> exists r, In r l /\ lrec_at (mark rules) r = true.
   Witness: a, b, c calling each other first; only a is marked; the cycle b -> c -> b has no leader. *)
Theorem C16_every_cycle_has_leader_refuted :
  exists rules i l, l <> [] /\ chain (graph_of (rn_of rules) rules) i l /\ last l i = i /\
                    forall r, In r l -> lrec_at (mark rules) r = false.
Proof. exact every_cycle_has_leader_refuted. Qed.
Print Assumptions C16_every_cycle_has_leader_refuted.

(* what the code does guarantee: when the component of the cycle has a member on all of its cycles
   (the `leaders` set of mark_left_recursion stays non-empty) or is a single rule *)
Theorem C16_every_cycle_has_leader_common_node : forall rn rules i l,
  l <> [] -> chain (graph_of rn rules) i l -> last l i = i ->
  common (graph_of rn rules) (scc_of (graph_of rn rules) i) <> [] \/ length (scc_of (graph_of rn rules) i) <= 1 ->
  exists r, In r l /\ lrec_at (mark_with false rn rules) r = true.
Proof. exact every_cycle_has_leader_common. Qed.
Print Assumptions C16_every_cycle_has_leader_common_node.

(* the repaired leader choice: unconditional; detection and off-cycle rules are unchanged by the repair *)
Theorem C16_every_cycle_has_leader_fixed : forall rn rules i l,
  l <> [] -> chain (graph_of rn rules) i l -> last l i = i ->
  exists r, In r l /\ lrec_at (mark_with true rn rules) r = true.
Proof. exact every_cycle_has_leader_fixed. Qed.
Print Assumptions C16_every_cycle_has_leader_fixed.

Theorem C16_fixed_keeps_the_rest : forall rn rules,
  (lr_error_with true rn false rules = true <-> exists i, Path (graph_of rn rules) i i)
  /\ forall i, i < length rules -> ~ Path (graph_of rn rules) i i ->
       nth i (mark_with true rn rules) (false, true) = (false, negb (nomemo_of rules i)).
Proof. intros rn rules. split; [exact (detection_exact_fixed rn rules) | exact (off_cycle_untouched rn rules true)]. Qed.
Print Assumptions C16_fixed_keeps_the_rest.

(* FULL STATEMENT (C16_guard_stops_reentry, needs the engine model): in the evaluator a rule with is_lrec, or
   a memoizable rule whose guard entry is present, is never active twice at the same position.
   Proved here, on the analysis side only: a rule on a cycle is never memoizable, so the memo guard of
   set_left_recursion_guard never protects it - is_lrec (recursive_call) is its only guard. *)
Theorem C16_guard_stops_reentry_partial : forall rn rules i, i < length rules -> Path (graph_of rn rules) i i ->
  memo_at (mark_with false rn rules) i = false /\ memoizable rules (mark_with false rn rules) i = false.
Proof. intros rn rules. exact (on_cycle_not_memoizable rn rules false). Qed.
Print Assumptions C16_guard_stops_reentry_partial.

(* non-vacuity: a two-rule cycle with a self loop next to it; the component has a common member *)
Example C16_common_node_example :
  let rules := [ {| r_name := [97%N]; r_nomemo := false; r_body := Choice [alt 1; alt 0; Box BPlain tok] |};
                 {| r_name := [98%N]; r_nomemo := true;  r_body := Seq [Box BTrue tok; Call 0] |};
                 {| r_name := [99%N]; r_nomemo := true;  r_body := Seq [tok; Call 2] |} ] in
  let g := graph_of (rn_of rules) rules in
  common g (scc_of g 1) = [0]
  /\ chain g 1 [0; 0; 1] /\ mark rules = [(true, false); (false, false); (false, false)]
  /\ lr_error false rules = true /\ ~ Path g 2 2.
Proof.
  cbv zeta. split; [vm_compute; reflexivity|]. split; [vm_compute; tauto|]. split; [vm_compute; reflexivity|].
  split; [vm_compute; reflexivity|]. intro P. apply C16_reach_exact in P; [|apply graph_of_wf]. vm_compute in P. discriminate.
Qed.

(* the oracle matters in one place only: {b}+ in front of a call *)
Example C16_oracle_example :
  let rules := [ {| r_name := [97%N]; r_nomemo := false; r_body := Seq [Box BPos (Call 1); Call 0; tok] |};
                 {| r_name := [98%N]; r_nomemo := false; r_body := Box BTrue tok |} ] in
  mark rules = [(true, false); (false, true)] /\ mark_with false (fun _ => false) rules = [(false, true); (false, true)].
Proof. cbv zeta. split; vm_compute; reflexivity. Qed.

(* the fuel of [rn_of]: when the evaluation of a rule's `_nullable` returns at all (Some b; None = the
   unbounded recursion of D10c), the fuelled boolean function used by [mark] has that value, and it is stable *)
Theorem C16_rule_nullable_fuel_sound : forall rules fuel i b,
  rule_nullable_opt fuel rules i = Some b ->
  rule_nullable fuel rules i = b /\ forall fuel', fuel <= fuel' -> rule_nullable_opt fuel' rules i = Some b.
Proof.
  intros rules fuel i b H. split; [exact (rule_nullable_opt_sound rules fuel i b H)|].
  intros fuel' Hle. exact (rule_nullable_opt_mono rules fuel fuel' i b Hle H).
Qed.
Print Assumptions C16_rule_nullable_fuel_sound.

Example C16_compile_recursion_example :
  let rules := [ {| r_name := [97%N]; r_nomemo := false; r_body := Seq [Box BPos (Call 0); tok] |} ] in
  forall fuel, rule_nullable_opt fuel rules 0 = None.
Proof. cbv zeta. induction fuel as [|f IH]; [reflexivity|]. cbn. unfold body_of. cbn. now rewrite IH. Qed.
