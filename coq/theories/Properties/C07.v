(* C07 - property theorems only: each closed by [exact], Print Assumptions beneath. *)
From Coq Require Import List NArith ZArith Permutation.
From TatsuV Require Import Base.PyStr Lib.ObjModel Lib.ObjModelProof.
Import ListNotations.
Local Open Scope nat_scope.

(* [setord] = iteration order of the Python set of wanted attribute names (an oracle of the interpreter); the
   only thing assumed about it is that it is a permutation of the set's elements.
   [wfb] = vars(node) has distinct keys; tree-shaped = the node ids of the tree are pairwise distinct. *)

(* children(n) = exactly the nodes reachable from n's selected public attributes through lists and mappings
   without crossing another node (none missed, nothing else), in __pub__ order; for tree-shaped values none
   twice, and after children() has run on the nodes of the tree (any complete walk, any order) the parent
   pointer of each child of n is n. *)
Theorem C07_children_complete :
  forall (setord : list str -> list str),
  (forall l, Permutation (setord l) (filter nonbase l)) ->
  forall root n,
    is_node root = true -> wfb root = true -> In n (allin root) ->
    (forall c, In c (children setord n) <->
               exists kv, In kv (spec_attrs n) /\ is_none (snd kv) = false /\ Reach (snd kv) c)
    /\ children setord n = flat_map item_nodes (pub setord n)
    /\ Permutation (pub setord n) (spec_attrs n)
    /\ (NoDup (map vid (allin root)) ->
        NoDup (map vid (children setord n))
        /\ forall visited c, Permutation visited (allin root) -> In c (children setord n) ->
                             parent_of (links setord visited) (vid c) = Some (vid n)).
Proof. exact children_complete. Qed.
Print Assumptions C07_children_complete.

(* the depth-first, post-order and breadth-first walkers each visit a permutation of ALL nodes of the tree
   ([allin]: structural, independent of the walkers), each exactly once when ids are distinct; the orders are
   pre-order, post-order and level order. *)
Theorem C07_walkers_cover :
  forall (setord : list str -> list str),
  (forall l, Permutation (setord l) (filter nonbase l)) ->
  forall root,
    is_node root = true -> wfb root = true ->
    Permutation (walk_dfs setord root) (allin root)
    /\ Permutation (walk_post setord root) (allin root)
    /\ Permutation (walk_bfs setord root) (allin root)
    /\ (NoDup (map vid (allin root)) ->
        NoDup (map vid (walk_dfs setord root)) /\ NoDup (map vid (walk_post setord root))
        /\ NoDup (map vid (walk_bfs setord root)))
    /\ (forall n, In n (allin root) ->
          walk_dfs setord n = n :: flat_map (walk_dfs setord) (children setord n)
          /\ walk_post setord n = flat_map (walk_post setord) (children setord n) ++ [n])
    /\ walk_bfs setord root = lev setord (S (height root)) [root].
Proof. exact walkers_cover. Qed.
Print Assumptions C07_walkers_cover.

(* erasing the node wrappers of a model-building evaluation gives the plain evaluation with the builtin
   conversions applied, and the plain evaluation itself when no rule is annotated with a builtin name.
   [conv] = the builtin constructors (oracle); assumed: they commute with erasing and never return {} . *)
Theorem C07_model_mirrors_ast :
  forall (conv : str -> option (value -> value)),
  (forall c f a, conv c = Some f -> erase (f a) = f (erase a)) ->
  forall t,
    dicts_nonempty t = true ->
    (forall c f a, conv c = Some f -> forall kvs, f a = VDict kvs -> kvs <> []) ->
    erase (build conv t) = plainc conv t
    /\ (no_builtin conv t = true -> erase (build conv t) = plain t).
Proof. exact model_mirrors_ast. Qed.
Print Assumptions C07_model_mirrors_ast.

(* a rule annotated C::... with named elements yields a node of class C whose attributes are exactly the AST's
   keys with the built values and whose ast is None; ... *)
Theorem C07_attrs_are_names :
  forall (conv : str -> option (value -> value)) c rest kvs,
    conv c = None ->
    exists attrs, build conv (PRule (c :: rest) (PDict kvs)) = VNode 0 c [] VNone attrs
                  /\ map fst attrs = map fst kvs
                  /\ attrs = map (fun kv => (fst kv, build conv (snd kv))) kvs.
Proof. exact attrs_are_names_dict. Qed.
Print Assumptions C07_attrs_are_names.

(* ... and without named elements the node's ast holds the rule's value *)
Theorem C07_ast_when_no_names :
  forall (conv : str -> option (value -> value)) c rest b,
    conv c = None ->
    match build conv b with
    | VDict kvs => build conv (PRule (c :: rest) b) = VNode 0 c [] VNone kvs
    | a => build conv (PRule (c :: rest) b) = VNode 0 c [] a []
    end.
Proof. exact attrs_are_names. Qed.
Print Assumptions C07_ast_when_no_names.

(* class synthesis is keyed by name only.  Proved part: in a registry that does not know the names, A::B::C gets
   exactly the declared chain; a name already registered keeps the bases of its first synthesis whatever is
   declared.  The full statement (always the declared bases) is refuted below. *)
Theorem C07_synth_registry_partial :
  (forall r spec, NoDup spec -> (forall c, In c spec -> reg_find r c = None) -> snd (declare r spec) = spec)
  /\ (forall r c m bases1 bases2, reg_find r c = Some m ->
        snd (declare r (c :: bases1)) = c :: m /\ snd (declare r (c :: bases2)) = c :: m).
Proof. exact (conj synth_registry_fresh synth_registry_first_wins). Qed.
Print Assumptions C07_synth_registry_partial.

Theorem C07_synth_declared_bases_refuted :
  exists (r : registry) (spec : list str),
    NoDup spec /\ (exists h, r = fst (declare_all [] h)) /\ snd (declare r spec) <> spec.
Proof. exact synth_registry_refuted. Qed.
Print Assumptions C07_synth_declared_bases_refuted.

(* walker dispatch (NodeWalker._find_walker + the per-class _walker_cache + __init_subclass__): in every history of
   class declarations and lookups, started from nothing, each lookup returns the uncached resolution of its
   (walker class, node class name) - nothing that was declared or walked before matters - provided the resolution
   does not depend on which class of that name is looked up (the cache is keyed by the class name).
   [has w] = the callable attributes of walker class w (fixed once the class exists), [snake] = pythonize_name. *)
Theorem C07_dispatch_cache_transparent :
  forall fuel (snake : str -> str) (has : N -> str -> bool) (spec : N -> str -> option str) steps,
    (forall w g c, In (w, g, c) (looks steps) -> resolve fuel g snake (has w) c = spec w c) ->
    run_walkers fuel snake has [] steps = map (fun x => spec (fst (fst x)) (snd x)) (looks steps).
Proof. exact dispatch_cache_transparent. Qed.
Print Assumptions C07_dispatch_cache_transparent.

(* what the search returns is a method of the walker class named after the node's class or one of its ancestors;
   along single inheritance (generated model classes) it is the method of the NEAREST class that has one.
   With multiple inheritance the order is the code's own (see below). *)
Theorem C07_dispatch_sound_nearest_linear :
  (forall fuel g snake has c m,
     search fuel g snake has [c] = Some m -> m <> [] ->
     has m = true /\ exists d, ancestor g c d /\ In m (walker_names snake d))
  /\ (forall g snake has chain fuel m,
        linear_to g chain -> nearest snake has chain = Some m -> length chain <= fuel ->
        search fuel g snake has [hd [] chain] = Some m).
Proof. exact (conj dispatch_sound search_linear). Qed.
Print Assumptions C07_dispatch_sound_nearest_linear.

(* "nearest ancestor first" does not extend to multiple inheritance: synthesized classes of a chain P::Q have two
   bases (P(Q, SynthNode)) and the search (a stack walk the code calls breadth first) reaches BaseNode through
   SynthNode before Node, so walk_BaseNode wins over walk_Node (replayed on the real code by the harness) *)
Theorem C07_dispatch_multiple_inheritance_order :
  exists g has c near far,
    ancestor g c near /\ In far (bases_of g near) /\ has (walk_pfx ++ near) = true
    /\ search 64 g snake_none has [c] = Some (walk_pfx ++ far) /\ near <> far.
Proof. exact dispatch_nearest_refuted. Qed.
Print Assumptions C07_dispatch_multiple_inheritance_order.

(* non-vacuity: a tree with a node inside a list inside a dict, a _private attribute, a None and a string;
   the hypotheses hold for it (with the insertion-order set oracle) and the walkers give the expected orders *)
Definition ex_leaf (i : N) : value := VNode i [73]%N [] (VStr [49]%N) [].
Definition ex_root : value :=
  VNode 1 [83]%N [] VNone
    [ ([99; 116; 120]%N, VNone);
      ([97]%N, VList [ex_leaf 2; VDict [([107]%N, VNode 3 [80]%N [] VNone [([120]%N, ex_leaf 4)])]; VStr [122]%N]);
      ([95; 112]%N, ex_leaf 9);
      ([98]%N, VNone);
      ([99]%N, ex_leaf 5) ].
Example C07_example :
  is_node ex_root = true /\ wfb ex_root = true /\ NoDup (map vid (allin ex_root))
  /\ (forall l, Permutation (setord_id l) (filter nonbase l))
  /\ map vid (walk_dfs setord_id ex_root) = [1; 2; 3; 4; 5]%N
  /\ map vid (walk_bfs setord_id ex_root) = [1; 2; 3; 5; 4]%N
  /\ map vid (walk_post setord_id ex_root) = [2; 4; 3; 5; 1]%N
  /\ parent_of (links setord_id (walk_bfs setord_id ex_root)) 4 = Some 3%N.
Proof.
  split; [reflexivity|]. split; [reflexivity|].
  split; [vm_compute; repeat constructor; cbn; intuition discriminate|].
  split; [exact setord_id_perm|].
  repeat split; reflexivity.
Qed.

Example C07_build_example :
  let conv := fun c : str => if str_eqb c [105]%N then Some (fun v : value => v) else None in
  let t := PRule [[83]; [66]]%N (PDict [([120]%N, PRule [[73]]%N (PLeaf (LStr [49]%N)));
                                        ([121]%N, PList [PRule [[105]]%N (PLeaf (LStr [50]%N))])]) in
  dicts_nonempty t = true /\ erase (build conv t) = plainc conv t
  /\ build conv t = VNode 0 [83]%N [] VNone [([120]%N, VNode 0 [73]%N [] (VStr [49]%N) []); ([121]%N, VList [VStr [50]%N])].
Proof. repeat split. Qed.
