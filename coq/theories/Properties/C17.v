(* C17 - constant expressions in grammars are evaluated in a sandbox.
   Property theorems only: each closed by [exact], Print Assumptions beneath.  The builtin table, the deny
   list and the checker constants come from coq/gen/SafeEvalGen.v, regenerated from the running interpreter and
   tatsu/util/safeeval.py on every run of the check. *)
From Coq Require Import List NArith Bool.
From TatsuV Require Import Base.PyStr Lib.SafeEval Lib.SafeEvalProof.
From TatsuGen Require Import SafeEvalGen.
Import ListNotations.
Local Open Scope N_scope.

(* the finite sweep over the generated table (157 builtins of CPython 3.12 at the time of writing):
   recompiled on every run, a deny-list regression breaks it *)
Lemma C17_table_sweep : no_dangerous_except excused_builtins gen_cfg builtin_table = true.
Proof. vm_compute. reflexivity. Qed.
Print Assumptions C17_table_sweep.

(* no name of safe_builtins() is one of the dangerous capabilities, except the names excused by a
   builtin-leak:<name> line of KNOWN_FINDINGS.jsonl (genuine, recorded defects; the list is empty once the
   deny list is repaired and the statement is then the unconditional one, see the corollary) *)
Theorem C17_no_dangerous_builtin :
  forall n, In n (safe_names gen_cfg builtin_table) -> In n dangerous -> In n excused_builtins.
Proof. exact (no_dangerous_except_sound excused_builtins gen_cfg builtin_table C17_table_sweep). Qed.
Print Assumptions C17_no_dangerous_builtin.

(* the exact set of leaked names of this tree is what the model computes (the harness reads it from the
   extracted model and replays every name on the implementation) *)
Theorem C17_leaks_characterised :
  forall n, In n (leaks gen_cfg builtin_table) <-> In n (safe_names gen_cfg builtin_table) /\ In n dangerous.
Proof. exact (leaks_spec gen_cfg builtin_table). Qed.
Print Assumptions C17_leaks_characterised.

(* for every table and every configuration of the filter: a deny list that names the dangerous builtins
   keeps them out (the shape of the repair) *)
Theorem C17_deny_list_covers : forall c table,
  (forall n, In n dangerous -> In n (f_deny c)) ->
  forall n, In n (safe_names c table) -> ~ In n dangerous.
Proof. exact deny_covers_dangerous. Qed.
Print Assumptions C17_deny_list_covers.

(* the deny list shipped at the pinned commit is refuted: open (and eval exec compile input exit quit help
   delattr) pass the filter *)
Theorem C17_pinned_denylist_refuted :
  exists n, In n (safe_names pinned_cfg pinned_table_fragment) /\ In n dangerous.
Proof. exact pinned_denylist_refuted. Qed.
Print Assumptions C17_pinned_denylist_refuted.

(* the checker: every loaded name is a key of the context, no attribute is a dunder (or one of the extra
   blocked names), every call target is a context name or a non-dunder attribute, no exception construct, and
   the context has no dunder key and holds no exception *)
Theorem C17_check_sound : forall blocked ac sb ctx e,
  check blocked ac sb ctx (Some e) = true ->
  (forall n, In n (loaded e) -> In n (keys ctx))
  /\ (forall a, In a (attrs e) -> startswith dunder a = false /\ ~ In a blocked)
  /\ (forall f, In f (targets e) ->
        (exists id l, f = EName id l /\ In id (keys ctx))
        \/ (exists a v, f = EAttr a v /\ startswith dunder a = false))
  /\ forbids e = O
  /\ (forall c, In c ctx -> startswith dunder (c_key c) = false /\ c_hasexc c = false).
Proof. exact check_sound. Qed.
Print Assumptions C17_check_sound.

(* the sandbox: context = safe_builtins() | data (what ParseContext.constant builds), no dangerous safe
   builtin, expression accepted, its reflective attribute names (frame / generator / code introspection,
   str.format) rejected by the checker: no dangerous event, i.e. every call invokes a safe builtin and no
   reflective attribute is read *)
Theorem C17_sandbox : forall blocked ac sb c table extra astvals e,
  (forall x, In x extra -> c_cap x = None) ->
  (forall x, In x astvals -> c_cap x = None) ->
  (forall n, In n (safe_names c table) -> ~ In n dangerous) ->
  check blocked ac sb (constant_context c table extra astvals) (Some e) = true ->
  (forall a, In a (attrs e) -> mem a reflective_attrs = true -> In a blocked) ->
  forall ev, In ev (events (constant_context c table extra astvals) e) -> dangerous_event ev = false.
Proof.
  exact (fun blocked ac sb c table extra astvals e He Ha Hd Hk Hr =>
           sandbox blocked ac sb _ (safe_names c table) e
                   (constant_context_caps c table extra astvals He Ha) Hd Hk Hr).
Qed.
Print Assumptions C17_sandbox.

(* with a checker that rejects every reflective attribute name nothing is assumed about the expression *)
Theorem C17_sandbox_blocked : forall blocked ac sb c table extra astvals e,
  (forall x, In x extra -> c_cap x = None) ->
  (forall x, In x astvals -> c_cap x = None) ->
  (forall n, In n (safe_names c table) -> ~ In n dangerous) ->
  (forall a, In a reflective_attrs -> In a blocked) ->
  check blocked ac sb (constant_context c table extra astvals) (Some e) = true ->
  forall ev, In ev (events (constant_context c table extra astvals) e) -> dangerous_event ev = false.
Proof.
  exact (fun blocked ac sb c table extra astvals e He Ha Hd Hb Hk =>
           sandbox_blocked blocked ac sb _ (safe_names c table) e
                   (constant_context_caps c table extra astvals He Ha) Hd Hb Hk).
Qed.
Print Assumptions C17_sandbox_blocked.

(* the checker of the pinned commit (dunder test only) is refuted: it accepts an expression that reads the
   frame of a generator, from which every builtin is reachable (replayed on the implementation) *)
Theorem C17_sandbox_introspection_refuted :
  check [] [] [] escape_ctx (Some escape_witness) = true
  /\ exists ev, In ev (events escape_ctx escape_witness) /\ dangerous_event ev = true.
Proof. exact introspection_refuted. Qed.
Print Assumptions C17_sandbox_introspection_refuted.

(* the interpolation loop of ParseContext.constant (trim, literal_eval, is_eval_safe, safe_eval are
   arbitrary oracles; reset = whether `result = expression` follows the trim): safe_eval is only ever called on
   a string that is_eval_safe accepted *)
Theorem C17_rejected_never_evaluated : forall reset trim strip lit_eval fsafe feval esafe eeval fuel literal,
  Forall (fun c => call_allowed fsafe esafe c = true)
         (snd (constant reset trim strip lit_eval fsafe feval esafe eeval fuel literal)).
Proof. exact constant_calls_allowed. Qed.
Print Assumptions C17_rejected_never_evaluated.

(* a rejected expression is left as uninterpreted (trimmed) text - when the loop resets the result after the
   trim (the repaired loop) or trim leaves the text alone ... *)
Theorem C17_rejected_left_alone : forall reset trim strip lit_eval fsafe feval esafe eeval fuel s,
  reset = true \/ trim s = s ->
  lit_eval (strip (trim s)) = None -> fsafe (trim s) = false -> esafe (trim s) = false ->
  constant reset trim strip lit_eval fsafe feval esafe eeval (S (S fuel)) s = (Done (VStr (trim s)), []).
Proof. exact constant_rejected_text. Qed.
Print Assumptions C17_rejected_left_alone.

(* ... an exception raised by an accepted evaluation is a semantic failure, a literal and the value of a safe
   expression are returned unchanged *)
Theorem C17_exception_is_semantic_failure : forall reset trim strip lit_eval fsafe feval esafe eeval fuel s,
  lit_eval (strip (trim s)) = None -> fsafe (trim s) = true -> feval (trim s) = None ->
  fst (constant reset trim strip lit_eval fsafe feval esafe eeval (S fuel) s) = Failed.
Proof. exact constant_exception_failed. Qed.
Print Assumptions C17_exception_is_semantic_failure.

Theorem C17_safe_value_unaffected : forall reset trim strip lit_eval fsafe feval esafe eeval fuel s o,
  lit_eval (strip (trim s)) = None ->
  fsafe (trim s) = true -> feval (trim s) = Some (VStr (trim s)) ->
  esafe (trim s) = true -> eeval (trim s) = Some (VObj o) ->
  fst (constant reset trim strip lit_eval fsafe feval esafe eeval (S (S fuel)) s) = Done (VObj o).
Proof. exact constant_safe_value. Qed.
Print Assumptions C17_safe_value_unaffected.

(* the full statement "every rejected expression is left as text or fails" is refuted for the loop of the
   pinned commit (no reset): when trim changes a rejected text the loop never terminates (replayed: a
   constant ` {nope} ` hangs the parse) *)
Theorem C17_rejected_untrimmed_diverges_refuted : forall trim strip lit_eval fsafe feval esafe eeval s,
  trim s <> s -> lit_eval (strip (trim s)) = None -> fsafe (trim s) = false ->
  forall fuel, constant false trim strip lit_eval fsafe feval esafe eeval fuel s = (Diverges, []).
Proof. exact constant_untrimmed_diverges. Qed.
Print Assumptions C17_rejected_untrimmed_diverges_refuted.

(* non-vacuity: the generated filter keeps `len` and drops `getattr`, `type`, `__import__`; a context with an
   AST key shadowing a builtin; an accepted and two rejected expressions *)
Example C17_filter_example :
  In [108;101;110] (safe_names gen_cfg builtin_table)
  /\ ~ In [103;101;116;97;116;116;114] (safe_names gen_cfg builtin_table)
  /\ ~ In [116;121;112;101] (safe_names gen_cfg builtin_table)
  /\ ~ In [95;95;105;109;112;111;114;116;95;95] (safe_names gen_cfg builtin_table).
Proof.
  split; [vm_compute; tauto|].
  repeat split; intros H; apply mem_In in H; vm_compute in H; discriminate.
Qed.

Example C17_check_example :
  let ctx := constant_context gen_cfg builtin_table []
               [mkCentry [97] false false None false None; mkCentry [108;101;110] false false None false None] in
  let sb := safe_names gen_cfg builtin_table in
  (* abs(a) accepted; a.__class__ rejected; nope(a) rejected; len shadowed by the AST key is data *)
  check gen_blocked_attrs gen_argcounts sb ctx (Some (ECall (EName [97;98;115] true) (ECons (EName [97] true) ENil) ENil)) = true
  /\ check gen_blocked_attrs gen_argcounts sb ctx (Some (EAttr [95;95;99;108;97;115;115;95;95] (EName [97] true))) = false
  /\ check gen_blocked_attrs gen_argcounts sb ctx (Some (ECall (EName [110;111;112;101] true) (ECons (EName [97] true) ENil) ENil)) = false
  /\ cap_of_name ctx [108;101;110] = []
  /\ cap_of_name ctx [97;98;115] = [[97;98;115]].
Proof. vm_compute. repeat split; reflexivity. Qed.

Example C17_loop_example :
  (* literal "x": trim/strip identity, nothing evaluable: two iterations, text left alone *)
  constant gen_loop_reset (fun s => s) (fun s => s) (fun _ => None) (fun _ => false) (fun _ => None) (fun _ => false) (fun _ => None)
           2 [120] = (Done (VStr [120]), []).
Proof. vm_compute. reflexivity. Qed.
