From Coq Require Import Extraction ExtrOcamlBasic.
From TatsuV Require Import Base.PyStr Lib.Style.
Extraction "style.ml" nums_witness descape visual_len apply_style code_params parse_params params_of_str
  format_str apply to_str style_len dunder_format_with from_raw style_repr color_enabled
  sgr_search tty_escape tty_unescape parse_fmt py_repr_body.
