From Coq Require Import Extraction ExtrOcamlBasic.
From TatsuV Require Import Base.PyStr Engine.Value Engine.Syntax Engine.Input Engine.Engine Engine.Gen Engine.Calls Engine.Semantics Engine.Config Engine.GenEquiv.
Extraction "engine.ml" nums_witness parse_with pparse_with genparse_with rule_optimized act_of optimized next_token match_token effective genok.
