From Coq Require Import Extraction ExtrOcamlBasic.
From TatsuV Require Import Base.PyStr Lib.LeftRec.
Extraction "leftrec.ml" nums_witness mark mark_fixed mark_with lr_error_with graph_of rn_of rule_nullable_opt lr_error scc_of common
  callable_rule_ids is_nullable_safe nullable.
