From Coq Require Import Extraction ExtrOcamlBasic.
From TatsuV Require Import Base.PyStr Lib.Matchers.
Extraction "matchers.ml" nums_witness match_name match_uint match_int match_float match_bool valid_int valid_uint.
