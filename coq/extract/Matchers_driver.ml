(* (m KIND (decimal...) (alpha...) (alnum...) (namechars...) SUFFIX) -> none | (some n) | for bool (some n b) *)
let handle = function
  | L [A "m"; A kind; L dec; L alp; L aln; nch; s] ->
    let set_of l = let h = Hashtbl.create 16 in List.iter (fun x -> Hashtbl.replace h (to_int x) ()) l; fun c -> Hashtbl.mem h (int_of_n c) in
    let isdecimal = set_of dec and isalpha = set_of alp and isalnum = set_of aln in
    let s = to_str s in
    let out = function None -> A "none" | Some n -> L [A "some"; of_nat n] in
    (match kind with
     | "name" -> out (match_name isalpha isalnum (to_list to_n nch) s)
     | "uint" -> out (match_uint isdecimal isalpha s)
     | "int" -> out (match_int isdecimal isalpha s)
     | "float" -> out (match_float isdecimal isalpha s)
     | "bool" -> (match match_bool s with None -> A "none" | Some (n, b) -> L [A "some"; of_nat n; of_bool b])
     | _ -> A "bad-kind")
  | _ -> A "bad-request"
let () = serve handle
