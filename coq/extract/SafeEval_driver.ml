(* C17 driver: requests over the extracted Lib/SafeEval.v + gen/SafeEvalGen.v
   expr    ::= (n <str> <0|1>) | (a <str> expr) | (c expr (expr ..) (expr ..)) | (f (expr ..)) | (o (expr ..))
   centry  ::= (<key> <callable> <lambda> <realname|none> <hasexc> <cap|none>)
   value   ::= (s <str>) | (v <id>) *)
exception Need of sexp

let rec to_expr = function
  | L [A "n"; id; l] -> EName (to_str id, to_bool l)
  | L [A "a"; at; v] -> EAttr (to_str at, to_expr v)
  | L [A "c"; f; args; kws] -> ECall (to_expr f, to_exprs args, to_exprs kws)
  | L [A "f"; kids] -> EForbid (to_exprs kids)
  | L [A "o"; kids] -> EOther (to_exprs kids)
  | _ -> failwith "expr"
and to_exprs = function
  | L l -> List.fold_right (fun x acc -> ECons (to_expr x, acc)) l ENil
  | A "nil" -> ENil
  | _ -> failwith "exprs"

let to_centry = function
  | L [k; c; l; r; h; cap] ->
      { c_key = to_str k; c_callable = to_bool c; c_lambda = to_bool l; c_realname = to_opt to_str r;
        c_hasexc = to_bool h; c_cap = to_opt to_str cap }
  | _ -> failwith "centry"

let of_event = function
  | Invoke n -> L [A "invoke"; of_str n]
  | Reach a -> L [A "reach"; of_str a]

let to_value = function
  | L [A "s"; s] -> VStr (to_str s)
  | L [A "v"; i] -> VObj (to_n i)
  | _ -> failwith "value"
let of_value = function
  | VStr s -> L [A "s"; of_str s]
  | VObj i -> L [A "v"; of_n i]

let of_call = function
  | CallF s -> L [A "F"; of_str s]
  | CallE s -> L [A "E"; of_str s]

(* finite oracle tables; a missing key is reported to the harness, which computes the entry with the real
   functions and asks again *)
let table kind conv = function
  | L rows ->
      let t = List.map (function L [k; v] -> (to_str k, conv v) | _ -> failwith "row") rows in
      (fun key -> match List.assoc_opt key t with
                  | Some v -> v
                  | None -> raise (Need (L [A "need"; A kind; of_str key])))
  | A "nil" -> (fun key -> raise (Need (L [A "need"; A kind; of_str key])))
  | _ -> failwith "table"

let sb () = safe_names gen_cfg builtin_table

let handle = function
  | L [A "safe_names"] -> of_list of_str (sb ())
  | L [A "leaks"] -> of_list of_str (leaks gen_cfg builtin_table)
  | L [A "excused"] -> of_list of_str excused_builtins
  | L [A "dangerous"] -> of_list of_str dangerous
  | L [A "reflective_attrs"] -> of_list of_str reflective_attrs
  | L [A "blocked_attrs"] -> of_list of_str gen_blocked_attrs
  | L [A "pinned_leaks"] -> of_list of_str (leaks pinned_cfg pinned_table_fragment)
  | L [A "unsafe"; name; t; x; c] ->
      of_bool (unsafe gen_cfg { e_name = to_str name; e_type = to_bool t; e_exc = to_bool x; e_callable = to_bool c })
  | L [A "check"; ctx; e] ->
      of_bool (check gen_blocked_attrs gen_argcounts (sb ()) (to_list to_centry ctx) (to_opt to_expr e))
  | L [A "events"; ctx; e] -> of_list of_event (events (to_list to_centry ctx) (to_expr e))
  | L [A "context"; extra; astvals] ->
      let ctx = constant_context gen_cfg builtin_table (to_list to_centry extra) (to_list to_centry astvals) in
      of_list (fun c -> L [of_str c.c_key; of_opt of_str c.c_cap]) ctx
  | L [A "constant"; fuel; lit; trimt; litt; fsafet; fevalt; esafet; eevalt] ->
      (try
        let (o, tr) =
          constant gen_loop_reset (table "trim" to_str trimt) (fun s -> s) (table "lit" (to_opt to_value) litt)
            (table "fsafe" to_bool fsafet) (table "feval" (to_opt to_value) fevalt)
            (table "esafe" to_bool esafet) (table "eeval" (to_opt to_value) eevalt)
            (to_nat fuel) (to_str lit) in
        let oo = match o with Done v -> L [A "done"; of_value v] | Failed -> A "failed" | Diverges -> A "diverges" in
        L [oo; of_list of_call (List.rev tr)]
      with Need x -> x)
  | _ -> A "bad-request"
let () = serve handle
